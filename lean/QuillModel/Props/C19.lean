import QuillModel.NamedArgs.ScanProc
import QuillModel.NamedArgs.ScanDet
import QuillModel.NamedArgs.Split
import QuillModel.NamedArgs.Pairs
import QuillModel.NamedArgs.Json
import QuillModel.NamedArgs.Message
import QuillModel.NamedArgs.JsonParse
import QuillModel.NamedArgs.Fuel
import QuillModel.NamedArgs.Tight
/-!
# C19 — named placeholders: matching text, ordered key/value pairs, one JSON object per line

Templates are `render ps` for a piece list `ps` of the grammar
`(text | "{{" | "}}" | "{" [ident] [":" spec] "}")*` (`wf ps`; a field with an empty name is positional).
The definitions the theorems speak about are the loop transcriptions of `QuillModel/NamedArgs/Model.lean`; the
compiled `driver named` runs the same definitions against the real scanners, the real backend and the real
`JsonFileSink`.

The full statement one would like —

    ∀ ps, wf ps → containsNamedArgs (render ps) = ps.any isNamed
                ∧ process (render ps) = (render (ps.map erase), keysOf ps)

— is **false** of the code (finding F11): `process` mis-parses a placeholder directly followed by an escaped `}}`
(F11a), and `containsNamedArgs` never examines the character that follows a placeholder (F11b). The two general
theorems are therefore `…_partial`: they carry the decidable hypotheses `procOK` / `detectOK` (the excluded template
classes), and the negations are proved on concrete witnesses. `procOK` is exact (`C19_positional_iff`: the scanner is
right **iff** `procOK`); `detectOK` excludes three adjacencies (positional placeholder directly followed by a named
one, by `{{`, by `}}`), each with a proved counter-witness, and is not needed at all on the property's own grammar
(`C19_detect_named_only`). What is missing for the full statement is a repair of the two loops, not a proof.
Everything else (split∘join, the pairs, the statement as a sink sees it, the JSON line and its parse, the cache, the
LOGJ_ templates with identifier arguments, fuel adequacy of the loop transcriptions) holds as stated; LOGJ_ with an
argument spelled with a `:` is a further counter-witness (`C19_logj_colon_counter`, finding candidate F11c).
-/
namespace Named

/-! ## detection -/

/-- **C19, detection (partial: class `detectOK`).** For every template of the grammar in which, up to the first
    named placeholder, each positional placeholder ends the template or is followed by a literal character or by
    another positional placeholder, the compile-time flag is true iff a named placeholder occurs. Excluded: a
    positional placeholder directly followed by a named one, by `{{` or by `}}` — one counter-witness each below. -/
theorem C19_detect_partial (ps : List Piece) (hw : wf ps = true) (hok : detectOK ps = true) :
    containsNamedArgs (render ps) = ps.any Piece.isNamed :=
  contains_render ps hw hok

/-- every placeholder carries a name — the property's own grammar -/
def allNamed (ps : List Piece) : Bool := ps.all (fun p => !p.isField || p.isNamed)

theorem detectOK_of_allNamed : ∀ (ps : List Piece), allNamed ps = true → detectOK ps = true
  | [], _ => rfl
  | p :: ps, h => by
    simp only [allNamed, List.all_cons, Bool.and_eq_true] at h
    have ih := detectOK_of_allNamed ps (by simpa [allNamed] using h.2)
    cases p with
    | field n s =>
      have : (n != []) = true := by simpa [Piece.isField, Piece.isNamed] using h.1
      simp [detectOK, detOK, this]
    | _ => simpa [detectOK, detOK] using ih

/-- **C19, detection, on the property's grammar** (`(text | "{{" | "}}" | "{" ident [":" spec] "}")*`, no positional
    placeholders): unconditional. -/
theorem C19_detect_named_only (ps : List Piece) (hw : wf ps = true) (hn : allNamed ps = true) :
    containsNamedArgs (render ps) = ps.any Piece.isField := by
  rw [C19_detect_partial ps hw (detectOK_of_allNamed ps hn)]
  simp only [allNamed, List.all_eq_true, Bool.or_eq_true, Bool.not_eq_true'] at hn
  induction ps with
  | nil => rfl
  | cons p ps ih =>
    have hp := hn p (by simp)
    have := ih (by simp only [wf, List.all_cons, Bool.and_eq_true] at hw; exact hw.2)
      (fun q hq => hn q (by simp [hq]))
    simp only [List.any_cons, this]
    rcases hp with hp | hp
    · cases p <;> simp_all [Piece.isField, Piece.isNamed]
    · cases p <;> simp_all [Piece.isField, Piece.isNamed]

/-- non-vacuity: `"x{{ {a:>5}{b} }}"` meets the hypotheses and has named fields -/
example : let ps := [Piece.text 'x', .escOpen, .text ' ', .field ['a'] (some ['>', '5']), .field ['b'] none, .text ' ', .escClose]
    wf ps = true ∧ allNamed ps = true ∧ detectOK ps = true ∧ ps.any Piece.isNamed = true ∧
    containsNamedArgs (render ps) = true := by decide

/-- positional-only templates such as `"{}{} {:>5}{}"` are in the class (and not flagged) -/
example : let ps := [Piece.field [] none, .field [] none, .text ' ', .field [] (some ['>', '5']), .field [] none]
    wf ps = true ∧ detectOK ps = true ∧ containsNamedArgs (render ps) = false := by decide

/-- **F11, detection, false negative**: `"{}{a}"` is in the grammar, contains the named placeholder `a`, and is
    not detected (the `{` after the first placeholder's `}` is skipped by the trailing `++pos`). -/
theorem C19_detect_false_negative :
    let ps := [Piece.field [] none, .field ['a'] none]
    wf ps = true ∧ render ps = "{}{a}".toList ∧ ps.any Piece.isNamed = true ∧ detectOK ps = false ∧
    containsNamedArgs (render ps) = false := by decide

/-- the same through an escaped `}}`: `"{:x}}}{a}"` -/
theorem C19_detect_false_negative_close :
    let ps := [Piece.field [] (some ['x']), .escClose, .field ['a'] none]
    wf ps = true ∧ render ps = "{:x}}}{a}".toList ∧ ps.any Piece.isNamed = true ∧ detectOK ps = false ∧
    containsNamedArgs (render ps) = false := by decide

/-- **F11, detection, false positive**: `"{}{{x"` has no named placeholder and is flagged -/
theorem C19_detect_false_positive :
    let ps := [Piece.field [] none, .escOpen, .text 'x']
    wf ps = true ∧ render ps = "{}{{x".toList ∧ ps.any Piece.isNamed = false ∧ detectOK ps = false ∧
    containsNamedArgs (render ps) = true := by decide

/-! ## positional template and keys -/

/-- **C19, names erased / keys in order (partial: class `procOK`).** For every template of the grammar in which no
    placeholder is directly followed by an escaped `}}`: the string handed to fmt is the template with every name
    erased and every spec kept (so fmt sees the same literal text, the same escapes and the same specs, with
    automatic indexing), and the key list is `(name, ":spec")` of each placeholder in order of occurrence. -/
theorem C19_positional_partial (ps : List Piece) (hw : wf ps = true) (hok : procOK ps = true) :
    process (render ps) = (render (ps.map Piece.erase), keysOf ps) :=
  process_render ps hw hok

/-- **C19, the class is exact.** For a template of the grammar the scanner's result is the erased template and the
    placeholder keys **iff** no placeholder is directly followed by an escaped `}}`: outside the class the key of
    the first such placeholder swallows the run of `}}` (so the hypothesis of `C19_positional_partial` cannot be
    weakened — every excluded template is a witness of F11). -/
theorem C19_positional_iff (ps : List Piece) (hw : wf ps = true) :
    process (render ps) = (render (ps.map Piece.erase), keysOf ps) ↔ procOK ps = true :=
  process_correct_iff ps hw

theorem keysOf_length (ps : List Piece) : (keysOf ps).length = (ps.filter Piece.isField).length := by
  induction ps with
  | nil => rfl
  | cons p ps ih => cases p <;> simp [keysOf, Piece.isField, List.filter_cons, ih]

/-- one key per placeholder -/
theorem C19_one_key_per_field_partial (ps : List Piece) (hw : wf ps = true) (hok : procOK ps = true) :
    (process (render ps)).2.length = (ps.filter Piece.isField).length := by
  rw [C19_positional_partial ps hw hok]; exact keysOf_length ps

/-- non-vacuity: `"{{x}} {a} y{b:>5}{c}"` -/
example : let ps := [Piece.escOpen, .text 'x', .escClose, .text ' ', .field ['a'] none, .text ' ', .text 'y',
                     .field ['b'] (some ['>', '5']), .field ['c'] none]
    wf ps = true ∧ procOK ps = true ∧
    process (render ps) = ("{{x}} {} y{:>5}{}".toList, [(['a'], []), (['b'], ":>5".toList), (['c'], [])]) := by decide

/-- **F11, scanner**: `"{{{a}}}"` (escaped `{`, placeholder `a`, escaped `}`) yields the key `a}}` and the
    positional template `{{{}` instead of `a` and `{{{}}}`. -/
theorem C19_positional_counter :
    let ps := [Piece.escOpen, .field ['a'] none, .escClose]
    wf ps = true ∧ render ps = "{{{a}}}".toList ∧ procOK ps = false ∧
    process (render ps) = ("{{{}".toList, [("a}}".toList, [])]) ∧
    (render (ps.map Piece.erase), keysOf ps) = ("{{{}}}".toList, [(['a'], [])]) := by decide

/-- the escaped brace is lost from the text and ends up in the key: `"{a}}} {b}"` → `"{} {}"`, keys `a}}`, `b` -/
theorem C19_positional_counter_text :
    let ps := [Piece.field ['a'] none, .escClose, .text ' ', .field ['b'] none]
    wf ps = true ∧ procOK ps = false ∧
    process (render ps) = ("{} {}".toList, [("a}}".toList, []), (['b'], [])]) ∧
    render (ps.map Piece.erase) = "{}}} {}".toList := by decide

/-! ## join on the separator, split -/

/-- **C19, split ∘ join.** For every separator that is non-empty and unbordered (obligation on the extracted
    `QUILL_MAGIC_SEPARATOR`) and every list of rendered values none of which contains it, the split loop returns
    exactly the values: pair `i` holds the `i`-th value. -/
theorem C19_split_join {sep : Str} (hne : sep ≠ []) (hb : unbordered sep = true) (vals : List Str)
    (hv : ∀ v ∈ vals, containsSub sep v = false) :
    splitValues sep (joinVals sep vals) vals.length = vals :=
  split_join hne hb vals hv

example : let sep := [Char.ofNat 1, Char.ofNat 2, Char.ofNat 3]
    sep ≠ [] ∧ unbordered sep = true ∧ (∀ v ∈ ["ab".toList, [], [Char.ofNat 1, Char.ofNat 2]], containsSub sep v = false) ∧
    splitValues sep (joinVals sep ["ab".toList, [], [Char.ofNat 1, Char.ofNat 2]]) 3
      = ["ab".toList, [], [Char.ofNat 1, Char.ofNat 2]] := by decide

/-- a value that contains the separator shifts the later values (why the hypothesis is there) -/
theorem C19_split_counter :
    let sep := [Char.ofNat 1, Char.ofNat 2, Char.ofNat 3]
    splitValues sep (joinVals sep [['x'] ++ sep ++ ['y'], ['z']]) 2 = [['x'], ['y']] := by decide

/-- a bordered separator breaks the split even when no value contains it (why `unbordered` is an obligation) -/
theorem C19_split_bordered_counter :
    let sep := ['a', 'b', 'a']
    unbordered sep = false ∧ containsSub sep ['a', 'b'] = false ∧
    splitValues sep (joinVals sep [['a', 'b'], ['z']]) 2 ≠ [['a', 'b'], ['z']] := by decide

/-- the generated format string renders argument `i` with its own piece (`{:spec_i}` or `{}`), the pieces being
    joined by the separator -/
theorem C19_genFormat (sep : Str) (keys : List (Str × Str)) (n : Nat) :
    genFormat sep keys n n = joinVals sep ((List.range n).map (oneField keys)) := by
  rw [genFormat_eq sep keys n n (Nat.le_refl n)]; simp [List.range_eq_range']

/-- **C19, the pairs.** With at least as many arguments as placeholders and no rendered value containing the
    separator, the `named_args` vector is `(name_i, value_i)` in order (then `_i` for surplus arguments). -/
theorem C19_pairs {sep : Str} (hne : sep ≠ []) (hb : unbordered sep = true) (san : Bool)
    (keys : List (Str × Str)) (fv : List Str) (hlen : keys.length ≤ fv.length)
    (hv : ∀ v ∈ fv, containsSub sep v = false) :
    namedPairs sep san keys fv = (populateNames keys fv.length).zip (if san then fv.map sanitize else fv) :=
  namedPairs_eq hne hb san keys fv hlen hv

/-- … in particular, one argument per placeholder: the keys are exactly the placeholder names -/
theorem C19_pairs_exact_partial {sep : Str} (hne : sep ≠ []) (hb : unbordered sep = true)
    (ps : List Piece) (hw : wf ps = true) (hok : procOK ps = true) (fv : List Str)
    (hlen : fv.length = (keysOf ps).length) (hv : ∀ v ∈ fv, containsSub sep v = false) :
    namedPairs sep false (process (render ps)).2 fv = ((keysOf ps).map (·.1)).zip fv := by
  rw [C19_positional_partial ps hw hok]
  simp only
  rw [C19_pairs hne hb false _ fv (by omega) hv]
  simp [populateNames, hlen]

example : let sep := [Char.ofNat 1, Char.ofNat 2, Char.ofNat 3]
    namedPairs sep false [(['a'], []), (['b'], ":>5".toList)] ["1".toList, "    x".toList, "7".toList]
      = [(['a'], ['1']), (['b'], "    x".toList), ("_2".toList, ['7'])] := by decide

/-! ## the statement as a sink sees it -/

/-- **C19, text and pairs of one statement (partial: both classes).** For a template of the grammar in both good
    classes with a named placeholder, any cache state reachable by earlier lookups, at least as many arguments as
    placeholders and no rendered value containing the separator: the message is the positional formatting of the
    arguments — literal text, `{{`→`{`, `}}`→`}`, i-th placeholder = i-th argument rendered by its spec (`msgSpec`;
    fmt's top level on the erased template, `fmtSubst_render`) — then sanitised / trailing newline cut; the pairs are
    `(name_i, value_i)` in order of occurrence, `_i` for surplus arguments. -/
theorem C19_statement_partial {sep : Str} (hne : sep ≠ []) (hb : unbordered sep = true) (san : Bool)
    (c : Cache) (hc : CacheInv c) (ps : List Piece) (hw : wf ps = true) (hp : procOK ps = true)
    (hd : detectOK ps = true) (hn : ps.any Piece.isNamed = true) (fv : List Str)
    (hlen : (keysOf ps).length ≤ fv.length) (hv : ∀ v ∈ fv, containsSub sep v = false) :
    (backendStep sep san false c (render ps) fv).1 =
      { msg := finishMsg san (msgSpec ps fv),
        pairs := some ((populateNames (keysOf ps) fv.length).zip (if san then fv.map sanitize else fv)) } ∧
    CacheInv (backendStep sep san false c (render ps) fv).2 :=
  backendStep_named hne hb san c hc ps hw hp hd hn fv hlen hv

/-- a template without named placeholder goes to fmt as it is and yields no pairs -/
theorem C19_statement_unnamed_partial (sep : Str) (san : Bool) (c : Cache) (ps : List Piece) (hw : wf ps = true)
    (hd : detectOK ps = true) (hn : ps.any Piece.isNamed = false) (fv : List Str) :
    backendStep sep san false c (render ps) fv = ({ msg := finishMsg san (msgSpec ps fv), pairs := none }, c) :=
  backendStep_unnamed sep san c ps hw hd hn fv

example : let sep := [Char.ofNat 1, Char.ofNat 2, Char.ofNat 3]
    (backendStep sep false false [] "x {a} y {b:>5} {{z}}".toList ["1".toList, "    q".toList]).1
      = { msg := some "x 1 y     q {z}".toList, pairs := some [(['a'], ['1']), (['b'], "    q".toList)] } := by decide

/-! ## the JSON line -/

/-- **C19, JSON members in fixed order.** The bytes written for a statement are `{`, the members `"key":"value"`
    joined by commas — the header slots in the order of the (extracted) layout, then the named pairs in order —
    `}` and a newline. Nothing is escaped; the template's newlines are spaces. -/
theorem C19_json_members (layout : List (Str × HdrField)) (hl : layout ≠ []) (h : Hdr) (tmpl : Str)
    (pairs : Option (List (Str × Str))) :
    jsonLine layout h tmpl pairs =
      '{' :: joinVals [','] (layout.map (fun kf => member kf.1 (h.get (tmpl.map replNl) kf.2)) ++
                              (pairs.getD []).map (fun kv => member kv.1 kv.2)) ++ ['}'] ++ ['\n'] := by
  rw [jsonLine_eq_body, jsonBody_members layout hl, removeNewlines_eq]

/-- **C19, one line.** What precedes the terminating newline contains a newline iff a key, a header value other
    than the template, or a named pair contains one. -/
theorem C19_json_single_line (layout : List (Str × HdrField)) (hl : layout ≠ []) (h : Hdr) (tmpl : Str)
    (pairs : Option (List (Str × Str))) :
    (∃ body, jsonLine layout h tmpl pairs = body ++ ['\n'] ∧
      ('\n' ∈ body ↔
        (∃ kf ∈ layout, '\n' ∈ kf.1 ∨ (kf.2 ≠ .messageFormat ∧ '\n' ∈ h.get tmpl kf.2)) ∨
        (∃ kv ∈ pairs.getD [], '\n' ∈ kv.1 ∨ '\n' ∈ kv.2))) :=
  ⟨jsonBody layout h tmpl pairs, jsonLine_eq_body layout h tmpl pairs, jsonBody_newline_iff layout hl h tmpl pairs⟩

/-- **C19, the line parses whenever nothing needs escaping.** If no key, no header value, not the (rewritten) template
    and no pair contains a quote, a backslash or a control character, then the object read back by the flat JSON
    reader (`parseFlat`: `{"k":"v",…}` with unescaped strings) is exactly the header members in layout order followed
    by the named pairs in their order. -/
theorem C19_json_parses (layout : List (Str × HdrField)) (hl : layout ≠ []) (h : Hdr) (tmpl : Str)
    (pairs : Option (List (Str × Str)))
    (hk : ∀ kf ∈ layout, noEscapeNeeded kf.1 = true ∧ noEscapeNeeded (h.get (tmpl.map replNl) kf.2) = true)
    (hp : ∀ kv ∈ pairs.getD [], noEscapeNeeded kv.1 = true ∧ noEscapeNeeded kv.2 = true) :
    ∃ body, jsonLine layout h tmpl pairs = body ++ ['\n'] ∧
      parseFlat body = some (layout.map (fun kf => (kf.1, h.get (tmpl.map replNl) kf.2)) ++ pairs.getD []) := by
  refine ⟨jsonBody layout h tmpl pairs, jsonLine_eq_body layout h tmpl pairs, ?_⟩
  rw [jsonBody_members layout hl, removeNewlines_eq]
  have := parseFlat_members (layout.map (fun kf => (kf.1, h.get (tmpl.map replNl) kf.2)) ++ pairs.getD []) (by
    intro m hm
    rcases List.mem_append.1 hm with h1 | h1
    · obtain ⟨kf, hkf, rfl⟩ := List.mem_map.1 h1
      exact hk kf hkf
    · exact hp m h1)
  simpa [List.map_append, List.map_map, Function.comp_def] using this

example : parseFlat "{\"timestamp\":\"7\",\"message\":\"a {x}\",\"x\":\"1\"}".toList
    = some [("timestamp".toList, ['7']), ("message".toList, "a {x}".toList), (['x'], ['1'])] := by decide

/-- a quote inside a value breaks the object (nothing is escaped by the sink): why the hypothesis is there -/
example : parseFlat (jsonBody [("m".toList, .messageFormat)]
      { timestamp := [], fileName := [], line := [], threadId := [], logger := [], logLevel := [] }
      ['t'] (some [(['x'], "a\"b".toList)])) = none := by decide

/-- the rewritten template never contains a newline and differs from the template only there -/
theorem C19_template_newlines (tmpl : Str) :
    removeNewlines tmpl = tmpl.map replNl ∧ '\n' ∉ removeNewlines tmpl :=
  ⟨removeNewlines_eq tmpl, removeNewlines_no_nl tmpl⟩

example : String.ofList (jsonLine [("t".toList, .timestamp), ("message".toList, .messageFormat)]
      { timestamp := ['7'], fileName := [], line := [], threadId := [], logger := [], logLevel := [] }
      "a\n{x}".toList (some [(['x'], ['1'])]))
    = "{\"t\":\"7\",\"message\":\"a {x}\",\"x\":\"1\"}\n" := by decide

/-! ## the template cache -/

/-- **C19, cache transparency.** For every history of lookups (every order of first sightings, any repetitions)
    starting from the empty cache, each lookup returns what fresh processing of its template returns, and the
    cache ends up holding `process t` under exactly the templates seen. -/
theorem C19_cache_transparent (ts : List Str) :
    (runHistory [] ts).1 = ts.map process ∧
    ∀ k, (runHistory [] ts).2.lookup k = if k ∈ ts then some (process k) else none := by
  have h := runHistory_spec ts [] cacheInv_nil
  exact ⟨h.1, fun k => by rw [h.2.2 k]; simp [List.lookup]⟩

/-- one step, from any cache satisfying the invariant -/
theorem C19_lookup_transparent (c : Cache) (hc : CacheInv c) (t : Str) :
    (lookupOrInsert c t).1 = process t ∧ CacheInv (lookupOrInsert c t).2 :=
  ⟨lookupOrInsert_fst c hc t, lookupOrInsert_inv c hc t⟩

example : (runHistory [] ["{a}".toList, "{b} {c}".toList, "{a}".toList]).1
    = ["{a}".toList, "{b} {c}".toList, "{a}".toList].map process := by decide

/-! ## the loop transcriptions run to completion -/

/-- For **every** string (in the grammar or not) the fuel the model gives its loops is adequate: any larger amount
    yields the same flag, the same scanner state and the same split — the definitions denote the C++ loops run to
    their natural exit, and none of the theorems above holds because a loop was cut short. -/
theorem C19_loops_run_to_completion (t : Str) (extra : Nat) :
    detOuter t (t.length + 1 + extra) 0 false = containsNamedArgs t ∧
    procOuter t (t.length + 1 + extra) (findFrom '{' t 0) {} = procOuter t (t.length + 1) (findFrom '{' t 0) {} ∧
    (∀ (sep : Str) (n : Nat), sep ≠ [] →
      splitAssign sep t (t.length + 2 + extra) 0 0 (List.replicate n []) = splitValues sep t n) :=
  ⟨containsNamedArgs_fuel t extra, process_fuel t extra, fun _ n hne => splitValues_fuel hne t n extra⟩

/-! ## LOGJ_ -/

/-- **C19, LOGJ_ templates.** For a literal text without placeholders and identifier arguments `x1 … xn`, the
    macro-generated literal `text " {x1}, {x2}, …"` is in the grammar and in both good classes: it is flagged iff
    `n > 0`, fmt gets `text " {}, {}, …"`, and the keys are `x1 … xn` in order. (Arguments that are not plain
    identifiers — `obj.f`, `ns::v`, `a[0]` — are stringified as written and fall outside this theorem.) -/
theorem C19_logj (tp : List Piece) (hw : wf tp = true) (hn : noFields tp = true) (xs : List Str)
    (hx : ∀ x ∈ xs, nameOK x = true ∧ x ≠ []) :
    containsNamedArgs (logjLiteral (render tp) xs) = !xs.isEmpty ∧
    process (logjLiteral (render tp) xs) =
      (logjLiteral (render tp) (xs.map (fun _ => [])), xs.map (fun x => (x, []))) := by
  have hwf := wf_logj tp hw xs (fun x h => (hx x h).1)
  have hpo := procOK_logj tp hn xs
  rw [← render_logj]
  constructor
  · cases xs with
    | nil =>
      rw [C19_detect_partial _ hwf (by simpa [logjPieces] using detectOK_prefix tp [] hn rfl)]
      simpa [logjPieces] using any_named_prefix tp [] hn
    | cons x xs =>
      have hxne : (x != []) = true := by simpa using (hx x (by simp)).2
      rw [C19_detect_partial _ hwf (by
        apply detectOK_prefix tp _ hn
        simp [detectOK, detOK, hxne])]
      simp only [logjPieces]
      rw [any_named_prefix tp _ hn]
      simp [Piece.isNamed, hxne]
  · rw [C19_positional_partial _ hwf hpo]
    cases xs with
    | nil =>
      have : tp.map Piece.erase = tp := by
        clear hwf hpo hw
        induction tp with
        | nil => rfl
        | cons p ps ih =>
          simp only [noFields, List.all_cons, Bool.and_eq_true, Bool.not_eq_true'] at hn
          cases p with
          | field n s => simp [Piece.isField] at hn
          | _ => simp [Piece.erase, ih (by simpa [noFields] using hn.2)]
      simpa [logjPieces, logjLiteral, this, keysOf] using keysOf_prefix tp [] hn
    | cons x xs =>
      have herase : tp.map Piece.erase = tp := by
        clear hwf hpo hw
        induction tp with
        | nil => rfl
        | cons p ps ih =>
          simp only [noFields, List.all_cons, Bool.and_eq_true, Bool.not_eq_true'] at hn
          cases p with
          | field n s => simp [Piece.isField] at hn
          | _ => simp [Piece.erase, ih (by simpa [noFields] using hn.2)]
      have hmap : (logjPieces tp (x :: xs)).map Piece.erase = logjPieces tp ((x :: xs).map (fun _ => [])) := by
        simp [logjPieces, herase, Piece.erase, List.map_flatMap, List.flatMap_map]
      rw [hmap, render_logj]
      simp only [logjPieces]
      rw [keysOf_prefix tp _ hn]
      simp [keysOf, syntaxOf, keysOf_logj_tail]

/-- **LOGJ_ with an argument that is not a plain identifier** (finding candidate F11c): the macro stringifies the
    argument as written, so `LOGJ_INFO(l, "q", ns::v)` generates `"q {ns::v}"`, which the grammar (and the scanner)
    reads as the placeholder `ns` with spec `:v`: the key is `ns`, fmt is handed the spec `::v` and rejects it. -/
theorem C19_logj_colon_counter :
    logjLiteral ['q'] ["ns::v".toList] = "q {ns::v}".toList ∧
    process "q {ns::v}".toList = ("q {::v}".toList, [("ns".toList, "::v".toList)]) ∧
    nameOK "ns::v".toList = false := by decide

example : process (logjLiteral "A json message".toList ["var_a".toList, "b".toList])
    = ("A json message {}, {}".toList, [("var_a".toList, []), (['b'], [])]) := by decide

end Named
