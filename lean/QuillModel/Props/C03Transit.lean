import QuillModel.Transit.Proofs
/-!
# C03 (part) — the transit event buffer is a FIFO through growth, slot reuse and shrinking

"… across queue growth, backend buffer growth and the backend's soft and hard buffering limits": the end-to-end model
(`Backend/`) keeps each thread's transit buffer as a list; this file justifies that abstraction for the real ring.
-/
namespace Transit
variable {α : Type}

def run (b : TB α) (ops : List (Op α)) : TB α := ops.foldl step b
def specRun (l : List α) (ops : List (Op α)) : List α := ops.foldl specStep l

/-- **Refinement.** For every initial capacity `> 0` and every history of push / pop / request_shrink /
    try_shrink (pops of an empty buffer are no-ops, as the backend only pops what `front()` returned), the ring
    represents exactly the list the history denotes — nothing lost, duplicated or reordered by `_expand`, by slot
    reuse after wrap-around or by shrinking — and stays well-formed (`size ≤ capacity = initial·2^k`). -/
theorem C03_transit_refines (c : Nat) (d : α) (hc : 0 < c) (ops : List (Op α)) :
    (run (TB.init c d) ops).abs = specRun [] ops ∧ TInv (run (TB.init c d) ops) := by
  have key : ∀ (ops : List (Op α)) (b : TB α), TInv b →
      (run b ops).abs = specRun b.abs ops ∧ TInv (run b ops) := by
    intro ops
    induction ops with
    | nil => intro b h; exact ⟨rfl, h⟩
    | cons op ops ih =>
      intro b h
      have h1 := step_inv b op h
      have h2 := step_abs b op h
      have := ih (step b op) h1
      simp only [run, specRun, List.foldl_cons] at this ⊢
      rw [h2] at this
      exact this
  have := key ops (TB.init c d) (init_inv c d hc)
  rwa [init_abs] at this

/-- what the backend observes: `front()` is the oldest event, `size()` the number of events, `empty()` its emptiness -/
theorem C03_transit_observations (c : Nat) (d : α) (hc : 0 < c) (ops : List (Op α)) :
    (run (TB.init c d) ops).front = (specRun [] ops).head? ∧
    (run (TB.init c d) ops).size = (specRun [] ops).length ∧
    ((run (TB.init c d) ops).isEmpty = true ↔ specRun [] ops = []) := by
  obtain ⟨ha, hi⟩ := C03_transit_refines c d hc ops
  refine ⟨by rw [front_abs _ hi, ha], by rw [← ha, abs_length], ?_⟩
  rw [← ha]
  constructor
  · intro he
    have : (run (TB.init c d) ops).rpos = (run (TB.init c d) ops).wpos := by simpa [TB.isEmpty] using he
    simp [TB.abs, TB.size, this]
  · intro he
    have hl : (run (TB.init c d) ops).abs.length = 0 := by rw [he]; rfl
    rw [abs_length] at hl
    have := hi.le
    simp only [TB.size] at hl
    simp only [TB.isEmpty, beq_iff_eq]; omega

/-- the buffer shrinks only when it is empty: a shrink never discards an event (immediate from the refinement, stated
    for the reader) -/
theorem C03_transit_shrink_keeps_content (b : TB α) : b.tryShrink.abs = b.abs := tryShrink_abs b

/-- an `_expand` that started from slot 0 instead of the reader position would reorder a wrapped buffer -/
theorem expand_from_zero_reorders :
    let b : TB Nat := run (TB.init 2 0) [.push 1, .push 2, .pop, .push 3]
    let bad : TB Nat := { b with cap := 4, store := fun i => if i < b.size then b.store (i % b.cap) else 0,
                                 wpos := b.size, rpos := 0 }
    b.abs = [2, 3] ∧ bad.abs = [3, 2] := by decide

/-- non-vacuity: wrap-around, two expansions, slot reuse, a shrink request honoured only when empty -/
example : (run (TB.init 2 0) [.push 1, .push 2, .pop, .push 3, .push 4, .push 5, .pop, .requestShrink, .tryShrink,
                              .push 6, .pop, .pop, .pop, .pop, .tryShrink, .push 7] : TB Nat).abs = [7] ∧
          (run (TB.init 2 0) [.push 1, .push 2, .pop, .push 3, .push 4, .push 5] : TB Nat).cap = 4 ∧
          (run (TB.init 2 0) [.push 1, .push 2, .pop, .push 3, .push 4, .push 5, .pop, .requestShrink, .tryShrink,
                              .push 6, .pop, .pop, .pop, .pop, .tryShrink] : TB Nat).cap = 2 := by decide

end Transit
