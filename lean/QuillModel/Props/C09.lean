import QuillModel.Spsc.Wrap
/-!
# C09 (queue level) — no stall on a drained queue

"Once the backend has consumed what was ahead of it, the reservation succeeds; a producer is never left
waiting while its queue is empty." At the level of the bounded queue this is: in every reachable state in
which the consumer has finished every record written (`rpos = wpos`), its `commit_read` publishes that
position, and a producer reload that returns the newest published value is followed by a grant for every
`0 < n ≤ cap`. This needs `commit_read` to publish on drain (`drainPublish`, extracted from the header);
with the pinned batching-only rule the statement is false (`C09_batch_only_stalls`, finding F3).
The end-to-end half (retry loop of the blocking log call against backend polls) is in the backend model.
-/
namespace Spsc

/-- after the consumer's `commit_read` in a drained state, the newest published reader position is `wpos` -/
theorem drained_publishes (o : Params) (hdp : o.drainPublish = true) (s : St) (h : QInv s)
    (hd : s.rpos = s.wpos) : (cppCommitRead o s).rHist.headD 0 = s.wpos := by
  have hwc : s.wcache = s.rpos := by
    have := h.rw; have := h.wcLe; have := h.cHbLe; have := h.wNew; omega
  have hp : publishes o s = true := by simp [publishes, hdp, hwc]
  simp [cppCommitRead, step, hp, hd]

theorem run_cap (o : Params) : ∀ (ops : List Op) (s : St), (run o s ops).cap = s.cap := by
  intro ops
  induction ops with
  | nil => intro s; rfl
  | cons op ops ih =>
    intro s; simp only [run]; rw [ih]
    cases op <;> simp only [step] <;> (try split) <;> rfl

theorem drained_grants_of_inv (o : Params) (hdp : o.drainPublish = true) (s : St) (h : QInv s)
    (hd : s.rpos = s.wpos) (n : Nat) (hn0 : 0 < n) (hn : n ≤ s.cap) :
    Enabled (cppCommitRead o s) (.reloadR ((cppCommitRead o s).rHist.headD 0)) ∧
    Enabled (step o (cppCommitRead o s) (.reloadR ((cppCommitRead o s).rHist.headD 0))) (.write n) := by
  have hwc : s.wcache = s.rpos := by
    have := h.rw; have := h.wcLe; have := h.cHbLe; have := h.wNew; omega
  have hp : publishes o s = true := by simp [publishes, hdp, hwc]
  have hs1 : cppCommitRead o s = { s with rHist := s.rpos :: s.rHist } := by simp [cppCommitRead, step, hp]
  rw [hs1]
  have hrc := h.rc_le_wpos
  simp only [List.headD_cons, Enabled, step]
  refine ⟨⟨by simp, by omega⟩, hn0, by omega⟩

/-- **C09, queue level.** Drained queue, consumer commits, producer reloads the newest published value:
    every request up to the capacity is granted. -/
theorem C09_drained_grants (o : Params) (ho : OrdersOK o) (hdp : o.drainPublish = true)
    (cap batch : Nat) (hc : 0 < cap) (ops : List Op) (hr : Run o (init cap batch) ops)
    (hd : (run o (init cap batch) ops).rpos = (run o (init cap batch) ops).wpos) (n : Nat)
    (hn0 : 0 < n) (hn : n ≤ cap) :
    Enabled (cppCommitRead o (run o (init cap batch) ops))
      (.reloadR ((cppCommitRead o (run o (init cap batch) ops)).rHist.headD 0)) ∧
    Enabled (step o (cppCommitRead o (run o (init cap batch) ops))
      (.reloadR ((cppCommitRead o (run o (init cap batch) ops)).rHist.headD 0))) (.write n) :=
  drained_grants_of_inv o hdp _ (reachable_inv o ho ops _ (init_inv cap batch hc) hr) hd n hn0
    (by rw [run_cap]; exact hn)

/-- **The pinned `commit_read` (batching only) stalls** (finding F3): capacity 64, batch 3; one 2-byte
    record written, committed, read and `commit_read` called; the queue is empty, the producer reloads the
    newest published value, and a 63-byte request (≤ capacity) is still refused — in this and every
    later state, since nothing more will ever be published. -/
theorem C09_batch_only_stalls :
    let o : Params := { wStore := .release, wLoad := .acquire, rStore := .release, rLoad := .acquire,
                        drainPublish := false }
    let sched : List Op := [.write 2, .commitW, .loadW 2, .read 2, .commitR false, .reloadR 0]
    Run o (init 64 3) sched ∧ (run o (init 64 3) sched).rpos = (run o (init 64 3) sched).wpos ∧
      (run o (init 64 3) sched).rHist.headD 0 = 0 ∧ ¬ Enabled (run o (init 64 3) sched) (.write 63) := by
  decide

/-- non-vacuity of `C09_drained_grants`: a drained reachable state exists -/
example : let o : Params := { wStore := .release, wLoad := .acquire, rStore := .release, rLoad := .acquire,
                              drainPublish := true }
    Run o (init 64 3) [.write 2, .commitW, .loadW 2, .read 2] ∧
    (run o (init 64 3) [.write 2, .commitW, .loadW 2, .read 2]).rpos =
      (run o (init 64 3) [.write 2, .commitW, .loadW 2, .read 2]).wpos := by decide

end Spsc
