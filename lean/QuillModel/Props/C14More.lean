import QuillModel.Props.C15Schedule
import QuillModel.Rot.Json
/-!
# C14 — audit round: the sequence as an equation, what the wording excludes (named witnesses), the JSON sink

* `C14_index_sequence_eq`: `C14_index_sequence` concludes "is a suffix", which the empty list satisfies. Here the equation:
  old content ++ everything written = `droppedRun` ++ what is retained, where `droppedRun` is the concatenation, write
  by write, of what that write removed — and each such piece is the content of the `n` oldest tracked files, whole, with
  `n = 0` unless overwriting is on and the backup limit is exceeded (`write_dropped`); it is empty for a history whose
  configurations all have overwriting off (`C14_index_nothing_dropped_without_overwrite`).
* `C14_junk_removed_by_cleanup` — a file that merely *looks* like a member of the family (`log.abc.log`: same extension,
  starts with `log.`) is removed by an Index-scheme start in write mode with `remove_old_files`. The property speaks of
  "the retained files" of the sink and of files "deliberately deleted"; it does not promise anything about foreign files
  that match the scan pattern, so this is inside the property's silence, not a violation: stated as a named witness
  next to `C14_unrelated_untouched` (which covers the files the scan ignores).
* `C14_write_mode_without_cleanup_overwrites` — write mode with `remove_old_files = false`: the previous run's rotated
  files are neither removed nor recovered, and the first rotations rename onto them. The property's restart clause is
  "restarting in **append** mode continues the existing sequence instead of clobbering it"; write mode starts a new
  sequence and is outside it — an explicit exclusion of the Index theorems (`RestartOK`), with this witness.
* `C14_F30_json_counts_statement_size` — `RotatingJsonFileSink` on the model (`writeC`).
-/
namespace Rot

/-- what one write removes from the front of the retained sequence -/
def droppedAt (P : Params) (z : Nat → Int) (w : World) (st : Stmt) (ts : Nat) : List Stmt :=
  (diskSeq w ++ [st]).take ((diskSeq w).length + 1 - (diskSeq (write P z w st ts)).length)

/-- one write as an equation, with the shape of what was removed -/
theorem write_dropped (P : Params) (z : Nat → Int) (w : World) (st : Stmt) (ts : Nat) (h : IndexInv w) :
    diskSeq w ++ [st] = droppedAt P z w st ts ++ diskSeq (write P z w st ts) ∧
      ∃ n, droppedAt P z w st ts = (w.sink.created.take n).flatMap (content w.fs) ∧
        (n = 0 ∨ (w.sink.cfg.overwrite = true ∧ w.sink.created.length > w.sink.cfg.maxBackup)) := by
  obtain ⟨n, he, hn⟩ := write_diskSeq P z w st ts h
  have hd : droppedAt P z w st ts = (w.sink.created.take n).flatMap (content w.fs) := by
    unfold droppedAt
    have hl := congrArg List.length he
    simp only [List.length_append, List.length_cons, List.length_nil] at hl
    rw [he]
    have : (List.flatMap (content w.fs) (List.take n w.sink.created)).length + (diskSeq (write P z w st ts)).length -
        (diskSeq (write P z w st ts)).length = (List.flatMap (content w.fs) (List.take n w.sink.created)).length := by omega
    rw [show (diskSeq w).length + 1 = (List.flatMap (content w.fs) (List.take n w.sink.created)).length +
      (diskSeq (write P z w st ts)).length by omega, this]
    simp
  exact ⟨by rw [hd]; exact he, n, hd, hn⟩

/-- everything the writes of a history removed, in order -/
def droppedRun (P : Params) (z : Nat → Int) : World → List Op → List Stmt
  | _, [] => []
  | w, .write st ts :: ops => droppedAt P z w st ts ++ droppedRun P z (write P z w st ts) ops
  | w, .restart c s :: ops => droppedRun P z (restart z w.fs c s) ops

/-- **Order and completeness as an equation** (Index scheme; writes of any size and timestamp — size and time rotation —
    and append-mode restarts with any other settings): the content at the beginning followed by every statement written
    is exactly what the writes removed (whole oldest files, `write_dropped`) followed by what is retained, in order. -/
theorem C14_index_sequence_eq (P : Params) (z : Nat → Int) : ∀ (ops : List Op) (w : World), IndexInv w →
    (∀ op ∈ ops, OpAppend op) → diskSeq w ++ written ops = droppedRun P z w ops ++ diskSeq (run P z w ops)
  | [], w, _, _ => by simp [run, written, droppedRun]
  | op :: ops, w, h, hops => by
    have hop := hops op List.mem_cons_self
    have ih := C14_index_sequence_eq P z ops (step P z w op) (step_inv P z w op h hop.ok)
      (fun o ho => hops o (List.mem_cons_of_mem _ ho))
    cases op with
    | write st ts =>
      simp only [step] at ih
      simp only [run, written, droppedRun, step]
      rw [List.append_assoc, ← ih, ← List.append_assoc, ← (write_dropped P z w st ts h).1]
      simp
    | restart c start =>
      simp only [step] at ih
      simp only [run, written, droppedRun, step]
      obtain ⟨h1, h2⟩ := restart_append_created z w c start h hop.1 hop.2
      have : diskSeq (restart z w.fs c start) = diskSeq w := by unfold diskSeq; rw [h1, h2]
      rw [← this]; exact ih

/-- the overwrite flag of every configuration of a history (the current one and those of its restarts) is off -/
def NoOverwrite : Cfg → List Op → Prop
  | c, [] => c.overwrite = false
  | c, .write _ _ :: ops => c.overwrite = false ∧ NoOverwrite c ops
  | c, .restart c' _ :: ops => c.overwrite = false ∧ NoOverwrite c' ops

instance instDecNoOverwrite : (c : Cfg) → (ops : List Op) → Decidable (NoOverwrite c ops)
  | c, [] => by unfold NoOverwrite; infer_instance
  | c, .write _ _ :: ops => have := instDecNoOverwrite c ops; by unfold NoOverwrite; infer_instance
  | c, .restart c' _ :: ops => have := instDecNoOverwrite c' ops; by unfold NoOverwrite; infer_instance

theorem NoOverwrite.head {c : Cfg} {ops : List Op} (h : NoOverwrite c ops) : c.overwrite = false := by
  cases ops with
  | nil => exact h
  | cons o os => cases o <;> exact h.1

/-- **"otherwise rotation stops and nothing is deleted"**: a history in which overwriting is never on removes nothing —
    the retained files hold the old content and every statement written, across restarts that lower `max_backup_files`. -/
theorem C14_index_nothing_dropped_without_overwrite (P : Params) (z : Nat → Int) : ∀ (ops : List Op) (w : World),
    IndexInv w → (∀ op ∈ ops, OpAppend op) → NoOverwrite w.sink.cfg ops →
    diskSeq (run P z w ops) = diskSeq w ++ written ops
  | [], w, _, _, _ => by simp [run, written]
  | op :: ops, w, h, hops, hno => by
    have hop := hops op List.mem_cons_self
    have hinv := step_inv P z w op h hop.ok
    cases op with
    | write st ts =>
      have ih := C14_index_nothing_dropped_without_overwrite P z ops (write P z w st ts) hinv
        (fun o ho => hops o (List.mem_cons_of_mem _ ho)) (by rw [write_cfg]; exact hno.2)
      simp only [run, written, step]
      rw [ih]
      obtain ⟨he, n, hd, hn⟩ := write_dropped P z w st ts h
      have hn0 : n = 0 := by
        rcases hn with hn | ⟨h1, _⟩
        · exact hn
        · rw [hno.1] at h1; cases h1
      subst hn0
      rw [hd] at he
      simp only [List.take_zero, List.flatMap_nil, List.nil_append] at he
      rw [← he]; simp
    | restart c start =>
      have ih := C14_index_nothing_dropped_without_overwrite P z ops (restart z w.fs c start) hinv
        (fun o ho => hops o (List.mem_cons_of_mem _ ho)) hno.2
      simp only [run, written, step]
      rw [ih]
      obtain ⟨h1, h2⟩ := restart_append_created z w c start h hop.1 hop.2
      have : diskSeq (restart z w.fs c start) = diskSeq w := by unfold diskSeq; rw [h1, h2]
      rw [this]

/-- non-vacuity + the m2 scenario on the model: four rotated files, append restart with `max_backup_files = 1` and
    overwriting off, two more writes: all six statements are retained (rotation has stopped) -/
example :
    let c0 : Cfg := { limit := 10, overwrite := false, append := true }
    let c1 : Cfg := { limit := 10, maxBackup := 1, overwrite := false, append := true }
    let ops : List Op := [.write ⟨1, 8⟩ 1, .write ⟨2, 8⟩ 2, .write ⟨3, 8⟩ 3, .write ⟨4, 8⟩ 4, .restart c1 10,
      .write ⟨5, 8⟩ 11, .write ⟨6, 8⟩ 12]
    NoOverwrite c0 ops ∧
      diskSeq (run Params.repaired zGmt (restart zGmt [] c0 0) ops) = [⟨1, 8⟩, ⟨2, 8⟩, ⟨3, 8⟩, ⟨4, 8⟩, ⟨5, 8⟩, ⟨6, 8⟩] ∧
      (run Params.repaired zGmt (restart zGmt [] c0 0) ops).fs.get curName = some [⟨4, 8⟩, ⟨5, 8⟩, ⟨6, 8⟩] := by
  decide

/-! ### the size limit for every retained file -/

/-- a file respects the bound `L`: it is within it, or everything before its last statement has size 0 (a single
    statement alone exceeds the limit) -/
def Within (L : Nat) (c : List Stmt) : Prop := bytes c ≤ L ∨ ∃ pre st, c = pre ++ [st] ∧ bytes pre = 0

/-- every tracked file — rotated or current — respects the bound -/
def LimInv (L : Nat) (w : World) : Prop := ∀ e ∈ w.sink.created, Within L (content w.fs e)

theorem IndexInv.name_ne_cur {w : World} (h : IndexInv w) {e : FileInfo} (he : e ∈ w.sink.created) (hne : e ≠ curInfo) :
    e.name ≠ curName := by
  obtain ⟨rest, hr⟩ := h.shape.last
  have hs := h.shape.sorted
  rw [hr, List.pairwise_append] at hs
  rw [hr] at he
  rcases List.mem_append.mp he with he | he
  · have := hs.2.2 e he curInfo (by simp)
    intro heq
    simp only [FileInfo.name, curName, Name.file.injEq] at heq
    simp only [curInfo] at this
    omega
  · simp only [List.mem_singleton] at he; exact absurd he hne

theorem appendCur_limInv (L : Nat) (v : World) (st : Stmt) (hv : IndexInv v)
    (hold : ∀ e ∈ v.sink.created, e ≠ curInfo → Within L (content v.fs e))
    (hcur : Within L (content v.fs curInfo ++ [st])) : LimInv L (appendCur v st) := by
  intro e he
  by_cases hc : e = curInfo
  · subst hc
    simp only [appendCur, content, FileInfo.name, curInfo, FS.get_put, curName, ↓reduceIte, Option.getD_some]
    exact hcur
  · have hn := hv.name_ne_cur he hc
    simp only [appendCur, content, FS.get_put, hn, ↓reduceIte]
    exact hold e he hc

/-- **One write keeps every tracked file within the bound** (Index scheme): with a size limit configured, `limit ≤ L`,
    and rotation not stopped (backup limit reached with overwriting off — then, and only then, the current file grows past
    the limit: `C14_limit`). Rotated files keep their content whole (`RotSpec.moved`), the file rotated away was within
    the bound as the current file, the new current file holds the single new statement. Time-triggered rotations included. -/
theorem write_limInv (P : Params) (z : Nat → Int) (L : Nat) (w : World) (st : Stmt) (ts : Nat) (h : IndexInv w)
    (hl : LimInv L w) (hlim : w.sink.cfg.limit ≠ 0) (hle : w.sink.cfg.limit ≤ L) (hns : stopped w.sink = false) :
    LimInv L (write P z w st ts) := by
  have hcurm : curInfo ∈ w.sink.created := by obtain ⟨rest, hr⟩ := h.shape.last; rw [hr]; simp
  obtain ⟨cont, hc, hsz⟩ := h.curInv
  by_cases hdue : timeDue w ts ∨ sizeDue w st.size ts
  · have hs := prepare_due P z w st.size ts hdue
    have hinvp : IndexInv (prepare P z w st.size ts) := prepare_inv P z w st.size ts h
    show LimInv L (appendCur (prepare P z w st.size ts) st)
    by_cases hr : rotates w
    · obtain ⟨_, cont', hc', hb⟩ := hr
      have sp := rotate_index P z w ts cont' h hns hc' hb
      apply appendCur_limInv L _ st hinvp
      · intro e he hne
        rw [hs.created, sp.created] at he
        rcases List.mem_append.mp he with he | he
        · obtain ⟨e0, he0, rfl⟩ := List.mem_map.mp he
          simp only [content, hs.fs, sp.moved e0 he0]
          exact hl e0 ((kept_sublist P w).subset he0)
        · simp only [List.mem_singleton] at he; exact absurd he hne
      · simp only [content_cur, hs.fs, sp.cur, Option.getD_some, List.nil_append]
        exact Or.inr ⟨[], st, rfl, rfl⟩
    · have hrw := rotate_of_not_rotates P z w ts h hr
      have hb : bytes cont = 0 := by
        by_cases hb : bytes cont = 0
        · exact hb
        · exact absurd ⟨hns, cont, hc, hb⟩ hr
      apply appendCur_limInv L _ st hinvp
      · intro e he hne
        rw [hs.created, hrw] at he
        simp only [content, hs.fs, hrw]
        exact hl e he
      · simp only [content_cur, hs.fs, hrw, hc, Option.getD_some]
        exact Or.inr ⟨cont, st, rfl, hb⟩
  · have ht : ¬ timeDue w ts := fun x => hdue (Or.inl x)
    have hsd : ¬ sizeDue w st.size ts := fun x => hdue (Or.inr x)
    rw [write, prepare_idle P z w st.size ts ht hsd]
    apply appendCur_limInv L _ st h
    · intro e he _; exact hl e he
    · simp only [content_cur, hc, Option.getD_some]
      left
      rw [bytes_append]
      have : ¬ w.sink.fileSize + st.size > w.sink.cfg.limit := fun hgt => hsd ⟨ht, hlim, hgt⟩
      simp only [bytes, List.map_cons, List.map_nil, List.sum_cons, List.sum_nil] at *
      omega

/-- a start keeps the bound: append mode changes no file and recovers the same files; write mode with clean-up leaves
    the empty current file -/
theorem restart_limInv (z : Nat → Int) (L : Nat) (w : World) (c : Cfg) (start : Nat) (h : IndexInv w)
    (hl : LimInv L w) (hc : RestartOK c) : LimInv L (restart z w.fs c start) := by
  rcases hc.2 with ha | hr
  · obtain ⟨h1, h2⟩ := restart_append_created z w c start h hc.1 ha
    intro e he
    rw [h1] at he; rw [h2]; exact hl e he
  · by_cases ha : c.append = true
    · obtain ⟨h1, h2⟩ := restart_append_created z w c start h hc.1 ha
      intro e he
      rw [h1] at he; rw [h2]; exact hl e he
    · have ha' : c.append = false := by simpa using ha
      intro e he
      have hcr : (restart z w.fs c start).sink.created = [curInfo] := by simp [restart, ha', hr]
      rw [hcr] at he
      simp only [List.mem_singleton] at he; subst he
      have : (restart z w.fs c start).fs.get curName = some [] := by simp [restart, ha', FS.get_put]
      simp only [content_cur, this, Option.getD_some]
      exact Or.inl (by simp [bytes])

/-- the premise of the history theorem, evaluated along the run: every write happens with a size limit configured that is
    at most `L` and with rotation not stopped; every restart is `RestartOK` (Index scheme; append, or write with clean-up) -/
def LimHistOK (P : Params) (z : Nat → Int) (L : Nat) : World → List Op → Prop
  | _, [] => True
  | w, .write st ts :: ops => w.sink.cfg.limit ≠ 0 ∧ w.sink.cfg.limit ≤ L ∧ stopped w.sink = false ∧
      LimHistOK P z L (write P z w st ts) ops
  | w, .restart c s :: ops => RestartOK c ∧ LimHistOK P z L (restart z w.fs c s) ops

/-- **No retained file exceeds the limit unless a single statement alone does — every history.** Index scheme, any
    sequence of writes (size and time rotation) and restarts that may change the limit, the backup count, the overwrite flag
    and the open mode: if `L` bounds every limit in force at a write and rotation never stops, then after the history every
    tracked file (= every file of the family on disk, `IndexInv.noStale`) is within `L` or holds nothing of positive size
    before its last statement. When rotation stops (overwriting off at the backup limit) the current file — and only it —
    grows: `C14_limit`; a later rotation then carries that oversized file along, which is why the premise is needed
    (witness `C14_stopped_file_rotated_oversized`). -/
theorem C14_index_all_files_within_limit (P : Params) (z : Nat → Int) (L : Nat) : ∀ (ops : List Op) (w : World),
    IndexInv w → LimInv L w → LimHistOK P z L w ops → LimInv L (run P z w ops)
  | [], _, _, hl, _ => hl
  | .write st ts :: ops, w, h, hl, hok =>
    C14_index_all_files_within_limit P z L ops _ (write_inv P z w st ts h)
      (write_limInv P z L w st ts h hl hok.1 hok.2.1 hok.2.2.1) hok.2.2.2
  | .restart c s :: ops, w, h, hl, hok =>
    C14_index_all_files_within_limit P z L ops _ (restart_inv z w.fs c s h.dirOK hok.1)
      (restart_limInv z L w c s h hl hok.1) hok.2

instance instDecLimHistOK (P : Params) (z : Nat → Int) (L : Nat) : (w : World) → (ops : List Op) →
    Decidable (LimHistOK P z L w ops)
  | _, [] => isTrue trivial
  | w, .write st ts :: ops => have := instDecLimHistOK P z L (write P z w st ts) ops; by unfold LimHistOK; infer_instance
  | w, .restart c s :: ops =>
    have := instDecLimHistOK P z L (restart z w.fs c s) ops
    by unfold LimHistOK RestartOK; infer_instance

/-- non-vacuity: a history with a time schedule and a size limit, a restart that lowers the limit and the backup count
    (overwriting on) and a write-mode restart satisfies the premise with `L = 12` -/
example :
    let c0 : Cfg := { limit := 12, maxBackup := 3, append := true, freq := .minutely, interval := 1 }
    let c1 : Cfg := { limit := 10, maxBackup := 1, append := true }
    let c2 : Cfg := { limit := 10, maxBackup := 2, append := false, removeOld := true }
    LimHistOK Params.repaired zGmt 12 (restart zGmt [] c0 0)
      [.write ⟨1, 8⟩ 1, .write ⟨2, 8⟩ 2, .write ⟨3, 3⟩ (60 * NS), .restart c1 (61 * NS), .write ⟨4, 8⟩ (62 * NS),
       .write ⟨5, 20⟩ (63 * NS), .restart c2 (70 * NS), .write ⟨6, 8⟩ (71 * NS)] := by
  decide

/-- the excluded class: rotation stopped (one backup, overwriting off), the current file grew to 24 bytes under a limit of
    10; after a restart with overwriting on the next rotation renames it — a rotated file of three statements over the limit -/
theorem C14_stopped_file_rotated_oversized :
    let c0 : Cfg := { limit := 10, maxBackup := 1, overwrite := false, append := true }
    let c1 : Cfg := { limit := 10, maxBackup := 3, overwrite := true, append := true }
    let w := run Params.repaired zGmt (restart zGmt [] c0 0)
      [.write ⟨1, 8⟩ 1, .write ⟨2, 8⟩ 2, .write ⟨3, 8⟩ 3, .write ⟨4, 8⟩ 4, .restart c1 10, .write ⟨5, 8⟩ 11]
    w.fs.get (.file none 1) = some [⟨2, 8⟩, ⟨3, 8⟩, ⟨4, 8⟩] ∧ ¬ LimInv 10 w := by
  refine ⟨by decide, ?_⟩
  intro h
  have := h ⟨none, 1⟩ (by decide)
  have hc : content (run Params.repaired zGmt (restart zGmt [] { limit := 10, maxBackup := 1, overwrite := false, append := true } 0)
      [.write ⟨1, 8⟩ 1, .write ⟨2, 8⟩ 2, .write ⟨3, 8⟩ 3, .write ⟨4, 8⟩ 4,
       .restart { limit := 10, maxBackup := 3, overwrite := true, append := true } 10, .write ⟨5, 8⟩ 11]).fs ⟨none, 1⟩ =
      [⟨2, 8⟩, ⟨3, 8⟩, ⟨4, 8⟩] := by decide
  rw [hc] at this
  rcases this with h1 | ⟨pre, st, h1, h2⟩
  · revert h1; decide
  · have hl := congrArg List.length h1
    simp at hl
    have : pre = [⟨2, 8⟩, ⟨3, 8⟩] := by
      have := congrArg (fun l => l.take 2) h1
      simp [List.take_append, show pre.length = 2 by omega] at this
      exact this.symm
    subst this
    revert h2; decide

/-- **A look-alike file is removed by the clean-up** (Index scheme, write mode, `remove_old_files`): `log.x7.log` passes
    the scan filter and is deleted although it was never written by the sink; a file the filter ignores stays. -/
theorem C14_junk_removed_by_cleanup :
    let c : Cfg := { append := false, removeOld := true }
    let fs0 : FS := [(.junk 7, [⟨9, 3⟩]), (.foreign 1, [⟨8, 3⟩])]
    (restart zGmt fs0 c 0).fs.get (.junk 7) = none ∧ (restart zGmt fs0 c 0).fs.get (.foreign 1) = some [⟨8, 3⟩] ∧
      (restart zGmt fs0 { c with append := true } 0).fs.get (.junk 7) = some [⟨9, 3⟩] := by
  decide

/-- **Write mode without clean-up is outside the restart clause** (explicit exclusion, `RestartOK` fails): the previous
    run's `log.1.log` (statement 1) is neither removed nor recovered; the new run's first rotation renames onto it. -/
theorem C14_write_mode_without_cleanup_overwrites :
    let c : Cfg := { limit := 10, append := true }
    let cw : Cfg := { limit := 10, append := false, removeOld := false }
    let w1 := run Params.repaired zGmt (restart zGmt [] c 0) [.write ⟨1, 8⟩ 1, .write ⟨2, 8⟩ 2]
    let w2 := run Params.repaired zGmt (restart zGmt w1.fs cw 10) [.write ⟨3, 8⟩ 11, .write ⟨4, 8⟩ 12]
    ¬ (cw.append = true ∨ cw.removeOld = true) ∧ w1.fs.get (.file none 1) = some [⟨1, 8⟩] ∧ w2.fs.get (.file none 1) = some [⟨3, 8⟩] ∧
      w2.sink.created = [⟨none, 1⟩, curInfo] := by
  decide

/-- **F30 on the model.** `RotatingJsonFileSink`: each statement is counted with 2 bytes (`log_statement.size()`) and
    written as 8 (the JSON line); limit 10: after five statements the current file holds all five, 40 bytes, while
    `_file_size` says 10 and nothing was rotated. With counted = written (`FileSink`) every statement after the first
    rotates. -/
theorem C14_F30_json_counts_statement_size :
    let c : Cfg := { limit := 10, append := false }
    let sts : List Stmt := [⟨1, 8⟩, ⟨2, 8⟩, ⟨3, 8⟩, ⟨4, 8⟩, ⟨5, 8⟩]
    let wj := sts.foldl (fun w st => writeC Params.repaired zGmt w st 2 st.id) (restart zGmt [] c 0)
    let wf := sts.foldl (fun w st => writeC Params.repaired zGmt w st st.size st.id) (restart zGmt [] c 0)
    wj.fs.get curName = some sts ∧ bytes sts = 40 ∧ wj.sink.fileSize = 10 ∧ wj.sink.created = [curInfo] ∧
      wf.fs.get curName = some [⟨5, 8⟩] ∧ wf.sink.created.length = 5 := by
  decide

end Rot
