import QuillModel.Props.C15Schedule
import QuillModel.Rot.Json
/-!
# C14 — audit round: the sequence as an equation, what the wording excludes (named witnesses), the JSON sink

* `C14_index_sequence_eq`: `C14_index_sequence` concludes "is a suffix", which the empty list satisfies. Here the equation:
  old content ++ everything written = `droppedRun` ++ what is retained, where `droppedRun` is the concatenation, write
  by write, of what that write removed — and each such piece is the content of the `n` oldest tracked files, whole, with
  `n = 0` unless overwriting is on and the backup limit is exceeded (`write_dropped`); it is empty for a history whose
  configurations all have overwriting off (`C14_index_nothing_dropped_without_overwrite`).
* `C14_junk_removed_by_cleanup` — a file that merely *looks* like a member of the family (`log.abc.log`: same extension,
  starts with `log.`) is removed by an Index-scheme start in write mode with `remove_old_files`. The property speaks of
  "the retained files" of the sink and of files "deliberately deleted"; it does not promise anything about foreign files
  that match the scan pattern, so this is inside the property's silence, not a violation: stated as a named witness
  next to `C14_unrelated_untouched` (which covers the files the scan ignores).
* `C14_write_mode_without_cleanup_overwrites` — write mode with `remove_old_files = false`: the previous run's rotated
  files are neither removed nor recovered, and the first rotations rename onto them. The property's restart clause is
  "restarting in **append** mode continues the existing sequence instead of clobbering it"; write mode starts a new
  sequence and is outside it — an explicit exclusion of the Index theorems (`RestartOK`), with this witness.
* `C14_F30_json_counts_statement_size` — `RotatingJsonFileSink` on the model (`writeC`).
-/
namespace Rot

/-- what one write removes from the front of the retained sequence -/
def droppedAt (P : Params) (z : Nat → Int) (w : World) (st : Stmt) (ts : Nat) : List Stmt :=
  (diskSeq w ++ [st]).take ((diskSeq w).length + 1 - (diskSeq (write P z w st ts)).length)

/-- one write as an equation, with the shape of what was removed -/
theorem write_dropped (P : Params) (z : Nat → Int) (w : World) (st : Stmt) (ts : Nat) (h : IndexInv w) :
    diskSeq w ++ [st] = droppedAt P z w st ts ++ diskSeq (write P z w st ts) ∧
      ∃ n, droppedAt P z w st ts = (w.sink.created.take n).flatMap (content w.fs) ∧
        (n = 0 ∨ (w.sink.cfg.overwrite = true ∧ w.sink.created.length > w.sink.cfg.maxBackup)) := by
  obtain ⟨n, he, hn⟩ := write_diskSeq P z w st ts h
  have hd : droppedAt P z w st ts = (w.sink.created.take n).flatMap (content w.fs) := by
    unfold droppedAt
    have hl := congrArg List.length he
    simp only [List.length_append, List.length_cons, List.length_nil] at hl
    rw [he]
    have : (List.flatMap (content w.fs) (List.take n w.sink.created)).length + (diskSeq (write P z w st ts)).length -
        (diskSeq (write P z w st ts)).length = (List.flatMap (content w.fs) (List.take n w.sink.created)).length := by omega
    rw [show (diskSeq w).length + 1 = (List.flatMap (content w.fs) (List.take n w.sink.created)).length +
      (diskSeq (write P z w st ts)).length by omega, this]
    simp
  exact ⟨by rw [hd]; exact he, n, hd, hn⟩

/-- everything the writes of a history removed, in order -/
def droppedRun (P : Params) (z : Nat → Int) : World → List Op → List Stmt
  | _, [] => []
  | w, .write st ts :: ops => droppedAt P z w st ts ++ droppedRun P z (write P z w st ts) ops
  | w, .restart c s :: ops => droppedRun P z (restart z w.fs c s) ops

/-- **Order and completeness as an equation** (Index scheme; writes of any size and timestamp — size and time rotation —
    and append-mode restarts with any other settings): the content at the beginning followed by every statement written
    is exactly what the writes removed (whole oldest files, `write_dropped`) followed by what is retained, in order. -/
theorem C14_index_sequence_eq (P : Params) (z : Nat → Int) : ∀ (ops : List Op) (w : World), IndexInv w →
    (∀ op ∈ ops, OpAppend op) → diskSeq w ++ written ops = droppedRun P z w ops ++ diskSeq (run P z w ops)
  | [], w, _, _ => by simp [run, written, droppedRun]
  | op :: ops, w, h, hops => by
    have hop := hops op List.mem_cons_self
    have ih := C14_index_sequence_eq P z ops (step P z w op) (step_inv P z w op h hop.ok)
      (fun o ho => hops o (List.mem_cons_of_mem _ ho))
    cases op with
    | write st ts =>
      simp only [step] at ih
      simp only [run, written, droppedRun, step]
      rw [List.append_assoc, ← ih, ← List.append_assoc, ← (write_dropped P z w st ts h).1]
      simp
    | restart c start =>
      simp only [step] at ih
      simp only [run, written, droppedRun, step]
      obtain ⟨h1, h2⟩ := restart_append_created z w c start h hop.1 hop.2
      have : diskSeq (restart z w.fs c start) = diskSeq w := by unfold diskSeq; rw [h1, h2]
      rw [← this]; exact ih

/-- the overwrite flag of every configuration of a history (the current one and those of its restarts) is off -/
def NoOverwrite : Cfg → List Op → Prop
  | c, [] => c.overwrite = false
  | c, .write _ _ :: ops => c.overwrite = false ∧ NoOverwrite c ops
  | c, .restart c' _ :: ops => c.overwrite = false ∧ NoOverwrite c' ops

instance instDecNoOverwrite : (c : Cfg) → (ops : List Op) → Decidable (NoOverwrite c ops)
  | c, [] => by unfold NoOverwrite; infer_instance
  | c, .write _ _ :: ops => have := instDecNoOverwrite c ops; by unfold NoOverwrite; infer_instance
  | c, .restart c' _ :: ops => have := instDecNoOverwrite c' ops; by unfold NoOverwrite; infer_instance

theorem NoOverwrite.head {c : Cfg} {ops : List Op} (h : NoOverwrite c ops) : c.overwrite = false := by
  cases ops with
  | nil => exact h
  | cons o os => cases o <;> exact h.1

/-- **"otherwise rotation stops and nothing is deleted"**: a history in which overwriting is never on removes nothing —
    the retained files hold the old content and every statement written, across restarts that lower `max_backup_files`. -/
theorem C14_index_nothing_dropped_without_overwrite (P : Params) (z : Nat → Int) : ∀ (ops : List Op) (w : World),
    IndexInv w → (∀ op ∈ ops, OpAppend op) → NoOverwrite w.sink.cfg ops →
    diskSeq (run P z w ops) = diskSeq w ++ written ops
  | [], w, _, _, _ => by simp [run, written]
  | op :: ops, w, h, hops, hno => by
    have hop := hops op List.mem_cons_self
    have hinv := step_inv P z w op h hop.ok
    cases op with
    | write st ts =>
      have ih := C14_index_nothing_dropped_without_overwrite P z ops (write P z w st ts) hinv
        (fun o ho => hops o (List.mem_cons_of_mem _ ho)) (by rw [write_cfg]; exact hno.2)
      simp only [run, written, step]
      rw [ih]
      obtain ⟨he, n, hd, hn⟩ := write_dropped P z w st ts h
      have hn0 : n = 0 := by
        rcases hn with hn | ⟨h1, _⟩
        · exact hn
        · rw [hno.1] at h1; cases h1
      subst hn0
      rw [hd] at he
      simp only [List.take_zero, List.flatMap_nil, List.nil_append] at he
      rw [← he]; simp
    | restart c start =>
      have ih := C14_index_nothing_dropped_without_overwrite P z ops (restart z w.fs c start) hinv
        (fun o ho => hops o (List.mem_cons_of_mem _ ho)) hno.2
      simp only [run, written, step]
      rw [ih]
      obtain ⟨h1, h2⟩ := restart_append_created z w c start h hop.1 hop.2
      have : diskSeq (restart z w.fs c start) = diskSeq w := by unfold diskSeq; rw [h1, h2]
      rw [this]

/-- non-vacuity + the m2 scenario on the model: four rotated files, append restart with `max_backup_files = 1` and
    overwriting off, two more writes: all six statements are retained (rotation has stopped) -/
example :
    let c0 : Cfg := { limit := 10, overwrite := false, append := true }
    let c1 : Cfg := { limit := 10, maxBackup := 1, overwrite := false, append := true }
    let ops : List Op := [.write ⟨1, 8⟩ 1, .write ⟨2, 8⟩ 2, .write ⟨3, 8⟩ 3, .write ⟨4, 8⟩ 4, .restart c1 10,
      .write ⟨5, 8⟩ 11, .write ⟨6, 8⟩ 12]
    NoOverwrite c0 ops ∧
      diskSeq (run Params.repaired zGmt (restart zGmt [] c0 0) ops) = [⟨1, 8⟩, ⟨2, 8⟩, ⟨3, 8⟩, ⟨4, 8⟩, ⟨5, 8⟩, ⟨6, 8⟩] ∧
      (run Params.repaired zGmt (restart zGmt [] c0 0) ops).fs.get curName = some [⟨4, 8⟩, ⟨5, 8⟩, ⟨6, 8⟩] := by
  decide

/-- **A look-alike file is removed by the clean-up** (Index scheme, write mode, `remove_old_files`): `log.x7.log` passes
    the scan filter and is deleted although it was never written by the sink; a file the filter ignores stays. -/
theorem C14_junk_removed_by_cleanup :
    let c : Cfg := { append := false, removeOld := true }
    let fs0 : FS := [(.junk 7, [⟨9, 3⟩]), (.foreign 1, [⟨8, 3⟩])]
    (restart zGmt fs0 c 0).fs.get (.junk 7) = none ∧ (restart zGmt fs0 c 0).fs.get (.foreign 1) = some [⟨8, 3⟩] ∧
      (restart zGmt fs0 { c with append := true } 0).fs.get (.junk 7) = some [⟨9, 3⟩] := by
  decide

/-- **Write mode without clean-up is outside the restart clause** (explicit exclusion, `RestartOK` fails): the previous
    run's `log.1.log` (statement 1) is neither removed nor recovered; the new run's first rotation renames onto it. -/
theorem C14_write_mode_without_cleanup_overwrites :
    let c : Cfg := { limit := 10, append := true }
    let cw : Cfg := { limit := 10, append := false, removeOld := false }
    let w1 := run Params.repaired zGmt (restart zGmt [] c 0) [.write ⟨1, 8⟩ 1, .write ⟨2, 8⟩ 2]
    let w2 := run Params.repaired zGmt (restart zGmt w1.fs cw 10) [.write ⟨3, 8⟩ 11, .write ⟨4, 8⟩ 12]
    ¬ (cw.append = true ∨ cw.removeOld = true) ∧ w1.fs.get (.file none 1) = some [⟨1, 8⟩] ∧ w2.fs.get (.file none 1) = some [⟨3, 8⟩] ∧
      w2.sink.created = [⟨none, 1⟩, curInfo] := by
  decide

/-- **F30 on the model.** `RotatingJsonFileSink`: each statement is counted with 2 bytes (`log_statement.size()`) and
    written as 8 (the JSON line); limit 10: after five statements the current file holds all five, 40 bytes, while
    `_file_size` says 10 and nothing was rotated. With counted = written (`FileSink`) every statement after the first
    rotates. -/
theorem C14_F30_json_counts_statement_size :
    let c : Cfg := { limit := 10, append := false }
    let sts : List Stmt := [⟨1, 8⟩, ⟨2, 8⟩, ⟨3, 8⟩, ⟨4, 8⟩, ⟨5, 8⟩]
    let wj := sts.foldl (fun w st => writeC Params.repaired zGmt w st 2 st.id) (restart zGmt [] c 0)
    let wf := sts.foldl (fun w st => writeC Params.repaired zGmt w st st.size st.id) (restart zGmt [] c 0)
    wj.fs.get curName = some sts ∧ bytes sts = 40 ∧ wj.sink.fileSize = 10 ∧ wj.sink.created = [curInfo] ∧
      wf.fs.get curName = some [⟨5, 8⟩] ∧ wf.sink.created.length = 5 := by
  decide

end Rot
