import QuillModel.FileSink.Model
/-!
# C06 (part) — after `flush_sink()` returns, everything written to the sink can be read from the destination

"when flush_log() returns, every statement … has been written to all of its sinks and those sinks have been flushed, so it
can be read from the destination". The backend model (`Props/C06.lean`) proves that every sink's `flush_sink()` is called
before the caller is released; this file is the sink's half: `flush_sink()` really makes everything written so far
readable — for every sequence of `write_log` (with or without a `before_write` callback), `flush_sink` and
`run_periodic_tasks` calls — provided EVERY path of `write_log` that writes marks the stream dirty (`Params.OK`;
obligation on the extracted structure, `Obligations/FileSink.lean`).
-/
namespace FileSink

/-- nothing is lost or duplicated, whatever the flags do: file ++ stdio buffer = everything written, in order -/
structure SInv (s : St) : Prop where
  cons : s.file ++ s.buf = s.written

theorem sinv_step (p : Params) (s : St) (h : SInv s) (op : Op) : SInv (step p s op) := by
  cases op with
  | write hook x => exact ⟨by simp [step, ← h.cons]⟩
  | flush =>
    simp only [step]
    split
    · exact h
    · exact ⟨by simp [h.cons]⟩
  | periodic => exact h

/-- with every write path marking the stream dirty: a non-empty stdio buffer means the flag is set -/
def DirtyInv (s : St) : Prop := s.buf ≠ [] → s.dirty = true

theorem dirty_step (p : Params) (hp : p.OK) (s : St) (h : DirtyInv s) (op : Op) : DirtyInv (step p s op) := by
  cases op with
  | write hook x =>
    intro _
    cases hook <;> simp [step, hp.1, hp.2]
  | flush =>
    simp only [step]
    split
    · exact h
    · intro hb; simp at hb
  | periodic => exact h

theorem inv_run (p : Params) (ops : List Op) : ∀ (s : St), SInv s → SInv (run p s ops) := by
  induction ops with
  | nil => intro s h; exact h
  | cons op rest ih => intro s h; exact ih _ (sinv_step p s h op)

theorem dirty_run (p : Params) (hp : p.OK) (ops : List Op) : ∀ (s : St), DirtyInv s → DirtyInv (run p s ops) := by
  induction ops with
  | nil => intro s h; exact h
  | cons op rest ih => intro s h; exact ih _ (dirty_step p hp s h op)

theorem written_run (p : Params) (ops : List Op) : ∀ (s : St), (run p s ops).written = s.written ++ stmtsOf ops := by
  induction ops with
  | nil => intro s; simp [run, stmtsOf]
  | cons op rest ih =>
    intro s
    rw [run, ih]
    cases op <;> simp [step, stmtsOf]
    split <;> rfl

/-- **C06, conservation in the sink** (every structure): in every state, what the file holds followed by what sits in the
    stdio buffer is exactly the statements handed to `write_log` so far, in order, each once -/
theorem C06_sink_conservation (p : Params) (ops : List Op) :
    (run p {} ops).file ++ (run p {} ops).buf = stmtsOf ops := by
  have h := (inv_run p ops {} ⟨rfl⟩).cons
  rw [h, written_run]; rfl

/-- **C06, `flush_sink()` makes everything written so far readable.** For every sequence of `write_log` /
    `flush_sink` / `run_periodic_tasks` calls, with and without a `before_write` callback on each write: after one more
    `flush_sink()` the file holds exactly the statements written so far, in order, each once, and nothing is left in the
    stdio buffer — in particular right after any flush in the sequence. -/
theorem C06_sink_flush_makes_readable (p : Params) (hp : p.OK) (ops : List Op) :
    (step p (run p {} ops) .flush).file = stmtsOf ops ∧ (step p (run p {} ops) .flush).buf = [] := by
  have hc := C06_sink_conservation p ops
  have hd : DirtyInv (run p {} ops) := dirty_run p hp ops {} (by intro h; exact absurd rfl h)
  simp only [step]
  split
  · rename_i hcond
    have hnd : (run p {} ops).dirty = false := by
      simp only [Bool.and_eq_true, Bool.not_eq_true'] at hcond; exact hcond.2
    have hb : (run p {} ops).buf = [] := by
      apply Classical.byContradiction
      intro hne
      rw [hd hne] at hnd; cases hnd
    rw [hb] at hc
    exact ⟨by simpa using hc, hb⟩
  · exact ⟨hc, rfl⟩

/-- … stated for a sequence that ends with a flush -/
theorem C06_sink_readable_after_flush (p : Params) (hp : p.OK) (ops : List Op) :
    (run p {} (ops ++ [.flush])).file = stmtsOf (ops ++ [.flush]) := by
  rw [run_append, stmtsOf_append]
  simpa [run, stmtsOf] using (C06_sink_flush_makes_readable p hp ops).1

/-- non-vacuity: writes with and without a callback, flushes in between, an idle flush, periodic tasks -/
example :
    let ops : List Op := [.write false ⟨1, 10⟩, .write true ⟨2, 13⟩, .flush, .flush, .periodic, .write true ⟨3, 7⟩]
    (run {} {} ops).file = [⟨1, 10⟩, ⟨2, 13⟩] ∧ (run {} {} ops).buf = [⟨3, 7⟩] ∧
    (step {} (run {} {} ops) .flush).file = [⟨1, 10⟩, ⟨2, 13⟩, ⟨3, 7⟩] := by decide

/-- **negative witness (`/tmp/mut7/C06/out/m2`: the `before_write` path forgets `_write_occurred = true`)**:
    `flush_sink()` returns with the statement still in the stdio buffer -/
theorem C06_sink_hook_path_forgets_flag :
    let p : Params := { hookSetsDirty := false }
    let ops : List Op := [.write true ⟨1, 10⟩, .flush]
    (run p {} ops).file = [] ∧ (run p {} ops).buf = [⟨1, 10⟩] ∧ (run {} {} ops).file = [⟨1, 10⟩] := by decide

/-- the same for the plain path; and a later write through a path that does set the flag drains both -/
theorem C06_sink_plain_path_forgets_flag :
    let p : Params := { plainSetsDirty := false }
    (run p {} [.write false ⟨1, 10⟩, .flush]).file = [] ∧
    (run p {} [.write false ⟨1, 10⟩, .flush, .write true ⟨2, 5⟩, .flush]).file = [⟨1, 10⟩, ⟨2, 5⟩] := by decide

/-- a flush that does not test or does not reset the flag is only slower, not wrong -/
example : ({ flushTestsFlag := false, flushResetsFlag := false } : Params).OK := by decide

end FileSink
