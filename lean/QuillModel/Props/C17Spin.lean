import QuillModel.Spin.Proofs
/-!
# C17 (part) — the registries' spinlock: mutual exclusion and visibility under release/acquire

"creating or looking up loggers and sinks by name is idempotent and safe from any thread": the logger, sink and
thread-context registries are guarded by `detail::Spinlock`. The end-to-end model (`Backend/`) treats a registry
operation as atomic; this file justifies that for the real lock under the C++11 view semantics.
-/
namespace Spin

/-- **Mutual exclusion and visibility.** For every number of threads and every schedule of lock attempts, unlocks and
    accesses (with `exchange` acquiring and `unlock` releasing): at most one thread is inside the critical section, and
    every access to the protected data happens-after the previous critical section's writes (`seen t = data`: no data
    race, no stale registry). -/
theorem C17_spinlock_safe (o : Orders) (ho : OrdersOK o) (n : Nat) (ops : List Op)
    (hr : Run o { nthreads := n } ops) :
    (∀ t u, (run o { nthreads := n } ops).inCS t = true → (run o { nthreads := n } ops).inCS u = true → t = u) ∧
    (∀ op, Enabled (run o { nthreads := n } ops) op → Safe (run o { nthreads := n } ops) op) := by
  have h := reachable_inv o ho ops _ (init_inv n) hr
  refine ⟨h.excl, ?_⟩
  intro op he
  cases op with
  | access t => exact h.holderSees t he.2
  | attempt t => trivial
  | unlock t => trivial

/-- mutual exclusion alone needs no memory order at all (the exchange is a read-modify-write) — what the orders buy is
    visibility: with a relaxed `exchange` the second critical section may work on stale data -/
theorem relaxed_exchange_stale :
    let o : Orders := { xchg := .relaxed, unl := .release }
    let sched : List Op := [.attempt 0, .access 0, .unlock 0, .attempt 1]
    Run o { nthreads := 2 } sched ∧ Enabled (run o { nthreads := 2 } sched) (.access 1) ∧
      ¬ Safe (run o { nthreads := 2 } sched) (.access 1) := by decide

theorem relaxed_unlock_stale :
    let o : Orders := { xchg := .acquire, unl := .relaxed }
    let sched : List Op := [.attempt 0, .access 0, .unlock 0, .attempt 1]
    Run o { nthreads := 2 } sched ∧ Enabled (run o { nthreads := 2 } sched) (.access 1) ∧
      ¬ Safe (run o { nthreads := 2 } sched) (.access 1) := by decide

/-- non-vacuity: contention, a failed attempt, hand-over -/
example : Run { xchg := .acquire, unl := .release } { nthreads := 3 }
    [.attempt 0, .attempt 1, .access 0, .access 0, .unlock 0, .attempt 2, .attempt 1, .access 2, .unlock 2, .attempt 1, .access 1] := by
  decide

end Spin
