import QuillModel.Backend.FlushProgress
import QuillModel.Backend.ResumeProgress
import QuillModel.Backend.PubInv
import QuillModel.Backend.FlushContract
import QuillModel.Props.C05
import QuillModel.Props.C17
/-!
# C06 — `flush_log()` returns only after all earlier statements are written and flushed

Property theorems only (the flush invariant `FI`, its preservation by every frontend operation and by the backend
under arbitrary injections, and the step lemmas are in `Backend/Flush*.lean`; the ordering invariant of C05 is
reused for the statements about other threads).

How the model renders the property: `flush_log` commits a Flush record (`Kind.flush f`, `f` the caller's fresh
flag number) to the caller's own queue and parks the caller on `Pend.flag f`; `resume` releases the caller exactly
when `f ∈ flags` (`C06_release`). So "when `flush_log()` returns" is "once `f ∈ flags`". A popped log record is
handed to its sinks in the very step that pops it (`processEvent`), hence "written" is "in `popped`".

Quantifiers: every initial state without threads (`StartF`), **every configuration** (queue type, capacity, limits,
grace period incl. 0 — except where a theorem names the C05 hypotheses), **every schedule** `ops : List Op`
(threads starting and exiting, first-time loggers, stalls, blocked and retried calls, polls with arbitrary frontend
operations injected at every hook site, the exit drain), every sink fault schedule (`Sink.wthrow`/`fthrow`).
-/
namespace Backend
open Backend.PB

/-- **Per-thread FIFO / conservation.** In every reachable state, what a context's queue ever accepted is exactly
    what has been popped from its transit buffer, followed by the buffer, followed by the queue — in this order. -/
theorem C06_conservation (s0 : BSt) (h0 : StartF s0) (ops : List Op) (i : Nat) :
    ((runOps s0 ops).th i).accepted =
      ((runOps s0 ops).th i).popped ++ ((runOps s0 ops).th i).buf ++ ((runOps s0 ops).th i).qStmts :=
  ((start_FI h0).runOps ops).cons i

/-- **A flag is raised only after its event was processed.** Every raised flag is the flag of a Flush statement
    that has been *popped* from its thread's transit buffer, or of a removal request (C17's business). -/
theorem C06_flag_only_after_pop (s0 : BSt) (h0 : StartF s0) (ops : List Op) (f : Nat) (hf : f ∈ (runOps s0 ops).flags) :
    (∃ i, ∃ st ∈ ((runOps s0 ops).th i).popped, st.kind = .flush f) ∨
    (∃ i, ∃ st ∈ ((runOps s0 ops).th i).accepted, st.kind = .removal f) :=
  ((start_FI h0).runOps ops).flg f hf

/-- **Flag numbers identify their request.** Two accepted records (of any contexts) that carry the same flag
    number are the same record of the same context — a caller can only be released by *its own* Flush event. -/
theorem C06_flag_numbers_unique (s0 : BSt) (h0 : StartF s0) (ops : List Op) (i j : Nat) (st st' : Stmt) (f : Nat)
    (h1 : st ∈ ((runOps s0 ops).th i).accepted) (h2 : st' ∈ ((runOps s0 ops).th j).accepted)
    (f1 : flagOf st = some f) (f2 : flagOf st' = some f) : i = j ∧ st = st' :=
  ((start_FI h0).runOps ops).flag_unique h1 h2 f1 f2

/-- **C06, own statements.** For every schedule: if the flag of a Flush statement `st` of context `i` has been raised
    (so the `flush_log()` that issued it can return), then `st` has been popped and **every record the caller's
    thread accepted before it was popped before it** (`pre` is everything accepted earlier; the pop history of the
    context starts with `pre ++ [st]`) — each of them was dispatched to its sinks when popped, and
    `C06_flush_step` shows that every active sink was flushed between the pop of `st`'s predecessors and the raise. -/
theorem C06_own_statements_first (s0 : BSt) (h0 : StartF s0) (ops : List Op) (i : Nat) (pre post : List Stmt)
    (st : Stmt) (f : Nat) (hacc : ((runOps s0 ops).th i).accepted = pre ++ st :: post) (hk : st.kind = .flush f)
    (hf : f ∈ (runOps s0 ops).flags) : ∃ more, ((runOps s0 ops).th i).popped = pre ++ st :: more :=
  ((start_FI h0).runOps ops).flush_flag_popped hacc hk hf

/-- **C06, the Flush step.** In any state `s`, for any injection table of the surrounding poll: when
    `_process_lowest_timestamp_transit_event` finds a Flush event `st` (flag `f`) as the minimum front, it
    succeeds, the new log is `mid ++ blk ++ s.log` where `blk` — emitted by `_flush_and_run_active_sinks` *before*
    anything else — contains a `flushed` (or, for a throwing sink, `fthrow`) event for **every active sink** and
    nothing but such events and their failure notifications, and only after that (`mid`: failure-counter reports,
    frontend operations injected meanwhile) is the flag raised: it is the newest flag and `flagLog` records the
    length of the whole log at that moment. A throwing `flush_sink` does not prevent the other sinks from being
    flushed nor the flag from being raised. -/
theorem C06_flush_step (table : List (Nat × Nat × List FOp)) (s : BSt) (j : Nat) (st : Stmt) (rest : List Stmt)
    (f : Nat) (hl : lowest s = some j) (hb : (s.th j).buf = st :: rest) (hk : st.kind = .flush f) :
    (processLowest (runInj table) s).2 = true ∧
    (processLowest (runInj table) s).1.flags.head? = some f ∧
    (processLowest (runInj table) s).1.flagLog.head? = some (f, (processLowest (runInj table) s).1.log.length) ∧
    ∃ mid blk, (processLowest (runInj table) s).1.log = mid ++ blk ++ s.log ∧
      (∀ sid ∈ activeSinks s, Ev.flushed sid ∈ blk ∨ Ev.fthrow sid ∈ blk) ∧
      (∀ e ∈ blk, (∃ sid, e = Ev.flushed sid ∨ e = Ev.fthrow sid) ∨ e = Ev.notify "n:ffail") :=
  flush_step (runInj table) (logGrows_runInj table) s j st rest f hl hb hk

/-- **C06, other threads (ordering enabled).** Under the hypotheses of C05 (non-zero grace period, cache refreshed
    after `ts_now`, every accepted record within the grace premise): once the flag of a Flush statement `st` is
    raised, **every record accepted by any context of any thread** with a timestamp **strictly smaller** than `st`'s
    has been popped, i.e. written (and, by `C06_flush_step`, every active sink was flushed after that and before the
    raise). A log call that completed before `flush_log()` began has such a timestamp unless the two clock reads
    coincide (ties are broken by cache position in `lowest` and are not claimed). -/
theorem C06_other_threads (s0 : BSt) (h0 : StartF s0) (hg : s0.cfg.grace ≠ 0) (hr : s0.cfg.refreshAfterSample = true)
    (ops : List Op) (hp : GracePremise (runOps s0 ops)) (i : Nat) (st : Stmt) (f : Nat)
    (hst : st ∈ ((runOps s0 ops).th i).accepted) (hk : st.kind = .flush f) (hf : f ∈ (runOps s0 ops).flags)
    (k : Nat) (r : Stmt) (hrk : r ∈ ((runOps s0 ops).th k).accepted)
    (hlt : r.ts < st.ts) : r ∈ ((runOps s0 ops).th k).popped := by
  have hF := (start_FI h0).runOps ops
  have hG := (start_GI h0.start).runOps ops
  have hc := (start_GI h0.start).cfg_runOps ops
  obtain ⟨pre, post, hacc⟩ := List.append_of_mem hst
  obtain ⟨more, hpop⟩ := hF.flush_flag_popped hacc hk hf
  have hsp : st ∈ ((runOps s0 ops).th i).popped := by rw [hpop]; simp
  exact earlier_popped hF hG (by rw [hc]; exact hg) (by rw [hc]; exact hr) hp hsp hrk hlt

/-- **The flush request is never dropped and never counted** (dropping *and* blocking queues). `enqFlow … 1 …` is the
    body of `flush_log` after the timestamp was read (first attempt, resumption after a stall, every retry). With
    `e := ensureCtx s a` (the caller's context) and the reservation attempt `tryEnq e.1 e.2 st`:
    granted ⇒ the record is committed and the caller waits on its flag; refused ⇒ the caller is parked on
    `Pend.retry st 1` — the same request with the same flag, to be tried again (`resume`), it does **not** return;
    and in both cases no `fail` / `discarded` / `blockedCalls` counter of any context changes. -/
theorem C06_flush_never_dropped (s : BSt) (a : Nat) (st : Stmt) (f : Nat) (first initial : Bool) (x : Actor)
    (hx : s.actor a = some x) (hk : st.kind = .flush f) :
    ((tryEnq (ensureCtx s a).1 (ensureCtx s a).2 st).2 = true →
        pendOf (enqFlow s a st 1 first initial).1 a = some (.flag f)) ∧
    ((tryEnq (ensureCtx s a).1 (ensureCtx s a).2 st).2 = false →
        pendOf (enqFlow s a st 1 first initial).1 a = some (.retry st 1)) ∧
    (∀ i, Cnt ((enqFlow s a st 1 first initial).1.th i) = Cnt (s.th i)) :=
  flush_enq_outcome s a st f first initial x hx hk

/-- **Release.** A caller parked on flag `f` is released by `resume` (returns "done", nothing parked) iff `f` has
    been raised; otherwise nothing changes and it keeps waiting. -/
theorem C06_release (s : BSt) (a : Nat) (x : Actor) (f : Nat) (hx : s.actor a = some x) (hp : x.pend = .flag f) :
    (f ∈ s.flags → pendOf (resume s a).1 a = some .none ∧ (resume s a).2 = "done") ∧
    (f ∉ s.flags → (resume s a).1 = s ∧ (resume s a).2 = "parked:sleep") :=
  resume_flag s a x f hx hp

/-! ### progress: `flush_log()` returns as long as the backend keeps running

Two cases. The Flush request has been committed to the caller's queue (the caller waits on its flag):
`C06_flush_log_returns_committed`. The request was refused by a full queue and the caller is still in its retry loop
(`Pend.retry`): `C06_flush_log_returns` — the backend drains the queue and publishes the reader position (the
end-to-end form of C09, `Backend/ResumeProgress.lean`), the retry is granted, and the first case applies. -/

/-- **`flush_log()` returns, committed request.** In any reachable state of any configuration in which the backend
    thread is running, let `st` be a committed Flush request (flag `f`) and let every pending record be past its
    grace period (`Ripe`; automatic when ordering is disabled, and established by letting the clock advance by the
    grace period: next theorem). Then **every continuation of the schedule that consists of polls without injected
    frontend operations and of clock ticks, and contains at least as many polls as there are pending records
    (`pendingCount`: accepted and not yet popped, over all contexts), ends with the flag raised** — for every soft
    and hard limit (single-event mode and batch mode), queue capacity, either refresh order. The parked caller's next
    `resume` then answers "done" (`C06_release`). Every such poll pops at least one event while anything is pending
    (`PB.poll_quiet`): nothing starves. -/
theorem C06_flush_log_returns_committed (s0 : BSt) (h0 : StartF s0) (ops : List Op) (i : Nat) (st : Stmt) (f : Nat)
    (hst : st ∈ ((runOps s0 ops).th i).accepted) (hk : st.kind = .flush f)
    (hrun : (runOps s0 ops).backendGone = false) (hripe : Ripe (runOps s0 ops))
    (suffix : List Op) (hq : ∀ o ∈ suffix, quietOp o = true)
    (hn : pendingCount (runOps s0 ops) ≤ pollCount suffix) :
    f ∈ (runOps (runOps s0 ops) suffix).flags ∧
    ∀ a x, (runOps (runOps s0 ops) suffix).actor a = some x → x.pend = .flag f →
      (resume (runOps (runOps s0 ops) suffix) a).2 = "done" := by
  have hpg : PG (runOps s0 ops) :=
    ⟨(start_GI h0.start).runOps ops, (start_FI h0).runOps ops, hripe, hrun⟩
  have hf := quiet_run_drains hpg suffix hq hn i st f hst hk
  exact ⟨hf, fun a x hx hp => ((resume_flag _ a x f hx hp).1 hf).2⟩

/-- the same with the premise on the clock made operational: the continuation starts with the clock advancing by at
    least the grace period (any amount when ordering is disabled) -/
theorem C06_flush_log_returns_committed_after_grace (s0 : BSt) (h0 : StartF s0) (ops : List Op) (i : Nat) (st : Stmt)
    (f : Nat) (hst : st ∈ ((runOps s0 ops).th i).accepted) (hk : st.kind = .flush f)
    (hrun : (runOps s0 ops).backendGone = false) (dt : Nat) (hdt : (runOps s0 ops).cfg.grace ≤ dt)
    (suffix : List Op) (hq : ∀ o ∈ suffix, quietOp o = true)
    (hn : pendingCount (runOps s0 ops) ≤ pollCount suffix) :
    f ∈ (runOps (runOps s0 ops) (.front (.tick dt) :: suffix)).flags := by
  have hgi := (start_GI h0.start).runOps ops
  have hfi := (start_FI h0).runOps ops
  have hpg : PG (applyOp (runOps s0 ops) (.front (.tick dt))).1 :=
    ⟨hgi.applyOp _, hfi.applyOp _, ripe_after_tick hgi dt hdt, hrun⟩
  have e : runOps (runOps s0 ops) (.front (.tick dt) :: suffix) =
      runOps (applyOp (runOps s0 ops) (.front (.tick dt))).1 suffix := by simp [runOps]
  rw [e]
  exact quiet_run_drains hpg suffix hq hn i st f hst hk

/-- **`flush_log()` returns as long as the backend keeps running** (the caller still in its retry loop). Any
    configuration whose queue publishes on drain (`qp.drainPublish`, extracted), either queue type; after **any**
    schedule `pre` actor `a` is parked on the retry of a refused Flush request `st` (flag `f`) that fits an empty
    queue, and the backend is running (that the reader position is published once the queue is drained, whatever
    `pre` did, is `C09_reads_committed`). Continuation:
    `tick dt₁ (≥ grace)`, quiet polls/ticks with at least `pendingCount` polls, **`resume a`**,
    `tick dt₂ (≥ grace)`, quiet polls/ticks with at least one poll. Then the first `resume` commits the request (the
    caller now waits on flag `f`), the flag is raised at the end, and the caller's next `resume` answers "done":
    the call returns. -/
theorem C06_flush_log_returns (s0 : BSt) (h0 : StartF s0) (pre : List Op) (a : Nat) (x : Actor) (st : Stmt) (f : Nat)
    (hdp : s0.cfg.qp.drainPublish = true) (hx : (runOps s0 pre).actor a = some x) (hp : x.pend = .retry st 1)
    (hk : st.kind = .flush f) (hsz : st.size ≤ s0.cfg.qcap)
    (hrun : (runOps s0 pre).backendGone = false)
    (dt1 : Nat) (hdt1 : s0.cfg.grace ≤ dt1) (q1 : List Op) (hq1 : ∀ o ∈ q1, quietOp o = true)
    (hn1 : pendingCount (runOps s0 pre) ≤ pollCount q1)
    (dt2 : Nat) (hdt2 : s0.cfg.grace ≤ dt2) (q2 : List Op) (hq2 : ∀ o ∈ q2, quietOp o = true) (hn2 : 1 ≤ pollCount q2) :
    pendOf (runOps s0 (pre ++ (.front (.tick dt1) :: q1) ++ [.front (.resume a)])) a = some (.flag f) ∧
    f ∈ (runOps s0 (pre ++ (.front (.tick dt1) :: q1) ++ [.front (.resume a)] ++ (.front (.tick dt2) :: q2))).flags ∧
    (applyOp (runOps s0 (pre ++ (.front (.tick dt1) :: q1) ++ [.front (.resume a)] ++ (.front (.tick dt2) :: q2)))
      (.front (.resume a))).2 = "done" := by
  have hgi := (start_GI h0.start).runOps pre
  have hfi := (start_FI h0).runOps pre
  have hcfg := (start_GI h0.start).cfg_runOps pre
  have h := flush_retry_returns hgi hfi hrun (by rw [hcfg]; exact hdp) a x st f hx hp hk (by rw [hcfg]; exact hsz)
    (fun i _ => readsCommitted_runOps h0.start hdp pre i)
    dt1 (by rw [hcfg]; exact hdt1) q1 hq1 hn1 dt2 (by rw [hcfg]; exact hdt2) q2 hq2 hn2
  have e1 : runOps s0 (pre ++ (.front (.tick dt1) :: q1) ++ [.front (.resume a)]) =
      (applyOp (runOps (runOps s0 pre) (.front (.tick dt1) :: q1)) (.front (.resume a))).1 := by
    simp [runOps, List.foldl_append]
  have e2 : runOps s0 (pre ++ (.front (.tick dt1) :: q1) ++ [.front (.resume a)] ++ (.front (.tick dt2) :: q2)) =
      runOps (applyOp (runOps (runOps s0 pre) (.front (.tick dt1) :: q1)) (.front (.resume a))).1 (.front (.tick dt2) :: q2) := by
    simp [runOps, List.foldl_append]
  rw [e1, e2]
  exact h

/-! ### the contract over positions of the event history

`log` is the history of sink calls (newest first). `isWr sid e` / `isFl sid e`: `e` is a `write_log` / a `flush_sink`
(completed: `flushed`, or throwing: `fthrow`) of sink `sid`. `PA.ordWrite sid id e`: `e` is the write of the ordinary
statement `id` to `sid` (not a backtrace replay). `flagLog` holds `(flag, length of log when it was raised)`. -/

/-- every system that is fresh in the sense of the three proof bundles, with no flag logged and the F12 repair in
    force, is a start state of the contract -/
theorem C06_startC (s : BSt) (ha : PA.Fresh s) (hc : LoggerFresh s) (hf : StartF s) (h1 : s.flagLog = [])
    (h2 : s.cfg.flushInvalidatedLoggers = true)
    (h3 : s.cfg.flushInterval = 0 ∨ s.cfg.flushBeforeLoggerErase = true) : StartC s := ⟨ha, hc.inv, hf, h1, h2, h3⟩

/-- **C06, the contract of `flush_log()`.** For every schedule from a fresh system, **every `sink_min_flush_interval`**
    (`StartC`: the flush covers loggers marked invalid — F12 repaired —, and either the interval is 0 or the logger
    clean-up flushes before it erases — F33 repaired; `C06_erased_logger_sink_never_flushed_unrepaired` shows the schedule
    that breaks the contract otherwise). The proof does not use the idle-branch flush at all when the interval is not 0
    (`CI.flushGate` only keeps the invariant there): the third clause follows from the Flush event's own
    `_flush_and_run_active_sinks(false, 0)` (`C06_flush_step`) and from "a sink with unflushed output is reachable through a
    logger that is not erased" (`C06_erased_logger_sinks_flushed`). Let `st` be a Flush request of context `i` (everything the calling thread logged
    before it is `pre`), whose flag `f` is raised — `flush_log()` can return. Then `flagLog` holds the position `n` of
    the raise, and with `raised` = the history as it was at that moment (the oldest `n` events) and `later` = what came
    after:
    * the requests before it were processed first: the pop history of the context starts with `pre ++ [st]` (each
      ordinary statement of `pre` was handed to its accepting sinks in the step that popped it: `C03_pop_emits_dispatch`,
      `C03_dispatch_exact`);
    * **none of their writes comes after the raise**: no ordinary write of a statement of `pre` is in `later` — they are
      all in `raised`;
    * **every write in `raised` — of every thread, every logger — is followed, still inside `raised`, by a flush of
      its sink** (a completed `flush_sink`, or one that threw: the failure is reported, C10).
    So when `flush_log()` returns, every statement the caller logged before has been written to each of its accepting
    sinks and each of these sinks has been flushed since. -/
theorem C06_flush_log_contract (s0 : BSt) (h0 : StartC s0) (ops : List Op) (i : Nat) (pre post : List Stmt) (st : Stmt)
    (f : Nat) (hacc : ((runOps s0 ops).th i).accepted = pre ++ st :: post) (hk : st.kind = .flush f)
    (hf : f ∈ (runOps s0 ops).flags) :
    ∃ n, (f, n) ∈ (runOps s0 ops).flagLog ∧ n ≤ (runOps s0 ops).log.length ∧
      (∃ more, ((runOps s0 ops).th i).popped = pre ++ st :: more) ∧
      (∀ r ∈ pre, PA.isOrd r = true → ∀ e ∈ (runOps s0 ops).log.take ((runOps s0 ops).log.length - n),
        ∀ sid, PA.ordWrite sid r.id e = false) ∧
      (∀ a e b sid, (runOps s0 ops).log.drop ((runOps s0 ops).log.length - n) = a ++ e :: b → isWr sid e = true →
        ∃ x ∈ a, isFl sid x = true) := by
  have hT := (start_TI h0).runOps ops
  obtain ⟨pf, hF⟩ := hT.x.f
  obtain ⟨n, hn⟩ := hT.c.fl3 f hf
  obtain ⟨h1, h2⟩ := hT.c.fl1 (f, n) hn
  obtain ⟨more, hpop⟩ := hF.flush_flag_popped hacc hk hf
  refine ⟨n, hn, h1, ⟨more, hpop⟩, ?_, ?_⟩
  · intro r hr ho e he sid
    have := hT.c.wr (f, n) hn i pre st more hpop hk r hr ho sid
    unfold PA.wcount at this
    rw [List.countP_eq_zero] at this
    simpa using this e he
  · intro a e b sid hsplit hw
    have := h2 sid
    rw [hsplit] at this
    exact unfl_false_split sid a b e this hw

/-- in particular: in every reachable state, for every raised flag, no sink was left with unflushed output at the
    moment of the raise — whoever wrote to it -/
theorem C06_nothing_unflushed_at_raise (s0 : BSt) (h0 : StartC s0) (ops : List Op) (f n : Nat)
    (hn : (f, n) ∈ (runOps s0 ops).flagLog) (sid : Nat) :
    n ≤ (runOps s0 ops).log.length ∧ unfl sid ((runOps s0 ops).log.drop ((runOps s0 ops).log.length - n)) = false :=
  ⟨(((start_TI h0).runOps ops).c.fl1 (f, n) hn).1, (((start_TI h0).runOps ops).c.fl1 (f, n) hn).2 sid⟩

/-- **F33, the repaired clean-up: a logger is erased only with its sinks flushed.** In every reachable state (every
    schedule, every interval — under `StartC`: interval 0 or `flushBeforeLoggerErase`), a sink that is no longer reachable
    through any logger that is not erased holds no unflushed output: every write to it in the history — by whatever
    thread, through whatever logger, however long ago — is followed by a flush of that sink (completed, or thrown and
    reported). In particular right after `_cleanup_invalidated_loggers` erased the last logger that held the sink: the
    flush at the head of the clean-up (or, with interval 0, of the idle pass) came after the last write. -/
theorem C06_erased_logger_sinks_flushed (s0 : BSt) (h0 : StartC s0) (ops : List Op) (sid : Nat)
    (hall : ∀ i, sid ∈ ((runOps s0 ops).lgOf i).sinks → ((runOps s0 ops).lgOf i).erased = true) :
    unfl sid (runOps s0 ops).log = false ∧
    ∀ a e b, (runOps s0 ops).log = a ++ e :: b → isWr sid e = true → ∃ x ∈ a, isFl sid x = true := by
  have hT := (start_TI h0).runOps ops
  have hu : unfl sid (runOps s0 ops).log = false := by
    cases hx : unfl sid (runOps s0 ops).log with
    | false => rfl
    | true =>
      obtain ⟨i, he, hs⟩ := hT.c.act sid hx
      rw [hall i hs] at he; cases he
  refine ⟨hu, fun a e b hsplit hw => ?_⟩
  rw [hsplit] at hu
  exact unfl_false_split sid a b e hu hw

/-- the same as a statement about reachability: whatever a sink holds unflushed, a later Flush event / idle flush /
    exit flush will reach it — it is a sink of a logger that is not erased (so `activeSinks` lists it, F12) -/
theorem C06_unflushed_sink_reachable (s0 : BSt) (h0 : StartC s0) (ops : List Op) (sid : Nat)
    (hu : unfl sid (runOps s0 ops).log = true) :
    ∃ i, ((runOps s0 ops).lgOf i).erased = false ∧ sid ∈ ((runOps s0 ops).lgOf i).sinks ∧ sid ∈ activeSinks (runOps s0 ops) := by
  have hT := (start_TI h0).runOps ops
  obtain ⟨i, he, hs⟩ := hT.c.act sid hu
  exact ⟨i, he, hs, mem_activeSinks_of hT.c.cfgF he hs⟩

/-! ### witnesses -/

theorem c05Init_startF (b : Bool) : StartF (c05Init b) := ⟨c05Init_start b, rfl, rfl⟩

/-- one thread: two statements, `flush_log`, three polls (soft limit 4 ⇒ one event per poll), resumes in between -/
def c06Cycle : List Op :=
  [ .front (.tstart 1), .front (.log 1 0 4 10 true), .front (.log 1 0 4 10 true), .front (.flush 1 0),
    .front (.tick 100), .poll [], .front (.resume 1), .poll [], .front (.resume 1), .poll [], .front (.resume 1) ]

/-- non-vacuity: the caller is still parked after two polls (both statements written, Flush event not yet processed),
    and is released after the third: flag 0 raised when the log held the two writes and the flush of sink 0. -/
example :
    (runOps (c05Init true) (c06Cycle.take 9)).flags = [] ∧
    (runOps (c05Init true) (c06Cycle.take 9)).actors.map (fun x => x.pend matches .flag 0) = [true] ∧
    (runOps (c05Init true) c06Cycle).flags = [0] ∧ (runOps (c05Init true) c06Cycle).flagLog = [(0, 3)] ∧
    (runOps (c05Init true) c06Cycle).actors.map (fun x => x.pend matches .none) = [true] ∧
    (runOps (c05Init true) c06Cycle).ths.map (fun t => (t.accepted.length, t.popped.length)) = [(3, 3)] := by
  decide

/-- non-vacuity of `C06_flush_log_returns_committed_after_grace`: after the two statements and the Flush request are
    committed (three pending records), the continuation "clock + 100, three polls" meets the hypotheses. -/
example :
    (runOps (c05Init true) (c06Cycle.take 4)).backendGone = false ∧
    (runOps (c05Init true) (c06Cycle.take 4)).cfg.grace ≤ 100 ∧
    (∀ o ∈ [Op.poll [], Op.poll [], Op.poll []], quietOp o = true) ∧
    pendingCount (runOps (c05Init true) (c06Cycle.take 4)) ≤ pollCount [Op.poll [], Op.poll [], Op.poll []] ∧
    (runOps (c05Init true) (c06Cycle.take 4)).ths.map (fun t => t.accepted.map (fun st => st.kind matches .flush 0)) =
      [[false, false, true]] ∧
    (runOps (runOps (c05Init true) (c06Cycle.take 4)) (.front (.tick 100) :: [Op.poll [], Op.poll [], Op.poll []])).flags = [0] := by
  decide

/-- F6 window: inside the backend's clock read of a poll, thread 2 registers and completes a log call (@1100), then
    thread 1 calls `flush_log` (@1101); time passes. -/
def c06Window : List Op :=
  [ .front (.tstart 1), .front (.tstart 2), .front (.log 1 0 4 10 true), .front (.tick 100), .poll [],
    .poll [(7, 1, [.log 2 0 4 10 true, .tick 1, .flush 1 0, .tick 99])], .front (.resume 1) ]

/-- **The pinned order breaks C06 for other threads (F6).** With `refreshAfterSample = false` the flush flag is
    raised and `flush_log()` returns while the statement thread 2 completed *before* the flush call began (timestamp
    1100 < 1101, within the premise, context registered) has not been written. -/
theorem C06_pinned_order_violates :
    GracePremise (runOps (c05Init false) c06Window) ∧ (runOps (c05Init false) c06Window).flags = [0] ∧
    (runOps (c05Init false) c06Window).actors.map (fun x => x.pend matches .none) = [true, true] ∧
    (runOps (c05Init false) c06Window).registry = [0, 1] ∧
    (runOps (c05Init false) c06Window).ths.map (fun t => (t.accepted.map (·.ts), t.popped.map (·.ts))) =
      [([1000, 1101], [1000, 1101]), ([1100], [])] := by
  decide

/-- the same window under the repaired order: the flag is not raised before thread 2's statement is written -/
example :
    (runOps (c05Init true) c06Window).flags = [] ∧
    (runOps (c05Init true) c06Window).ths.map (fun t => (t.accepted.map (·.ts), t.popped.map (·.ts))) =
      [([1000, 1101], [1000]), ([1100], [1100])] := by
  decide

/-- two sinks, two loggers (logger 0 → sink 0, logger 1 → sink 1), ordering disabled -/
def c06TwoCfg : Cfg := { c05Cfg true with grace := 0 }
def c06TwoInit : BSt :=
  { cfg := c06TwoCfg, now := 1000, sinks := [{ sid := 0 }, { sid := 1 }],
    lgs := [{ gid := 0, sinks := [0], level := 0 }, { gid := 1, sinks := [1], level := 0 }],
    names := [(0, 0), (1, 1)] }

/-- thread 1 logs through logger 0, calls `remove_logger(0)` (asynchronous removal: the logger is only marked
    invalid), then `flush_log()` through logger 1 -/
def c06Removed : List Op :=
  [ .front (.tstart 1), .front (.log 1 0 4 10 true), .front (.remove 1 0), .front (.flush 1 1),
    .poll [], .poll [], .front (.resume 1) ]

/-- writes and flushes of the event log, oldest first: `(0, sink)` = write, `(1, sink)` = flushed -/
def c06Code : Ev → Option (Nat × Nat)
  | .write sink _ _ _ _ => some (0, sink)
  | .flushed sink => some (1, sink)
  | _ => none

/-- the same machine with the `is_valid_logger()` filter of `_flush_and_run_active_sinks` still in place (before the repair
    of F12) -/
def c06TwoInitOld : BSt := { c06TwoInit with cfg := { c06TwoCfg with flushInvalidatedLoggers := false } }

/-- **F12 on the model, before the repair.** With the filter, `C06_flush_step` flushes only the sinks of loggers that are
    still valid: a statement logged through a logger that was removed (asynchronously) before the flush is written to
    that logger's sink but the sink is **not flushed** when `flush_log()` returns — the log is
    `write sink 0, flushed sink 1`, the flag is raised and the caller released. -/
theorem C06_removed_logger_sink_not_flushed_unrepaired :
    (runOps c06TwoInitOld c06Removed).flags = [0] ∧
    (runOps c06TwoInitOld c06Removed).actors.map (fun x => x.pend matches .none) = [true] ∧
    (runOps c06TwoInitOld c06Removed).log.reverse.filterMap c06Code = [(0, 0), (1, 1)] := by
  decide

/-- **F12 repaired** (`flushInvalidatedLoggers`, extracted as `flushOnlyValidLoggers = false`): the sink of the logger that
    is marked for removal is flushed too before the flag is raised. -/
theorem C06_removed_logger_sink_flushed :
    (runOps c06TwoInit c06Removed).flags = [0] ∧
    (runOps c06TwoInit c06Removed).actors.map (fun x => x.pend matches .none) = [true] ∧
    (runOps c06TwoInit c06Removed).log.reverse.filterMap c06Code = [(0, 0), (1, 0), (1, 1)] := by
  decide

/-- F33 schedule: thread 1 logs through logger 0 (sink 0, also held by the user), `remove_logger(0)`; the backend writes
    the statement (first poll) and erases logger 0 in the idle branch of the second; then `flush_log()` through logger 1 -/
def c06Erased : List Op :=
  [ .front (.tstart 1), .front (.log 1 0 4 10 true), .front (.remove 1 0), .poll [], .poll [],
    .front (.flush 1 1), .poll [], .front (.resume 1) ]

/-- a non-zero `sink_min_flush_interval` (10 ms), last flush at the start time: the interval never elapses in the schedule -/
def c06IntervalInit (repaired : Bool) : BSt :=
  { c06TwoInit with cfg := { c06TwoCfg with flushInterval := 10000000, flushBeforeLoggerErase := repaired }, lastFlush := 1000 }

/-- **F33 on the model, before the repair.** With a non-zero interval and no flush at the head of the logger clean-up, the
    logger is erased while its sink holds the statement unflushed; the later Flush event reaches only sink 1: the flag is
    raised, `flush_log()` returns, the history is `write sink 0, flushed sink 1` — sink 0 is never flushed (and the two
    loggers' worth of state confirms logger 0 is erased). -/
theorem C06_erased_logger_sink_never_flushed_unrepaired :
    (runOps (c06IntervalInit false) c06Erased).flags = [0] ∧
    (runOps (c06IntervalInit false) c06Erased).actors.map (fun x => x.pend matches .none) = [true] ∧
    (runOps (c06IntervalInit false) c06Erased).lgs.map (·.erased) = [true, false] ∧
    (runOps (c06IntervalInit false) c06Erased).log.reverse.filterMap c06Code = [(0, 0), (1, 1)] ∧
    unfl 0 (runOps (c06IntervalInit false) c06Erased).log = true := by
  decide

/-- **F33 repaired** (`flushBeforeLoggerErase`, extracted): the clean-up flushes both sinks before it erases logger 0 -/
theorem C06_erased_logger_sink_flushed :
    (runOps (c06IntervalInit true) c06Erased).flags = [0] ∧
    (runOps (c06IntervalInit true) c06Erased).lgs.map (·.erased) = [true, false] ∧
    (runOps (c06IntervalInit true) c06Erased).log.reverse.filterMap c06Code = [(0, 0), (1, 0), (1, 1), (1, 1)] ∧
    unfl 0 (runOps (c06IntervalInit true) c06Erased).log = false := by
  decide

/-- with interval 0 the unrepaired clean-up is harmless: the idle pass that erases has just flushed -/
example :
    (runOps { c06TwoInit with cfg := { c06TwoCfg with flushBeforeLoggerErase := false } } c06Erased).log.reverse.filterMap c06Code =
      [(0, 0), (1, 0), (1, 1), (1, 1)] := by
  decide

/-- the gate itself: interval 10 ms, last flush at 1000; an idle poll at 1000 + 10 ms does not flush (`>` is strict),
    one nanosecond later it does and records the time; the Flush event and the exit drain flush regardless -/
example :
    (runOps (c06IntervalInit true) [.front (.tick 10000000), .poll []]).log = [] ∧
    (runOps (c06IntervalInit true) [.front (.tick 10000001), .poll []]).log.reverse.filterMap c06Code = [(1, 0), (1, 1)] ∧
    (runOps (c06IntervalInit true) [.front (.tick 10000001), .poll []]).lastFlush = 10001001 ∧
    (runOps (c06IntervalInit true) [.exit]).log.reverse.filterMap c06Code = [(1, 0), (1, 1)] := by
  decide

/-- a dropping queue of 64 bytes: the Flush request (40 bytes) does not fit behind a 47-byte statement -/
def c06DropCfg : Cfg := { c05Cfg true with dropping := true, qcap := 64, grace := 0 }
def c06DropInit : BSt := { c05Init true with cfg := c06DropCfg }
def c06Drop : List Op :=
  [ .front (.tstart 1), .front (.log 1 0 4 10 true), .front (.flush 1 0), .poll [], .front (.resume 1),
    .poll [], .front (.resume 1) ]

/-- non-vacuity of `C06_flush_never_dropped` on a *dropping* queue: the refused request is parked for a retry with
    nothing counted; after the backend has read the queue the retry commits it, it is processed, the caller released. -/
example :
    (runOps c06DropInit (c06Drop.take 3)).ths.map (fun t => (t.accepted.length, t.fail, t.discarded)) = [(1, 0, 0)] ∧
    (runOps c06DropInit (c06Drop.take 3)).actors.map (fun x => x.pend matches .retry _ 1) = [true] ∧
    (runOps c06DropInit c06Drop).flags = [0] ∧
    (runOps c06DropInit c06Drop).ths.map (fun t => (t.accepted.length, t.popped.length, t.fail, t.discarded)) = [(2, 2, 0, 0)] ∧
    (runOps c06DropInit c06Drop).actors.map (fun x => x.pend matches .none) = [true] := by
  decide

/-- non-vacuity of `C06_flush_log_returns`: on the 64-byte queue the Flush request (40 bytes ≤ 64) is refused behind the
    47-byte statement and the caller is parked on its retry (continuation 1, context 0); the context still holds the
    unread statement, the backend runs, one record is pending. The continuation
    `tick 0, poll, resume 1, tick 0, poll` meets the hypotheses, and — as the theorem says — the flag is raised and
    the caller's next `resume` answers "done". -/
example :
    StartF c06DropInit ∧ c06DropInit.cfg.qp.drainPublish = true ∧
    ((runOps c06DropInit (c06Drop.take 3)).actor 1).map (fun x => (x.pend matches .retry _ 1, x.ctx)) = some (true, some 0) ∧
    ((runOps c06DropInit (c06Drop.take 3)).actor 1).map
      (fun x => match x.pend with | .retry st _ => (st.kind, st.size) | _ => (.log, 0)) = some (.flush 0, 40) ∧
    ¬ ((runOps c06DropInit (c06Drop.take 3)).th 0).qStmts = [] ∧
    (runOps c06DropInit (c06Drop.take 3)).backendGone = false ∧
    pendingCount (runOps c06DropInit (c06Drop.take 3)) ≤ pollCount [.poll []] ∧
    (runOps c06DropInit (c06Drop.take 3 ++ [.front (.tick 0), .poll []] ++ [.front (.resume 1)] ++
      [.front (.tick 0), .poll []])).flags = [0] ∧
    (applyOp (runOps c06DropInit (c06Drop.take 3 ++ [.front (.tick 0), .poll []] ++ [.front (.resume 1)] ++
      [.front (.tick 0), .poll []])) (.front (.resume 1))).2 = "done" := by
  refine ⟨⟨⟨by show 0 < 32; decide, rfl, rfl, rfl, rfl, rfl⟩, rfl, rfl⟩, ?_⟩
  decide

theorem c05Init_startC : StartC (c05Init true) := by
  refine C06_startC _ ⟨by decide, rfl, rfl, rfl, rfl, fun i => ?_⟩ ?_ (c05Init_startF true) rfl rfl (Or.inl rfl)
  · cases i with
    | zero => rfl
    | succ j => rw [PA.lgOf_default_of_ge _ _ (by simp [c05Init])]; rfl
  · refine ⟨⟨rfl, rfl, rfl, rfl, rfl, rfl, by decide⟩, ?_, by decide, ?_, ?_, rfl⟩
    · intro p hp
      have : p = (0, 0) := by simpa [c05Init] using hp
      subst this; exact ⟨by decide, rfl⟩
    · intro k hk
      have : k = { sid := 0 } := by simpa [c05Init] using hk
      subst this; rfl
    · intro l hl
      have : l = { gid := 0, sinks := [0], level := 0 } := by simpa [c05Init] using hl
      subst this; rfl

/-- non-vacuity of `C06_flush_log_contract` on the flush cycle: the hypotheses hold with `pre` = the two statements, and
    the history is "write, write, flush of sink 0", the flag raised at position 3 -/
example :
    (runOps (c05Init true) c06Cycle).flags = [0] ∧ (runOps (c05Init true) c06Cycle).flagLog = [(0, 3)] ∧
    (runOps (c05Init true) c06Cycle).ths.map (fun t => t.accepted.map (fun st => (st.kind matches .flush 0, st.id))) =
      [[(false, 0), (false, 1), (true, 0)]] ∧
    (runOps (c05Init true) c06Cycle).log.reverse.filterMap c06Code = [(0, 0), (0, 0), (1, 0)] := by
  decide

end Backend
