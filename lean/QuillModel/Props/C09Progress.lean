import QuillModel.Props.C09Backend
import QuillModel.Backend.ConcRead
import QuillModel.Backend.ConcDrain
import QuillModel.Props.C06Progress
/-!
# C09 — a blocked call resumes, while other threads keep logging

`C09_blocked_call_resumes` assumes a quiet drain continuation. Two statements without that assumption:

* `C09_retry_granted_once_queue_read` — **every reachable state, every schedule** (frontend operations of other threads between
  and inside the polls): a caller parked on the retry of a refused reservation whose own queue has been *read* (nothing left
  in the queue; the transit buffer may still be full, other threads' queues may be anything) is granted at its next retry and
  the call returns. No progress hypothesis is involved: that the reader position is published whenever a queue has been read
  is an invariant of every schedule (`C09_reads_committed`).
* `C09_pass_reads_every_ripe_queue` — **every poll, every injection table**: a context whose queue is non-empty when the poll's
  pass starts, with its front record past the grace period, has at least one more record in its transit buffer after the pass
  (the hard limit, the byte budget of one read and the soft limit cannot prevent it: the do-while reads one record first).

* `C09_blocked_queue_drains` / `C09_blocked_call_resumes_concurrent` — the composition over **arbitrary continuations**: while
  the blocked owner enqueues nothing (it is parked), every poll past the grace period takes at least one record out of its
  queue, whatever the other threads do between and inside the polls; after `|queue|` polls the queue has been read and the
  retry is granted. The batch-guard starvation of C06 does **not** apply here: reading happens in every poll before the guard
  is consulted — a blocked log call always resumes as long as the backend keeps polling.

Property theorems only; helpers in `Backend/ConcRead.lean`, `Backend/ResumeProgress.lean`.
-/
namespace Backend
open Backend.PB

/-- **The retry is granted once the caller's queue has been read — any reachable state, any concurrency.** Blocking queue with
    the publish-when-drained rule (extracted). After **any** schedule `ops`, let actor `a` be parked on the retry of a refused
    reservation for `st` (continuation `k`) that fits an empty queue, and let `a`'s queue hold nothing unread. Then `a`'s `resume`
    is granted: `st`, stamped with the commit instant, is appended to the context's accepted history; for a `log` call the call
    returns (`ret=1` for the outcome-reporting macro) and the actor is no longer parked. -/
theorem C09_retry_granted_once_queue_read (s0 : BSt) (h0 : StartF s0) (ops : List Op) (a : Nat) (x : Actor) (st : Stmt) (k : Nat)
    (hdp : s0.cfg.qp.drainPublish = true) (hblk : s0.cfg.dropping = false)
    (hx : (runOps s0 ops).actor a = some x) (hp : x.pend = .retry st k) (hsz : st.size ≤ s0.cfg.qcap)
    (hq : ∀ i, x.ctx = some i → ((runOps s0 ops).th i).qStmts = []) :
    ((resume (runOps s0 ops) a).1.th (ensureCtx (runOps s0 ops) a).2).accepted =
      ((ensureCtx (runOps s0 ops) a).1.th (ensureCtx (runOps s0 ops) a).2).accepted ++
        [{ st with enqAt := (runOps s0 ops).now }] ∧
    (st.kind = .log → k = 0 ∨ k = 5 →
      (resume (runOps s0 ops) a).2 = obsLog st k (some true) st.size ∧
      pendOf (resume (runOps s0 ops) a).1 a = some .none) := by
  obtain ⟨fl, hI⟩ := (start_GI h0.start).runOps ops
  have hcfg := (start_GI h0.start).cfg_runOps ops
  have hd : ∀ i, x.ctx = some i → ((runOps s0 ops).th i).qStmts = [] ∧ Pub ((runOps s0 ops).th i) := fun i hi =>
    ⟨hq i hi, readsCommitted_runOps h0.start hdp ops i⟩
  generalize runOps s0 ops = s2 at hI hcfg hd hx ⊢
  have hsz2 : st.size ≤ s2.cfg.qcap := by rw [hcfg]; exact hsz
  have hres := resume_retry_blocking s2 a x st k hx hp (by rw [hcfg]; exact hblk)
  obtain ⟨e1, e2⟩ := enqFlow_after_drain hI a x hx st hsz2 hd k false false
  refine ⟨by rw [hres]; exact e2, fun hk hk' => ?_⟩
  rw [hres, e1, afterEnq_log_obs _ a st hk k hk']
  refine ⟨rfl, ?_⟩
  obtain ⟨x1, hx1⟩ := ensureCtx_actor hx
  exact pendOf_set_const _ a (fun x => { x with pend := .none }) (fun _ => rfl) (fun _ => rfl) .none (fun _ => rfl)
    (x := x1) ((tryEnq_actor _ _ _ _).trans hx1)

/-- **Every pass reads every ripe queue.** After any schedule `ops`, for any injection table of the next poll: a context `i`
    whose queue is non-empty, with its front record `r` past the grace period, has at least one more record in its transit
    buffer after the pass of that poll — whatever the other threads do at the hook sites meanwhile. -/
theorem C09_pass_reads_every_ripe_queue (s0 : BSt) (h0 : Start s0) (ops : List Op) (table : List (Nat × Nat × List FOp))
    (i : Nat) (r : Stmt) (rest : List Stmt) (hq : ((runOps s0 ops).th i).qStmts = r :: rest)
    (hripe : r.ts + (runOps s0 ops).cfg.grace ≤ (runOps s0 ops).now) :
    ((runOps s0 ops).th i).buf.length + 1 ≤
      ((populate (runInj table) { runOps s0 ops with siteCnt := [] }).1.th i).buf.length := by
  obtain ⟨fl, hI⟩ := (start_GI h0).runOps ops
  have hI' : PIo (runOps s0 ops).cfg fl { runOps s0 ops with siteCnt := [] } := hI.frame rfl
  exact populate_reads (fun _ _ _ _ _ site hh => hh.runInj table site) (injGrow_runInj table) hI' i r rest hq hripe

/-- **The queue of a blocked owner drains under arbitrary concurrency.** After any schedule `pre`, for **every** continuation
    `suffix` (frontend operations of any threads, polls with any injections) that leaves the backend running and in which
    context `i` accepts nothing more (its owner is blocked): if everything `i` accepted is past its grace period at the end of
    `pre`, then its queue has lost at least one record per poll of `suffix`, or is empty. -/
theorem C09_blocked_queue_drains (s0 : BSt) (h0 : StartF s0) (pre suffix : List Op) (i : Nat)
    (hrun : (runOps s0 (pre ++ suffix)).backendGone = false)
    (hripe : ∀ r ∈ ((runOps s0 pre).th i).accepted, r.ts + s0.cfg.grace ≤ (runOps s0 pre).now)
    (hacc : ((runOps s0 (pre ++ suffix)).th i).accepted.length = ((runOps s0 pre).th i).accepted.length) :
    ((runOps s0 (pre ++ suffix)).th i).qStmts.length + pollCount suffix ≤ ((runOps s0 pre).th i).qStmts.length ∨
    ((runOps s0 (pre ++ suffix)).th i).qStmts = [] := by
  have e : runOps s0 (pre ++ suffix) = runOps (runOps s0 pre) suffix := by simp [runOps, List.foldl_append]
  have hc := (start_GI h0.start).cfg_runOps pre
  rw [e] at hrun hacc ⊢
  exact drain_conc i suffix (runOps s0 pre) ((start_GI h0.start).runOps pre) ((start_FI h0).runOps pre) hrun
    (by rw [hc]; exact hripe) hacc

/-- **C09 under concurrency: a blocked log call resumes while other threads keep logging.** Blocking queue with the
    publish-when-drained rule. After any schedule `pre`, for **every** continuation `suffix` — other threads logging, registering,
    exiting, between the polls and at every hook site inside them — that leaves the backend running and after which actor `a`
    is (still) parked on the retry of a refused reservation for `st` (which fits an empty queue), its context `i` having accepted
    nothing since the end of `pre` (it is blocked): if everything the context accepted was past its grace period at the end of
    `pre` and `suffix` contains at least as many polls as the queue held records, then `a`'s `resume` is granted — `st` is
    appended to the accepted history, and a `log` call returns (`ret=1`). No quietness, no bound on what other threads do. -/
theorem C09_blocked_call_resumes_concurrent (s0 : BSt) (h0 : StartF s0) (pre suffix : List Op) (a : Nat) (x : Actor)
    (st : Stmt) (k i : Nat) (hdp : s0.cfg.qp.drainPublish = true) (hblk : s0.cfg.dropping = false)
    (hx : (runOps s0 (pre ++ suffix)).actor a = some x) (hp : x.pend = .retry st k) (hi : x.ctx = some i)
    (hsz : st.size ≤ s0.cfg.qcap)
    (hrun : (runOps s0 (pre ++ suffix)).backendGone = false)
    (hripe : ∀ r ∈ ((runOps s0 pre).th i).accepted, r.ts + s0.cfg.grace ≤ (runOps s0 pre).now)
    (hacc : ((runOps s0 (pre ++ suffix)).th i).accepted.length = ((runOps s0 pre).th i).accepted.length)
    (hn : ((runOps s0 pre).th i).qStmts.length ≤ pollCount suffix) :
    ((resume (runOps s0 (pre ++ suffix)) a).1.th (ensureCtx (runOps s0 (pre ++ suffix)) a).2).accepted =
      ((ensureCtx (runOps s0 (pre ++ suffix)) a).1.th (ensureCtx (runOps s0 (pre ++ suffix)) a).2).accepted ++
        [{ st with enqAt := (runOps s0 (pre ++ suffix)).now }] ∧
    (st.kind = .log → k = 0 ∨ k = 5 →
      (resume (runOps s0 (pre ++ suffix)) a).2 = obsLog st k (some true) st.size ∧
      pendOf (resume (runOps s0 (pre ++ suffix)) a).1 a = some .none) := by
  apply C09_retry_granted_once_queue_read s0 h0 (pre ++ suffix) a x st k hdp hblk hx hp hsz
  intro j hj
  rw [hi] at hj
  cases hj
  rcases C09_blocked_queue_drains s0 h0 pre suffix i hrun hripe hacc with h | h
  · exact List.eq_nil_of_length_eq_zero (by omega)
  · exact h

/-- **`flush_log()` returns while other threads keep logging — the caller still in its retry loop.** Composition of
    `C09_blocked_call_resumes_concurrent` and `C06_flush_log_returns_concurrent`. Hypotheses of C05; blocking queue with the
    publish-when-drained rule. The schedule is `pre ++ s1 ++ [resume a] ++ s2`, with `pre`, `s1`, `s2` **arbitrary**:
    at the end of `pre ++ s1` actor `a` is parked on the retry of its refused Flush request `st` (flag `f`), its context `i`
    accepted nothing during `s1`, was ripe at the end of `pre`, and `s1` has at least as many polls as the queue held
    records — then `resume a` commits the request; and if the productive operations of `s2` reach the number of records with
    timestamp `≤ st.ts` not yet popped, the flag is raised at the end and every caller parked on it is released ("done"). -/
theorem C06_flush_log_returns_concurrent_retry (s0 : BSt) (hA : PA.Fresh s0) (h0 : StartF s0) (hg : s0.cfg.grace ≠ 0)
    (hr : s0.cfg.refreshAfterSample = true) (hdp : s0.cfg.qp.drainPublish = true) (hblk : s0.cfg.dropping = false)
    (pre s1 s2 : List Op) (a : Nat) (x : Actor) (st : Stmt) (f i : Nat)
    (hx : (runOps s0 (pre ++ s1)).actor a = some x) (hp : x.pend = .retry st 1) (hi : x.ctx = some i)
    (hk : st.kind = .flush f) (hsz : st.size ≤ s0.cfg.qcap)
    (hrun : (runOps s0 (pre ++ s1)).backendGone = false)
    (hripe : ∀ r ∈ ((runOps s0 pre).th i).accepted, r.ts + s0.cfg.grace ≤ (runOps s0 pre).now)
    (hacc : ((runOps s0 (pre ++ s1)).th i).accepted.length = ((runOps s0 pre).th i).accepted.length)
    (hn : ((runOps s0 pre).th i).qStmts.length ≤ pollCount s1)
    (hprem : GracePremise (runOps s0 (pre ++ s1 ++ [.front (.resume a)] ++ s2)))
    (hn2 : accLE (runOps s0 (pre ++ s1 ++ [.front (.resume a)] ++ s2)) st.ts ≤
      (runOps s0 (pre ++ s1 ++ [.front (.resume a)])).popLog.length +
        productive (runOps s0 (pre ++ s1 ++ [.front (.resume a)])) s2) :
    f ∈ (runOps s0 (pre ++ s1 ++ [.front (.resume a)] ++ s2)).flags ∧
    ∀ b y, (runOps s0 (pre ++ s1 ++ [.front (.resume a)] ++ s2)).actor b = some y → y.pend = .flag f →
      (resume (runOps s0 (pre ++ s1 ++ [.front (.resume a)] ++ s2)) b).2 = "done" := by
  obtain ⟨hgr, _⟩ := C09_blocked_call_resumes_concurrent s0 h0 pre s1 a x st 1 i hdp hblk hx hp hi hsz hrun hripe hacc hn
  -- the request, stamped with its commit instant, is in the accepted history right after the `resume`
  have e1 : runOps s0 (pre ++ s1 ++ [.front (.resume a)]) = (applyOp (runOps s0 (pre ++ s1)) (.front (.resume a))).1 := by
    simp [runOps, List.foldl_append]
  have hths : ∀ j, ((applyOp (runOps s0 (pre ++ s1)) (.front (.resume a))).1.th j) = (resume (runOps s0 (pre ++ s1)) a).1.th j := by
    intro j
    simp only [applyOp, applyFront]
    split
    · rfl
    · split <;> rfl
  have hmem : ({ st with enqAt := (runOps s0 (pre ++ s1)).now } : Stmt) ∈
      ((runOps s0 (pre ++ s1 ++ [.front (.resume a)])).th (ensureCtx (runOps s0 (pre ++ s1)) a).2).accepted := by
    rw [e1, hths, hgr]; simp
  have e2 : runOps s0 (pre ++ s1 ++ [.front (.resume a)] ++ s2) =
      runOps (runOps s0 (pre ++ s1 ++ [.front (.resume a)])) s2 := by simp [runOps, List.foldl_append]
  have hmem2 : ({ st with enqAt := (runOps s0 (pre ++ s1)).now } : Stmt) ∈
      ((runOps s0 (pre ++ s1 ++ [.front (.resume a)] ++ s2)).th (ensureCtx (runOps s0 (pre ++ s1)) a).2).accepted := by
    rw [e2]; exact (mono_runOps s2 _).mem_acc hmem
  exact C06_flush_log_returns_concurrent s0 hA h0 hg hr (pre ++ s1 ++ [.front (.resume a)]) s2 _
    { st with enqAt := (runOps s0 (pre ++ s1)).now } f hprem hmem2 hk hn2

/-! ### non-vacuity -/

/-- the blocking scenario of `Props/C09Backend.lean` (a 1024-byte queue filled by thread 1, its second call refused and parked),
    with thread 2 logging between and inside the polls: after two polls thread 1's queue has been read (its two records are
    in the transit buffer / popped), the hypotheses of `C09_retry_granted_once_queue_read` hold, and the retry is granted. -/
example :
    let ops : List Op := c09Block ++ [.front (.tstart 2), .front (.log 2 0 4 10 true),
      .poll [(3, 1, [.log 2 0 4 10 true])], .front (.log 2 0 4 10 true), .poll [(2, 1, [.log 2 0 4 10 true])]]
    let s := runOps (c09Init true) ops
    (s.actor 1).map (fun x => (x.pend matches .retry _ 0, x.ctx)) = some (true, some 0) ∧
    (s.th 0).qStmts.length = 0 ∧ (s.th 1).accepted.length = 4 ∧
    (resume s 1).2 = "id=1 ret=1 ev=1 bytes=1009" ∧
    -- the hypotheses of `C09_blocked_call_resumes_concurrent` with `pre = c09Block`, `i = 0`
    s.backendGone = false ∧ (c09Init true).cfg.grace = 0 ∧
    (s.th 0).accepted.length = ((runOps (c09Init true) c09Block).th 0).accepted.length ∧
    ((runOps (c09Init true) c09Block).th 0).qStmts.length ≤ pollCount (ops.drop c09Block.length) := by
  decide +kernel

/-- non-vacuity of `C09_pass_reads_every_ripe_queue`: in the blocked state the queue of context 0 holds one record (972-byte
    statement behind the first, which fills the queue); ordering is disabled, so it is ripe; the pass of the next poll — with
    thread 2 registering and logging at site 2 — moves it to the transit buffer. -/
example :
    let s := runOps (c09Init true) c09Block
    (s.th 0).qStmts.length = 1 ∧ (s.th 0).buf.length = 0 ∧ s.cfg.grace = 0 ∧
    ((populate (runInj [(2, 1, [.tstart 2, .log 2 0 4 10 true])]) { s with siteCnt := [] }).1.th 0).buf.length = 1 := by
  decide +kernel

/-- non-vacuity of `C06_flush_log_returns_concurrent_retry` (blocking 1024-byte queue, grace 10): thread 1's 1009-byte statement
    fills the queue, its `flush_log` request (40 bytes) is refused and parked on the retry; while thread 2 logs inside the poll
    (site 3) the backend reads thread 1's queue; `resume 1` commits the request (thread 1 now waits on flag 0); thread 2 logs
    again; one productive poll later the flag is raised and `resume 1` answers "done". All hypotheses are checked (the clock
    advances by exactly the grace period, so that the retried request is still committed within the grace premise). -/
example :
    let pre : List Op := [.front (.tstart 1), .front (.tstart 2), .front (.log 1 0 4 972 true), .front (.flush 1 0), .front (.tick 10)]
    let s1 : List Op := [.poll [(3, 1, [.log 2 0 4 10 true])]]
    let s2 : List Op := [.front (.log 2 0 4 10 true), .poll []]
    let sA := runOps (c05Init true) pre
    let sB := runOps (c05Init true) (pre ++ s1)
    let sC := runOps (c05Init true) (pre ++ s1 ++ [.front (.resume 1)])
    let sD := runOps (c05Init true) (pre ++ s1 ++ [.front (.resume 1)] ++ s2)
    (c05Init true).cfg.qp.drainPublish = true ∧ (c05Init true).cfg.dropping = false ∧
    (sB.actor 1).map (fun x => (x.pend matches .retry _ 1, x.ctx)) = some (true, some 0) ∧
    (sB.actor 1).map (fun x => match x.pend with | .retry st _ => (st.kind matches .flush 0, st.size, st.ts) | _ => (false, 0, 0)) =
      some (true, 40, 1000) ∧
    sB.backendGone = false ∧ (sA.th 0).accepted.map (·.ts) = [1000] ∧ sA.now = 1010 ∧
    (sB.th 0).accepted.length = (sA.th 0).accepted.length ∧ (sA.th 0).qStmts.length ≤ pollCount s1 ∧
    GracePremise sD ∧ accLE sD 1000 = 2 ∧ sC.popLog.length = 1 ∧ productive sC s2 = 1 ∧
    sD.flags = [0] ∧ (resume sD 1).2 = "done" ∧ (sD.th 1).accepted.length = 2 := by
  decide +kernel

end Backend
