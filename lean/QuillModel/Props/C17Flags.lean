import QuillModel.Backend.RemovalServed
import QuillModel.Props.C17Removal
/-!
# C17 — every pending `remove_logger_blocking` request is served by the pass that erases its logger, and by no other

`C17_removal_flag_after_erase` (`Props/C17Removal.lean`) is the direction "a raised flag means the logger is erased".
This file adds the other direction for the clean-up pass (`_cleanup_invalidated_loggers`, with arbitrary frontend
operations at hook site 9 inside the sink destructors): the pass raises the recorded flag of **every** name one of whose
objects it erased, and **keeps** every recorded request of a name it did not erase — so with several blocking removals in
flight whose loggers are erased in different passes no caller is forgotten. Witness: a pass that clears the whole map
(`cleanupLoggersClearAll`, seeded change C17/m2) leaves the second caller parked for ever.
Helper lemmas: `Backend/RemovalServed.lean`.
-/
namespace Backend
open Backend.PC Spsc

theorem foldl_flagStep_lgs : ∀ (l : List Nat) (x : BSt), (l.foldl flagStep x).lgs = x.lgs
  | [], _ => rfl
  | g :: gs, x => by
    simp only [List.foldl_cons]
    rw [foldl_flagStep_lgs gs]
    unfold flagStep; split <;> rfl

theorem cleanup_serves_aux (table : List (Nat × Nat × List FOp)) (s s' : BSt) (hs' : s' = cleanupLoggers (runInj table) s) :
    (∀ j, j < s.lgs.length → (s.lgOf j).erased = false → (s'.lgOf j).erased = true →
      ∀ g' f, s.removalFlags.find? (·.1 = (s.lgOf j).gid) = some (g', f) → f ∈ s'.flags) ∧
    (∀ p ∈ s.removalFlags,
      (∀ j, j < s.lgs.length → (s.lgOf j).erased = false → (s'.lgOf j).erased = true → (s.lgOf j).gid ≠ p.1) →
      p ∈ s'.removalFlags) ∧
    (∀ f ∈ s'.flags, f ∈ s.flags ∨ ∃ p ∈ s.removalFlags, p.2 = f ∧
      ∃ j, j < s.lgs.length ∧ (s.lgOf j).gid = p.1 ∧ (s.lgOf j).erased = false ∧ (s'.lgOf j).erased = true) ∧
    (∀ p ∈ s'.removalFlags, p ∈ s.removalFlags) := by
  rw [cleanupLoggers_eq] at hs'
  split at hs'
  · subst hs'
    exact ⟨fun j _ h1 h2 => (by rw [h1] at h2; cases h2), fun p hp _ => hp, fun f hf => Or.inl hf, fun p hp => hp⟩
  · have hord : ∀ i ∈ lgOrder { s with hasInvalidLoggers := false }, i < s.lgs.length ∧ (s.lgOf i).erased = false := by
      intro i hi'
      unfold lgOrder at hi'
      rw [mem_insSorted, List.mem_filter, List.mem_range] at hi'
      have h2 : (s.lgOf i).erased = false := by
        have := hi'.2
        simp only [Bool.not_eq_true'] at this
        exact this
      exact ⟨hi'.1, h2⟩
    have h1 : ∀ (l : List Nat) (acc : BSt × List Nat), (∀ i ∈ l, i < s.lgs.length ∧ (s.lgOf i).erased = false) →
        EAcc s acc → EAcc s (l.foldl (lgStep (runInj table)) acc) := by
      intro l
      induction l with
      | nil => intro acc _ h; exact h
      | cons i rest ih =>
        intro acc hl h
        simp only [List.foldl_cons]
        exact ih _ (fun j hj => hl j (List.mem_cons_of_mem _ hj)) (lgStep_EAcc table s acc i (hl i List.mem_cons_self) h)
    have hA := h1 _ ({ s with hasInvalidLoggers := false }, []) hord
      ⟨rfl, rfl, rfl, fun _ => rfl, fun j hj => Or.inl hj, fun g hg => by cases hg⟩
    revert hA hs'
    generalize (lgOrder { s with hasInvalidLoggers := false }).foldl (lgStep (runInj table))
      ({ s with hasInvalidLoggers := false }, ([] : List Nat)) = res
    intro hs' hA
    have hlg : ∀ j, s'.lgOf j = res.1.lgOf j := by
      intro j
      rw [hs']
      simp only [BSt.lgOf, foldl_flagStep_lgs]
    obtain ⟨o1, o2⟩ := foldl_flagStep_only res.2 res.1
    refine ⟨?_, ?_, ?_, ?_⟩
    · intro j _ he he' g' f hfind
      rw [hlg] at he'
      rcases hA.inl j he' with h | h
      · rw [he] at h; cases h
      · rw [hs']
        exact foldl_flagStep_serves res.2 res.1 _ g' f h (by rw [hA.rf]; exact hfind)
    · intro p hp hno
      rw [hs']
      apply foldl_flagStep_keeps res.2 res.1 p (by rw [hA.rf]; exact hp)
      intro hm
      obtain ⟨j, a, b, c, d⟩ := hA.ofl p.1 hm
      exact hno j a c (by rw [hlg]; exact d) b
    · intro f hf
      rw [hs'] at hf
      rcases o1 f hf with h | ⟨p, hp, hpf, hpl⟩
      · exact Or.inl (by rw [← hA.fl]; exact h)
      · obtain ⟨j, a, b, c, d⟩ := hA.ofl p.1 hpl
        exact Or.inr ⟨p, by rw [← hA.rf]; exact hp, hpf, j, a, b, c, by rw [hlg]; exact d⟩
    · intro p hp
      rw [hs'] at hp
      rw [← hA.rf]
      exact (o2 p hp).1

/-- **The clean-up pass serves exactly the requests of the loggers it erases** — for every state `s`, every injection
    table (frontend operations of any threads run inside the sink destructors, hook site 9), with
    `s' = cleanupLoggers (runInj table) s`:
    1. (erased ⇒ released) if the pass erased a logger object `j` and a removal request is recorded for its name
       (`find?` = the map lookup of `_logger_removal_flags`), that request's flag is raised when the pass ends;
    2. (nobody forgotten) a recorded request whose name belongs to no object erased in this pass is still recorded
       afterwards — it will be served by the pass that erases its logger (clause 1 for that pass);
    3. (nothing else raised) every flag raised by the pass was recorded for the name of an object it erased;
    4. no request is invented. -/
theorem C17_cleanup_serves_erased (table : List (Nat × Nat × List FOp)) (s : BSt) :
    let s' := cleanupLoggers (runInj table) s
    (∀ j, j < s.lgs.length → (s.lgOf j).erased = false → (s'.lgOf j).erased = true →
      ∀ g' f, s.removalFlags.find? (·.1 = (s.lgOf j).gid) = some (g', f) → f ∈ s'.flags) ∧
    (∀ p ∈ s.removalFlags,
      (∀ j, j < s.lgs.length → (s.lgOf j).erased = false → (s'.lgOf j).erased = true → (s.lgOf j).gid ≠ p.1) →
      p ∈ s'.removalFlags) ∧
    (∀ f ∈ s'.flags, f ∈ s.flags ∨ ∃ p ∈ s.removalFlags, p.2 = f ∧
      ∃ j, j < s.lgs.length ∧ (s.lgOf j).gid = p.1 ∧ (s.lgOf j).erased = false ∧ (s'.lgOf j).erased = true) ∧
    (∀ p ∈ s'.removalFlags, p ∈ s.removalFlags) :=
  cleanup_serves_aux table s _ rfl

/-! ### witness: clearing the whole map after a pass (seeded change C17/m2) -/

/-- the logger clean-up with `_logger_removal_flags.clear()` after the served entries (not the model: the mutant) -/
def cleanupLoggersClearAll (inj : BSt → Nat → BSt) (s : BSt) : BSt :=
  let s' := cleanupLoggers inj s
  if s'.flags.length = s.flags.length then s' else { s' with removalFlags := [] }

/-- three loggers with their own sinks -/
def c17Init3 : BSt :=
  { cfg := c17Cfg, now := 1000, sinks := [{ sid := 0 }, { sid := 1 }, { sid := 2 }],
    lgs := [{ gid := 0, sinks := [0] }, { gid := 1, sinks := [1] }, { gid := 2, sinks := [2] }],
    names := [(0, 0), (1, 1), (2, 2)] }

/-- threads 0 and 1 are parked in `remove_logger_blocking(0)` / `(1)`, both requests decoded and popped, the user has
    dropped both sinks, every queue empty: the state in which the idle pass runs the logger clean-up -/
def c17Two : BSt :=
  { runOps c17Init3 [.front (.tstart 0), .front (.tstart 1), .front (.tstart 2), .front (.dropSink 0), .front (.dropSink 1),
      .front (.removeBlocking 0 0), .front (.removeBlocking 1 1), .poll [], .poll []] with siteCnt := [] }

/-- while sink 0 is being destroyed, thread 2 logs through logger 2: logger 1 is kept for a later pass -/
def c17Split : List (Nat × Nat × List FOp) := [(9, 1, [.log 2 2 4 8 false])]

/-- **Two blocking removals in flight, loggers erased in different passes.** The model's pass serves request 0 and keeps
    request 1 recorded; two polls later logger 1 is erased, flag 1 raised, caller 1 returns. With the map cleared after
    the first pass, logger 1 is erased all the same but its flag is never raised: the caller stays parked. -/
theorem C17_clear_all_forgets_second_caller :
    (let y := cleanupLoggers (runInj c17Split) c17Two
     c17Two.removalFlags = [(0, 0), (1, 1)] ∧ y.flags = [0] ∧ y.removalFlags = [(1, 1)] ∧
     (y.lgOf 0).erased = true ∧ (y.lgOf 1).erased = false ∧
     (let z := runOps y [.poll [], .poll []]
      (z.lgOf 1).erased = true ∧ z.flags = [1, 0] ∧ (resume z 1).2 = "done")) ∧
    (let y := cleanupLoggersClearAll (runInj c17Split) c17Two
     y.flags = [0] ∧ y.removalFlags = [] ∧ (y.lgOf 1).erased = false ∧
     (let z := runOps y [.poll [], .poll [], .poll []]
      (z.lgOf 1).erased = true ∧ z.flags = [0] ∧ (resume z 1).2 = "parked:sleep")) := by
  refine ⟨⟨by decide +kernel, by decide +kernel, by decide +kernel, by decide +kernel, by decide +kernel,
    by decide +kernel, by decide +kernel, by decide +kernel⟩,
    by decide +kernel, by decide +kernel, by decide +kernel, by decide +kernel, by decide +kernel, by decide +kernel⟩

/-- non-vacuity of `C17_cleanup_serves_erased` on that state: clause 1 fires for logger 0 (flag 0), clause 2 for the
    request of logger 1 -/
example :
    let y := cleanupLoggers (runInj c17Split) c17Two
    (c17Two.lgOf 0).erased = false ∧ (y.lgOf 0).erased = true ∧
    c17Two.removalFlags.find? (·.1 = (c17Two.lgOf 0).gid) = some (0, 0) ∧ 0 ∈ y.flags ∧
    (1, 1) ∈ c17Two.removalFlags ∧ (y.lgOf 1).erased = false ∧ (y.lgOf 2).erased = false ∧ (1, 1) ∈ y.removalFlags := by
  refine ⟨by decide +kernel, by decide +kernel, by decide +kernel, by decide +kernel, by decide +kernel,
    by decide +kernel, by decide +kernel, by decide +kernel⟩

/- Not proved here (said so): the run-level form "in every reachable state every decoded removal request is either raised
   or still recorded, and raised if its object is erased" needs, on top of `RI`, that `removalFlags` holds at most one entry
   per name (the second loop drops *all* entries of a served name); the pass-level theorem above is what the seeded change
   violates, and the H2 oracle `remove_logger_blocking … still parked` checks the run-level statement on the real code. -/

end Backend
