import QuillModel.Props.C03U
import QuillModel.Backend.UPubInv
/-!
# C09 for the unbounded-queue machine, at the retry loop of `log_statement`

`Props/C03U.lean` has the queue-level statement (`C09U_blocked_call_granted_after_drain`). Here the same for the
actual retry of the parked call (`resumeU` = one more turn of the `do … while (write_buffer == nullptr)` loop of
`log_statement` on a blocking queue) in **every state reachable by any operation list**: if the caller's chain has been
drained down to one buffer whose reader position is published, the retry is granted — in place, or through growth when
the record does not fit the (shrunk) buffer — and the call goes on to its completion path.

**Partial**: that the backend *reaches* the drained and published state after finitely many quiet polls past the
grace period (the progress half, `C09_drain_publishes` of the bounded bundle) and that every read ends published in
every reachable state (`C09_reads_committed` of the bounded bundle) are hypotheses here (`hdr`, `hpub`), not theorems.
-/
namespace Backend
open Backend.UQ Backend.PA Spsc

/-- a drained, published single buffer of power-of-two capacity never refuses a record that fits the maximum -/
theorem uPrepareWrite_drained_grants (c : Cfg) (k b n : Nat) (hkb : k ≤ b) (hn : n ≤ 2 ^ b) (t : Th)
    (hm : t.more = []) (hcap : t.q.cap = 2 ^ k) (hpub : t.q.rHist.headD 0 = t.q.wpos) :
    (uPrepareWrite c (2 ^ b) t n).2 = .grant := by
  have hp : t.prod = t.q := by simp [Th.prod, hm, lastOf]
  unfold uPrepareWrite
  dsimp only
  split
  · rfl
  · next hr =>
    rw [hp] at hr
    split
    · next heq =>
      rw [hp, qPrepareWrite_cap, hcap] at heq
      have := (Uspsc.grow_throw_iff (cap := 2 ^ k) (n := n) (maxCap := 2 ^ b) (Nat.two_pow_pos k)).mp heq
      omega
    · next heq =>
      rw [hp, qPrepareWrite_cap, hcap] at heq
      have hkb' : k = b := Uspsc.grow_null_pow2 hkb hn heq
      exact absurd (qPrepareWrite_drained c t.q n hpub (by rw [hcap, hkb']; exact hn)) hr
    · rfl

/-- **C09 (unbounded), the parked call resumes — every reachable state.** `s` is the state after any operation list
    from a state satisfying the invariant. Blocking queue, actor `a` parked in the retry loop with statement `st`
    (`st.size ≤ max = 2^b`), its context `i` drained to a single buffer (`more = []`) of capacity `2^k ≤ max` whose
    reader position is published. Then the next attempt is granted and `resumeU` continues with the completion path of
    the call (`afterEnq`: `ret=1` for the macro that reports it, the wait for the flag for `flush_log`, …). -/
theorem C09U_parked_call_resumes_partial (u : UP) (s0 : BSt) (h0 : US.UI s0) (ops : List UOp) (b k : Nat) (hq : u.qmax = 2 ^ b)
    (a i : Nat) (x : Actor) (st : Stmt) (cont : Nat)
    (hblk : (runOpsU u s0 ops).cfg.dropping = false)
    (hx : (runOpsU u s0 ops).actor a = some x) (hp : x.pend = .retry st cont) (hi : x.ctx = some i)
    (hsz : st.size ≤ 2 ^ b)
    (hdr : ((runOpsU u s0 ops).th i).more = []) (hcap : ((runOpsU u s0 ops).th i).q.cap = 2 ^ k) (hkb : k ≤ b)
    (hpub : ((runOpsU u s0 ops).th i).q.rHist.headD 0 = ((runOpsU u s0 ops).th i).q.wpos) :
    (tryEnqU u (runOpsU u s0 ops) i st).2 = .grant ∧
    resumeU u (runOpsU u s0 ops) a =
      afterEnq ((tryEnqU u (runOpsU u s0 ops) i st).1.setActor a (fun y => { y with pend := .none })) a st cont := by
  generalize runOpsU u s0 ops = s at *
  have hg : (tryEnqU u s i st).2 = .grant := by
    rw [tryEnqU_answer, hq]
    exact uPrepareWrite_drained_grants s.cfg k b st.size hkb hsz _ hdr hcap hpub
  refine ⟨hg, ?_⟩
  have hens : ensureCtx s a = (s, i) := by
    unfold ensureCtx
    simp [hx, hi]
  unfold resumeU
  simp only [hx, Option.map_some, hp, hblk]
  unfold enqFlowU
  simp only [hens]
  generalize htr : tryEnqU u s i st = r at hg
  obtain ⟨s2, g⟩ := r
  simp only at hg
  subst hg
  rfl

/-- a freshly started system satisfies the publication invariant -/
theorem C09U_fresh_state (s0 : BSt) (hh : 0 < s0.cfg.hdr) (ht : s0.ths = []) (ha : s0.actors = []) :
    US.GI (US.Tx none) s0.cfg s0 :=
  ⟨C03U_fresh_state s0 hh ht ha, fun j => by
    rw [show s0.th j = default from by simp [BSt.th, ht]]; exact (US.tx_closed { qmax := 0 } none).dflt j, rfl⟩

/-- **Every read ends committed (unbounded queue).** For every operation list (polls with arbitrary injected frontend
    operations, shrink requests, the exit drain) from a state satisfying the invariant, with the drain rule of
    `commit_read`: a context whose chain holds nothing and has been reduced to one buffer has that buffer's reader
    position published — the producer's next reload sees the whole capacity free — and every buffer the consumer has
    not reached yet is untouched by it. -/
theorem C09U_reads_committed (u : UP) (s0 : BSt) (h0 : US.GI (US.Tx none) s0.cfg s0)
    (hdp : s0.cfg.qp.drainPublish = true) (ops : List UOp) (i : Nat)
    (hq : ((runOpsU u s0 ops).th i).qStmts = []) (hm : ((runOpsU u s0 ops).th i).more = []) :
    ((runOpsU u s0 ops).th i).q.rHist.headD 0 = ((runOpsU u s0 ops).th i).q.rpos ∧
    ((runOpsU u s0 ops).th i).q.rHist.headD 0 = ((runOpsU u s0 ops).th i).q.wpos := by
  have h := US.runOpsU_closed (US.pi_closed u s0.cfg hdp) ops s0 h0
  have hp : ((runOpsU u s0 ops).th i).q.rHist.headD 0 = ((runOpsU u s0 ops).th i).q.rpos := (h.t i).2 (by simp) hq hm
  refine ⟨hp, ?_⟩
  have hc := (h.ui.th i).coh
  rw [hm, hq] at hc
  have hd : ((runOpsU u s0 ops).th i).q.wpos = ((runOpsU u s0 ops).th i).q.rpos := by simpa using hc.coh.dist
  rw [hd]; exact hp

/-- **C09 (unbounded), the parked call resumes after the drain — every schedule, publication derived.** As
    `C09U_parked_call_resumes_partial`, with the published reader position no longer a hypothesis: it follows from
    `C09U_reads_committed` once the context is drained (`qStmts = []`, one buffer left). What remains a hypothesis is
    that the backend has drained the context (the progress half). -/
theorem C09U_parked_call_resumes_drained (u : UP) (s0 : BSt) (h0 : US.GI (US.Tx none) s0.cfg s0)
    (hdp : s0.cfg.qp.drainPublish = true) (ops : List UOp) (b k : Nat) (hq : u.qmax = 2 ^ b)
    (a i : Nat) (x : Actor) (st : Stmt) (cont : Nat)
    (hblk : (runOpsU u s0 ops).cfg.dropping = false)
    (hx : (runOpsU u s0 ops).actor a = some x) (hp : x.pend = .retry st cont) (hi : x.ctx = some i)
    (hsz : st.size ≤ 2 ^ b)
    (hdrained : ((runOpsU u s0 ops).th i).qStmts = []) (hone : ((runOpsU u s0 ops).th i).more = [])
    (hcap : ((runOpsU u s0 ops).th i).q.cap = 2 ^ k) (hkb : k ≤ b) :
    (tryEnqU u (runOpsU u s0 ops) i st).2 = .grant ∧
    resumeU u (runOpsU u s0 ops) a =
      afterEnq ((tryEnqU u (runOpsU u s0 ops) i st).1.setActor a (fun y => { y with pend := .none })) a st cont :=
  C09U_parked_call_resumes_partial u s0 h0.ui ops b k hq a i x st cont hblk hx hp hi hsz hone hcap hkb
    (C09U_reads_committed u s0 h0 hdp ops i hdrained hone).2

example : US.GI (US.Tx none) exS0.cfg exS0 := C09U_fresh_state exS0 (by decide) rfl rfl
example : exS0.cfg.qp.drainPublish = true := by decide

/-! non-vacuity: 512-byte first buffer, 4 KiB maximum, blocking. Two 3900-byte statements: the first makes the chain grow to
4096, the second is refused there and its caller parks; one poll switches buffers, reads and publishes: every hypothesis
of the theorem holds in that state, and the retry is granted -/
def exOps9 : List UOp :=
  [.front (.base (.tstart 1)), .front (.base (.log 1 0 4 3900 true)), .front (.base (.log 1 0 4 3900 true)), .poll []]

def exS9 : BSt := runOpsU { qmax := 2 ^ 12 } exS0 exOps9

example :
    exS9.cfg.dropping = false ∧ (exS9.th 0).qStmts.length = 0 ∧ (exS9.th 0).more.length = 0 ∧ (exS9.th 0).q.cap = 2 ^ 12 ∧
    (exS9.th 0).q.rHist.headD 0 = (exS9.th 0).q.wpos ∧
    (match exS9.actor 1 with
     | some x => (match x.pend with | .retry st _ => decide (st.size ≤ 2 ^ 12) && (x.ctx == some 0) | _ => false)
     | none => false) = true ∧
    (resumeU { qmax := 2 ^ 12 } exS9 1).2 = "id=1 ret=1 ev=1 bytes=3937" := by decide

end Backend
