import QuillModel.Backend.UExit
import QuillModel.Props.C03U
/-!
# C07 (drain part) for the unbounded-queue machine

The exit loop of the backend (`_exit` with `wait_for_queues_to_empty_before_exit`) on the U machine leaves only through
the branch in which the global emptiness test answered true; by the soundness of that test for the whole chain of
buffers (`C20U_empty_test_sound_run`), at that moment every context in the backend's cache has an empty chain, an empty
transit buffer and `accepted = popped`. Conservation (`C03U_conservation`) holds in every state before, during and
after. As in the bounded bundle, termination of the loop within the model's fuel is a premise (`exitEndsU`; the real
loop is unbounded), and — not proved for the U machine — that the cache covers every context that ever held a record.
-/
namespace Backend
open Backend.UQ Backend.US

def decExitEndsU (u : UP) (inj : BSt → Nat → BSt) (tick : Nat) :
    (fuel : Nat) → (s : BSt) → Decidable (exitEndsU u inj tick fuel s)
  | 0, _ => isFalse (fun h => h)
  | fuel + 1, s =>
    match (inferInstance : Decidable ((allEmptyU s).2 = true)), (inferInstance : Decidable ((allEmptyU s).2 = false)),
        decExitEndsU u inj tick fuel (exitNextU u inj tick s) with
    | isTrue h, _, _ => isTrue (Or.inl h)
    | isFalse _, isTrue h2, isTrue h3 => isTrue (Or.inr ⟨h2, h3⟩)
    | isFalse h1, isFalse h2, _ => isFalse (fun h => h.elim h1 (fun x => h2 x.1))
    | isFalse h1, _, isFalse h3 => isFalse (fun h => h.elim h1 (fun x => h3 x.2))

instance (u : UP) (inj : BSt → Nat → BSt) (tick fuel : Nat) (s : BSt) : Decidable (exitEndsU u inj tick fuel s) :=
  decExitEndsU u inj tick fuel s

/-- **C07 (unbounded queue): the exit loop leaves only with every cached chain and buffer empty.** For every operation
    list followed by the exit drain: if the loop ends within the model's fuel, the state is that of the clean-up tail run
    from a state `sK` (satisfying the invariant) in which the emptiness test answered true and every context of the
    backend's cache has `buf = []`, `qStmts = []` (the whole chain of queue buffers) and `accepted = popped`; the backend is
    gone afterwards. -/
theorem C07U_exit_leaves_only_drained (u : UP) (s0 : BSt) (h0 : US.UI s0) (ops : List UOp)
    (hg : (runOpsU u s0 ops).backendGone = false)
    (he : exitEndsU u (runInjU u []) 1000 100000 { runOpsU u s0 ops with siteCnt := [] }) :
    ∃ sK, US.UI sK ∧ (allEmptyU sK).2 = true ∧ (∀ i ∈ (refreshCache sK).cache, Drained sK i) ∧
      (applyOpU u (runOpsU u s0 ops) .exit).1 = { exitTailU (runInjU u []) sK with backendGone := true } := by
  have hs : US.UI { runOpsU u s0 ops with siteCnt := [] } :=
    (US.runOpsU_closed (US.UI.closed u) ops s0 h0).aux rfl rfl rfl
  obtain ⟨sK, a, b, c, d⟩ := exitLoopU_ends_form u [] 1000 100000 _ hs he
  refine ⟨sK, a, b, c, ?_⟩
  have hap : applyOpU u (runOpsU u s0 ops) .exit = if (runOpsU u s0 ops).backendGone then (runOpsU u s0 ops, "noop") else
      ({ exitLoopU u (runInjU u []) 1000 100000 { runOpsU u s0 ops with siteCnt := [] } with backendGone := true }, "ev") := rfl
  rw [hap, if_neg (by rw [hg]; simp), d]

/-- the same for any fuel of the loop (the form the non-vacuity example instantiates) -/
theorem C07U_exit_loop_leaves_only_drained (u : UP) (table : List (Nat × Nat × List UFOp)) (tick fuel : Nat) (s : BSt)
    (h : US.UI s) (he : exitEndsU u (runInjU u table) tick fuel s) :
    ∃ sK, US.UI sK ∧ (allEmptyU sK).2 = true ∧ (∀ i ∈ (refreshCache sK).cache, Drained sK i) ∧
      exitLoopU u (runInjU u table) tick fuel s = exitTailU (runInjU u table) sK :=
  exitLoopU_ends_form u table tick fuel s h he

/-- non-vacuity: the growth / shrink run of `Props/C03U.lean` with a backlog left in two buffers: the exit loop ends within
    6 turns, and afterwards the context has popped what it accepted -/
def exS7 : BSt := runOpsU { qmax := 4096 } exS0
  [.front (.base (.tstart 1)), .front (.base (.log 1 0 4 700 true)), .front (.shrink 1 256), .front (.base (.log 1 0 4 20 true))]

example : exitEndsU { qmax := 4096 } (runInjU { qmax := 4096 } []) 1000 6 { exS7 with siteCnt := [] } := by decide
example : ((exitLoopU { qmax := 4096 } (runInjU { qmax := 4096 } []) 1000 6 { exS7 with siteCnt := [] }).th 0).popped.length = 2 ∧
    ((exitLoopU { qmax := 4096 } (runInjU { qmax := 4096 } []) 1000 6 { exS7 with siteCnt := [] }).th 0).qStmts.length = 0 := by decide

end Backend
