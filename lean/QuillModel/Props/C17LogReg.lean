import QuillModel.LogReg.Proofs
/-!
# C17 (part) — the by-name logger registry: sorted vector, binary search = linear search, idempotent
# `create_or_get`, stable in-place clean-up

`LogReg.step` transcribes `LoggerManager::create_or_get_logger / get_logger / remove_logger /
cleanup_invalidated_loggers / get_all_loggers / get_number_of_loggers` over the vector of loggers sorted by name
(model: `LogReg/Model.lean`). All theorems quantify over EVERY sequence `ops` of these operations from the empty
registry (every pattern of removed-but-not-yet-erased entries, every answer sequence of the `check_queues_empty`
callback) and hold for `Params.OK` = both private helpers use `lower_bound`.
-/
namespace LogReg

/-! ### (a) sorted, (b) identities -/

/-- **strictly sorted**: the vector stays strictly sorted by name (so `std::lower_bound` is applicable, is the model's
    `bound`, and no name has two entries) -/
theorem C17_logreg_sorted (p : Params) (hp : p.OK) (ops : List Op) :
    (run p {} ops).entries.Pairwise (fun a b => a.name < b.name) :=
  (rinv_run p hp ops {} rinv_init).pw.imp (fun h => h.1)

/-- **at most one entry per name**, valid or not -/
theorem C17_logreg_one_entry_per_name (p : Params) (hp : p.OK) (ops : List Op) (n : Nat) :
    ((run p {} ops).entries.filter (fun e => e.name == n)).length ≤ 1 :=
  filter_name_le_one _ n (rinv_run p hp ops {} rinv_init).pw

/-- identities are never reused: every entry was constructed before the counter's current value, all differ -/
theorem C17_logreg_ids_fresh (p : Params) (hp : p.OK) (ops : List Op) :
    let s := run p {} ops
    (∀ e ∈ s.entries, e.id < s.next) ∧ s.entries.Pairwise (fun a b => a.id ≠ b.id) :=
  ⟨(rinv_run p hp ops {} rinv_init).lt, (rinv_run p hp ops {} rinv_init).pw.imp (fun h => h.2)⟩

/-- a concrete life over four names: creation out of order, lookups, a removal, the contract guard, a clean-up that
    keeps one invalid entry (`[false]`) and erases the other, a clean-up that erases the rest, re-creation -/
def life : List Op :=
  [.createOrGet 2, .createOrGet 0, .createOrGet 3, .createOrGet 1, .get 2, .remove 2, .get 2, .createOrGet 2,
   .remove 0, .cleanup [false], .count, .all, .cleanup [], .createOrGet 2, .createOrGet 0, .get 0, .cleanup [true],
   .all, .count]

example : trace {} {} life =
    [.id 1, .id 2, .id 3, .id 4, .id 1, .ok, .none, .guard, .ok, .removed [2] 3 true, .size 3, .ids [4, 3],
     .removed [0] 2 false, .id 5, .id 6, .id 6, .removed [] 4 false, .ids [6, 4, 5, 3], .size 4] := by decide

example : (run {} {} life).entries = [⟨0, 6, true⟩, ⟨1, 4, true⟩, ⟨2, 5, true⟩, ⟨3, 3, true⟩] ∧
    (run {} {} life).next = 7 ∧ (run {} {} life).flag = false := by decide

/-- non-vacuity of (a)/(b): a state with four entries, one of them invalid -/
example : (run {} {} (life.take 9)).entries = [⟨0, 2, false⟩, ⟨1, 4, true⟩, ⟨2, 1, false⟩, ⟨3, 3, true⟩] ∧
    ((run {} {} (life.take 9)).entries.filter (fun e => e.name == 2)).length = 1 := by decide

/-! ### (c) `_find_logger` / `get_logger` -/

/-- **the binary search is the linear search by name**: on every reachable vector `_find_logger(name)` returns the
    first (= the only) entry carrying the name, valid or not -/
theorem C17_logreg_find_is_linear_search (p : Params) (hp : p.OK) (ops : List Op) (n : Nat) :
    find p (run p {} ops) n = (run p {} ops).entries.find? (fun e => e.name == n) :=
  find_eq_lookup p hp _ (rinv_run p hp ops {} rinv_init) n

example : find {} (run {} {} (life.take 9)) 2 = some ⟨2, 1, false⟩ ∧ find {} (run {} {} (life.take 13)) 2 = none := by
  decide

theorem validOf_some_iff (s : St) (hs : RInv s) (n i : Nat) :
    validOf s n = some i ↔ ∃ e ∈ s.entries, e.name = n ∧ e.valid = true ∧ e.id = i := by
  unfold validOf
  constructor
  · intro h
    cases hl : lookup s n with
    | none => rw [hl] at h; cases h
    | some e =>
      rw [hl] at h
      have ⟨hm, hn⟩ := lookup_some_mem hl
      by_cases hv : e.valid = true
      · simp only [hv, if_true, Option.some.injEq] at h
        exact ⟨e, hm, hn, hv, h⟩
      · simp [hv] at h
  · rintro ⟨e, he, hn, hv, rfl⟩
    have := find_some_of_mem s.entries hs.pw e he
    rw [hn] at this
    rw [lookup_def, this]
    simp [hv]

theorem validOf_none_of (s : St) (n : Nat) (h : ∀ e ∈ s.entries, e.name = n → e.valid = false) : validOf s n = none := by
  unfold validOf
  cases hl : lookup s n with
  | none => rfl
  | some e =>
    have ⟨hm, hn⟩ := lookup_some_mem hl
    simp [h e hm hn]

theorem validOf_none_iff (s : St) (hs : RInv s) (n : Nat) :
    validOf s n = none ↔ ∀ e ∈ s.entries, e.name = n → e.valid = false := by
  constructor
  · intro h e he hn
    cases hv : e.valid with
    | false => rfl
    | true =>
      have := (validOf_some_iff s hs n e.id).2 ⟨e, he, hn, hv, rfl⟩
      rw [h] at this; cases this
  · exact validOf_none_of s n

/-- `get_logger` in terms of the valid logger of the name -/
theorem step_get_validOf (p : Params) (hp : p.OK) (s : St) (hs : RInv s) (n : Nat) :
    step p s (.get n) = (s, match validOf s n with | some i => .id i | none => .none) := by
  rw [step_get p hp s hs n]
  unfold validOf
  cases lookup s n with
  | none => rfl
  | some e => by_cases hv : e.valid = true <;> simp [hv]

/-- `create_or_get_logger` of a name that has a valid logger -/
theorem step_createOrGet_valid (p : Params) (hp : p.OK) (s : St) (hs : RInv s) (n i : Nat) (h : validOf s n = some i) :
    step p s (.createOrGet n) = (s, .id i) := by
  rw [step_createOrGet p hp s hs n]
  unfold validOf at h
  cases hl : lookup s n with
  | none => rw [hl] at h; cases h
  | some e =>
    rw [hl] at h
    by_cases hv : e.valid = true
    · simp only [hv, if_true, Option.some.injEq] at h
      simp [hv, h]
    · simp [hv] at h

/-- **`get_logger(name)`** changes nothing and returns the entry found by LINEAR search when it is valid, null
    otherwise: it returns object `i` iff some entry of that name is valid and is object `i`, and null iff no entry of
    that name is valid (in particular when the entry is removed but not yet erased) -/
theorem C17_logreg_get (p : Params) (hp : p.OK) (ops : List Op) (n : Nat) :
    let s := run p {} ops
    (step p s (.get n)).1 = s ∧
    (step p s (.get n)).2 =
      (match s.entries.find? (fun e => e.name == n) with
       | some e => if e.valid then .id e.id else .none
       | none => .none) ∧
    (∀ i, (step p s (.get n)).2 = .id i ↔ ∃ e ∈ s.entries, e.name = n ∧ e.valid = true ∧ e.id = i) ∧
    ((step p s (.get n)).2 = .none ↔ ∀ e ∈ s.entries, e.name = n → e.valid = false) := by
  intro s
  have hs : RInv s := rinv_run p hp ops {} rinv_init
  refine ⟨by rw [step_get p hp s hs n], by rw [step_get p hp s hs n]; rfl, fun i => ?_, ?_⟩
  · rw [step_get_validOf p hp s hs n, ← validOf_some_iff s hs n i]
    cases validOf s n <;> simp
  · rw [step_get_validOf p hp s hs n, ← validOf_none_iff s hs n]
    cases validOf s n <;> simp

example : (step {} (run {} {} (life.take 9)) (.get 1)).2 = .id 4 ∧ (step {} (run {} {} (life.take 9)) (.get 2)).2 = .none ∧
    (step {} (run {} {} (life.take 13)) (.get 2)).2 = .none := by decide

/-! ### (d) `create_or_get_logger` -/

/-- **`create_or_get(name)`**: an existing VALID entry of the name is returned and nothing changes; an existing INVALID
    entry (removed, not yet erased) is the contract guard, nothing changes; when the name has no entry a fresh object
    is constructed (identity = the counter, different from every identity in the vector), after which it is the valid
    logger of the name and no other name's entry has changed -/
theorem C17_logreg_create_or_get (p : Params) (hp : p.OK) (ops : List Op) (n : Nat) :
    let s := run p {} ops
    (∀ e, lookup s n = some e → e.valid = true → step p s (.createOrGet n) = (s, .id e.id)) ∧
    (∀ i, validOf s n = some i → step p s (.createOrGet n) = (s, .id i)) ∧
    (∀ e, lookup s n = some e → e.valid = false → step p s (.createOrGet n) = (s, .guard)) ∧
    (lookup s n = none →
      (step p s (.createOrGet n)).2 = .id s.next ∧ (∀ e ∈ s.entries, e.id ≠ s.next) ∧
      (step p s (.createOrGet n)).1.next = s.next + 1 ∧
      validOf (step p s (.createOrGet n)).1 n = some s.next ∧
      ∀ m, m ≠ n → lookup (step p s (.createOrGet n)).1 m = lookup s m ∧
        validOf (step p s (.createOrGet n)).1 m = validOf s m) := by
  intro s
  have hs : RInv s := rinv_run p hp ops {} rinv_init
  refine ⟨fun e he hv => ?_, fun i hi => step_createOrGet_valid p hp s hs n i hi, fun e he hv => ?_, fun hn => ?_⟩
  · rw [step_createOrGet p hp s hs n, he]; simp [hv]
  · rw [step_createOrGet p hp s hs n, he]; simp [hv]
  · rw [step_createOrGet p hp s hs n, hn]
    refine ⟨rfl, fun e he => Nat.ne_of_lt (hs.lt e he), rfl, by simp [validOf_created], fun m hm => ?_⟩
    exact ⟨by simp [lookup_created, hm], by simp [validOf_created, hm]⟩

example : lookup (run {} {} (life.take 7)) 2 = some ⟨2, 1, false⟩ ∧
    step {} (run {} {} (life.take 7)) (.createOrGet 2) = (run {} {} (life.take 7), .guard) ∧
    lookup (run {} {} (life.take 13)) 2 = none ∧ (step {} (run {} {} (life.take 13)) (.createOrGet 2)).2 = .id 5 ∧
    step {} (run {} {} (life.take 7)) (.createOrGet 1) = (run {} {} (life.take 7), .id 4) := by decide

/-- the valid logger of a name survives any further operations other than its removal -/
theorem valid_kept (p : Params) (hp : p.OK) (n i : Nat) (ops2 : List Op) (hno : ∀ op ∈ ops2, op ≠ .remove n) :
    ∀ (s : St), RInv s → validOf s n = some i → RInv (run p s ops2) ∧ validOf (run p s ops2) n = some i := by
  induction ops2 with
  | nil => intro s hs h; exact ⟨hs, h⟩
  | cons op rest ih =>
    intro s hs h
    have hrest : ∀ op ∈ rest, op ≠ .remove n := fun o ho => hno o (List.mem_cons_of_mem _ ho)
    have hstep : validOf (step p s op).1 n = some i := by
      cases op with
      | createOrGet m =>
        rw [step_createOrGet p hp s hs m]
        cases hm : lookup s m with
        | some j => exact h
        | none =>
          have : n ≠ m := by
            intro e
            rw [e] at h
            unfold validOf at h
            rw [hm] at h; cases h
          simp [validOf_created, this, h]
      | get m => rw [step_get p hp s hs m]; exact h
      | remove m =>
        have hm : n ≠ m := by intro e; exact hno (.remove m) (List.mem_cons_self ..) (by rw [e])
        simp only [step]
        split
        · rw [validOf_remove]; simp [hm, h]
        · exact h
      | cleanup ans =>
        simp only [step]
        split
        · rw [validOf_def]
          simp only
          rw [sweep_validIn s.entries hs.pw ans n]
          exact h
        · exact h
      | all => exact h
      | count => exact h
    exact ih hrest _ (rinv_step p hp s hs op) hstep

/-- **idempotence**: whatever object `create_or_get(name)` returned — the existing valid one or a fresh one —, after
    ANY further operations other than `remove_logger` of that name (creation, lookup, removal of other names, clean-ups
    with any callback answers, in any number), `get(name)` and every further `create_or_get(name)` return that same
    object and construct nothing -/
theorem C17_logreg_idempotent (p : Params) (hp : p.OK) (ops : List Op) (n : Nat) (ops2 : List Op) :
    let r := step p (run p {} ops) (.createOrGet n)
    ∀ i, r.2 = .id i → (∀ op ∈ ops2, op ≠ .remove n) →
      step p (run p r.1 ops2) (.get n) = (run p r.1 ops2, .id i) ∧
      step p (run p r.1 ops2) (.createOrGet n) = (run p r.1 ops2, .id i) := by
  intro r i hi hno
  have hs : RInv (run p {} ops) := rinv_run p hp ops {} rinv_init
  have hr1 : RInv r.1 := rinv_step p hp _ hs _
  have hvalid : validOf r.1 n = some i := by
    have hr : r = match lookup (run p {} ops) n with
        | some e => (run p {} ops, if e.valid then .id e.id else .guard)
        | none => (created (run p {} ops) n, .id (run p {} ops).next) := step_createOrGet p hp _ hs n
    cases hl : lookup (run p {} ops) n with
    | some e =>
      rw [hl] at hr
      rw [hr] at hi ⊢
      by_cases hv : e.valid = true
      · simp only [hv, if_true, Obs.id.injEq] at hi
        simp only [validOf, hl, hv, if_true, hi]
      · simp [hv] at hi
    | none =>
      rw [hl] at hr
      rw [hr] at hi ⊢
      simp only [Obs.id.injEq] at hi
      simp [validOf_created, hi]
  obtain ⟨hinv, hal⟩ := valid_kept p hp n i ops2 hno r.1 hr1 hvalid
  exact ⟨by rw [step_get_validOf p hp _ hinv n, hal], step_createOrGet_valid p hp _ hinv n i hal⟩

/-- the hypotheses of `C17_logreg_idempotent` are met with invalid entries around and clean-ups in between -/
example : let r := step {} (run {} {} (life.take 6)) (.createOrGet 1)
    r.2 = .id 4 ∧ (∀ op ∈ [Op.remove 0, .cleanup [false, true], .createOrGet 2, .remove 3, .cleanup []], op ≠ .remove 1) ∧
    step {} (run {} r.1 [Op.remove 0, .cleanup [false, true], .createOrGet 2, .remove 3, .cleanup []]) (.createOrGet 1) =
      (run {} r.1 [Op.remove 0, .cleanup [false, true], .createOrGet 2, .remove 3, .cleanup []], .id 4) := by decide

/-! ### (e) `cleanup_invalidated_loggers` -/

/-- the clean-up step when the flag is set -/
theorem step_cleanup_flag (p : Params) (s : St) (ans : List Bool) (hf : s.flag = true) :
    step p s (.cleanup ans) =
      ({ s with entries := (sweep s.entries ans).kept, flag := (sweep s.entries ans).rearm },
       .removed (sweep s.entries ans).names (sweep s.entries ans).kept.length (sweep s.entries ans).rearm) := by
  simp only [step, hf, if_true]

/-- **the clean-up** (`ans` = what the `check_queues_empty` callback answers, call by call). With the flag clear it
    returns at once. With the flag set: the callback is consulted once per INVALID entry in vector order
    (`decisions`); the vector afterwards is the entries not erased, IN THEIR ORDER (in-place `erase`: a sublist); no
    valid entry is erased; the returned names are those of the erased entries in vector order; the flag is re-armed iff
    an invalid entry stays; no name's valid logger changes; every name not returned is looked up exactly as before
    (same entry, same `get_logger` and `create_or_get_logger` answers) and every returned name has no entry any more -/
theorem C17_logreg_cleanup (p : Params) (hp : p.OK) (ops : List Op) (ans : List Bool) :
    let s := run p {} ops
    let r := step p s (.cleanup ans)
    let d := s.entries.zip (decisions s.entries ans)
    let names := (d.filter (fun x => x.2)).map (·.1.name)
    (s.flag = false → r = (s, .removed [] s.entries.length false)) ∧
    (s.flag = true →
      r.1.entries = (d.filter (fun x => !x.2)).map (·.1) ∧
      r.1.entries.Sublist s.entries ∧
      (∀ e ∈ s.entries, e.valid = true → e ∈ r.1.entries) ∧
      (∀ x ∈ d, x.2 = true → x.1.valid = false) ∧
      r.2 = .removed names r.1.entries.length r.1.flag ∧
      r.1.next = s.next ∧
      (r.1.flag = true ↔ ∃ e ∈ r.1.entries, e.valid = false) ∧
      (∀ n, validOf r.1 n = validOf s n) ∧
      (∀ n, n ∉ names → lookup r.1 n = lookup s n ∧ (step p r.1 (.get n)).2 = (step p s (.get n)).2 ∧
        (step p r.1 (.createOrGet n)).2 = (step p s (.createOrGet n)).2) ∧
      (∀ n ∈ names, lookup r.1 n = none ∧ (step p r.1 (.get n)).2 = .none)) := by
  intro s r d names
  have hs : RInv s := rinv_run p hp ops {} rinv_init
  refine ⟨fun hf => by simp only [r, step, hf]; rfl, fun hf => ?_⟩
  have hr : r = _ := step_cleanup_flag p s ans hf
  have hr1 : RInv r.1 := rinv_step p hp s hs _
  have hnames : names = (sweep s.entries ans).names := (sweep_names_eq _ _).symm
  have hlk : ∀ n, n ∉ names → lookup r.1 n = lookup s n := by
    intro n hn
    rw [hnames] at hn
    rw [hr]; exact sweep_find_of_not_mem s.entries ans n hn
  have hlk2 : ∀ n ∈ names, lookup r.1 n = none := by
    intro n hn
    rw [hnames] at hn
    rw [hr]; exact sweep_find_of_mem s.entries hs.pw ans n hn
  refine ⟨?_, ?_, ?_, decisions_erased_invalid _ _, ?_, ?_, ?_, ?_, ?_, ?_⟩
  · rw [hr]; exact sweep_kept_eq _ _
  · rw [hr]; exact sweep_sublist _ _
  · rw [hr]; exact sweep_valid_kept _ _
  · rw [hr, hnames]
  · rw [hr]
  · rw [hr]
    show (sweep s.entries ans).rearm = true ↔ _
    rw [sweep_rearm, List.any_eq_true]
    simp
  · intro n
    rw [hr]
    exact sweep_validIn s.entries hs.pw ans n
  · intro n hn
    have h := hlk n hn
    refine ⟨h, ?_, ?_⟩
    · rw [step_get p hp _ hr1 n, step_get p hp s hs n, h]
    · rw [step_createOrGet p hp _ hr1 n, step_createOrGet p hp s hs n, h]
      cases lookup s n with
      | some e => rfl
      | none => rw [hr]
  · intro n hn
    have h := hlk2 n hn
    exact ⟨h, by rw [step_get p hp _ hr1 n, h]⟩

/-- both branches of `C17_logreg_cleanup` on the concrete life: flag clear → early return; flag set, two invalid
    entries, answers `[false]` → the first (name 0) stays and re-arms the flag, the second (name 2) is erased -/
example : (run {} {} (life.take 5)).flag = false ∧
    step {} (run {} {} (life.take 5)) (.cleanup [true]) = (run {} {} (life.take 5), .removed [] 4 false) ∧
    (run {} {} (life.take 9)).flag = true ∧
    decisions (run {} {} (life.take 9)).entries [false] = [false, false, true, false] ∧
    step {} (run {} {} (life.take 9)) (.cleanup [false]) =
      ({ entries := [⟨0, 2, false⟩, ⟨1, 4, true⟩, ⟨3, 3, true⟩], next := 5, flag := true }, .removed [2] 3 true) := by
  decide

/-! ### (f) `remove_logger` -/

/-- a name without valid logger stays so under any operations other than `create_or_get` of that name -/
theorem none_kept (p : Params) (hp : p.OK) (n : Nat) (ops2 : List Op) (hno : ∀ op ∈ ops2, op ≠ .createOrGet n) :
    ∀ (s : St), RInv s → validOf s n = none → RInv (run p s ops2) ∧ validOf (run p s ops2) n = none := by
  induction ops2 with
  | nil => intro s hs h; exact ⟨hs, h⟩
  | cons op rest ih =>
    intro s hs h
    have hrest : ∀ op ∈ rest, op ≠ .createOrGet n := fun o ho => hno o (List.mem_cons_of_mem _ ho)
    have hstep : validOf (step p s op).1 n = none := by
      cases op with
      | createOrGet m =>
        have hm : n ≠ m := by intro e; exact hno (.createOrGet m) (List.mem_cons_self ..) (by rw [e])
        rw [step_createOrGet p hp s hs m]
        cases lookup s m with
        | some j => exact h
        | none => simp [validOf_created, hm, h]
      | get m => rw [step_get p hp s hs m]; exact h
      | remove m =>
        simp only [step]
        split
        · rw [validOf_remove]; simp [h]
        · exact h
      | cleanup ans =>
        simp only [step]
        split
        · rw [validOf_def]
          simp only
          rw [sweep_validIn s.entries hs.pw ans n]
          exact h
        · exact h
      | all => exact h
      | count => exact h
    exact ih hrest _ (rinv_step p hp s hs op) hstep

/-- **`remove_logger`**: afterwards the name has no valid logger (the entry stays, invalid, until the backend erases
    it), no other name's valid logger changes, and `get_logger(name)` returns null after ANY further operations other
    than `create_or_get_logger(name)` -/
theorem C17_logreg_remove (p : Params) (hp : p.OK) (ops : List Op) (n : Nat) (ops2 : List Op) :
    let s1 := (step p (run p {} ops) (.remove n)).1
    validOf s1 n = none ∧ (∀ m, m ≠ n → validOf s1 m = validOf (run p {} ops) m) ∧
    ((∀ op ∈ ops2, op ≠ .createOrGet n) → (step p (run p s1 ops2) (.get n)).2 = .none) := by
  intro s1
  have hs : RInv (run p {} ops) := rinv_run p hp ops {} rinv_init
  have hs1 : RInv s1 := rinv_step p hp _ hs _
  have h1 : validOf s1 n = none := by
    simp only [s1, step]
    split
    · rw [validOf_remove]; simp
    · rename_i hany
      apply validOf_none_of
      intro e he hn
      simp only [List.any_eq_true, Bool.and_eq_true, beq_iff_eq, not_exists, not_and] at hany
      simpa using hany e he hn
  refine ⟨h1, fun m hm => ?_, fun hno => ?_⟩
  · simp only [s1, step]
    split
    · rw [validOf_remove]; simp [hm]
    · rfl
  · obtain ⟨hinv, hv⟩ := none_kept p hp n ops2 hno s1 hs1 h1
    rw [step_get_validOf p hp _ hinv n, hv]

example : validOf (run {} {} (life.take 5)) 2 = some 1 ∧
    validOf (step {} (run {} {} (life.take 5)) (.remove 2)).1 2 = none ∧
    lookup (step {} (run {} {} (life.take 5)) (.remove 2)).1 2 = some ⟨2, 1, false⟩ := by decide

/-- a clean-up whose callback always answers "queues empty" erases exactly the invalid entries -/
theorem sweep_nil_answers (l : List Entry) :
    sweep l [] = { kept := l.filter (fun e => e.valid), names := (l.filter (fun e => !e.valid)).map (·.name),
                   rearm := false } := by
  induction l with
  | nil => rfl
  | cons x xs ih =>
    by_cases h : x.valid = true
    · rw [sweep_cons_valid x xs [] h, ih]; simp [h]
    · have h' : x.valid = false := by simpa using h
      rw [sweep_cons_erase x xs [] h' rfl]
      simp only [List.tail_nil, ih]
      simp [h']

/-- **re-creation after the erase**: once a valid logger of `name` was removed, `create_or_get_logger(name)` is the
    contract guard as long as the backend has not erased the entry; after the clean-up (queues empty) the name has no
    entry and `create_or_get_logger(name)` constructs a NEW object (identity = the counter, which no entry carries) -/
theorem C17_logreg_recreate_after_erase (p : Params) (hp : p.OK) (ops : List Op) (n i : Nat) :
    let s := run p {} ops
    let s1 := (step p s (.remove n)).1
    let s2 := (step p s1 (.cleanup [])).1
    validOf s n = some i →
      (step p s (.remove n)).2 = .ok ∧
      step p s1 (.createOrGet n) = (s1, .guard) ∧
      lookup s2 n = none ∧ (∀ e ∈ s2.entries, e.valid = true) ∧ s2.flag = false ∧
      (step p s2 (.createOrGet n)).2 = .id s.next ∧ (∀ e ∈ s2.entries, e.id ≠ s.next) ∧ i ≠ s.next := by
  intro s s1 s2 hv
  have hs : RInv s := rinv_run p hp ops {} rinv_init
  obtain ⟨e, he, hn, hval, hid⟩ := (validOf_some_iff s hs n i).1 hv
  have hany : s.entries.any (fun e => e.name == n && e.valid) = true := by
    rw [List.any_eq_true]; exact ⟨e, he, by simp [hn, hval]⟩
  have hst : step p s (.remove n) = ({ s with entries := s.entries.map (inval n), flag := true }, .ok) := by
    simp only [step, hany, if_true]
  have hs1e : s1 = { s with entries := s.entries.map (inval n), flag := true } := by simp only [s1, hst]
  have hs1 : RInv s1 := rinv_step p hp _ hs _
  have hs2 : RInv s2 := rinv_step p hp _ hs1 _
  have hl1 : lookup s1 n = some (inval n e) := by
    rw [hs1e, lookup_remove]
    have := find_some_of_mem s.entries hs.pw e he
    rw [hn] at this
    rw [lookup_def, this]; rfl
  have hinv : (inval n e).valid = false := by rw [inval_valid]; simp [hn]
  have hs2e : s2 = { s1 with entries := s1.entries.filter (fun e => e.valid), flag := false } := by
    have hf : s1.flag = true := by rw [hs1e]
    simp only [s2, step_cleanup_flag p s1 [] hf, sweep_nil_answers]
  have hl2 : lookup s2 n = none := by
    rw [hs2e, lookup_none_iff]
    intro a ha
    have ha' := List.mem_filter.1 ha
    intro hna
    have hmem := (lookup_some_mem hl1).1
    have := eq_of_name_eq s1.entries hs1.pw a ha'.1 (inval n e) hmem (by rw [hna, inval_name, hn])
    rw [this, hinv] at ha'
    exact absurd ha'.2 (by simp)
  have hnext : s2.next = s.next := by rw [hs2e, hs1e]
  refine ⟨by rw [hst], ?_, hl2, ?_, by rw [hs2e], ?_, ?_, ?_⟩
  · rw [step_createOrGet p hp s1 hs1 n, hl1]; simp [hinv]
  · rw [hs2e]; intro a ha; exact (List.mem_filter.1 ha).2
  · rw [step_createOrGet p hp s2 hs2 n, hl2, hnext]
  · intro a ha; have := hs2.lt a ha; rw [hnext] at this; exact Nat.ne_of_lt this
  · have := hs.lt e he; omega

example : let s := run {} {} (life.take 5)
    validOf s 2 = some 1 ∧ s.next = 5 ∧
    (step {} (step {} (step {} s (.remove 2)).1 (.cleanup [])).1 (.createOrGet 2)).2 = .id 5 ∧
    (step {} (step {} s (.remove 2)).1 (.createOrGet 2)).2 = .guard := by decide

/-! ### (g) negative witnesses -/

/-- **negative witness (unstable clean-up: `std::partition` + range `erase` instead of the in-place `erase`)**: with
    loggers audit(0), metrics(1), net(2), root(3) and `audit` removed, `std::partition` swaps `root` to the front: the
    vector [root, metrics, net] is no longer sorted, `_find_logger("metrics")` looks at the wrong place, `get_logger`
    returns null although the logger is valid, and `create_or_get_logger` constructs a SECOND object under the name.
    The surviving entries are the same as after the real clean-up; only their order differs. -/
theorem C17_logreg_unstable_cleanup_lookup_fails :
    let ops : List Op := [.createOrGet 0, .createOrGet 1, .createOrGet 2, .createOrGet 3, .remove 0]
    let t := partitionCleanup (run {} {} ops)
    let u := (step {} (run {} {} ops) (.cleanup [])).1
    t.entries.map (·.name) = [3, 1, 2] ∧
    (step {} t (.get 1)).2 = .none ∧ validOf t 1 = some 2 ∧
    (step {} t (.createOrGet 1)).2 = .id 5 ∧
    ((step {} t (.createOrGet 1)).1.entries.filter (fun e => e.name == 1 && e.valid)).length = 2 ∧
    u.entries.map (·.name) = [1, 2, 3] ∧
    (step {} u (.get 1)).2 = .id 2 ∧ (step {} u (.createOrGet 1)) = (u, .id 2) ∧
    (∀ e ∈ t.entries, e ∈ u.entries) ∧ (∀ e ∈ u.entries, e ∈ t.entries) ∧ t.entries.length = u.entries.length ∧
    t.next = u.next ∧ t.flag = u.flag := by decide

/-- **`_find_logger` at the upper bound never finds anything**: every `create_or_get` constructs a new object, `get`
    returns null -/
theorem C17_logreg_upper_find_never_finds :
    let p : Params := { findAt := .upper }
    trace p {} [.createOrGet 0, .createOrGet 0, .get 0] = [.id 1, .id 2, .none] ∧
    (run p {} [.createOrGet 0, .createOrGet 0, .get 0]).entries = [⟨0, 2, true⟩, ⟨0, 1, true⟩] := by decide

/-- **remark (no witness for `_insert_logger` at the upper bound)**: `_insert_logger` is only called for a name that
    has NO entry, and then the upper bound is the lower bound — the two structures are the same function -/
theorem bound_upper_eq_lower_of_absent (l : List Entry) (n : Nat) (h : ∀ e ∈ l, e.name ≠ n) :
    bound .upper l n = bound .lower l n := by
  unfold bound
  simp only
  induction l with
  | nil => rfl
  | cons x xs ih =>
    have hx : x.name ≠ n := h x (List.mem_cons_self ..)
    have hxs := ih (fun e he => h e (List.mem_cons_of_mem _ he))
    by_cases hlt : x.name < n
    · have hle : x.name ≤ n := by omega
      simp [hlt, hle, hxs]
    · have hle : ¬ x.name ≤ n := by omega
      simp [hlt, hle]

/-- … so every step (hence every run and every trace) with `insertAt := .upper` equals the one with `.lower`, from
    every state satisfying the invariant -/
theorem C17_logreg_upper_insert_same_step (s : St) (hs : RInv s) (op : Op) :
    step { insertAt := .upper } s op = step {} s op := by
  cases op with
  | createOrGet n =>
    have hf : find { insertAt := .upper } s n = find {} s n := rfl
    simp only [step, hf]
    cases hl : find {} s n with
    | some e => rfl
    | none =>
      have : lookup s n = none := by rw [← find_eq_lookup {} ⟨rfl, rfl⟩ s hs n]; exact hl
      simp only [bound_upper_eq_lower_of_absent s.entries n ((lookup_none_iff s n).1 this)]
  | get n => rfl
  | remove n => rfl
  | cleanup ans => rfl
  | all => rfl
  | count => rfl

theorem C17_logreg_upper_insert_same_trace (ops : List Op) :
    ∀ s, RInv s → trace { insertAt := .upper } s ops = trace {} s ops ∧ run { insertAt := .upper } s ops = run {} s ops := by
  induction ops with
  | nil => intro s _; exact ⟨rfl, rfl⟩
  | cons op rest ih =>
    intro s hs
    have h1 := C17_logreg_upper_insert_same_step s hs op
    have h2 := ih _ (rinv_step {} ⟨rfl, rfl⟩ s hs op)
    simp only [trace, run, h1, h2.1, h2.2, and_self]

example : trace { insertAt := .upper } {} life = trace {} {} life := by decide

end LogReg
