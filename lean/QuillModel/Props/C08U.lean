import QuillModel.Backend.UFail
import QuillModel.Props.C03U
/-!
# C08 and the unbounded queue types: not applicable, stated as a theorem of the model

C08 speaks of *bounded dropping* queues. For a context with an unbounded queue type the backend's
`_check_failure_counter` does nothing (`if (thread_context->has_bounded_queue_type())`), and the context clean-up does not
look at the counter: a refusal at `unbounded_queue_max_capacity` (a drop on UnboundedDropping, a blocking episode on
UnboundedBlocking) bumps the counter, and nothing ever reads, resets or reports it. The U machine mirrors this (no
`checkFailures` in `pollU` / `processLowestU` / `exitLoopU`; compared line by line with both unbounded H2 builds: no
`n:dropped` / `n:blocked` line ever appears there). As an invariant of every operation list:
-/
namespace Backend
open Backend.UQ

theorem C08U_fresh_state (s0 : BSt) (hh : 0 < s0.cfg.hdr) (ht : s0.ths = []) (ha : s0.actors = []) :
    US.GI US.Ctr s0.cfg s0 :=
  ⟨C03U_fresh_state s0 hh ht ha, fun j => by
    rw [show s0.th j = default from by simp [BSt.th, ht]]; rfl, rfl⟩

/-- **The failure counter of an unbounded context is never reset (hence never reported).** In every state reachable by
    any operation list, the counter of every context equals the number of ordinary log calls of that thread ever
    refused at the maximum capacity — dropped (`discarded`) or made to wait (`blockedCalls`). -/
theorem C08U_counter_never_reset (u : UP) (s0 : BSt) (h0 : US.GI US.Ctr s0.cfg s0) (ops : List UOp) (i : Nat) :
    ((runOpsU u s0 ops).th i).fail = ((runOpsU u s0 ops).th i).discarded + ((runOpsU u s0 ops).th i).blockedCalls :=
  (US.runOpsU_closed (US.ctr_closedU u s0.cfg) ops s0 h0).t i

/-- non-vacuity: the C09 example run — one call refused at the maximum: counter 1, one blocking episode, after a poll -/
example : US.GI US.Ctr exS0.cfg exS0 := C08U_fresh_state exS0 (by decide) rfl rfl
example :
    let s := runOpsU { qmax := 2 ^ 12 } exS0
      [.front (.base (.tstart 1)), .front (.base (.log 1 0 4 3900 true)), .front (.base (.log 1 0 4 3900 true)), .poll [], .poll []]
    (s.th 0).fail = 1 ∧ (s.th 0).blockedCalls = 1 ∧ s.reported = 0 := by decide

end Backend
