import QuillModel.Uspsc.Shrink
import QuillModel.Props.C02
/-!
# C20 (shrink half) / C02 (shrink path) — shrinking takes effect and loses nothing

"Shrinking a thread's queue on request takes effect (the capacity reported for that thread drops) without losing or
reordering statements." `Frontend::shrink_thread_local_queue(c)` calls `UnboundedSPSCQueue::shrink(c)`;
`Frontend::get_thread_local_queue_capacity()` reports `producer_capacity()` (the producer's node); the backend's
`capacity()` reads the consumer's node. Model: the node chain of `Uspsc/Model.lean`, `apiShrink` of `Uspsc/Api.lean`
(the micro-steps the correspondence driver executes for an `sh c` line), helpers in `Uspsc/Shrink.lean`.

Property theorems only. Quantifiers: every state / every reachable state of the chain (any initial capacity `> 0`, any
batch rule), every schedule before and after the shrink (producer and consumer micro-steps, further growths and
shrinks, every legal stale load), every request `c`. Caller contract as in C02: `shrink` is called with every write
committed (that is the enabling condition of the `publish` step).
-/
namespace Uspsc
open Spsc

/-! ### (f) the loops with fuel compute what they should -/

/-- **`nextPow2` is the least power of two `≥ n`, and its fuel is enough**: the result is a power of two, at least
    `n`, every power of two `≥ n` is at least the result, and running the loop with any larger fuel gives the same
    value (the loop stops on its own condition). (`nextPow2 0 = 1`, like `next_power_of_two(0)`.) -/
theorem C02_nextPow2_spec (n : Nat) :
    (∃ k, nextPow2 n = 2 ^ k) ∧ n ≤ nextPow2 n ∧ (∀ k, n ≤ 2 ^ k → nextPow2 n ≤ 2 ^ k) ∧
    (∀ fuel, n ≤ fuel → nextPow2.go n fuel 1 = nextPow2 n) :=
  ⟨(nextPow2_isNext n).1, (nextPow2_isNext n).2.1, (nextPow2_isNext n).2.2, fun f hf => nextPow2_go_fuel n f hf⟩

example : nextPow2 5 = 8 ∧ nextPow2 8 = 8 ∧ nextPow2 9 = 16 ∧ nextPow2 0 = 1 ∧ nextPow2 1 = 1 ∧
    nextPow2.go 5 1000 1 = 8 := by decide

/-- `apiShrink` has no loop of its own; the only fuel in it is `nextPow2`'s: with any fuel `≥ c` it publishes the
    same capacity -/
theorem C02_shrink_fuel_enough (s : US) (c fuel : Nat) (hf : c ≤ fuel) :
    apiShrink s c = if shrinkAllocates s.pnode.q.cap c
      then ([.publish (nextPow2.go c fuel 1)], .shrunk (nextPow2.go c fuel 1)) else ([], .noshrink) := by
  rw [nextPow2_go_fuel c fuel hf]; rfl

/-- the doubling loop of `_handle_full_queue` (`dbl`, fuel = the record size): any larger fuel gives the same
    capacity, so `growDecision` does not depend on it -/
theorem C02_dbl_fuel_enough {cap n fuel : Nat} (hcap : 0 < cap) (hf : n ≤ fuel) :
    dbl fuel (cap * 2) n = dbl n (cap * 2) n :=
  dbl_fuel n fuel n (cap * 2) (by omega) (by omega) (by omega)

example : dbl 5000 (1024 * 2) 5000 = 8192 ∧ dbl 100000 (1024 * 2) 5000 = 8192 := by decide

/-! ### (e.1) the reported capacity drops -/

/-- **A shrink request of at most half the capacity takes effect.** In every state whose producer node has capacity
    `≥ 2`, for every request `c ≤ capacity / 2`: `shrink c` performs exactly one publication, of a node of capacity
    `nextPow2 c`; afterwards `producer_capacity()` is `nextPow2 c`, which is at least the request and **strictly
    below the capacity reported before**; exactly one node was allocated, it is empty and the producer is on it; and
    the step is legal whenever every write has been committed (caller contract). -/
theorem C20_shrink_reported_capacity (o : UParams) (s : US) (c : Nat)
    (h2 : 2 ≤ producerCapacity s) (hc : c ≤ producerCapacity s / 2) :
    apiShrink s c = ([.publish (nextPow2 c)], .shrunk (nextPow2 c)) ∧
    producerCapacity (urun o s (apiShrink s c).1) = nextPow2 c ∧
    nextPow2 c < producerCapacity s ∧ c ≤ nextPow2 c ∧
    (urun o s (apiShrink s c).1).n = s.n + 1 ∧ (urun o s (apiShrink s c).1).pi = s.n ∧
    (urun o s (apiShrink s c).1).pnode.q.recs = [] ∧
    (s.pnode.q.wHist.headD 0 = s.pnode.q.wpos → URun o s (apiShrink s c).1) := by
  have e := apiShrink_alloc s c hc
  rw [e]
  refine ⟨rfl, ?_, nextPow2_lt_cap h2 hc, (nextPow2_isNext c).2.1, rfl, rfl, ?_, ?_⟩
  · show (ustep o s (.publish (nextPow2 c))).pnode.q.cap = _
    rw [publish_pnode]; rfl
  · show (ustep o s (.publish (nextPow2 c))).pnode.q.recs = _
    rw [publish_pnode]; rfl
  · intro hcm
    exact ⟨⟨nextPow2_pos c, hcm⟩, trivial⟩

/-- with a power-of-two capacity (every node quill allocates: `C02_node_capacity_pow2`) the new capacity is a power of
    two and at most **half** of the old one -/
theorem C20_shrink_at_most_half (o : UParams) (s : US) (j c : Nat) (hj : 1 ≤ j) (hcap : producerCapacity s = 2 ^ j)
    (hc : c ≤ producerCapacity s / 2) :
    producerCapacity (urun o s (apiShrink s c).1) ≤ producerCapacity s / 2 ∧
    ∃ k, k < j ∧ producerCapacity (urun o s (apiShrink s c).1) = 2 ^ k := by
  have h2 : 2 ≤ producerCapacity s := by
    rw [hcap]; exact Nat.le_trans (by decide : 2 ≤ 2 ^ 1) (Nat.pow_le_pow_right (by decide) hj)
  obtain ⟨_, hp, hlt, _⟩ := C20_shrink_reported_capacity o s c h2 hc
  rw [hp]
  rw [hcap] at hc hlt ⊢
  refine ⟨nextPow2_le_half hj hc, ?_⟩
  obtain ⟨k, hk⟩ := (nextPow2_isNext c).1
  refine ⟨k, ?_, hk⟩
  rw [hk] at hlt
  exact (Nat.pow_lt_pow_iff_right (by decide : 1 < 2)).mp hlt

/-- **A request that is not small enough is a no-op**: for `c > capacity / 2` (the code's test
    `capacity > (_producer->bounded_queue.capacity() >> 1)`) no micro-step is performed — the state, hence the
    reported capacity and the number of nodes, is unchanged. -/
theorem C20_shrink_noop (o : UParams) (s : US) (c : Nat) (hc : producerCapacity s / 2 < c) :
    apiShrink s c = ([], .noshrink) ∧ urun o s (apiShrink s c).1 = s := by
  have e := apiShrink_noop s c hc
  rw [e]; exact ⟨rfl, rfl⟩

/-- `C02_shrink_iff` extended by what the queue reports: after `shrink c` the producer-side capacity is `nextPow2 c`
    if `c ≤ capacity / 2` and the old capacity otherwise; a node is allocated in the first case only. -/
theorem C02_shrink_reports (o : UParams) (s : US) (c : Nat) :
    producerCapacity (urun o s (apiShrink s c).1) =
      (if c ≤ producerCapacity s / 2 then nextPow2 c else producerCapacity s) ∧
    (urun o s (apiShrink s c).1).n = (if c ≤ producerCapacity s / 2 then s.n + 1 else s.n) ∧
    (shrinkAllocates (producerCapacity s) c = true ↔ c ≤ producerCapacity s / 2) := by
  refine ⟨?_, ?_, C02_shrink_iff _ _⟩
  all_goals
    by_cases hc : c ≤ producerCapacity s / 2
    · rw [if_pos hc, apiShrink_alloc s c hc]
      first
        | (show (ustep o s (.publish (nextPow2 c))).pnode.q.cap = _; rw [publish_pnode]; rfl)
        | rfl
    · rw [if_neg hc, apiShrink_noop s c (Nat.lt_of_not_le hc)]; rfl

/-- why `2 ≤ capacity` is needed in `C20_shrink_reported_capacity`: on a node of capacity 1 `shrink(0)` passes the
    test (`0 > 0` is false) and allocates a new node of capacity `next_power_of_two(0) = 1` — not smaller. (A capacity
    of 1 byte cannot hold a record; observation, not a finding.) -/
theorem C20_shrink_capacity_one_degenerate :
    producerCapacity (urun quillU (uinit 1 (fun _ => 0)) (apiShrink (uinit 1 (fun _ => 0)) 0).1) = 1 ∧
    (urun quillU (uinit 1 (fun _ => 0)) (apiShrink (uinit 1 (fun _ => 0)) 0).1).n = 2 := by decide

/-! #### the schedule used for the non-vacuity examples: a WRAPPED old node

capacity 8: write 6, commit; the consumer reads it and publishes its position; the producer reloads it and writes 6
more — the free-running writer position is 12, past the capacity (the record starts at offset 6 and spills into the
second half of the `2·cap` storage, as quill's records do); commit. Then `shrink 3`. -/
def wrappedPre : List UOp :=
  [.p (.write 6), .p .commitW, .c (.loadW 6), .c (.read 6), .c (.commitR true), .p (.reloadR 6), .p (.write 6), .p .commitW]
/-- after the shrink: a record of 3 bytes into the new node; the consumer finishes the old node (second record),
    observes `next`, re-reads, … -/
def wrappedPostUntilSwitch : List UOp :=
  [.p (.write 3), .p .commitW, .c (.loadW 12), .c (.read 6), .seeNext, .c (.loadW 12)]
/-- … switches (frees the old node) and reads from the new one -/
def wrappedPost : List UOp := wrappedPostUntilSwitch ++ [.switch, .c (.loadW 3), .c (.read 3)]

def s8 : US := uinit 8 (fun _ => 0)

/-- the old node is wrapped and fully committed when `shrink` is called -/
example : URun quillU s8 wrappedPre ∧ (urun quillU s8 wrappedPre).pnode.q.wpos = 12 ∧
    producerCapacity (urun quillU s8 wrappedPre) = 8 ∧ 12 % 8 ≠ 12 ∧
    (urun quillU s8 wrappedPre).pnode.q.wHist.headD 0 = (urun quillU s8 wrappedPre).pnode.q.wpos := by decide

/-- non-vacuity of `C20_shrink_reported_capacity` (wrapped node, `shrink 3`: reported capacity 8 → 4, one more node)
    and of `C20_shrink_noop` (`shrink 5` on capacity 8: nothing happens) -/
example : 2 ≤ producerCapacity (urun quillU s8 wrappedPre) ∧ 3 ≤ producerCapacity (urun quillU s8 wrappedPre) / 2 ∧
    producerCapacity (urun quillU (urun quillU s8 wrappedPre) (apiShrink (urun quillU s8 wrappedPre) 3).1) = 4 ∧
    (urun quillU (urun quillU s8 wrappedPre) (apiShrink (urun quillU s8 wrappedPre) 3).1).n = 2 ∧
    URun quillU (urun quillU s8 wrappedPre) (apiShrink (urun quillU s8 wrappedPre) 3).1 ∧
    producerCapacity (urun quillU s8 wrappedPre) / 2 < 5 ∧
    producerCapacity (urun quillU (urun quillU s8 wrappedPre) (apiShrink (urun quillU s8 wrappedPre) 5).1) = 8 ∧
    (urun quillU (urun quillU s8 wrappedPre) (apiShrink (urun quillU s8 wrappedPre) 5).1).n = 1 := by decide

/-! ### (e.2) nothing lost, duplicated or reordered across the shrink -/

/-- a schedule with a `shrink c` in it: `pre`, then the micro-steps of `shrink c` in the state `pre` leads to, then `post` -/
def withShrink (o : UParams) (s : US) (pre : List UOp) (c : Nat) (post : List UOp) : List UOp :=
  pre ++ (apiShrink (urun o s pre) c).1 ++ post

theorem withShrink_alloc (o : UParams) (s : US) (pre post : List UOp) (c : Nat)
    (hc : c ≤ producerCapacity (urun o s pre) / 2) :
    withShrink o s pre c post = pre ++ (UOp.publish (nextPow2 c) :: post) := by
  simp only [withShrink, apiShrink_alloc _ c hc, List.append_assoc, List.singleton_append]

/-- **The consumer reads every committed record exactly once, in order, across a shrink.** For every legal schedule
    `pre`, every effective request `c ≤ capacity / 2` and every legal continuation `post` (both may contain further
    growths, shrinks, switches and stale loads): the shrink itself neither writes nor reads a record; the records read
    over the whole schedule are a **prefix** of the records written over the whole schedule (old-node records before
    new-node records, none skipped, none twice); and once the consumer has caught up with the producer (it is on the
    producer's node and has read all of it) the two streams are **equal** — nothing was lost. -/
theorem C20_shrink_loses_nothing (o : UParams) (ho : UOrdersOK o) (cap : Nat) (batch : Nat → Nat) (hcap : 0 < cap)
    (pre post : List UOp) (c : Nat) (hc : c ≤ producerCapacity (urun o (uinit cap batch) pre) / 2)
    (hr : URun o (uinit cap batch) (withShrink o (uinit cap batch) pre c post)) :
    writesOfU (withShrink o (uinit cap batch) pre c post) = writesOfU pre ++ writesOfU post ∧
    readsOfU (withShrink o (uinit cap batch) pre c post) = readsOfU pre ++ readsOfU post ∧
    readsOfU pre ++ readsOfU post <+: writesOfU pre ++ writesOfU post ∧
    ((urun o (uinit cap batch) (withShrink o (uinit cap batch) pre c post)).ci =
        (urun o (uinit cap batch) (withShrink o (uinit cap batch) pre c post)).pi →
      (urun o (uinit cap batch) (withShrink o (uinit cap batch) pre c post)).cnode.q.nread =
        (urun o (uinit cap batch) (withShrink o (uinit cap batch) pre c post)).cnode.q.recs.length →
      readsOfU pre ++ readsOfU post = writesOfU pre ++ writesOfU post) := by
  obtain ⟨hpre, hw, hrd⟩ := C02_trace_fifo o ho cap batch hcap _ hr
  have ew : writesOfU (withShrink o (uinit cap batch) pre c post) = writesOfU pre ++ writesOfU post := by
    rw [withShrink_alloc o _ pre post c hc, writesOfU_append, writesOfU_cons]; rfl
  have er : readsOfU (withShrink o (uinit cap batch) pre c post) = readsOfU pre ++ readsOfU post := by
    rw [withShrink_alloc o _ pre post c hc, readsOfU_append, readsOfU_cons]; rfl
  refine ⟨ew, er, by rw [← ew, ← er]; exact hpre, ?_⟩
  intro hci hall
  rw [← ew, ← er, hw, hrd, hall, List.take_length, ← hci, recsOf_succ]
  rfl

/-- non-vacuity (wrapped old node): the schedule is legal, the request is effective, the consumer ends on the
    producer's node with everything read, and it read `[6, 6, 3]` = what was written: two records from the wrapped
    8-byte node (the second one across the physical end of the ring), then one from the 4-byte node -/
example : URun quillU s8 (withShrink quillU s8 wrappedPre 3 wrappedPost) ∧
    3 ≤ producerCapacity (urun quillU s8 wrappedPre) / 2 ∧
    (urun quillU s8 (withShrink quillU s8 wrappedPre 3 wrappedPost)).ci =
      (urun quillU s8 (withShrink quillU s8 wrappedPre 3 wrappedPost)).pi ∧
    (urun quillU s8 (withShrink quillU s8 wrappedPre 3 wrappedPost)).cnode.q.nread =
      (urun quillU s8 (withShrink quillU s8 wrappedPre 3 wrappedPost)).cnode.q.recs.length ∧
    readsOfU wrappedPre ++ readsOfU wrappedPost = [6, 6, 3] ∧
    writesOfU wrappedPre ++ writesOfU wrappedPost = [6, 6, 3] := by decide

/-! ### (e.3) the old node is freed only after its last record was read -/

/-- **The node abandoned by a shrink is freed only when drained.** Take any legal schedule `pre`, an effective request
    `c`, any legal continuation `post`, and suppose the consumer is now about to free the node the producer was on when
    it shrank (`switch` enabled with `ci` = that node). Then: that node still holds exactly the records it held at the
    shrink (the producer never came back to it), **all of them have been read** (`nread` = their number, the reader
    position has reached the node's final writer position), the free happens-after the producer's last access and after
    the producer left the node; everything read so far is exactly the content of the nodes up to and including it; and
    after the free `capacity()` (consumer side) reports the shrunk capacity `nextPow2 c` too. -/
theorem C20_shrink_old_node_freed_after_drained (o : UParams) (ho : UOrdersOK o) (cap : Nat) (batch : Nat → Nat)
    (hcap : 0 < cap) (pre post : List UOp) (c : Nat)
    (hc : c ≤ producerCapacity (urun o (uinit cap batch) pre) / 2)
    (hr : URun o (uinit cap batch) (withShrink o (uinit cap batch) pre c post))
    (hsw : UEnabled o (urun o (uinit cap batch) (withShrink o (uinit cap batch) pre c post)) .switch)
    (hci : (urun o (uinit cap batch) (withShrink o (uinit cap batch) pre c post)).ci = (urun o (uinit cap batch) pre).pi) :
    (urun o (uinit cap batch) (withShrink o (uinit cap batch) pre c post)).cnode.q.recs =
      (urun o (uinit cap batch) pre).pnode.q.recs ∧
    (urun o (uinit cap batch) (withShrink o (uinit cap batch) pre c post)).cnode.q.nread =
      (urun o (uinit cap batch) pre).pnode.q.recs.length ∧
    (urun o (uinit cap batch) (withShrink o (uinit cap batch) pre c post)).cnode.q.rpos =
      (urun o (uinit cap batch) pre).pnode.q.wpos ∧
    (urun o (uinit cap batch) (withShrink o (uinit cap batch) pre c post)).sawSync = true ∧
    (urun o (uinit cap batch) (withShrink o (uinit cap batch) pre c post)).ci <
      (urun o (uinit cap batch) (withShrink o (uinit cap batch) pre c post)).pi ∧
    readsOfU (withShrink o (uinit cap batch) pre c post) =
      recsOf (urun o (uinit cap batch) (withShrink o (uinit cap batch) pre c post)).nodes
        ((urun o (uinit cap batch) pre).pi + 1) ∧
    consumerCapacity (ustep o (urun o (uinit cap batch) (withShrink o (uinit cap batch) pre c post)) .switch) =
      nextPow2 c := by
  have hfifo := (C02_trace_fifo o ho cap batch hcap _ hr).2.2
  have hinvE := ureachable_inv o ho _ _ (uinit_inv o cap batch hcap) hr
  have hsafe := ustep_safe o ho _ .switch hinvE hsw
  rw [withShrink_alloc o _ pre post c hc] at hr hsw hci hfifo hinvE hsafe ⊢
  obtain ⟨hrpre, hrest⟩ := URun_split o pre _ _ hr
  obtain ⟨hpub, hrpost⟩ := hrest
  rw [urun_append] at hsw hci hfifo hinvE hsafe ⊢
  simp only [urun] at hsw hci hfifo hinvE hsafe ⊢
  generalize hs0 : urun o (uinit cap batch) pre = s0 at *
  have hinv0 : UInv o s0 := by rw [← hs0]; exact ureachable_inv o ho pre _ (uinit_inv o cap batch hcap) hrpre
  have hinv1 := ustep_inv o ho s0 _ hinv0 hpub
  have hlen0 := hinv0.len
  have hpi1 : (ustep o s0 (.publish (nextPow2 c))).pi = s0.n := rfl
  have hn1 : (ustep o s0 (.publish (nextPow2 c))).n = s0.n + 1 := rfl
  obtain ⟨hq1, _⟩ := publish_old o s0 (nextPow2 c) (by omega)
  obtain ⟨⟨f1, f2, _⟩, _⟩ := urun_left_frozen o ho post _ hinv1 hrpost s0.pi (by rw [hpi1]; omega)
  obtain ⟨fc, _⟩ := urun_cap_frozen o post (ustep o s0 (.publish (nextPow2 c))) s0.n (by rw [hn1]; omega)
  generalize hsE : urun o (ustep o s0 (.publish (nextPow2 c))) post = sE at *
  obtain ⟨hall, hss, hlt⟩ := hsafe
  obtain ⟨hsn, hrw, hre⟩ := hsw
  have hwc := (hinvE.rr (hre ho.2.2)).2 hss
  have hcn : sE.cnode = sE.nodes s0.pi := by rw [US.cnode, hci]
  rw [hcn] at hall hrw hwc hfifo ⊢
  rw [hq1] at f1 f2
  refine ⟨f1, by rw [hall, f1], by rw [hrw, hwc, f2], hss, hlt, ?_, ?_⟩
  · rw [hfifo, hall, List.take_length, hci, recsOf_succ]
  · show ((ustep o sE .switch).nodes (ustep o sE .switch).ci).q.cap = _
    have e1 : (ustep o sE .switch).ci = s0.n := by simp only [ustep]; omega
    have e2 : (ustep o sE .switch).nodes = sE.nodes := rfl
    rw [e1, e2, fc]
    simp [ustep, setNode, init]

/-- non-vacuity (wrapped old node): right before the consumer's switch the hypotheses hold — legal schedule, effective
    request, `switch` enabled, the consumer still on the node the producer shrank from — and that node's two records
    (12 bytes through an 8-byte ring) have been read -/
example : URun quillU s8 (withShrink quillU s8 wrappedPre 3 wrappedPostUntilSwitch) ∧
    3 ≤ producerCapacity (urun quillU s8 wrappedPre) / 2 ∧
    UEnabled quillU (urun quillU s8 (withShrink quillU s8 wrappedPre 3 wrappedPostUntilSwitch)) .switch ∧
    (urun quillU s8 (withShrink quillU s8 wrappedPre 3 wrappedPostUntilSwitch)).ci = (urun quillU s8 wrappedPre).pi ∧
    (urun quillU s8 (withShrink quillU s8 wrappedPre 3 wrappedPostUntilSwitch)).cnode.q.nread = 2 ∧
    (urun quillU s8 (withShrink quillU s8 wrappedPre 3 wrappedPostUntilSwitch)).cnode.q.rpos = 12 ∧
    consumerCapacity (urun quillU s8 (withShrink quillU s8 wrappedPre 3 wrappedPostUntilSwitch)) = 8 ∧
    consumerCapacity (ustep quillU (urun quillU s8 (withShrink quillU s8 wrappedPre 3 wrappedPostUntilSwitch)) .switch) = 4 := by
  decide

/-- the premise "every record read" cannot be dropped by the consumer: while a record of the old node is unread the
    switch is not enabled (the re-read finds it) — here after `shrink` with the second record of the wrapped node
    still unread -/
example : URun quillU s8 (withShrink quillU s8 wrappedPre 3 [.c (.loadW 12), .seeNext, .c (.loadW 12)]) ∧
    ¬ UEnabled quillU (urun quillU s8 (withShrink quillU s8 wrappedPre 3 [.c (.loadW 12), .seeNext, .c (.loadW 12)])) .switch := by
  decide

end Uspsc
