import QuillModel.Backend.RemovalFlag
import QuillModel.Props.C17
import QuillModel.Props.C06
/-!
# C17 — `remove_logger_blocking` returns only after the logger is gone (global statement)

Closes `C17_removal_flag_after_erase_partial` of `Props/C17.lean`. The per-clean-up statement proved there ("the flag
the clean-up raises was recorded for a name one of whose objects it erased in that pass") is lifted to every
reachable state by the invariant `RI` of `Backend/RemovalFlag.lean`, and the missing ingredient — flag numbers of
Flush and removal requests come from one counter and must not collide — is `C06_flag_numbers_unique` (bundle B).

Quantifiers: every schedule `ops` (frontend operations, polls with arbitrary injection tables — including frontend
operations running inside sink destructors at hook site 9 between two erase steps —, exit), every configuration,
every initial state `RemovalFresh` (`LoggerFresh` + nothing raised/recorded/popped yet + un-erased logger objects
have distinct names — a `LoggerManager` never holds two live loggers of one name, and the driver's `mkState` builds
such states from the harness's set-ups).
-/
namespace Backend
open Backend.PC

/-- initial states of the global removal theorems -/
structure RemovalFresh (s : BSt) : Prop where
  fresh : LoggerFresh s
  flags : s.flags = []
  removalFlags : s.removalFlags = []
  popLog : s.popLog = []
  /-- two logger objects that are not erased do not carry the same name -/
  distinct : ∀ i j, i < s.lgs.length → j < s.lgs.length → (s.lgOf i).erased = false → (s.lgOf j).erased = false →
    (s.lgOf i).gid = (s.lgOf j).gid → i = j

theorem RemovalFresh.startF {s : BSt} (h : RemovalFresh s) : StartF s :=
  ⟨⟨h.fresh.1.2.2.2.2.2.2, h.fresh.1.1, h.fresh.1.2.2.2.2.2.1, h.fresh.1.2.1, h.fresh.1.2.2.1, h.popLog⟩,
   h.flags, h.removalFlags⟩

theorem RemovalFresh.inv {s : BSt} (h : RemovalFresh s) : FRI s :=
  ⟨h.fresh.inv, RI_start h.fresh.1.1 h.flags h.removalFlags h.popLog h.distinct⟩

/-- **The removal flag is raised only after the erase** (global form; supersedes
    `C17_removal_flag_after_erase_partial`). In every reachable state, for every removal request `st`
    (`Kind.removal f`, accepted into the queue of some context `i`): if its flag `f` has been raised, then the
    logger object the request names — `st.lg`, the object the caller resolved when it called
    `remove_logger_blocking` — **is erased**. Flags are raised in two places only: `processLowest` raises the flag of
    the Flush record it has just popped — never `f`, by the uniqueness of flag numbers
    (`C06_flag_numbers_unique`) —, and the logger clean-up raises a recorded removal flag after the erase and the
    sink pruning of an object of the recorded name, which is the request's own object because un-erased objects have
    distinct names. -/
theorem C17_removal_flag_after_erase (s0 : BSt) (h0 : RemovalFresh s0) (ops : List Op) :
    let s := runOps s0 ops
    ∀ i st f, st ∈ (s.th i).accepted → st.kind = .removal f → f ∈ s.flags → (s.lgOf st.lg).erased = true := by
  intro s i st f hst hk hf
  have hR : RI s := (FRI_runOps s0 h0.inv ops).2
  have hfo : PB.flagOf st = some f := by simp only [PB.flagOf, hk, PB.flagOfK]
  rcases hR.bw f hf with ⟨j, st', h1, h2⟩ | ⟨j, st', h1, h2, h3⟩
  · exfalso
    have hacc : st' ∈ (s.th j).accepted := by
      rw [C06_conservation s0 h0.startF ops j]
      exact List.mem_append_left _ (List.mem_append_left _ h1)
    have hfo' : PB.flagOf st' = some f := by simp only [PB.flagOf, h2, PB.flagOfK]
    have := (C06_flag_numbers_unique s0 h0.startF ops i j st st' f hst hacc hfo hfo').2
    rw [this, h2] at hk; cases hk
  · have hfo' : PB.flagOf st' = some f := by simp only [PB.flagOf, h2, PB.flagOfK]
    have := (C06_flag_numbers_unique s0 h0.startF ops i j st st' f hst h1 hfo hfo').2
    rw [this]; exact h3

/-- **`remove_logger_blocking` returns only after the logger is gone.** In every reachable state `s`: let thread `a`
    be parked in `remove_logger_blocking`, waiting for the flag `f` of its removal request `st` (accepted into the
    queue of context `i`; by `C06_flag_numbers_unique` no other record carries `f`). If the wait ends in `s` — the
    next step of `a` returns `"done"` instead of sleeping again — then

    * the logger object `st.lg` the call named **is erased** (removed from the `LoggerManager`, its sinks pruned:
      `C17_dead_sink_unreferenced`), and
    * **every record ever accepted through that logger object, in any thread's queue, has been popped** — nothing
      logged through it is left in a queue or a transit buffer (`C17_erased_logger_has_no_record`); popped records
      were dispatched to the logger's sinks in order (C03 / `C07_conservation`), and
    * nobody is parked in a call that could still enqueue through it. -/
theorem C17_remove_blocking_returns_after_erase (s0 : BSt) (h0 : RemovalFresh s0) (ops : List Op) :
    let s := runOps s0 ops
    ∀ a f i st, (s.actor a).map (·.pend) = some (Pend.flag f) → st ∈ (s.th i).accepted → st.kind = .removal f →
      (resume s a).2 = "done" →
      (s.lgOf st.lg).erased = true ∧
      (∀ j st', st' ∈ (s.th j).accepted → st'.lg = st.lg → st' ∈ (s.th j).popped) ∧
      (∀ x ∈ s.actors, x.alive = true → ∀ st', pendStmt x.pend = some st' → st'.lg ≠ st.lg) := by
  intro s a f i st hp hst hk hdone
  have hflag : f ∈ s.flags := by
    cases hc : s.flags.contains f
    · rw [C17_flag_wait s a f hp hc] at hdone
      have h' : "parked:sleep" = "done" := hdone
      exact absurd h' (by decide)
    · simpa using hc
  have her := C17_removal_flag_after_erase s0 h0 ops i st f hst hk hflag
  have hno := C17_erased_logger_has_no_record s0 h0.fresh ops
  refine ⟨her, ?_, ?_⟩
  · intro j st' hacc hlg
    rw [C06_conservation s0 h0.startF ops j] at hacc
    have hj : j < s.ths.length := by
      by_cases hj : j < s.ths.length
      · exact hj
      · exfalso
        rw [PB.th_lt_or_default s j (by omega)] at hacc
        cases hacc
    rcases List.mem_append.mp hacc with hacc | hacc
    · rcases List.mem_append.mp hacc with hacc | hacc
      · exact hacc
      · have := hno.1 j hj st' (Or.inr hacc)
        rw [hlg, her] at this; cases this
    · have := hno.1 j hj st' (Or.inl hacc)
      rw [hlg, her] at this; cases this
  · intro x hx hal st' hst' hlg
    have := (hno.2 x hx hal st' hst').2
    rw [hlg, her] at this; cases this

/-! ### non-vacuity -/

theorem c17Init_removalFresh : RemovalFresh c17Init := by
  refine ⟨c17Init_fresh, rfl, rfl, rfl, ?_⟩
  intro i j hi hj _ _ hg
  have hi' : i = 0 ∨ i = 1 := by
    have : i < 2 := hi
    omega
  have hj' : j = 0 ∨ j = 1 := by
    have : j < 2 := hj
    omega
  rcases hi' with rfl | rfl <;> rcases hj' with rfl | rfl
  · rfl
  · exact absurd hg (by decide)
  · exact absurd hg (by decide)
  · rfl

/-- one statement through logger 0, then `remove_logger_blocking(0)`: the caller parks on flag 0 with the request
    accepted behind the statement; after two polls it still sleeps (both records popped, the object not yet
    erased, the flag recorded but not raised); the third poll erases the object and only then raises the flag, and
    the caller returns -/
example :
    let pre : List Op := [.front (.tstart 0), .front (.log 0 0 4 8 false), .front (.removeBlocking 0 0)]
    let parkedOn (s : BSt) (f : Nat) : Bool :=
      match (s.actor 0).map (·.pend) with | some (Pend.flag f') => f' == f | _ => false
    let s1 := runOps c17Init (pre ++ [.poll [], .poll []])
    let s2 := runOps c17Init (pre ++ [.poll [], .poll [], .poll []])
    (parkedOn s1 0 = true ∧ ((s1.th 0).accepted.map (·.kind)) = [.log, .removal 0] ∧
      (s1.th 0).popped.length = 2 ∧ s1.removalFlags = [(0, 0)] ∧ s1.flags = [] ∧ (s1.lgOf 0).erased = false ∧
      (resume s1 0).2 = "parked:sleep") ∧
    (parkedOn s2 0 = true ∧ s2.flags = [0] ∧ (s2.lgOf 0).erased = true ∧
      (resume s2 0).2 = "done") := by
  refine ⟨⟨by decide +kernel, by decide +kernel, by decide +kernel, by decide +kernel, by decide +kernel,
    by decide +kernel, by decide +kernel⟩, by decide +kernel, by decide +kernel, by decide +kernel, by decide +kernel⟩

end Backend
