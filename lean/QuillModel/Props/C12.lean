import QuillModel.Pattern.Compile
import QuillModel.Pattern.Lines
import QuillModel.Pattern.Meta
import QuillModel.Pattern.Fuel
import QuillModel.Pattern.Dup
import QuillModel.Pattern.Calls
import QuillModel.Pattern.Sinks
/-!
# C12 — the line handed to a sink equals the pattern with every attribute substituted

Model: `QuillModel/Pattern/Model.lean` (two-stage implementation: the constructor rewrites `%(attr:spec)` to `{:spec}`
and records slot numbers, `format()` fills the slots and calls fmt's `vformat_to`).

**Full statement (false for the current code — finding F7):**
for every well-formed item list `p` with non-empty text and every valuation,
`formatPattern (printPattern p) vals = .line (p.flatMap (render vals) ++ "\n")`.
It fails whenever a literal chunk contains `{` or `}`: the rewritten string is handed to fmt, which reads `{{`/`}}`
as escapes and anything else in braces as a replacement field (`F7_…` below). What is proved is the statement under the
explicit hypothesis `NoBrace p` (`…_partial`); what is missing for the full statement is an escaping of literal braces
in `_generate_fmt_format_string`.

Other explicit boundaries, each with its own theorem: the empty pattern formats to the empty string (documented special
case); with named arguments present a message is never split; `MacroMetadata` needs a `:` in the source location.
-/
namespace Pattern

/-! ## Main theorem -/

/-- **C12 (substitution), partial: needs "no brace in literal text" (F7).**
For every pattern that is a list of literal chunks and `%(attr[:spec])` fields — literal chunks free of `%(` and of
braces, specs in the modelled fmt subset `[[fill]align][width][.precision]`, every attribute at most once — and every
attribute valuation, the two-stage implementation returns the direct substitution followed by a newline. -/
theorem C12_format_eq_substitution_partial (p : List Item) (vals : Attr → Str) (hwf : WF p) (hnb : NoBrace p)
    (hne : printPattern p ≠ []) :
    formatPattern (printPattern p) vals = .line (p.flatMap (render vals) ++ ['\n']) := by
  unfold formatPattern
  rw [construct_items p hwf]
  have hempty : (compiledOf p).empty = false := by
    simp only [compiledOf]
    cases h : printPattern p with
    | nil => exact absurd h hne
    | cons _ _ => rfl
  have hv := vfmt_items (fillArgs (compiledOf p) vals) vals p 0 ['\n'] hwf.1 hnb
    (fun j a hj => by rw [Nat.zero_add]; exact fillArgs_get p vals hwf.2.2 j a hj)
  simp only [format, hempty, vformat]
  rw [show (compiledOf p).fmt = fmtOf p ++ ['\n'] from rfl, hv]
  simp [vfmt, Except.map]

/-- non-vacuity: quill's default pattern meets the hypotheses -/
def defaultItems : List Item :=
  [.field .time none, .lit " [".toList, .field .threadId none, .lit "] ".toList,
   .field .shortSourceLocation (some { align := some .left, width := 28 }), .lit " LOG_".toList,
   .field .logLevel (some { align := some .left, width := 9 }), .lit " ".toList,
   .field .logger (some { align := some .left, width := 12 }), .lit " ".toList, .field .message none]

example : WF defaultItems ∧ NoBrace defaultItems ∧ printPattern defaultItems ≠ [] := by
  refine ⟨by decide, by decide, by decide⟩

example : printPattern defaultItems =
    "%(time) [%(thread_id)] %(short_source_location:<28) LOG_%(log_level:<9) %(logger:<12) %(message)".toList := by
  decide

/-- a pattern with fill characters `%`, `(` and `:`, precision, percent signs next to a field, all three alignments -/
def trickyItems : List Item :=
  [.lit "100%".toList, .field .message (some { fill := some '%', align := some .center, width := 9, prec := some 3 }),
   .lit "%) (".toList, .field .logger (some { fill := some '(', align := some .right, width := 5 }),
   .field .tags (some { fill := some ':', align := some .left, width := 4, prec := some 0 }), .lit "%".toList]

example : WF trickyItems ∧ NoBrace trickyItems ∧ printPattern trickyItems ≠ [] := by
  refine ⟨by decide, by decide, by decide⟩

/-- documented special case: the empty pattern means "no formatting" — the result is empty, without a newline -/
theorem C12_empty_pattern (vals : Attr → Str) : formatPattern [] vals = .line [] := rfl

/-! ## F7: braces in literal text are interpreted by fmt -/

/-- `"%(message) {lit}"`: fmt looks for an argument named `lit` and throws; the statement is lost -/
theorem F7_brace_literal_throws (vals : Attr → Str) :
    formatPattern "%(message) {lit}".toList vals = .formatError := rfl

/-- `"{{%(message)}}"` prints single braces -/
theorem F7_double_brace_collapses (vals : Attr → Str) :
    formatPattern "{{%(message)}}".toList vals = .line ('{' :: (vals .message ++ ['}', '\n'])) := rfl

/-- a literal `{}` consumes the slot of the first attribute and shifts every later one -/
theorem F7_empty_braces_steal_slot :
    formatPattern "{} %(logger)".toList (fun a => a.name) = .formatError ∧
    formatPattern "%(logger) %(message){}".toList (fun a => a.name) = .formatError := ⟨by decide, by decide⟩

/-- the full statement (without `NoBrace`) is false -/
theorem C12_full_statement_false :
    ¬ ∀ (p : List Item) (vals : Attr → Str), WF p → printPattern p ≠ [] →
        formatPattern (printPattern p) vals = .line (p.flatMap (render vals) ++ ['\n']) := by
  intro h
  have := h [.field .message none, .lit " {lit}".toList] (fun _ => []) (by decide) (by decide)
  revert this
  decide

/-! ## Rejection -/

/-- the constructor accepts every pattern of well-formed items with at most sixteen fields — also with duplicates
    (which then fail at format time, see `duplicate_attribute_throws`) -/
theorem C12_accepts (p : List Item) (hwf : ∀ it ∈ p, it.wf = true) (hadj : noAdjLits p = true)
    (hlen : (attrsOf p).length ≤ 16) : ∃ c, construct (printPattern p) = .ok c :=
  ⟨_, construct_items' p hwf hadj hlen⟩

/-- after any well-formed prefix, a `%(` that is not followed by a `)` anywhere makes the constructor throw
    `QuillError{"Invalid format pattern"}` -/
theorem C12_rejects_unterminated (p : List Item) (u : Str) (hwf : ∀ it ∈ p, it.wf = true) (hadj : noAdjLits p = true)
    (hlen : (attrsOf p).length ≤ 16) (hu : ')' ∉ u) :
    construct (printPattern p ++ '%' :: '(' :: u) = .error .unterminated := by
  have hg := generate_items p ((printPattern p ++ '%' :: '(' :: u).length + 1) [] ('%' :: '(' :: (u ++ ['\n'])) order0 isSet0 0 0
    hwf hadj clean_nil (Or.inl (by simp)) (by omega)
    (by have := attrs_length_le_print p; simp only [List.length_append, List.length_cons]; omega)
  simp only [List.nil_append, Nat.zero_add] at hg
  unfold construct
  rw [show List.replicate nrItems (nrItems - 1) = order0 from rfl, show List.replicate nrItems false = isSet0 from rfl]
  rw [show (printPattern p ++ '%' :: '(' :: u) ++ ['\n'] = printPattern p ++ '%' :: '(' :: (u ++ ['\n']) by simp, hg.1]
  have hn : splitAtChar ')' (u ++ ['\n']) = none := by
    rw [splitAtChar_none]; simp only [List.mem_append, List.mem_singleton, not_or]; exact ⟨hu, by decide⟩
  have hfuel : (printPattern p ++ '%' :: '(' :: u).length + 1 - (attrsOf p).length =
      ((printPattern p ++ '%' :: '(' :: u).length - (attrsOf p).length) + 1 := by
    have := attrs_length_le_print p; simp only [List.length_append, List.length_cons]; omega
  rw [hfuel]
  simp only [generate, findField_append_field _ hg.2, hn]

/-- after any well-formed prefix, a field whose name is not one of the sixteen makes the constructor throw
    `Invalid format pattern, attribute with name "…" is invalid` (whatever follows, even an unterminated `%(`) -/
theorem C12_rejects_unknown (p : List Item) (name u : Str) (hwf : ∀ it ∈ p, it.wf = true) (hadj : noAdjLits p = true)
    (hlen : (attrsOf p).length ≤ 16) (hn1 : ')' ∉ name) (hn2 : ':' ∉ name) (hunk : attrOfName name = none) :
    construct (printPattern p ++ '%' :: '(' :: (name ++ ')' :: u)) = .error (.unknownAttr name) := by
  have hg := generate_items p ((printPattern p ++ '%' :: '(' :: (name ++ ')' :: u)).length + 1) []
    ('%' :: '(' :: (name ++ ')' :: (u ++ ['\n']))) order0 isSet0 0 0
    hwf hadj clean_nil (Or.inl (by simp)) (by omega)
    (by have := attrs_length_le_print p; simp only [List.length_append, List.length_cons]; omega)
  simp only [List.nil_append, Nat.zero_add] at hg
  unfold construct
  rw [show List.replicate nrItems (nrItems - 1) = order0 from rfl, show List.replicate nrItems false = isSet0 from rfl]
  rw [show (printPattern p ++ '%' :: '(' :: (name ++ ')' :: u)) ++ ['\n'] =
    printPattern p ++ '%' :: '(' :: (name ++ ')' :: (u ++ ['\n'])) by simp, hg.1]
  have hfuel : (printPattern p ++ '%' :: '(' :: (name ++ ')' :: u)).length + 1 - (attrsOf p).length =
      ((printPattern p ++ '%' :: '(' :: (name ++ ')' :: u)).length - (attrsOf p).length) + 1 := by
    have := attrs_length_le_print p; simp only [List.length_append, List.length_cons]; omega
  rw [hfuel]
  have hparts : fieldParts name = (name, ['{', '}']) := by
    simp only [fieldParts, splitAtChar_none.mpr hn2]
  simp only [generate, findField_append_field _ hg.2, splitAtChar_append _ _ hn1, hparts, hunk]

/-- the same with a spec: the name is what precedes the first `:` -/
theorem C12_rejects_unknown_with_spec (p : List Item) (name spec u : Str) (hwf : ∀ it ∈ p, it.wf = true)
    (hadj : noAdjLits p = true) (hlen : (attrsOf p).length ≤ 16) (hn1 : ')' ∉ name) (hn2 : ':' ∉ name)
    (hs : ')' ∉ spec) (hunk : attrOfName name = none) :
    construct (printPattern p ++ '%' :: '(' :: (name ++ ':' :: (spec ++ ')' :: u))) = .error (.unknownAttr name) := by
  have hg := generate_items p ((printPattern p ++ '%' :: '(' :: (name ++ ':' :: (spec ++ ')' :: u))).length + 1) []
    ('%' :: '(' :: ((name ++ ':' :: spec) ++ ')' :: (u ++ ['\n']))) order0 isSet0 0 0
    hwf hadj clean_nil (Or.inl (by simp)) (by omega)
    (by have := attrs_length_le_print p; simp only [List.length_append, List.length_cons]; omega)
  simp only [List.nil_append, Nat.zero_add] at hg
  unfold construct
  rw [show List.replicate nrItems (nrItems - 1) = order0 from rfl, show List.replicate nrItems false = isSet0 from rfl]
  rw [show (printPattern p ++ '%' :: '(' :: (name ++ ':' :: (spec ++ ')' :: u))) ++ ['\n'] =
    printPattern p ++ '%' :: '(' :: ((name ++ ':' :: spec) ++ ')' :: (u ++ ['\n'])) by simp, hg.1]
  have hfuel : (printPattern p ++ '%' :: '(' :: (name ++ ':' :: (spec ++ ')' :: u))).length + 1 - (attrsOf p).length =
      ((printPattern p ++ '%' :: '(' :: (name ++ ':' :: (spec ++ ')' :: u))).length - (attrsOf p).length) + 1 := by
    have := attrs_length_le_print p; simp only [List.length_append, List.length_cons]; omega
  rw [hfuel]
  have hbody : ')' ∉ name ++ ':' :: spec := by
    simp only [List.mem_append, List.mem_cons, not_or]; exact ⟨hn1, by decide, hs⟩
  have hparts : (fieldParts (name ++ ':' :: spec)).1 = name := by
    simp only [fieldParts, splitAtChar_append _ _ hn2]
  simp only [generate, findField_append_field _ hg.2, splitAtChar_append _ _ hbody, hparts, hunk]

/-- for EVERY pattern text: the constructor model fails only with the two errors of the C++ constructor (or reports
    the undefined-behaviour case of more than sixteen fields); its loop fuel is never exhausted, because every
    iteration removes one `)` from the pattern -/
theorem C12_constructor_error_kinds (pattern : Str) (e : CtorErr) (h : construct pattern = .error e) :
    e = .unterminated ∨ (∃ n, e = .unknownAttr n) ∨ e = .tooManyFields :=
  construct_error_kinds pattern e h

/-- specs outside the subset that fmt rejects for string arguments make every statement throw -/
example : formatPattern "%(message:05)".toList (fun a => a.name) = .formatError := by decide
example : formatPattern "%(message:d)".toList (fun a => a.name) = .formatError := by decide
example : formatPattern "%(message:2147483648)".toList (fun a => a.name) = .formatError := by decide
example : parseSpec "2147483647.0".toList = .ok { width := 2147483647, prec := some 0 } := rfl

/-- the errors of the constructor model are exactly these kinds on the examples of the malformed stream;
    which error wins is decided by position: the first offending field -/
example : construct "%(nope) %(message".toList = .error (.unknownAttr "nope".toList) := rfl
example : construct "%(message %(nope".toList = .error .unterminated := rfl
example : construct "%()".toList = .error (.unknownAttr []) := rfl
example : construct "%(Message)".toList = .error (.unknownAttr "Message".toList) := rfl
example : construct "%(message )".toList = .error (.unknownAttr "message ".toList) := rfl
/-- quirk of rewriting in place and rescanning from the start: a spec that contains `%(` is scanned again -/
example : construct "%(message:%(logger)".toList = .error .unterminated := rfl
/-- a `%` and a `(` that are not adjacent are literal text -/
example : formatPattern "% (message) %%(logger)%".toList (fun a => a.name) = .line "% (message) %logger%\n".toList := by decide

/-- "The same attribute cannot be used twice": accepted by the constructor, every statement then throws -/
theorem duplicate_attribute_throws (vals : Attr → Str) :
    formatPattern "%(message) %(logger) %(message)".toList vals = .formatError := rfl

/-- in general: a pattern of well-formed items (no brace in literals, at most sixteen fields) in which some attribute
    occurs twice is accepted, and then EVERY statement throws — the slot of the earlier occurrence is never filled -/
theorem C12_duplicate_attribute_always_throws (p : List Item) (vals : Attr → Str) (hwf : ∀ it ∈ p, it.wf = true)
    (hadj : noAdjLits p = true) (hnb : NoBrace p) (hlen : (attrsOf p).length ≤ 16) (hdup : ¬ (attrsOf p).Nodup) :
    formatPattern (printPattern p) vals = .formatError :=
  duplicate_attribute_always_throws p vals hwf hadj hnb hlen hdup

example : (∀ it ∈ [Item.field .message none, .lit " ".toList, .field .message none], it.wf = true) ∧
    ¬ (attrsOf [Item.field .message none, .lit " ".toList, .field .message none]).Nodup := by decide

/-! ## Multi-line messages -/

/-- option on, no named arguments: the pieces are `msg.splitOn '\n'` after removing at most one trailing newline
    (i.e. with one trailing empty piece dropped; the empty message is one empty piece) -/
theorem C12_multiline_on (msg : Str) : dispatch true true msg = (stripOneNl msg).splitOn '\n' := by
  simp [dispatch, multiLine_eq_splitOn]

/-- option off: one statement, at most one trailing newline removed -/
theorem C12_multiline_off (namedEmpty : Bool) (msg : Str) : dispatch false namedEmpty msg = [stripOneNl msg] := rfl

/-- with named arguments the message is never split ("only supported when named_args are not used";
    pinned by `JsonMultilineMetadataTest`) -/
theorem multiline_named_args_not_split (addMetadata : Bool) (msg : Str) :
    dispatch addMetadata false msg = [stripOneNl msg] := by
  simp [dispatch]

theorem stripOneNl_spec (m : Str) :
    stripOneNl (m ++ ['\n']) = m ∧ (m.getLast? ≠ some '\n' → stripOneNl m = m) := by
  refine ⟨stripOneNl_append_nl m, fun h => ?_⟩
  simp [stripOneNl, h]

example : dispatch true true "a\n\nb\n".toList = ["a".toList, [], "b".toList] := by decide
example : dispatch true true "\n\n".toList = [[], []] := by decide
example : dispatch true true [] = [[]] := by decide
example : dispatch false true "a\n\nb\n\n".toList = ["a\n\nb\n".toList] := by decide
example : dispatch true false "a\nb".toList = ["a\nb".toList] := by decide

/-- every piece is formatted as a whole line (partial: F7 hypothesis) -/
theorem C12_statements_partial (p : List Item) (st : Stmt) (mv : MetaView) (addMetadata : Bool) (msg : Str)
    (hwf : WF p) (hnb : NoBrace p) (hne : printPattern p ≠ []) :
    statements (printPattern p) st mv addMetadata msg =
      (dispatch addMetadata (st.named.getD []).isEmpty msg).map fun piece =>
        .line (p.flatMap (render (valuation st mv piece)) ++ ['\n']) := by
  unfold statements
  apply List.map_congr_left
  intro piece _
  exact C12_format_eq_substitution_partial p _ hwf hnb hne

/-! ## `MacroMetadata` -/

/-- `"dir/base:line"` (`dir` empty or ending in `/`, no `/` in `base`, no `:` or `/` in `line`, below the `uint16_t`
    limit): file name, full path, line, short source location are the expected pieces -/
theorem C12_metadata_views (dir base line : Str) (hd : dir = [] ∨ dir.getLast? = some '/') (hb : '/' ∉ base)
    (hl1 : ':' ∉ line) (hl2 : '/' ∉ line) (hlen : (dir ++ base ++ ':' :: line).length < 65536) :
    metaView (dir ++ base ++ ':' :: line) = some
      { fileName := base, fullPath := dir ++ base, line := line, shortSourceLocation := base ++ ':' :: line,
        sourceLocation := dir ++ base ++ ':' :: line } := by
  have hc := rfindColon_eq (dir ++ base) line hl1
  have hrest : '/' ∉ base ++ ':' :: line := by
    simp only [List.mem_append, List.mem_cons, not_or]; exact ⟨hb, by decide, hl2⟩
  have hf := fileNamePos_eq dir (base ++ ':' :: line) hd hrest
  rw [show dir ++ (base ++ ':' :: line) = dir ++ base ++ ':' :: line by simp] at hf
  simp only [List.length_append, List.length_cons] at hlen
  unfold metaView
  rw [hc, hf]
  have h1 : (dir ++ base).length % 65536 = dir.length + base.length := by
    rw [List.length_append]; exact Nat.mod_eq_of_lt (by omega)
  have h2 : dir.length % 65536 = dir.length := Nat.mod_eq_of_lt (by omega)
  simp only [h1, h2]
  have h3 : ¬ dir.length > dir.length + base.length := by omega
  simp only [h3, if_false, Option.some.injEq, MetaView.mk.injEq, and_true]
  refine ⟨?_, ?_, ?_, ?_⟩
  · rw [show dir ++ base ++ ':' :: line = dir ++ (base ++ ':' :: line) by simp, List.drop_left]
    rw [show dir.length + base.length - dir.length = base.length by omega, List.take_left]
  · rw [show dir ++ base ++ ':' :: line = (dir ++ base) ++ ':' :: line by simp,
      show dir.length + base.length = (dir ++ base).length by simp, List.take_left]
  · rw [show dir ++ base ++ ':' :: line = (dir ++ base ++ [':']) ++ line by simp,
      show dir.length + base.length + 1 = (dir ++ base ++ [':']).length by simp only [List.length_append, List.length_cons, List.length_nil], List.drop_left]
  · rw [show dir ++ base ++ ':' :: line = dir ++ (base ++ ':' :: line) by simp, List.drop_left]

example : metaView "/a/b/c.cpp:123".toList = some
    { fileName := "c.cpp".toList, fullPath := "/a/b/c.cpp".toList, line := "123".toList,
      shortSourceLocation := "c.cpp:123".toList, sourceLocation := "/a/b/c.cpp:123".toList } := by decide

example : metaView "C:/x/y.cc:7".toList = some
    { fileName := "y.cc".toList, fullPath := "C:/x/y.cc".toList, line := "7".toList,
      shortSourceLocation := "y.cc:7".toList, sourceLocation := "C:/x/y.cc:7".toList } := by decide

/-- `%(named_args)` -/
theorem joinNamed_eq (l : List (Str × Str)) :
    joinNamed l = List.intercalate [',', ' '] (l.map fun kv => kv.1 ++ ':' :: ' ' :: kv.2) := by
  induction l with
  | nil => rfl
  | cons kv l ih =>
    obtain ⟨k, v⟩ := kv
    cases l with
    | nil => simp [joinNamed, List.intercalate]
    | cons kv2 l2 =>
      have h : joinNamed ((k, v) :: kv2 :: l2) = k ++ ':' :: ' ' :: (v ++ ',' :: ' ' :: joinNamed (kv2 :: l2)) := rfl
      rw [h, ih]
      simp [List.intercalate]

/-! ## One formatter, many statements ("… for every statement")

A `PatternFormatter` handles every statement of its logger; `_args` is a member. `Pattern/Calls.lean` models the
instance as a state machine over `format()` calls (`Inst.step`, `formatCalls`). For the pinned code the state is
invisible: every call gives what a fresh formatter gives for that call alone, so `%(time)` is
`TimestampFormatter::format_timestamp` (`tf`, C13's subject) of the statement's own timestamp — the first call, a
repeated timestamp and timestamp 0 are no exceptions. -/

/-- the outcome of a call does not depend on the calls the formatter handled before (any pattern, accepted or not) -/
theorem C12_call_independent_of_earlier_calls (pattern : Str) (tf : Nat → Str) (pre : List Call) (k : Call) :
    formatLast pattern tf pre k = formatPattern pattern (k.valuation tf) := formatLast_eq pattern tf pre k

/-- **C12 over the life of a formatter, partial (F7 hypothesis as in the main theorem):** every call of a sequence of
    calls through one formatter returns the direct substitution of *its own* attribute values, `%(time)` being `tf` of
    its own timestamp. -/
theorem C12_every_call_eq_substitution_partial (p : List Item) (tf : Nat → Str) (calls : List Call) (hwf : WF p)
    (hnb : NoBrace p) (hne : printPattern p ≠ []) :
    formatCalls false (printPattern p) tf calls =
      calls.map fun k => .line (p.flatMap (render (k.valuation tf)) ++ ['\n']) := by
  rw [formatCalls_eq]
  apply List.map_congr_left
  intro k _
  exact C12_format_eq_substitution_partial p _ hwf hnb hne

/-- `%(time)` with any (valid) width/alignment spec: two calls with the same timestamp print the same text, whatever
    either formatter handled before and whatever the other attributes are -/
theorem C12_time_function_of_timestamp (spec : Option Spec) (hsp : (Item.field .time spec).wf = true) (tf : Nat → Str)
    (pre pre' : List Call) (k k' : Call) (h : k.ts = k'.ts) :
    formatLast (printPattern [.field .time spec]) tf pre k = formatLast (printPattern [.field .time spec]) tf pre' k' := by
  have hwf : WF [Item.field .time spec] := by
    refine ⟨?_, rfl, by simp [attrsOf]⟩
    intro it hit
    simp only [List.mem_singleton] at hit
    subst hit
    exact hsp
  have hnb : NoBrace [Item.field .time spec] := by
    intro it hit
    simp only [List.mem_singleton] at hit
    subst hit
    rfl
  have hne : printPattern [Item.field .time spec] ≠ [] := by
    cases spec <;> simp [printPattern, Item.print]
  rw [formatLast_eq, formatLast_eq, C12_format_eq_substitution_partial _ _ hwf hnb hne,
    C12_format_eq_substitution_partial _ _ hwf hnb hne]
  cases spec <;> simp [render, Call.valuation, h]

/-- … and the very first call of a fresh formatter with timestamp 0 prints `tf 0` (with the spec applied), not the
    placeholder the constructor left in the slot -/
theorem C12_first_call_timestamp_zero (tf : Nat → Str) (vals : Attr → Str) :
    formatLast "%(time)".toList tf [] ⟨0, vals⟩ = .line (tf 0 ++ ['\n']) ∧
    formatLast "[%(time:>12)] %(message)".toList tf [] ⟨0, vals⟩ =
      .line ('[' :: (applySpec { align := some .right, width := 12 } (tf 0) ++ "] ".toList ++ vals .message ++ ['\n'])) := by
  constructor
  · rw [formatLast_eq]
    have := C12_format_eq_substitution_partial [.field .time none] (Call.valuation tf ⟨0, vals⟩) (by decide) (by decide)
      (by decide)
    have hp : printPattern [.field .time none] = "%(time)".toList := by decide
    rw [hp] at this
    rw [this]
    simp [render, Call.valuation]
  · rw [formatLast_eq]
    have := C12_format_eq_substitution_partial
      [.lit "[".toList, .field .time (some { align := some .right, width := 12 }), .lit "] ".toList, .field .message none]
      (Call.valuation tf ⟨0, vals⟩) (by decide) (by decide) (by decide)
    have hp : printPattern [.lit "[".toList, .field .time (some { align := some .right, width := 12 }), .lit "] ".toList,
        .field .message none] = "[%(time:>12)] %(message)".toList := by decide
    rw [hp] at this
    rw [this]
    simp [render, Call.valuation]

/-- the timestamp sequence 0, 0, t, 0 through `%(time) %(message)` -/
example (tf : Nat → Str) (t : Nat) (m : Attr → Str) :
    formatCalls false "%(time) %(message)".toList tf [⟨0, m⟩, ⟨0, m⟩, ⟨t, m⟩, ⟨0, m⟩] =
      [.line (tf 0 ++ ' ' :: (m .message ++ ['\n'])), .line (tf 0 ++ ' ' :: (m .message ++ ['\n'])),
       .line (tf t ++ ' ' :: (m .message ++ ['\n'])), .line (tf 0 ++ ' ' :: (m .message ++ ['\n']))] := by
  have hp : printPattern [.field .time none, .lit " ".toList, .field .message none] = "%(time) %(message)".toList := by
    decide
  have := C12_every_call_eq_substitution_partial [.field .time none, .lit " ".toList, .field .message none] tf
    [⟨0, m⟩, ⟨0, m⟩, ⟨t, m⟩, ⟨0, m⟩] (by decide) (by decide) (by decide)
  rw [hp] at this
  rw [this]
  simp [render, Call.valuation]

/-- the calls of the witness below: timestamps 0, 0, 7, 0; message `m` -/
def memoWitnessCalls : List Call :=
  [⟨0, fun _ => ['m']⟩, ⟨0, fun _ => ['m']⟩, ⟨7, fun _ => ['m']⟩, ⟨0, fun _ => ['m']⟩]

/-- **Why the `Time` slot must be filled on every call** (the guard extracted as `formatSeq` and re-proved in
    `Obligations.pattern_format_seq`): the variant that refreshes `%(time)` only `if (timestamp != _last_timestamp)`,
    `_last_timestamp{0}`, prints the placeholder `time` for the first statements stamped 0 — the pinned code prints the
    time. (`tf` = decimal digits of the timestamp, for concreteness.) -/
theorem C12_memoised_time_fails :
    formatCalls true "[%(time:>6)] %(message)".toList digits memoWitnessCalls =
      [.line "[  time] m\n".toList, .line "[  time] m\n".toList, .line "[     7] m\n".toList, .line "[     0] m\n".toList] ∧
    formatCalls false "[%(time:>6)] %(message)".toList digits memoWitnessCalls =
      [.line "[     0] m\n".toList, .line "[     0] m\n".toList, .line "[     7] m\n".toList, .line "[     0] m\n".toList] := by
  decide

/-! ## Which pattern applies: the sink's override if it has one, else its logger's

`Pattern/Sinks.lean`: the backend shares one `PatternFormatter` between loggers with equal options and keeps, per
sink, an override formatter; `BState` is what it remembers between dispatches. For the pinned code that memory never
shows: the pattern a sink is served with is `patternFor sink logger`, whatever loggers were dispatched before and
whichever of them share options. -/

/-- the (sink, pattern) pairs of a dispatch are the rule's, in every backend state -/
theorem C12_sink_pattern_rule (cfg : Config) (st : BState) (l : Nat) :
    (dispatch1 false cfg st l).2 = ruleFor cfg l := dispatch1_pinned cfg st l

/-- … hence for every history of dispatches (every order of first use), from every starting state -/
theorem C12_sink_pattern_independent_of_history (cfg : Config) (ls : List Nat) (st st' : BState) :
    runHistory false cfg st ls = ls.map (ruleFor cfg) ∧ runHistory false cfg st ls = runHistory false cfg st' ls := by
  rw [runHistory_pinned, runHistory_pinned]
  exact ⟨rfl, rfl⟩

/-- the statements a sink receives for a log call are `statements (patternFor sink logger) …` — the logger's multi-line
    flag decides the split, each piece is the sink's pattern formatted (`C12_statements_partial` says what that is) —
    in every backend state -/
theorem C12_sink_lines (cfg : Config) (st : BState) (l : Nat) (lg : LoggerCfg) (hl : cfg.loggers[l]? = some lg)
    (stmt : Stmt) (mv : MetaView) (msg : Str) :
    callLines false cfg st l stmt mv msg =
      lg.sinks.filterMap fun k => (cfg.sinks[k]?).map fun sk => (k, statements (patternFor sk lg) stmt mv lg.opts.ml msg) := by
  unfold callLines
  rw [hl, dispatch1_pinned]
  unfold ruleFor
  rw [hl]
  simp only [List.map_filterMap, Option.map_map]
  rfl

/-- two loggers with equal options, the second with a sink that carries an override -/
def overrideWitness : Config :=
  { loggers := [{ opts := ⟨"L %(message)".toList, true⟩, sinks := [0] }, { opts := ⟨"L %(message)".toList, true⟩, sinks := [0, 1] }]
    sinks := [{ override := none }, { override := some ⟨"OV %(message)".toList, true⟩ }] }

example : (overrideWitness.loggers.map (·.opts)).Nodup = False ∧ hasOverride overrideWitness 1 = true := by decide

/-- **Why the override must be looked up per sink on the write path** (extracted as `overrideChosenOnWritePath`, obligation
    `pattern_backend_facts`): when the override formatters are created only where the logger's formatter is *created*,
    a logger that *shares* the formatter of an earlier logger never gets them — sink 1 is served with the logger's
    pattern if logger 0 was dispatched first and with its override if logger 1 was; the pinned code serves the override
    either way. -/
theorem C12_override_hoisted_fails :
    runHistory true overrideWitness .init [0, 1, 1] =
      [[(0, "L %(message)".toList)], [(0, "L %(message)".toList), (1, "L %(message)".toList)],
       [(0, "L %(message)".toList), (1, "L %(message)".toList)]] ∧
    runHistory true overrideWitness .init [1, 0, 1] =
      [[(0, "L %(message)".toList), (1, "OV %(message)".toList)], [(0, "L %(message)".toList)],
       [(0, "L %(message)".toList), (1, "OV %(message)".toList)]] ∧
    runHistory false overrideWitness .init [0, 1, 1] =
      [[(0, "L %(message)".toList)], [(0, "L %(message)".toList), (1, "OV %(message)".toList)],
       [(0, "L %(message)".toList), (1, "OV %(message)".toList)]] := by
  decide

/-! ## Runtime metadata -/

/-- `message SEP file SEP line SEP function` is split back into its parts, provided the separator does not occur
    inside message, file or line -/
theorem C12_runtime_metadata (m file line fn : Str) (h1 : ¬ magicSep <:+: m) (h2 : ¬ magicSep <:+: file)
    (h3 : ¬ magicSep <:+: line) :
    applyRuntimeMeta (m ++ (magicSep ++ (file ++ (magicSep ++ (line ++ (magicSep ++ fn)))))) =
      some { message := m, fileline := file ++ ':' :: line, function := fn } := by
  unfold applyRuntimeMeta
  rw [splitSep_magic m _ h1]
  simp only
  rw [splitSep_magic file _ h2]
  simp only
  rw [splitSep_magic line _ h3]

example : applyRuntimeMeta ("msg".toList ++ (magicSep ++ ("f.cpp".toList ++ (magicSep ++ ("12".toList ++ (magicSep ++ "fn".toList)))))) =
    some { message := "msg".toList, fileline := "f.cpp:12".toList, function := "fn".toList } := by decide

/-- runtime metadata end to end: the attributes derived from `file`, `line` -/
theorem C12_runtime_metadata_views (m dir base line fn : Str) (h1 : ¬ magicSep <:+: m) (h2 : ¬ magicSep <:+: (dir ++ base))
    (h3 : ¬ magicSep <:+: line) (hd : dir = [] ∨ dir.getLast? = some '/') (hb : '/' ∉ base)
    (hl1 : ':' ∉ line) (hl2 : '/' ∉ line) (hlen : (dir ++ base ++ ':' :: line).length < 65536) :
    (applyRuntimeMeta (m ++ (magicSep ++ ((dir ++ base) ++ (magicSep ++ (line ++ (magicSep ++ fn))))))).bind
        (fun rm => (metaView rm.fileline).map fun mv => (rm.message, mv.fileName, mv.line, mv.fullPath, rm.function)) =
      some (m, base, line, dir ++ base, fn) := by
  rw [C12_runtime_metadata m (dir ++ base) line fn h1 h2 h3]
  simp only [Option.bind_some]
  rw [C12_metadata_views dir base line hd hb hl1 hl2 hlen]
  rfl

end Pattern
