import QuillModel.Uspsc.Proofs
import QuillModel.Uspsc.Capacity
import QuillModel.Uspsc.Trace
/-!
# C02 — unbounded queue: record stream intact across growth/shrink, retired nodes never touched, within the cap

Property theorems only. Quantifiers: every initial capacity `> 0`, every batch rule, every schedule of
producer steps (write, commit, grow/shrink publication) and consumer steps (load, read, commit, observing
`next`, switching + deleting), every legal stale load — provided the bounded orders are release/acquire,
the `next` publication/observation is release/acquire, and `_read_next_queue` re-reads the old node
(`UOrdersOK`, discharged for the extracted values in `Obligations/Queue.lean`).
-/
namespace Uspsc
open Spsc

/-- **Safety in every reachable state.** For every enabled step:
    * producer steps act on a node that has not been deleted (`ci ≤ pi`) and are safe in the bounded sense
      (C01: contiguous, overwrite only released bytes);
    * consumer steps are safe in the bounded sense (only committed, synchronised, intact bytes, FIFO);
    * a `switch` (commit_read, delete old node, move on) happens only when **every record written to the
      old node has been read** (`nread = recs.length` — none lost across the switch), the delete
      **happens-after** the producer's last access to the node (`sawSync`), and the producer has already
      left it (`ci < pi`) — so neither side touches a retired node afterwards. -/
theorem C02_reachable_safe (o : UParams) (ho : UOrdersOK o) (cap : Nat) (batch : Nat → Nat) (hc : 0 < cap)
    (ops : List UOp) (hr : URun o (uinit cap batch) ops) (op : UOp)
    (he : UEnabled o (urun o (uinit cap batch) ops) op) : USafe (urun o (uinit cap batch) ops) op :=
  ustep_safe o ho _ op (ureachable_inv o ho ops _ (uinit_inv o cap batch hc) hr) he

/-- **Order across nodes.** In every reachable state the nodes the consumer has left are exactly those below
    `ci`, the consumer never runs ahead of the producer, and every node the producer has left is sealed:
    its newest published writer position equals everything written to it. With `C02_reachable_safe`
    (switch only after the old node is fully read) and C01's per-node FIFO this gives: the consumer
    receives the records of node 0, then node 1, …, each exactly once and in order. -/
theorem C02_chain (o : UParams) (ho : UOrdersOK o) (cap : Nat) (batch : Nat → Nat) (hc : 0 < cap)
    (ops : List UOp) (hr : URun o (uinit cap batch) ops) :
    (urun o (uinit cap batch) ops).ci ≤ (urun o (uinit cap batch) ops).pi ∧
    (urun o (uinit cap batch) ops).n = (urun o (uinit cap batch) ops).pi + 1 ∧
    ∀ k, k < (urun o (uinit cap batch) ops).pi →
      ((urun o (uinit cap batch) ops).nodes k).q.wHist.headD 0 = ((urun o (uinit cap batch) ops).nodes k).q.wpos :=
  let h := ureachable_inv o ho ops _ (uinit_inv o cap batch hc) hr
  ⟨h.cp, h.len, h.sealK⟩

/-- **Every committed record exactly once, in order, across growth and shrink — over the whole schedule** (audit
    round: `C02_reachable_safe` + `C02_chain` state the ingredients per step; this is the stream statement the docstring
    of `C02_chain` argues informally). For every legal schedule of producer steps (write, commit, `publish` = grow or
    shrink to any capacity), consumer steps (load, read, commit, `seeNext`, `switch` + delete) and every legal stale
    load: the sequence of records the consumer read (`readsOfU ops`, in schedule order, over all nodes) is a **prefix**
    of the sequence the producer wrote (`writesOfU ops`) — none lost at a switch, none duplicated, none reordered, the old
    buffer finished before the new one; and the two traces are the per-node ghost fields read node after node
    (`recsOf`: nodes `0 … pi` for the writes; the nodes below `ci` completely, then `nread` records of node `ci`, for the
    reads). -/
theorem C02_trace_fifo (o : UParams) (ho : UOrdersOK o) (cap : Nat) (batch : Nat → Nat) (hc : 0 < cap)
    (ops : List UOp) (hr : URun o (uinit cap batch) ops) :
    readsOfU ops <+: writesOfU ops ∧
    writesOfU ops = recsOf (urun o (uinit cap batch) ops).nodes ((urun o (uinit cap batch) ops).pi + 1) ∧
    readsOfU ops = recsOf (urun o (uinit cap batch) ops).nodes (urun o (uinit cap batch) ops).ci ++
      (urun o (uinit cap batch) ops).cnode.q.recs.take (urun o (uinit cap batch) ops).cnode.q.nread := by
  have t0 : TI (uinit cap batch) [] [] := ⟨by simp [uinit, recsOf, init], by simp [uinit, recsOf, init, US.cnode], fun k _ => rfl⟩
  have t := ti_run o ho ops _ [] [] (uinit_inv o cap batch hc) hr t0
  have hinv := ureachable_inv o ho ops _ (uinit_inv o cap batch hc) hr
  simp only [List.nil_append] at t
  refine ⟨?_, t.w, t.r⟩
  rw [t.w, t.r]
  generalize urun o (uinit cap batch) ops = s at hinv
  obtain ⟨d, hd⟩ : ∃ d, s.pi + 1 = (s.ci + 1) + d := ⟨s.pi - s.ci, by have := hinv.cp; omega⟩
  rw [hd]
  refine List.IsPrefix.trans ?_ (recsOf_prefix s.nodes (s.ci + 1) d)
  rw [recsOf_succ]
  exact (List.prefix_append_right_inj _).mpr (List.take_prefix _ _)

/-- non-vacuity: on the grow-and-switch schedule of the example below the consumer read `[8, 12]` — one record from the
    old node, one from the new — which is all that was written -/
example : readsOfU [.p (.write 8), .p .commitW, .publish 16, .p (.write 12), .p .commitW,
     .c (.loadW 8), .c (.read 8), .seeNext, .c (.loadW 8), .switch, .c (.loadW 12), .c (.read 12)] = [8, 12] ∧
    writesOfU [.p (.write 8), .p .commitW, .publish 16, .p (.write 12), .p .commitW,
     .c (.loadW 8), .c (.read 8), .seeNext, .c (.loadW 8), .switch, .c (.loadW 12), .c (.read 12)] = [8, 12] := by decide

/-- **Within the cap** (`_handle_full_queue`): a node is allocated only with a capacity that is a doubling
    of the current one, holds the record and does not exceed the maximum; -/
theorem C02_alloc_within_cap {cap n maxCap c : Nat} (hcap : 0 < cap)
    (h : growDecision cap n maxCap = .alloc c) : c ≤ maxCap ∧ n ≤ c ∧ ∃ k, c = cap * 2 ^ (k + 1) :=
  grow_alloc hcap h

/-- a record larger than the maximum is rejected with an error, and only such a record; -/
theorem C02_throw_iff {cap n maxCap : Nat} (hcap : 0 < cap) :
    growDecision cap n maxCap = .throw ↔ n > maxCap := grow_throw_iff hcap

/-- when growing would exceed the maximum the reservation fails (caller blocks or drops); -/
theorem C02_null {cap n maxCap : Nat} (h : growDecision cap n maxCap = .null) :
    n ≤ maxCap ∧ dbl n (cap * 2) n > maxCap := grow_null h

/-- `shrink c` allocates iff `c ≤ capacity / 2`. -/
theorem C02_shrink_iff (cap c : Nat) : shrinkAllocates cap c = true ↔ c ≤ cap / 2 := shrink_allocates_iff cap c

/-- **No permanent refusal with power-of-two limits** (`…_partial`: needs the maximum to be a power of two,
    see `C02_non_pow2_max_refuses`): if growing is refused although the record is within the maximum, the
    current node already has the maximum capacity, so the record fits it once drained (C09). -/
theorem C02_null_means_at_max_partial {a b n : Nat} (hab : a ≤ b) (hn : n ≤ 2 ^ b)
    (h : growDecision (2 ^ a) n (2 ^ b) = .null) : a = b := grow_null_pow2 hab hn h

/-- Finding F10: with a maximum that is not a power of two a record in `(current capacity, maximum]` can
    be neither granted (larger than the node), nor grown for (next doubling exceeds the maximum), nor
    rejected (not larger than the maximum): capacity 1024 (or 2048), maximum 3000, record 2500. -/
theorem C02_non_pow2_max_refuses :
    growDecision 1024 2500 3000 = .null ∧ 1024 < 2500 ∧ 2500 ≤ 3000 ∧
    growDecision 2048 2500 3000 = .null ∧ 2048 < 2500 := by decide

/-! ### the orders and the re-read matter -/

def quillU : UParams :=
  { q := { wStore := .release, wLoad := .acquire, rStore := .release, rLoad := .acquire, drainPublish := true },
    nextStore := .release, nextLoad := .acquire, rereads := true }
theorem quillU_ok : UOrdersOK quillU := by decide

/-- `next` observed with a relaxed load: the consumer may re-read a stale writer position of the old node,
    switch and delete it while a committed record is still unread (lost), and the delete races. -/
theorem relaxed_next_unsafe :
    let o := { quillU with nextLoad := .relaxed }
    let sched : List UOp := [.p (.write 4), .p .commitW, .publish 16, .seeNext, .c (.loadW 0)]
    URun o (uinit 8 (fun _ => 0)) sched ∧ UEnabled o (urun o (uinit 8 (fun _ => 0)) sched) .switch ∧
      ¬ USafe (urun o (uinit 8 (fun _ => 0)) sched) .switch := by
  refine ⟨by decide, by decide, ?_⟩
  rw [← usafeB_iff]; decide

/-- without the re-read of the old node: the consumer saw "empty" before the producer's last commit, then
    sees `next`, switches — the last record of the old node is lost. -/
theorem no_reread_unsafe :
    let o := { quillU with rereads := false }
    let sched : List UOp := [.c (.loadW 0), .p (.write 4), .p .commitW, .publish 16, .seeNext]
    URun o (uinit 8 (fun _ => 0)) sched ∧ UEnabled o (urun o (uinit 8 (fun _ => 0)) sched) .switch ∧
      ¬ USafe (urun o (uinit 8 (fun _ => 0)) sched) .switch := by
  refine ⟨by decide, by decide, ?_⟩
  rw [← usafeB_iff]; decide

/-- non-vacuity: write, grow, drain the old node, switch, read from the new node -/
example : URun quillU (uinit 8 (fun _ => 0))
    [.p (.write 8), .p .commitW, .publish 16, .p (.write 12), .p .commitW,
     .c (.loadW 8), .c (.read 8), .seeNext, .c (.loadW 8), .switch, .c (.loadW 12), .c (.read 12)] := by
  decide

end Uspsc
