import QuillModel.Backend.FlushGate
import QuillModel.Backend.CtxDrain
import QuillModel.Backend.ThreadProofs
import QuillModel.Backend.CtxQuiet
/-!
# C20 — exited threads' queues are drained, then reclaimed

Property theorems only (helpers: `Backend/PcSkeleton.lean`, `Backend/CtxCore.lean`, `Backend/CtxProofs.lean`,
`Backend/CtxDrain.lean`). Quantifiers: every schedule `ops : List Op` of frontend operations, polls (with arbitrary
frontend operations injected at the hook sites) and exits, from every initial state without threads
(`CtxFresh`: what the driver's `mkState` builds), for every configuration `Cfg` — in particular every width
`invalidBits` of the invalid-context counter. The shrink half of the property (unbounded queue) is C02's subject.
-/
namespace Backend
open PC Spsc

/-- initial states: no thread has registered yet (the driver's `mkState`, any configuration, sinks and loggers) -/
def CtxFresh (s : BSt) : Prop :=
  s.ths = [] ∧ s.registry = [] ∧ s.cache = [] ∧ s.newFlag = false ∧ s.invalidCnt = 0 ∧ s.actors = []

theorem CtxFresh.inv {s : BSt} (h : CtxFresh s) : CInv s :=
  CInv_fresh s h.1 h.2.1 h.2.2.1 h.2.2.2.1 h.2.2.2.2.1 h.2.2.2.2.2

/-- number of registered contexts whose thread has exited -/
def invalidRegistered (s : BSt) : Nat := (s.registry.filter (fun i => !(s.th i).valid)).length

/-- contexts of the live threads that have logged -/
def liveContexts (s : BSt) : List Nat :=
  (s.actors.filter (fun x => x.alive && x.ctx.isSome)).map (fun x => x.ctx.getD 0)

theorem liveContexts_core (s : BSt) : (core s).liveCtxs = liveContexts s := by
  simp only [Core.liveCtxs, core, liveContexts, List.filter_map, List.map_map]
  rfl

/-- **The invalid-context counter, along every schedule**: it always equals the number of registered contexts
    whose thread has exited, modulo `2 ^ invalidBits` (`_invalid_thread_context_count` is an unsigned integer of
    that width, incremented at thread exit and decremented at removal). -/
theorem C20_counter (s0 : BSt) (h0 : CtxFresh s0) (ops : List Op) :
    (runOps s0 ops).invalidCnt = invalidRegistered (runOps s0 ops) % 2 ^ (runOps s0 ops).cfg.invalidBits := by
  have h := (CInv_runOps s0 h0.inv ops).cnt
  rw [nInvalid_core] at h
  exact h

/-- hence the counter is exact as long as fewer than `2 ^ invalidBits` contexts are registered at once -/
theorem C20_counter_exact (s0 : BSt) (h0 : CtxFresh s0) (ops : List Op)
    (hnw : (runOps s0 ops).registry.length < 2 ^ (runOps s0 ops).cfg.invalidBits) :
    (runOps s0 ops).invalidCnt = invalidRegistered (runOps s0 ops) := by
  have h := CI.cnt_exact (CInv_runOps s0 h0.inv ops) hnw
  rw [nInvalid_core] at h
  exact h

/-- **The early return of `_cleanup_invalidated_thread_contexts` is taken only when there is nothing to reclaim**
    (and always then): in every reachable state with fewer than `2 ^ invalidBits` registered contexts the counter
    is zero iff every registered context belongs to a thread that is still alive. -/
theorem C20_early_return_iff (s0 : BSt) (h0 : CtxFresh s0) (ops : List Op)
    (hnw : (runOps s0 ops).registry.length < 2 ^ (runOps s0 ops).cfg.invalidBits) :
    (runOps s0 ops).invalidCnt = 0 ↔ ∀ i ∈ (runOps s0 ops).registry, ((runOps s0 ops).th i).valid = true := by
  have hI := CInv_runOps s0 h0.inv ops
  have hex := CI.cnt_exact hI hnw
  constructor
  · intro hz i hi
    rw [← valid_core]
    exact nInvalid_zero (by rw [← hex]; exact hz) i hi
  · intro hv
    show (core (runOps s0 ops)).cnt = 0
    rw [hex]
    unfold Core.nInvalid
    rw [List.length_eq_zero_iff, List.filter_eq_nil_iff]
    intro i hi
    rw [valid_core, hv i hi]; simp

/-- with a zero counter the clean-up does nothing at all -/
theorem C20_zero_counter_noop (s : BSt) (h : s.invalidCnt = 0) : cleanupContexts s = s := by
  rw [cleanupContexts_eq]; simp [h]

/-- **No live thread's context is ever reclaimed**: in every reachable state the context of every live thread
    that has logged is registered, valid and owned by that thread alone. -/
theorem C20_live_contexts_registered (s0 : BSt) (h0 : CtxFresh s0) (ops : List Op) :
    ∀ x ∈ (runOps s0 ops).actors, x.alive = true → ∀ i, x.ctx = some i →
      i ∈ (runOps s0 ops).registry ∧ ((runOps s0 ops).th i).valid = true ∧ ((runOps s0 ops).th i).actor = x.id := by
  intro x hx hal i hi
  have hI := CInv_runOps s0 h0.inv ops
  have hm : (⟨x.id, x.alive, x.ctx⟩ : AC) ∈ (core (runOps s0 ops)).actors := by
    simp only [core, List.mem_map]; exact ⟨x, hx, rfl⟩
  obtain ⟨h1, h2⟩ := hI.own _ hm hal i hi
  refine ⟨h2, ?_, ?_⟩
  · rw [← valid_core]; exact valid_of_getElem? h1
  · simp only [core, List.getElem?_map] at h1
    simp only [BSt.th, List.getD_eq_getElem?_getD]
    cases hg : (runOps s0 ops).ths[i]? with
    | none => rw [hg] at h1; cases h1
    | some t =>
      rw [hg] at h1
      simp only [Option.map_some, Option.some.injEq, TC.mk.injEq] at h1
      exact h1.2

/-- **After a drain, what is retained belongs to live threads — or still owes a report.** Take any reachable state
    and any poll (with any operations injected at its hook sites) that reads nothing, takes the idle branch and
    finds every queue and transit buffer empty, at a moment when fewer than `2 ^ invalidBits` contexts are
    registered, with nothing injected into the logger clean-up that ends the poll (hook site 9: a thread starting
    or exiting there would change the picture after the contexts were reclaimed).
    After that poll every registered context belongs to a live thread, or its failure counter has
    not been reported yet (`Unreported`: the repaired clean-up keeps such a context until the next
    `_check_failure_counter`, finding F24) — every other context of an exited thread was reclaimed
    (it was empty: its statements had been delivered before, C03). -/
theorem C20_idle_poll_reclaims (s0 : BSt) (h0 : CtxFresh s0) (ops : List Op)
    (table : List (Nat × Nat × List FOp)) (h9 : ∀ e ∈ table, e.1 ≠ 9) :
    let s := runOps s0 ops
    let sp : BSt := { s with siteCnt := [] }
    let s' := (applyOp s (.poll table)).1
    s.backendGone = false → (populate (runInj table) sp).2 = 0 →
    (allEmpty (idleState (runInj table) sp)).2 = true →
    (idleState (runInj table) sp).registry.length < 2 ^ (idleState (runInj table) sp).cfg.invalidBits →
    ∀ i ∈ s'.registry, (s'.th i).valid = true ∨ Unreported s' i := by
  intro s sp s' hg hp he hnw
  have hs : CInv s := CInv_runOps s0 h0.inv ops
  have hsp : CInv sp := hs
  have hinj := runInj_ok CInv_closed table
  have hid := CInv_idleState hinj sp hsp
  have hs'eq : s' = cleanupLoggers (runInj table) (preEraseFlush (cleanupContexts (allEmpty (idleState (runInj table) sp)).1)) := by
    show (applyOp s (.poll table)).1 = _
    have hap : applyOp s (.poll table) = if s.backendGone then (s, "noop") else (poll (runInj table) sp, "ev") := rfl
    rw [hap, hg]
    exact poll_idle_eq (runInj table) sp hp he
  have hval := drained_all_valid _ hid hnw he
  have hq := runInj_quiet9 table h9
  obtain ⟨f1, f2, _⟩ := cleanupLoggers_frame (runInj table) hq (preEraseFlush (cleanupContexts (allEmpty (idleState (runInj table) sp)).1))
  obtain ⟨g1, g2⟩ := cleanupLoggers_fail (runInj table) hq (preEraseFlush (cleanupContexts (allEmpty (idleState (runInj table) sp)).1))
  have hsol := preEraseFlush_sol (cleanupContexts (allEmpty (idleState (runInj table) sp)).1)
  have hcore := core_of_stripOut (preEraseFlush_strip (cleanupContexts (allEmpty (idleState (runInj table) sp)).1))
  intro i hi
  rw [hs'eq] at hi ⊢
  rw [f1, hsol.registry] at hi
  rcases hval i hi with hv | hu
  · left
    rw [← valid_core] at hv ⊢
    unfold Core.valid at hv ⊢
    rw [f2, hcore]; exact hv
  · right
    unfold Unreported at hu ⊢
    rw [g1, g2, hsol.cfg, hsol.th]; exact hu

/-- **Retained contexts = live threads that logged.** In the situation of `C20_idle_poll_reclaims`, once no
    registered context is left with an unreported failure counter (in particular with a blocking queue whose
    callers never had to wait, with a queue that never dropped, or after the counters were reported), every
    registered context belongs to a live thread, the registry is a permutation of the contexts of the live threads
    that have logged, and their numbers agree. -/
theorem C20_idle_poll_retains_live (s0 : BSt) (h0 : CtxFresh s0) (ops : List Op)
    (table : List (Nat × Nat × List FOp)) (h9 : ∀ e ∈ table, e.1 ≠ 9) :
    let s := runOps s0 ops
    let sp : BSt := { s with siteCnt := [] }
    let s' := (applyOp s (.poll table)).1
    s.backendGone = false → (populate (runInj table) sp).2 = 0 →
    (allEmpty (idleState (runInj table) sp)).2 = true →
    (idleState (runInj table) sp).registry.length < 2 ^ (idleState (runInj table) sp).cfg.invalidBits →
    (∀ i ∈ s'.registry, (s'.th i).valid = false → (s'.th i).fail = 0) →
    (∀ i ∈ s'.registry, (s'.th i).valid = true) ∧ s'.registry.Perm (liveContexts s') ∧
    s'.registry.length = (s'.actors.filter (fun x => x.alive && x.ctx.isSome)).length := by
  intro s sp s' hg hp he hnw hfail
  have hmain := C20_idle_poll_reclaims s0 h0 ops table h9 hg hp he hnw
  have hv' : ∀ i ∈ s'.registry, (s'.th i).valid = true := by
    intro i hi
    rcases hmain i hi with hv | hu
    · exact hv
    · cases hvi : (s'.th i).valid
      · exact absurd (hfail i hi hvi) hu.2
      · rfl
  have hfin : CInv s' := CInv_runOps s0 h0.inv (ops ++ [.poll table]) |> fun h => by
    have : runOps s0 (ops ++ [.poll table]) = s' := by
      simp only [runOps, List.foldl_append, List.foldl_cons, List.foldl_nil]; rfl
    rw [this] at h; exact h
  have hperm : (core s').registry.Perm (core s').liveCtxs :=
    CI.registry_perm hfin (fun i hi => by rw [valid_core]; exact hv' i hi)
  rw [liveContexts_core] at hperm
  refine ⟨hv', hperm, ?_⟩
  have := hperm.length_eq
  simp only [liveContexts, List.length_map] at this
  exact this

/-- **Once the backend has drained, only live threads' contexts are left.** An idle poll into which nothing is
    injected (no frontend step interleaves with it: the backend is alone, as after the last statement of a quiet
    program) that finds every queue and transit buffer empty reports every failure counter before it reclaims, so
    no context is kept back as "unreported": after it every registered context belongs to a live thread, the
    registry is a permutation of the contexts of the live threads that have logged, and the numbers agree. A context
    kept by an earlier, busier poll (`C20_idle_poll_reclaims`) goes at the latest here. -/
theorem C20_quiet_idle_poll_retains_live (s0 : BSt) (h0 : CtxFresh s0) (ops : List Op) :
    let s := runOps s0 ops
    let sp : BSt := { s with siteCnt := [] }
    let s' := (applyOp s (.poll [])).1
    s.backendGone = false → (populate (runInj []) sp).2 = 0 →
    (allEmpty (idleState (runInj []) sp)).2 = true →
    (idleState (runInj []) sp).registry.length < 2 ^ (idleState (runInj []) sp).cfg.invalidBits →
    (∀ i ∈ s'.registry, (s'.th i).valid = true) ∧ s'.registry.Perm (liveContexts s') ∧
    s'.registry.length = (s'.actors.filter (fun x => x.alive && x.ctx.isSome)).length := by
  intro s sp s' hg hp he hnw
  apply C20_idle_poll_retains_live s0 h0 ops [] (fun _ h => by cases h) hg hp he hnw
  -- every registered context has a reported (zero) failure counter
  intro i hi _
  have hs : CInv s := CInv_runOps s0 h0.inv ops
  have hsp : CInv sp := hs
  have hinjC := runInj_nil_ok CInv_closed.toClosedB
  have hs'eq : s' = cleanupLoggers (runInj []) (preEraseFlush (cleanupContexts (allEmpty (idleState (runInj []) sp)).1)) := by
    show (applyOp s (.poll [])).1 = _
    have hap : applyOp s (.poll []) = if s.backendGone then (s, "noop") else (poll (runInj []) sp, "ev") := rfl
    rw [hap, hg]
    exact poll_idle_eq (runInj []) sp hp he
  -- the state the emptiness check starts from
  have hXC : CInv (idleState (runInj []) sp) := CInv_idleState hinjC sp hsp
  obtain ⟨hXfail, hXN⟩ := idleState_nil_facts sp
  have hXcr : (idleState (runInj []) sp).cache = (idleState (runInj []) sp).registry := hXC.fresh hXN
  -- follow `i` back
  have hi' : i ∈ s'.registry := hi
  show (s'.th i).fail = 0
  rw [hs'eq] at hi' ⊢
  exact fail_zero_after_cleanups (runInj []) runInj_nil_quiet9 _ hXfail hXcr i hi'

/-- **Reclaimed only after delivery**: in every reachable state a context that is no longer registered (it was
    reclaimed) has an empty transit buffer and an empty queue, and every statement ever committed to its queue has
    been popped and processed — nothing is lost with the context (`0 < hdr`: records have a positive size). -/
theorem C20_reclaimed_delivered (s0 : BSt) (h0 : CtxFresh s0) (hh : 0 < s0.cfg.hdr) (ops : List Op) :
    ∀ i, i < (runOps s0 ops).ths.length → i ∉ (runOps s0 ops).registry →
      ((runOps s0 ops).th i).buf = [] ∧ ((runOps s0 ops).th i).qStmts = [] ∧
      ((runOps s0 ops).th i).accepted = ((runOps s0 ops).th i).popped := by
  intro i hi hr
  have h0' : TCInv s0 := by
    refine ⟨h0.inv, hh, ?_, ?_, ?_⟩
    · intro j hj; rw [h0.1] at hj; cases hj
    · intro j hj; rw [h0.1] at hj; cases hj
    · intro x hx; rw [h0.2.2.2.2.2] at hx; cases hx
  have h := TCInv_runOps s0 h0' ops
  obtain ⟨h1, h2⟩ := h.2.unreg i hi hr
  refine ⟨h1, h2, ?_⟩
  rw [(h.2.ths i hi).cons, h1, h2]; simp

/-! ### a counter that is too narrow: finding F13 in miniature -/

def c20Cfg (bits : Nat) : Cfg :=
  { dropping := false, qcap := 256, grace := 0, soft := 100, hard := 1000, hdr := 32, strOverhead := 4,
    batchPct := 5,
    qp := { wStore := .release, wLoad := .acquire, rStore := .release, rLoad := .acquire, drainPublish := true },
    invalidBits := bits, refreshAfterSample := true, catchAllFormat := true, reportBeforeFlushCleanup := true }

def c20Init (bits : Nat) : BSt :=
  { cfg := c20Cfg bits, now := 1000, sinks := [{ sid := 0 }], lgs := [{ gid := 0, sinks := [0] }], names := [(0, 0)] }

theorem c20Init_fresh (bits : Nat) : CtxFresh (c20Init bits) := ⟨rfl, rfl, rfl, rfl, rfl, rfl⟩

/-- two threads log, are delivered, an idle poll; both exit; two more idle polls -/
def c20Two : List Op :=
  [.front (.tstart 0), .front (.tstart 1), .front (.log 0 0 4 8 false), .front (.log 1 0 4 8 false),
   .poll [], .poll [], .poll [], .front (.texit 0), .front (.texit 1), .poll [], .poll []]

/-- four threads -/
def c20Four : List Op :=
  [.front (.tstart 0), .front (.tstart 1), .front (.tstart 2), .front (.tstart 3),
   .front (.log 0 0 4 8 false), .front (.log 1 0 4 8 false), .front (.log 2 0 4 8 false), .front (.log 3 0 4 8 false),
   .poll [], .poll [], .poll [], .poll [], .poll [],
   .front (.texit 0), .front (.texit 1), .front (.texit 2), .front (.texit 3), .poll [], .poll []]

/-- **A 1-bit counter loses two exits**: two thread exits between two idle polls wrap the counter to 0; both
    contexts stay registered although their threads are gone and everything was delivered, and (the counter being
    0) no later poll reclaims them — the clean-up returns early for ever (`C20_zero_counter_noop`). -/
theorem C20_narrow_counter_1bit :
    (runOps (c20Init 1) c20Two).invalidCnt = 0 ∧ (runOps (c20Init 1) c20Two).registry = [0, 1] ∧
    invalidRegistered (runOps (c20Init 1) c20Two) = 2 ∧ liveContexts (runOps (c20Init 1) c20Two) = [] ∧
    cleanupContexts (runOps (c20Init 1) c20Two) = runOps (c20Init 1) c20Two := by
  refine ⟨by decide +kernel, by decide +kernel, by decide +kernel, by decide +kernel, ?_⟩
  exact C20_zero_counter_noop _ (by decide +kernel)

/-- **A 2-bit counter loses four exits** — the 8-bit / 256-exit instance of this is finding F13 -/
theorem C20_narrow_counter_2bit :
    (runOps (c20Init 2) c20Four).invalidCnt = 0 ∧ (runOps (c20Init 2) c20Four).registry = [0, 1, 2, 3] ∧
    invalidRegistered (runOps (c20Init 2) c20Four) = 4 ∧ liveContexts (runOps (c20Init 2) c20Four) = [] := by
  refine ⟨by decide +kernel, by decide +kernel, by decide +kernel, by decide +kernel⟩

/-- the same schedules with a wide enough counter reclaim everything (non-vacuity of the positive theorems) -/
example : (runOps (c20Init 32) c20Two).registry = [] ∧ (runOps (c20Init 32) c20Four).registry = [] ∧
    (runOps (c20Init 2) c20Two).registry = [] := by
  refine ⟨by decide +kernel, by decide +kernel, by decide +kernel⟩

/-- non-vacuity of `C20_idle_poll_retains_live`: after the two exits the next poll meets all its hypotheses
    (here one thread is kept alive: one context retained) -/
example :
    let ops : List Op := [.front (.tstart 0), .front (.tstart 1), .front (.log 0 0 4 8 false),
      .front (.log 1 0 4 8 false), .poll [], .poll [], .front (.texit 0)]
    let s := runOps (c20Init 32) ops
    let sp : BSt := { s with siteCnt := [] }
    s.backendGone = false ∧ (populate (runInj []) sp).2 = 0 ∧ (allEmpty (idleState (runInj []) sp)).2 = true ∧
    (idleState (runInj []) sp).registry.length < 2 ^ (idleState (runInj []) sp).cfg.invalidBits ∧
    (applyOp s (.poll [])).1.registry = [1] ∧
    ((applyOp s (.poll [])).1.registry.all (fun i => ((applyOp s (.poll [])).1.th i).fail == 0)) = true := by
  refine ⟨by decide +kernel, by decide +kernel, by decide +kernel, by decide +kernel, by decide +kernel,
    by decide +kernel⟩

end Backend
