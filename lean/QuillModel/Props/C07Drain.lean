import QuillModel.Backend.DrainProofs
import QuillModel.Backend.DrainProgress
import QuillModel.Backend.DrainTerminate
/-!
# C07 (drain part) — stopping the backend loses no completed statement

Property theorems only (helpers: `Backend/ThreadProofs.lean`, `Backend/DrainProofs.lean`). The restart and signal
parts of C07 are handled elsewhere. Quantifiers: every schedule `ops` leading to the stop, from every initial state
without threads, every configuration; the exit itself is `Op.exit` = `_exit()` with
`wait_for_queues_to_empty_before_exit` (no frontend operation runs during it: the frontend is stopped).
-/
namespace Backend
open PC Spsc

/-- initial states: no thread registered yet, a positive record-header size -/
def DrainFresh (s : BSt) : Prop :=
  s.ths = [] ∧ s.registry = [] ∧ s.cache = [] ∧ s.newFlag = false ∧ s.invalidCnt = 0 ∧ s.actors = [] ∧ 0 < s.cfg.hdr

theorem DrainFresh.inv {s : BSt} (h : DrainFresh s) : TCInv s := by
  obtain ⟨h1, h2, h3, h4, h5, h6, h7⟩ := h
  refine ⟨CInv_fresh s h1 h2 h3 h4 h5 h6, h7, ?_, ?_, ?_⟩
  · intro i hi; rw [h1] at hi; cases hi
  · intro i hi; rw [h1] at hi; cases hi
  · intro x hx; rw [h6] at hx; cases hx

/-- **Conservation, along every schedule**: for every thread context that ever existed, the statements committed
    to its queue are exactly those already popped (processed), followed by those in its transit buffer, followed
    by those still in the queue — none lost, duplicated or reordered on the way. -/
theorem C07_conservation (s0 : BSt) (h0 : DrainFresh s0) (ops : List Op) :
    ∀ i, i < (runOps s0 ops).ths.length →
      ((runOps s0 ops).th i).accepted =
        ((runOps s0 ops).th i).popped ++ ((runOps s0 ops).th i).buf ++ ((runOps s0 ops).th i).qStmts :=
  fun i hi => ((TCInv_runOps s0 h0.inv ops).2.ths i hi).cons

/-- **A context dropped from the registry holds nothing**: whatever was committed through it has been popped. -/
theorem C07_unregistered_empty (s0 : BSt) (h0 : DrainFresh s0) (ops : List Op) :
    ∀ i, i < (runOps s0 ops).ths.length → i ∉ (runOps s0 ops).registry →
      ((runOps s0 ops).th i).accepted = ((runOps s0 ops).th i).popped := by
  intro i hi hr
  have h := TCInv_runOps s0 h0.inv ops
  have hc := (h.2.ths i hi).cons
  obtain ⟨h1, h2⟩ := h.2.unreg i hi hr
  rw [hc, h1, h2]; simp

/-- **The drain.** From any reachable state, if the exit loop reaches its "all queues and transit buffers are
    empty" branch (`exitEnds`; it does so once every pending timestamp is eligible, see
    `C07_exit_terminates_partial`), then in the state the backend stops in
    * no context — of a live thread, of a thread that already exited, registered or already reclaimed — has
      anything left in its transit buffer or queue, so every statement ever committed to a queue
      (`accepted`: every log call that completed) has been popped and processed: `accepted = popped`;
    * the backend is gone (`backendGone`). -/
theorem C07_exit_drains (s0 : BSt) (h0 : DrainFresh s0) (ops : List Op) :
    let s := runOps s0 ops
    let s' := (applyOp s .exit).1
    s.backendGone = false → exitEnds (runInj []) 1000 100000 { s with siteCnt := [] } →
    (∀ i, i < s'.ths.length → (s'.th i).buf = [] ∧ (s'.th i).qStmts = [] ∧ (s'.th i).accepted = (s'.th i).popped) ∧
    s'.backendGone = true := by
  intro s s' hg he
  have hs : TCInv s := TCInv_runOps s0 h0.inv ops
  have hsp : TCInv { s with siteCnt := [] } := TCInv_closed.siteCnt s [] hs
  have hinj := runInj_ok TCInv_closed []
  obtain ⟨sK, hK, heK, hform⟩ := exitLoop_ends_form hinj 1000 100000 _ hsp he
  have hs' : s' = { exitLoop (runInj []) 1000 100000 { s with siteCnt := [] } with backendGone := true } := by
    have hap : applyOp s .exit = if s.backendGone then (s, "noop") else
        ({ exitLoop (runInj []) 1000 100000 { s with siteCnt := [] } with backendGone := true }, "ev") := rfl
    show (applyOp s .exit).1 = _
    rw [hap, if_neg (by rw [hg]; simp)]
  have hdr : AllDrained (exitLoop (runInj []) 1000 100000 { s with siteCnt := [] }) := by
    rw [hform]; exact exitFinal_drained sK hK heK
  have hT : TCInv s' := by
    rw [hs']
    exact TCInv_closed.gone _ (exitLoop_ok TCInv_closed.toClosedB hinj _ _ _ hsp)
  refine ⟨?_, by rw [hs']⟩
  intro i hi
  have hd : (s'.th i).buf = [] ∧ (s'.th i).qStmts = [] := by
    rw [hs'] at hi ⊢
    exact hdr i hi
  refine ⟨hd.1, hd.2, ?_⟩
  rw [(hT.2.ths i hi).cons, hd.1, hd.2]; simp

/-- **Flushed last.** In the same situation the final state is `exitFinal` of a state `sK` in which the emptiness
    check answered yes: the failure counters are reported, then every active sink is flushed
    (`flushSinks`), then contexts and loggers are reclaimed — and after that flush the log gains nothing but sink
    destructor events and, when loggers are erased, the events of one more flush of every sink (the head of
    `_cleanup_invalidated_loggers`, F33 repair): no statement is written after the last flush. -/
theorem C07_exit_flushes_last (s0 : BSt) (h0 : DrainFresh s0) (ops : List Op) :
    let s := runOps s0 ops
    s.backendGone = false → exitEnds (runInj []) 1000 100000 { s with siteCnt := [] } →
    ∃ sK, (allEmpty sK).2 = true ∧
      (applyOp s .exit).1 = { exitFinal (runInj []) sK with backendGone := true } ∧
      ∃ d, (applyOp s .exit).1.log = d ++ (flushSinks (checkFailures (runInj []) (allEmpty sK).1)).log ∧
        ∀ e ∈ d, (∃ k, e = Ev.sinkDtor k) ∨ (∃ k, e = Ev.flushed k ∨ e = Ev.fthrow k) ∨ e = Ev.notify "n:ffail" := by
  intro s hg he
  have hs : TCInv s := TCInv_runOps s0 h0.inv ops
  have hsp : TCInv { s with siteCnt := [] } := TCInv_closed.siteCnt s [] hs
  have hinj := runInj_ok TCInv_closed []
  obtain ⟨sK, hK, heK, hform⟩ := exitLoop_ends_form hinj 1000 100000 _ hsp he
  have hs' : (applyOp s .exit).1 = { exitFinal (runInj []) sK with backendGone := true } := by
    have hap : applyOp s .exit = if s.backendGone then (s, "noop") else
        ({ exitLoop (runInj []) 1000 100000 { s with siteCnt := [] } with backendGone := true }, "ev") := rfl
    rw [hap, if_neg (by rw [hg]; simp), ← hform]
  refine ⟨sK, heK, hs', ?_⟩
  rw [hs']
  obtain ⟨d, hd, hall⟩ := cleanupLoggers_dtors (runInj []) runInj_nil_quiet9
    (preEraseFlush (cleanupContexts (flushSinks (checkFailures (runInj []) (allEmpty sK).1))))
  have hpre : ∃ blk, (preEraseFlush (cleanupContexts (flushSinks (checkFailures (runInj []) (allEmpty sK).1)))).log =
      blk ++ (cleanupContexts (flushSinks (checkFailures (runInj []) (allEmpty sK).1))).log ∧
      ∀ e ∈ blk, (∃ sid, e = Ev.flushed sid ∨ e = Ev.fthrow sid) ∨ e = Ev.notify "n:ffail" := by
    unfold preEraseFlush
    split
    · obtain ⟨blk, e1, _, e3⟩ := PB.flushSinks_log (cleanupContexts (flushSinks (checkFailures (runInj []) (allEmpty sK).1)))
      exact ⟨blk, e1, e3⟩
    · exact ⟨[], rfl, fun _ h => by cases h⟩
  obtain ⟨blk, hb, hblk⟩ := hpre
  refine ⟨d ++ blk, ?_, ?_⟩
  · show (exitFinal (runInj []) sK).log = _
    unfold exitFinal
    rw [hd, hb, cleanupContexts_log, List.append_assoc]
  · intro e he
    rcases List.mem_append.mp he with h | h
    · exact Or.inl (hall e h)
    · exact Or.inr (hblk e h)

/-! ### progress and termination -/

/-- **The drain never adds work.** With the frontend stopped, no iteration of the exit loop — reading the queues,
    the batch loop, reports, clean-ups — increases the number of statements waiting in queues and transit buffers,
    and neither does the whole loop. -/
theorem C07_exit_never_adds (tick : Nat) (s : BSt) :
    pendingTotal (exitBody (runInj []) tick s) ≤ pendingTotal s ∧
    ∀ fuel, pendingTotal (exitLoop (runInj []) tick fuel s) ≤ pendingTotal s :=
  ⟨exitBody_pending_le tick s, fun fuel => exitLoop_pending_le tick fuel s⟩

/-- **Every processed event is progress**: whenever `_process_lowest_timestamp_transit_event` processes an event
    (returns true) exactly one statement leaves the waiting ones — also when it is a Flush request with its
    report and context clean-up. -/
theorem C07_pop_progress (s : BSt) (h : (processLowest (runInj []) s).2 = true) :
    pendingTotal (processLowest (runInj []) s).1 + 1 = pendingTotal s :=
  processLowest_pending s h

/- The full termination statement is `C07_exit_terminates` below (proved with the per-iteration progress fact of
   prover bundle B, which rests on the queue coupling `PB.QC`); the conditional form that follows was the first
   step and is kept because it holds for every injection runner. -/

/-- **Termination, conditionally** (`…_partial`, see the comment above): if every iteration that does not find
    everything empty takes at least one statement out of the waiting ones, the exit loop reaches its "everything is
    empty" branch within `pendingTotal s + 1` iterations — and then `C07_exit_drains` applies. -/
theorem C07_exit_terminates_partial (inj : BSt → Nat → BSt) (tick fuel : Nat) (s : BSt)
    (hprog : ∀ n, (allEmpty (exitIter inj tick n s)).2 = false →
      pendingTotal (exitBody inj tick (exitIter inj tick n s)) < pendingTotal (exitIter inj tick n s))
    (hf : pendingTotal s < fuel) : exitEnds inj tick fuel s :=
  exit_terminates_of_progress inj tick fuel s hprog hf

/-- **The exit loop terminates** (closing `C07_exit_terminates_partial` with the per-iteration progress fact of
    prover bundle B). From every reachable state — whatever is queued, buffered or parked, whatever the
    configuration — the drain `Op.exit` runs (`exitLoop (runInj []) 1000 100000`: clock tick 1000 per iteration,
    fuel 100000 iterations) reaches its "all queues and transit buffers are empty" branch, provided the fuel of the
    model suffices: `pendingTotal s + grace / 1000 + 1 ≤ 100000`. Every iteration advances the clock by the tick, so
    after `grace / 1000 + 1` iterations every pending timestamp is past the grace period, and from then on every
    iteration pops at least one event (`PB.populate_quiet`, `PB.batchLoop_quiet_lt`) while nothing is ever added
    (`C07_exit_never_adds`); with nothing pending the emptiness check answers yes (`PB.QC.empty_true`).
    Beyond the fuel the model's loop simply stops (a model artefact: the real `_exit` loop is unbounded and, by the
    same argument, terminates after `pending + grace/tick + 1` iterations for any number of pending statements). -/
theorem C07_exit_terminates (s0 : BSt) (h0 : DrainFresh s0) (hpl : s0.popLog = []) (ops : List Op) :
    let s := runOps s0 ops
    pendingTotal s + s.cfg.grace / 1000 + 1 ≤ 100000 →
    exitEnds (runInj []) 1000 100000 { s with siteCnt := [] } := by
  intro s hfuel
  have hstart : Start s0 := ⟨h0.2.2.2.2.2.2, h0.1, h0.2.2.2.2.2.1, h0.2.1, h0.2.2.1, hpl⟩
  obtain ⟨fl, hI⟩ := (PB.start_GI hstart).runOps ops
  have hI' : PB.PIo s.cfg fl { s with siteCnt := [] } := hI.frame rfl
  apply exit_terminates PB.quiet_runInj_nil 1000 s.now s.cfg 100000 (s.cfg.grace / 1000) fl _ hI'
  · intro j r hr; exact hI.leNow j r hr
  · show s.now + s.cfg.grace ≤ s.now + (s.cfg.grace / 1000 + 1) * 1000
    omega
  · have e : PB.pendingCount ({ s with siteCnt := [] } : BSt) = pendingTotal s := pendingCount_eq_total _
    rw [e]; omega

/-- **Stop loses nothing, unconditionally on the schedule**: under the numeric premise on the model's fuel the
    conclusions of `C07_exit_drains` hold for every reachable state. -/
theorem C07_exit_drains_everything (s0 : BSt) (h0 : DrainFresh s0) (hpl : s0.popLog = []) (ops : List Op) :
    let s := runOps s0 ops
    let s' := (applyOp s .exit).1
    s.backendGone = false → pendingTotal s + s.cfg.grace / 1000 + 1 ≤ 100000 →
    (∀ i, i < s'.ths.length → (s'.th i).buf = [] ∧ (s'.th i).qStmts = [] ∧ (s'.th i).accepted = (s'.th i).popped) ∧
    s'.backendGone = true :=
  fun hg hf => C07_exit_drains s0 h0 ops hg (C07_exit_terminates s0 h0 hpl ops hf)

/-! ### non-vacuity -/

def c07Cfg : Cfg :=
  { dropping := false, qcap := 256, grace := 0, soft := 100, hard := 1000, hdr := 32, strOverhead := 4,
    batchPct := 5,
    qp := { wStore := .release, wLoad := .acquire, rStore := .release, rLoad := .acquire, drainPublish := true },
    invalidBits := 32, refreshAfterSample := true, catchAllFormat := true, reportBeforeFlushCleanup := true }

def c07Init : BSt :=
  { cfg := c07Cfg, now := 1000, sinks := [{ sid := 0 }], lgs := [{ gid := 0, sinks := [0] }], names := [(0, 0)] }

theorem c07Init_fresh : DrainFresh c07Init := ⟨rfl, rfl, rfl, rfl, rfl, rfl, by decide⟩

def c07Writes : Ev → Option Nat
  | .write _ id _ _ _ => some id
  | _ => none

/-- two threads log three statements, one thread exits, nothing is polled: the exit alone delivers everything
    (ids 0 1 2, then the flush), the hypotheses of `C07_exit_drains` hold -/
example :
    let ops : List Op := [.front (.tstart 0), .front (.tstart 1), .front (.log 0 0 4 8 false), .front (.tick 5),
      .front (.log 1 0 4 8 false), .front (.tick 5), .front (.log 0 0 5 8 true), .front (.texit 1)]
    let s := runOps c07Init ops
    s.backendGone = false ∧ exitEnds (runInj []) 1000 100000 { s with siteCnt := [] } ∧
    ((applyOp s .exit).1.log.filterMap c07Writes).reverse = [0, 1, 2] := by
  refine ⟨by decide +kernel, by decide +kernel, by decide +kernel⟩

end Backend
