import QuillModel.Codec.Statement
import QuillModel.Codec.Window
/-!
# C04 — async-formatted message = call-site formatting; deep copy; reserved = written = consumed bytes

Property theorems only (helper lemmas: `QuillModel/Codec/*`). Quantifiers: every argument value `a : Arg`
(arithmetic/enum/pointer, C string incl. null, `char[N]` with or without terminator, `std::string`/`string_view`
with arbitrary bytes, every std/ container incl. the arithmetic shortcuts and `forward_list`, optional, pair, tuple,
deferred-format POD and aligned non-POD, direct-format, `StringRef`, filesystem path) *nested arbitrarily*
(structural induction over `Arg` and over argument lists), every argument list, every prior content and capacity of
the size cache, every buffer address `pos` and prior buffer content `old`.

`wf a` (decidable) excludes only what the C++ truncates: a string of `2^32 − 2` bytes or more, a container of `2^32`
elements or more, and heterogeneous "containers" (which have no C++ counterpart); `ki.ok` is discharged for the
extracted container table in `Obligations/Codec.lean`.

What is **not** proved (libfmt is not modelled): that `fmtquill::vformat` on the decoded values produces the same
text as `fmtquill::format` on the original arguments. `C04_text_partial` proves the statement up to "fmt is a function
of the format string and of the documented values"; the harness oracle (`h3_codec`, `ORACLE text …`) tests that step
on the real code, after the arguments were overwritten and destroyed.
-/
namespace Codec

/-- **reserved = written (one argument, any nesting), and the cache hand-over.**
    After the size pass of `a` on any cache `c`, the encode pass started at the index where the size pass began
    succeeds (no out-of-range cache read, no read outside the argument), writes exactly as many bytes as the size
    pass reserved, and ends at the index one past the last length the size pass pushed. -/
theorem C04_reserved_eq_written (old : Mem) (a : Arg) (c : Cache) (pos : Nat) (h : wf a = true) :
    ∃ bytes, encode old (sizePass c a).2 c.data.length pos a = some (bytes, c.data.length + (lens a).length) ∧
      (sizePass c a).1 = bytes.length ∧ (sizePass c a).2.data = c.data ++ lens a := by
  refine ⟨enc old pos a, ?_, ?_, ?_⟩
  · rw [sizePass_spec old a c pos h]
    exact encode_spec old a _ _ pos h (Window.of_pushAll c (lens a))
  · rw [sizePass_spec old a c pos h]
  · rw [sizePass_spec old a c pos h]; exact pushAll_data c (lens a)

/-- the same for an argument list (a tuple's members, a statement's arguments) -/
theorem C04_reserved_eq_written_list (old : Mem) (as : List Arg) (c : Cache) (pos : Nat) (h : wfL as = true) :
    ∃ bytes, encodeL old (sizePassL c as).2 c.data.length pos as = some (bytes, c.data.length + (lensL as).length) ∧
      (sizePassL c as).1 = bytes.length ∧ (sizePassL c as).2.data = c.data ++ lensL as := by
  refine ⟨encL old pos as, ?_, ?_, ?_⟩
  · rw [sizePassL_spec old as c pos h]
    exact encodeL_spec old as _ _ pos h (Window.of_pushAll c (lensL as))
  · rw [sizePassL_spec old as c pos h]
  · rw [sizePassL_spec old as c pos h]; exact pushAll_data c (lensL as)

/-- **index alignment.** (1) the size pass appends exactly `lens a` — one entry per C string / `char[N]` /
    direct-format argument / `forward_list`, depth first, in argument order — after whatever the cache held, whatever
    its capacity (heap growth keeps the entries); (2) the encode pass, started at *any* index `i` of *any* cache whose
    entries from `i` on begin with `lens a`, succeeds, produces the specified bytes and stops at `i + |lens a|`: it
    consumes exactly that window (every read is `cache[index++]`) and nothing else of the cache influences it. -/
theorem C04_index_alignment (old : Mem) (a : Arg) (h : wf a = true) :
    (∀ c : Cache, (sizePass c a).2.data = c.data ++ lens a) ∧
    (∀ (c' : Cache) (i pos : Nat), Window c' i (lens a) →
        encode old c' i pos a = some (enc old pos a, i + (lens a).length)) :=
  ⟨fun c => by rw [sizePass_spec old a c 0 h]; exact pushAll_data c (lens a),
   fun c' i pos hw => encode_spec old a c' i pos h hw⟩

/-- **exactly those entries.** For the encode pass of `a` started at index `i`: (a) only the entries
    `i … i + |lens a| − 1` matter — any cache agreeing with a good one on that range gives the same bytes and the same
    end index; (b) every one of them is needed — a cache that ends anywhere inside the range makes the pass fault
    (`none`: the C++ `operator[]` throws `index out of bounds`). With `C04_index_alignment` (the pass ends at
    `i + |lens a|`, and the size pass wrote `lens a` at exactly that range) the entries consumed by `encode` are exactly
    those pushed by `compute_encoded_size`, in order. -/
theorem C04_window_exact (old : Mem) (a : Arg) (h : wf a = true) (c1 c2 : Cache) (i pos : Nat) :
    (Window c1 i (lens a) → (∀ j, j < (lens a).length → c2.data[i + j]? = c1.data[i + j]?) →
        encode old c2 i pos a = encode old c1 i pos a) ∧
    (Short c1 i (lens a) → encode old c1 i pos a = none) := by
  refine ⟨fun hw heq => ?_, fun hs => encode_short old a c1 i pos h hs⟩
  have hw2 : Window c2 i (lens a) := by
    rw [window_iff] at hw ⊢
    intro j hj; rw [heq j hj, hw j hj]
  rw [encode_spec old a c1 i pos h hw, encode_spec old a c2 i pos h hw2]

/-- an empty optional caches nothing (and an engaged one exactly what its value caches) -/
theorem C04_optional_alignment (es : Shape) (a : Arg) : lens (.optNone es) = [] ∧ lens (.optSome a) = lens a := by
  simp [lens]

/-- a container that takes the arithmetic shortcut in the size pass caches nothing for its elements, and its
    elements would not have cached anything on the slow path either (so the encode pass, fast or slow, agrees) -/
theorem C04_fast_path_alignment (ki : KindInfo) (es : Shape) (elems : List Arg)
    (hf : fastOK ki es = true) (hh : homog es elems = true) :
    lensL elems = [] ∧ lens (.seq ki es elems) = (if ki.pushCount then [elems.length % U32] else []) := by
  have h0 := fast_lensL hf hh
  refine ⟨h0, ?_⟩
  simp only [lens, h0]
  split <;> simp

/-- more than `N` cached lengths: the entries survive every reallocation of the `InlinedVector` -/
theorem C04_growth_keeps_entries (c : Cache) (xs : List Nat) : (c.pushAll xs).data = c.data ++ xs :=
  pushAll_data c xs

/-- **bytes consumed = bytes written, and the decoded value is the documented one.**
    Decoding at the statement's static shape, at the address the record was written to, consumes exactly the bytes
    the encoder wrote (whatever follows is returned untouched) and yields `view a`: C string cut at the first NUL
    (null pointer ↦ empty text), `char[N]` cut at NUL or `N`, `std::string` all bytes incl. NUL, containers
    element-wise, POD / aligned objects bit-for-bit. -/
theorem C04_decode_encode (old : Mem) (a : Arg) (c : Cache) (pos : Nat) (rest : Bytes) (h : wf a = true) :
    ∃ bytes i', encode old (sizePass c a).2 c.data.length pos a = some (bytes, i') ∧
      decode (shapeOf a) pos (bytes ++ rest) = some (view a, rest) := by
  obtain ⟨bytes, he, _, _⟩ := C04_reserved_eq_written old a c pos h
  have hb : bytes = enc old pos a := by
    have := encode_spec old a (sizePass c a).2 c.data.length pos h
      (by rw [sizePass_spec old a c pos h]; exact Window.of_pushAll c (lens a))
    rw [this] at he; exact (Prod.mk.inj (Option.some.inj he)).1.symm
  exact ⟨bytes, _, he, by rw [hb]; exact decode_spec old a pos rest h⟩

/-- **deep copy.** The value the backend sees is determined by the encoded bytes alone: two arguments of the same
    static type whose encodings agree are seen as the same value — so nothing outside the record (the caller's
    memory after the call returned) can change it. (`StringRef` is seen as pointer + length, as documented.) -/
theorem C04_bytes_determine_view (old old' : Mem) (a a' : Arg) (pos : Nat) (h : wf a = true) (h' : wf a' = true)
    (hs : shapeOf a = shapeOf a') (he : enc old pos a = enc old' pos a') : view a = view a' := by
  have h1 := decode_spec old a pos [] h
  have h2 := decode_spec old' a' pos [] h'
  rw [hs, he, h2] at h1
  exact ((Prod.mk.inj (Option.some.inj h1)).1).symm

/-- **framing.** For every argument list, prior cache and header/level bytes of the extracted widths: the record is
    written without a cache fault, its length is the `total_size` reserved (`header + Σ sizes + 1 if dynamic`), and
    the backend — header, stored decoder at the statement's shapes, trailing level — consumes exactly those bytes and
    sees the header, the documented values and the level. -/
theorem C04_framing (old : Mem) (f : Frame) (c : Cache) (args : List Arg) (pos : Nat) (dyn : Bool)
    (hdr lvl rest : Bytes) (h : wfL args = true) (hh : hdr.length = f.header)
    (hl : lvl.length = if dyn then f.lvlBytes else 0) :
    ∃ record, writeRecord old c pos hdr args lvl = some record ∧
      record.length = reserved f c args dyn ∧
      readRecord f (shapesOf args) pos dyn (record ++ rest) = some (hdr, viewL args, lvl, rest) := by
  have hs := sizeStatement_spec old c args (pos + hdr.length) h
  have he := encodeL_spec old args ((startCache c args).pushAll (lensL args)) 0 (pos + hdr.length) h
    (window_statement c args)
  refine ⟨hdr ++ encL old (pos + hdr.length) args ++ lvl, ?_, ?_, ?_⟩
  · unfold writeRecord; rw [hs]; simp only [he]
  · unfold reserved; rw [hs]; simp only [List.length_append, hh, hl]
  · unfold readRecord
    have hnl : ¬ (hdr ++ encL old (pos + hdr.length) args ++ lvl ++ rest).length < f.header := by
      simp only [List.length_append, hh]; omega
    have hd : (hdr ++ encL old (pos + hdr.length) args ++ lvl ++ rest).drop f.header =
        encL old (pos + f.header) args ++ (lvl ++ rest) := by
      rw [List.append_assoc, List.append_assoc, drop_len _ _ hh, hh]
    have ht : (hdr ++ encL old (pos + hdr.length) args ++ lvl ++ rest).take f.header = hdr := by
      rw [List.append_assoc, List.append_assoc]; exact take_len _ _ hh
    simp only [hnl, if_false, hd, decodeL_spec old args (pos + f.header) (lvl ++ rest) h, ht]
    have hk : ¬ (lvl ++ rest).length < (if dyn = true then f.lvlBytes else 0) := by
      simp only [List.length_append, hl]; omega
    simp only [hk, if_false, take_len _ _ hl, drop_len _ _ hl]

/-- **a dropped statement leaves nothing behind.** Whatever the thread did before — any number of statements,
    each either logged (size pass + encode pass) or *dropped / rejected between the two passes* (size pass only: a
    full `BoundedDropping` / `UnboundedDropping` queue, or a record over the unbounded maximum), with any arguments,
    starting from any cache — the next statement behaves as on a thread that never logged: (1) its size pass
    reserves, and its encode pass writes, exactly the specified encoding `encL` (no fault, reserved = written);
    (2) that is literally what a fresh cache of any inline capacity `N` gives; (3) if the statement uses the cache at
    all, the size pass leaves exactly its own lengths in it — the same entries as on a fresh cache. This is what the
    `clear()` at the *start* of `compute_encoded_size_and_cache_string_lengths` buys (obligation `codec_clear_rule`
    pins it there and pins `detail::encode` to a `const&` cache). -/
theorem C04_drop_leaves_nothing (old : Mem) (c : Cache) (ops : List StmtOp) (args : List Arg) (pos N : Nat)
    (h : wfL args = true) :
    passesAfter true old c ops pos args = ((encL old pos args).length, some (encL old pos args)) ∧
    passesAfter true old c ops pos args = passesAfter true old (Cache.init N) [] pos args ∧
    (args.any needsClear = true →
      (sizeStatement (cacheAfter true c ops) args).2.data = lensL args ∧
      (sizeStatement (cacheAfter true c ops) args).2.data = (sizeStatement (Cache.init N) args).2.data) := by
  have key : ∀ c' : Cache, passesAfter true old c' [] pos args = ((encL old pos args).length, some (encL old pos args)) := by
    intro c'
    simp only [passesAfter, cacheAfter, List.foldl_nil, sizeStatementAt_true]
    exact passes_spec old c' args pos h
  have h1 : passesAfter true old c ops pos args = passesAfter true old (cacheAfter true c ops) [] pos args := by
    simp [passesAfter, cacheAfter]
  refine ⟨by rw [h1, key], by rw [h1, key, key], fun hc => ?_⟩
  have hd : ∀ c' : Cache, (sizeStatement c' args).2.data = lensL args := by
    intro c'
    rw [sizeStatement_spec old c' args pos h, pushAll_data]
    simp [startCache, hc, Cache.clear]
  exact ⟨hd _, by rw [hd, hd]⟩

/-- the same at record level: after any history of logged and dropped statements the record is written without a
    fault, has the reserved length and is read back as the documented values (`C04_framing` on the cache the history
    left) -/
theorem C04_framing_after_drops (old : Mem) (f : Frame) (c : Cache) (ops : List StmtOp) (args : List Arg) (pos : Nat)
    (dyn : Bool) (hdr lvl rest : Bytes) (h : wfL args = true) (hh : hdr.length = f.header)
    (hl : lvl.length = if dyn then f.lvlBytes else 0) :
    ∃ record, writeRecord old (cacheAfter true c ops) pos hdr args lvl = some record ∧
      record.length = reserved f (cacheAfter true c ops) args dyn ∧
      reserved f (cacheAfter true c ops) args dyn = reserved f c args dyn ∧
      readRecord f (shapesOf args) pos dyn (record ++ rest) = some (hdr, viewL args, lvl, rest) := by
  obtain ⟨record, h1, h2, h3⟩ := C04_framing old f (cacheAfter true c ops) args pos dyn hdr lvl rest h hh hl
  refine ⟨record, h1, h2, ?_, h3⟩
  unfold reserved
  rw [sizeStatement_spec old _ args pos h, sizeStatement_spec old c args pos h]

/-- **the position of the `clear()` matters** (why the obligation pins it): were the cache cleared *after* the encode
    pass instead (`clearAtStart = false`) — indistinguishable as long as every statement is encoded — one dropped
    statement would leave its lengths behind and the next statement would be encoded with them: here a direct-format
    text of 5 bytes after a dropped one of 1 byte is written as 4 + 1 bytes although 4 + 5 were reserved; with the
    `clear()` at the start the same history is harmless. -/
theorem C04_clear_position_matters :
    passesAfter false (fun _ => 0) (Cache.init 12) [.dropped [.direct [97]]] 0 [.direct [100, 100, 100, 100, 100]] =
      (9, some [1, 0, 0, 0, 100]) ∧
    passesAfter false (fun _ => 0) (Cache.init 12) [.logged [.direct [97]]] 0 [.direct [100, 100, 100, 100, 100]] =
      (9, some [5, 0, 0, 0, 100, 100, 100, 100, 100]) ∧
    passesAfter true (fun _ => 0) (Cache.init 12) [.dropped [.direct [97]]] 0 [.direct [100, 100, 100, 100, 100]] =
      (9, some [5, 0, 0, 0, 100, 100, 100, 100, 100]) := by decide

/-- **every statement is formatted from its own decoded arguments only.** The backend has ONE argument store for all
    statements of all threads and loggers. Whatever was decoded before — any history `hist` of records (any shapes,
    any bytes, decodable or not) starting from any store `s0` — decoding statement `n` (`decode_and_store_args`, which
    clears the store first *whatever the argument count*) yields the store a fresh backend would hold, and hence the same
    sink text and the same number of error reports for every `fmt`, format string, error text and printable predicate:
    they are a function of statement `n`'s shapes and bytes alone. For a well-formed argument list written by the
    encode pass that store holds exactly the documented values `viewL args` and the string-related flag of the
    statement's own shapes — for the empty argument list: no value at all (so a format string with a placeholder cannot
    be satisfied by someone else's argument) and no sanitising. -/
theorem C04_store_per_statement (old : Mem) (s0 : Store) (hist : List (List Shape × Nat × Bytes)) (shapes : List Shape)
    (pos : Nat) (bs : Bytes) (p : Option Printable) (fmt : Bytes → List Val → Option Bytes) (err : Bytes → Bytes)
    (fmtStr : Bytes) :
    decodeStatement shapes pos bs (storeAfter true s0 hist) = decodeStatement shapes pos bs Store.empty ∧
    ((decodeStatement shapes pos bs (storeAfter true s0 hist)).map (fun r => storeText p fmt err fmtStr r.1) =
      (decodeStatement shapes pos bs Store.empty).map (fun r => storeText p fmt err fmtStr r.1)) ∧
    (∀ (args : List Arg) (rest : Bytes), wfL args = true →
      decodeStatement (shapesOf args) pos (encL old pos args ++ rest) (storeAfter true s0 hist) =
        some ({ vals := viewL args, stringRelated := (shapesOf args).any stringRelated }, rest)) ∧
    decodeStatement [] pos bs (storeAfter true s0 hist) = some (Store.empty, bs) := by
  have indep : ∀ (sh : List Shape) (b : Bytes) (prev : Store),
      decodeStatement sh pos b prev = decodeStatement sh pos b Store.empty := by
    intro sh b prev; simp [decodeStatement, decodeStatementAt]
  refine ⟨indep _ _ _, by rw [indep], fun args rest h => ?_, ?_⟩
  · simp [decodeStatement, decodeStatementAt, decodeL_spec old args pos rest h]
  · simp [decodeStatement, decodeStatementAt, decodeL, Store.empty]

/-- **why the reset must not depend on the argument count** (the variant `clearFirst = false`, which skips
    `clear()` for a statement without arguments, refuted by a concrete witness): after a record carrying the `int32_t`
    4242 and the C string "a", a zero-argument statement still finds both in the store and the string-related flag set;
    with a `fmt` that needs one argument (a format string with one placeholder) it is written as that foreign value
    instead of the error text, nothing is reported, and a tab in an argument-less message would be sanitised. With the
    unconditional `clear()` the same history gives the empty store, the error text and one report. -/
theorem C04_store_reset_skipped_leaks :
    let prev := storeAfter false Store.empty [([.prim .arith 4, .cstr], 0, [146, 16, 0, 0, 97, 0])]
    let fmt : Bytes → List Val → Option Bytes := fun _ vs => match vs with | .prim b :: _ => some b | _ => none
    let err : Bytes → Bytes := fun _ => [69]
    (decodeStatementAt false [] 0 [] prev).map (fun r => (r.1.vals.length, r.1.stringRelated)) = some (2, true) ∧
    (decodeStatementAt false [] 0 [] prev).map (fun r => storeText none fmt err [] r.1) = some ([146, 16, 0, 0], 0) ∧
    (decodeStatementAt true [] 0 [] prev).map (fun r => (r.1.vals.length, r.1.stringRelated)) = some (0, false) ∧
    (decodeStatementAt true [] 0 [] prev).map (fun r => storeText none fmt err [] r.1) = some ([69], 1) := by decide

/-- **sanitiser, for EVERY predicate.** `BackendOptions::check_printable_char` is any `bool(char)` the user supplies.
    For every such `ok` and every message: the sink text is the message with exactly the bytes failing `ok` replaced by
    `\xHH` (backslash, `x`, two upper-case hex digits of the byte), every other byte kept, order kept — wherever in the
    byte range the rejected bytes lie (inside printable ASCII too); … -/
theorem C04_sanitize_any_predicate (ok : UInt8 → Bool) (s : Bytes) :
    sanitizeBy ok s = s.flatMap (fun b => if ok b then [b] else [92, 120, hexUpper (b.toNat / 16), hexUpper (b.toNat % 16)]) ∧
    (sanitizeBy ok s = s ↔ s.all ok = true) ∧
    (sanitizeBy ok s).length = s.length + 3 * (s.filter (fun b => !ok b)).length := by
  refine ⟨sanitizeBy_eq_flatMap ok s, ⟨fun h => ?_, fun h => by unfold sanitizeBy; simp [h]⟩, ?_⟩
  · have hl := flatMapBy_length ok s
    rw [← sanitizeBy_eq_flatMap, h] at hl
    have h0 : (s.filter (fun b => !ok b)).length = 0 := by omega
    have hnil := List.eq_nil_of_length_eq_zero h0
    rw [List.all_eq_true]
    intro b hb
    cases hc : ok b with
    | true => rfl
    | false =>
      have : b ∈ s.filter (fun b => !ok b) := List.mem_filter.mpr ⟨hb, by simp [hc]⟩
      rw [hnil] at this; exact absurd this List.not_mem_nil
  · rw [sanitizeBy_eq_flatMap]; exact flatMapBy_length ok s

/-- **why the detection loop may not shortcut printable ASCII** (the variant `sanitizeDetectShortcut`, refuted by a
    concrete witness): with a predicate that also rejects `|`, the message `a|b` must become `a\x7Cb`; the variant, which
    does not ask the predicate about bytes in `' '..'~'` while looking for something to escape, leaves it alone — and
    escapes the very same `|` as soon as a control byte is present too. -/
theorem C04_sanitize_shortcut_misses :
    let ok : UInt8 → Bool := fun b => decide (32 ≤ b.toNat) && decide (b.toNat ≤ 126) && b != 124
    sanitizeBy ok [97, 124, 98] = [97, 92, 120, 55, 67, 98] ∧
    sanitizeDetectShortcut ok [97, 124, 98] = [97, 124, 98] ∧
    sanitizeDetectShortcut ok [97, 124, 9] = [97, 92, 120, 55, 67, 92, 120, 48, 57] := by decide

/-- the same three facts for the default predicate shape (`lo ≤ c ≤ hi` or one of `extra`, extracted): the sink text is
    the message with exactly the bytes failing the printable predicate replaced by `\xHH`; … -/
theorem C04_sanitize_spec (p : Printable) (s : Bytes) :
    sanitize p s = s.flatMap (fun b => if p.ok b then [b] else [92, 120, hexUpper (b.toNat / 16), hexUpper (b.toNat % 16)]) :=
  (C04_sanitize_any_predicate p.ok s).1

/-- … it is the identity on a message whose bytes are all printable, and only on those; … -/
theorem C04_sanitize_id (p : Printable) (s : Bytes) : sanitize p s = s ↔ s.all p.ok = true :=
  (C04_sanitize_any_predicate p.ok s).2.1

/-- … and it grows the message by three bytes per replaced byte. -/
theorem C04_sanitize_length (p : Printable) (s : Bytes) :
    (sanitize p s).length = s.length + 3 * (s.filter (fun b => !p.ok b)).length :=
  (C04_sanitize_any_predicate p.ok s).2.2

/-- **a set is seen in the order it was encoded.** The codec of `std::set` / `std::multiset` writes the elements in the
    container's iteration order — the order of ITS comparator, default or not — and the backend must see them in that
    order (it rebuilds the container with the rebound comparator: obligation `codec_set_order`): the view of a decoded
    sequence container of any family is the list of its elements' views in encode order, never re-sorted. -/
theorem C04_set_view_in_encode_order (old : Mem) (ki : KindInfo) (es : Shape) (elems : List Arg) (pos : Nat) (rest : Bytes)
    (h : wf (.seq ki es elems) = true) :
    decode (shapeOf (.seq ki es elems)) pos (enc old pos (.seq ki es elems) ++ rest) = some (.seq (viewL elems), rest) := by
  have := decode_spec old (.seq ki es elems) pos rest h
  simpa [view] using this

/-- the arithmetic values of a decoded sequence, in the order the backend sees them -/
def primSeq : Val → List Nat
  | .seq l => l.filterMap (fun v => match v with | .prim b => some (leVal b) | _ => none)
  | _ => []

/-- ascending insertion sort (structural, so that `decide` can run it) -/
def sortAsc : List Nat → List Nat
  | [] => []
  | x :: xs => (sortAsc xs).takeWhile (· < x) ++ x :: (sortAsc xs).dropWhile (· < x)

/-- witness: a `std::set<int32_t, std::greater<>>` holding 3, 2, 1 is seen as 3, 2, 1; a decode that re-sorts
    ascending (`sortAsc`) would show 1, 2, 3 — not what the call site formats -/
theorem C04_resorting_decode_differs :
    let a : Arg := .seq { hasPrefix := true, fastSize := true, fastEncode := false, pushCount := false, mapLike := false, pairTemp := false }
      (.prim .arith 4) [.prim .arith [3, 0, 0, 0], .prim .arith [2, 0, 0, 0], .prim .arith [1, 0, 0, 0]]
    (decode (shapeOf a) 0 (enc (fun _ => 0) 0 a)).map (fun r => primSeq r.1) = some [3, 2, 1] ∧
    primSeq (view a) = [3, 2, 1] ∧
    (decode (shapeOf a) 0 (enc (fun _ => 0) 0 a)).map (fun r => sortAsc (primSeq r.1)) = some [1, 2, 3] := by decide

/-- **text = call-site formatting — partial.** Full statement (not provable here, libfmt is not modelled):
    `sinkText = sanitize (fmtquill::format fmtStr args…)`. Proved: for *every* function `fmt` of the format string and
    the decoded values, the text the backend produces from the record equals `finalText` of `fmt` applied to the
    documented values `viewL args` — i.e. the two sides agree provided call-site formatting of an argument is a
    function of its documented value (what the harness oracle checks on the real libfmt). -/
theorem C04_text_partial (old : Mem) (f : Frame) (c : Cache) (args : List Arg) (pos : Nat) (dyn : Bool)
    (hdr lvl rest : Bytes) (h : wfL args = true) (hh : hdr.length = f.header)
    (hl : lvl.length = if dyn then f.lvlBytes else 0)
    (fmt : Bytes → List Val → Bytes) (fmtStr : Bytes) (p : Option Printable) :
    ∃ record, writeRecord old c pos hdr args lvl = some record ∧
      (readRecord f (shapesOf args) pos dyn (record ++ rest)).map
          (fun r => finalText p (shapesOf args) (fmt fmtStr r.2.1)) =
        some (finalText p (shapesOf args) (fmt fmtStr (viewL args))) := by
  obtain ⟨record, hw, _, hr⟩ := C04_framing old f c args pos dyn hdr lvl rest h hh hl
  exact ⟨record, hw, by rw [hr]; rfl⟩

/-! ### non-vacuity: concrete, non-trivial inputs meet the hypotheses and exercise the branches -/

def kiVector : KindInfo := { hasPrefix := true, fastSize := true, fastEncode := true, pushCount := false, mapLike := false, pairTemp := false }
def kiList : KindInfo := { hasPrefix := true, fastSize := true, fastEncode := false, pushCount := false, mapLike := false, pairTemp := false }
def kiFwd : KindInfo := { hasPrefix := true, fastSize := false, fastEncode := false, pushCount := true, mapLike := false, pairTemp := false }
def kiMap : KindInfo := { hasPrefix := true, fastSize := true, fastEncode := false, pushCount := false, mapLike := true, pairTemp := true }
def kiArray : KindInfo := { hasPrefix := false, fastSize := true, fastEncode := true, pushCount := false, mapLike := false, pairTemp := false }

/-- `"ab\0cd"` behind a `char const*`, an unterminated `char[3]`, a `std::string` with an embedded NUL, a
    `forward_list<optional<char const*>>` with an empty member, a `vector<int16>` (shortcut), a `map<u8,u16>`,
    an aligned non-POD, a direct-format text, a null C string -/
def sampleArgs : List Arg :=
  [ .cstr (some [97, 98, 0, 99, 100]), .carr [120, 121, 122], .str [1, 0, 2],
    .seq kiFwd (.opt .cstr) [.optSome (.cstr (some [65])), .optNone .cstr, .optSome (.cstr none)],
    .seq kiVector (.prim .arith 2) [.prim .arith [1, 0], .prim .arith [255, 127]],
    .seq kiMap (.pair (.prim .arith 1) (.prim .arith 2)) [.pair (.prim .arith [7]) (.prim .arith [1, 2])],
    .nonpod 8 [9, 9, 9, 9, 9, 9, 9, 9, 9, 9, 9, 9], .direct [104, 105], .cstr none,
    .tuple [.prim .ptr [0, 0, 0, 0, 0, 0, 0, 0], .seq kiArray .str [.str [], .str [33]]] ]

example : wfL sampleArgs = true := by decide
/-- the seven cached lengths of `sampleArgs` are all needed: with six of them the encode pass faults -/
example : encodeL (fun _ => 0) { data := [3, 4, 3, 2, 1, 2], cap := 12 } 0 0 sampleArgs = none := by decide
example : (encodeL (fun _ => 0) { data := [3, 4, 3, 2, 1, 2, 1, 99], cap := 12 } 0 0 sampleArgs).map (·.2) = some 7 := by
  decide
example : lensL sampleArgs = [3, 4, 3, 2, 1, 2, 1] := by decide
example : (sizeStatement (Cache.init 12) sampleArgs).1 = 94 := by decide
/-- thirteen C strings in one statement: the cache grows once (12 → 24) and keeps all thirteen lengths -/
example : (sizeStatement (Cache.init 12) (List.replicate 13 (.cstr (some [65, 66])))).2 =
    { data := List.replicate 13 3, cap := 24, grown := [24] } := by decide
/-- a stale cache is cleared by a statement that caches, and left alone (and unread) by one that does not -/
example : (sizeStatement { data := [7, 7], cap := 12 } [.cstr none]).2.data = [1] ∧
    (sizeStatement { data := [7, 7], cap := 12 } [.str [1], .prim .arith [2]]).2.data = [7, 7] := by decide
/-- the record of `sampleArgs` written at an odd address over a buffer full of `0xAA`, decoded in place -/
example : decodeL (shapesOf sampleArgs) 3 (encL (fun _ => 170) 3 sampleArgs ++ [1, 2]) = some (viewL sampleArgs, [1, 2]) :=
  rfl
example : (encL (fun _ => 170) 3 sampleArgs).length = 94 := by decide
example : sanitize { lo := 32, hi := 126, extra := [10] } [97, 9, 200, 10] = [97, 92, 120, 48, 57, 92, 120, 67, 56, 10] := by
  decide

/-- `C04_drop_leaves_nothing` on a real history: two dropped statements (C strings of other lengths, a
    `forward_list`) and a logged one, then `sampleArgs` — the cache holds exactly `sampleArgs`' seven lengths -/
example : (sizeStatement (cacheAfter true { data := [9, 9, 9], cap := 12 }
      [.dropped [.cstr (some [97, 97, 97, 97, 97]), .cstr (some [98])],
       .logged [.str [1, 2, 3], .prim .arith [1]],
       .dropped [.seq kiFwd .cstr [.cstr (some [65, 66]), .cstr none]]]) sampleArgs).2.data = [3, 4, 3, 2, 1, 2, 1] ∧
    (cacheAfter true { data := [9, 9, 9], cap := 12 }
      [.dropped [.cstr (some [97, 97, 97, 97, 97]), .cstr (some [98])]]).data = [6, 2] := by decide

end Codec
