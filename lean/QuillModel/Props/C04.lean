import QuillModel.Codec.Statement
import QuillModel.Codec.Window
/-!
# C04 — async-formatted message = call-site formatting; deep copy; reserved = written = consumed bytes

Property theorems only (helper lemmas: `QuillModel/Codec/*`). Quantifiers: every argument value `a : Arg`
(arithmetic/enum/pointer, C string incl. null, `char[N]` with or without terminator, `std::string`/`string_view`
with arbitrary bytes, every std/ container incl. the arithmetic shortcuts and `forward_list`, optional, pair, tuple,
deferred-format POD and aligned non-POD, direct-format, `StringRef`, filesystem path) *nested arbitrarily*
(structural induction over `Arg` and over argument lists), every argument list, every prior content and capacity of
the size cache, every buffer address `pos` and prior buffer content `old`.

`wf a` (decidable) excludes only what the C++ truncates: a string of `2^32 − 2` bytes or more, a container of `2^32`
elements or more, and heterogeneous "containers" (which have no C++ counterpart); `ki.ok` is discharged for the
extracted container table in `Obligations/Codec.lean`.

What is **not** proved (libfmt is not modelled): that `fmtquill::vformat` on the decoded values produces the same
text as `fmtquill::format` on the original arguments. `C04_text_partial` proves the statement up to "fmt is a function
of the format string and of the documented values"; the harness oracle (`h3_codec`, `ORACLE text …`) tests that step
on the real code, after the arguments were overwritten and destroyed.
-/
namespace Codec

/-- **reserved = written (one argument, any nesting), and the cache hand-over.**
    After the size pass of `a` on any cache `c`, the encode pass started at the index where the size pass began
    succeeds (no out-of-range cache read, no read outside the argument), writes exactly as many bytes as the size
    pass reserved, and ends at the index one past the last length the size pass pushed. -/
theorem C04_reserved_eq_written (old : Mem) (a : Arg) (c : Cache) (pos : Nat) (h : wf a = true) :
    ∃ bytes, encode old (sizePass c a).2 c.data.length pos a = some (bytes, c.data.length + (lens a).length) ∧
      (sizePass c a).1 = bytes.length ∧ (sizePass c a).2.data = c.data ++ lens a := by
  refine ⟨enc old pos a, ?_, ?_, ?_⟩
  · rw [sizePass_spec old a c pos h]
    exact encode_spec old a _ _ pos h (Window.of_pushAll c (lens a))
  · rw [sizePass_spec old a c pos h]
  · rw [sizePass_spec old a c pos h]; exact pushAll_data c (lens a)

/-- the same for an argument list (a tuple's members, a statement's arguments) -/
theorem C04_reserved_eq_written_list (old : Mem) (as : List Arg) (c : Cache) (pos : Nat) (h : wfL as = true) :
    ∃ bytes, encodeL old (sizePassL c as).2 c.data.length pos as = some (bytes, c.data.length + (lensL as).length) ∧
      (sizePassL c as).1 = bytes.length ∧ (sizePassL c as).2.data = c.data ++ lensL as := by
  refine ⟨encL old pos as, ?_, ?_, ?_⟩
  · rw [sizePassL_spec old as c pos h]
    exact encodeL_spec old as _ _ pos h (Window.of_pushAll c (lensL as))
  · rw [sizePassL_spec old as c pos h]
  · rw [sizePassL_spec old as c pos h]; exact pushAll_data c (lensL as)

/-- **index alignment.** (1) the size pass appends exactly `lens a` — one entry per C string / `char[N]` /
    direct-format argument / `forward_list`, depth first, in argument order — after whatever the cache held, whatever
    its capacity (heap growth keeps the entries); (2) the encode pass, started at *any* index `i` of *any* cache whose
    entries from `i` on begin with `lens a`, succeeds, produces the specified bytes and stops at `i + |lens a|`: it
    consumes exactly that window (every read is `cache[index++]`) and nothing else of the cache influences it. -/
theorem C04_index_alignment (old : Mem) (a : Arg) (h : wf a = true) :
    (∀ c : Cache, (sizePass c a).2.data = c.data ++ lens a) ∧
    (∀ (c' : Cache) (i pos : Nat), Window c' i (lens a) →
        encode old c' i pos a = some (enc old pos a, i + (lens a).length)) :=
  ⟨fun c => by rw [sizePass_spec old a c 0 h]; exact pushAll_data c (lens a),
   fun c' i pos hw => encode_spec old a c' i pos h hw⟩

/-- **exactly those entries.** For the encode pass of `a` started at index `i`: (a) only the entries
    `i … i + |lens a| − 1` matter — any cache agreeing with a good one on that range gives the same bytes and the same
    end index; (b) every one of them is needed — a cache that ends anywhere inside the range makes the pass fault
    (`none`: the C++ `operator[]` throws `index out of bounds`). With `C04_index_alignment` (the pass ends at
    `i + |lens a|`, and the size pass wrote `lens a` at exactly that range) the entries consumed by `encode` are exactly
    those pushed by `compute_encoded_size`, in order. -/
theorem C04_window_exact (old : Mem) (a : Arg) (h : wf a = true) (c1 c2 : Cache) (i pos : Nat) :
    (Window c1 i (lens a) → (∀ j, j < (lens a).length → c2.data[i + j]? = c1.data[i + j]?) →
        encode old c2 i pos a = encode old c1 i pos a) ∧
    (Short c1 i (lens a) → encode old c1 i pos a = none) := by
  refine ⟨fun hw heq => ?_, fun hs => encode_short old a c1 i pos h hs⟩
  have hw2 : Window c2 i (lens a) := by
    rw [window_iff] at hw ⊢
    intro j hj; rw [heq j hj, hw j hj]
  rw [encode_spec old a c1 i pos h hw, encode_spec old a c2 i pos h hw2]

/-- an empty optional caches nothing (and an engaged one exactly what its value caches) -/
theorem C04_optional_alignment (es : Shape) (a : Arg) : lens (.optNone es) = [] ∧ lens (.optSome a) = lens a := by
  simp [lens]

/-- a container that takes the arithmetic shortcut in the size pass caches nothing for its elements, and its
    elements would not have cached anything on the slow path either (so the encode pass, fast or slow, agrees) -/
theorem C04_fast_path_alignment (ki : KindInfo) (es : Shape) (elems : List Arg)
    (hf : fastOK ki es = true) (hh : homog es elems = true) :
    lensL elems = [] ∧ lens (.seq ki es elems) = (if ki.pushCount then [elems.length % U32] else []) := by
  have h0 := fast_lensL hf hh
  refine ⟨h0, ?_⟩
  simp only [lens, h0]
  split <;> simp

/-- more than `N` cached lengths: the entries survive every reallocation of the `InlinedVector` -/
theorem C04_growth_keeps_entries (c : Cache) (xs : List Nat) : (c.pushAll xs).data = c.data ++ xs :=
  pushAll_data c xs

/-- **bytes consumed = bytes written, and the decoded value is the documented one.**
    Decoding at the statement's static shape, at the address the record was written to, consumes exactly the bytes
    the encoder wrote (whatever follows is returned untouched) and yields `view a`: C string cut at the first NUL
    (null pointer ↦ empty text), `char[N]` cut at NUL or `N`, `std::string` all bytes incl. NUL, containers
    element-wise, POD / aligned objects bit-for-bit. -/
theorem C04_decode_encode (old : Mem) (a : Arg) (c : Cache) (pos : Nat) (rest : Bytes) (h : wf a = true) :
    ∃ bytes i', encode old (sizePass c a).2 c.data.length pos a = some (bytes, i') ∧
      decode (shapeOf a) pos (bytes ++ rest) = some (view a, rest) := by
  obtain ⟨bytes, he, _, _⟩ := C04_reserved_eq_written old a c pos h
  have hb : bytes = enc old pos a := by
    have := encode_spec old a (sizePass c a).2 c.data.length pos h
      (by rw [sizePass_spec old a c pos h]; exact Window.of_pushAll c (lens a))
    rw [this] at he; exact (Prod.mk.inj (Option.some.inj he)).1.symm
  exact ⟨bytes, _, he, by rw [hb]; exact decode_spec old a pos rest h⟩

/-- **deep copy.** The value the backend sees is determined by the encoded bytes alone: two arguments of the same
    static type whose encodings agree are seen as the same value — so nothing outside the record (the caller's
    memory after the call returned) can change it. (`StringRef` is seen as pointer + length, as documented.) -/
theorem C04_bytes_determine_view (old old' : Mem) (a a' : Arg) (pos : Nat) (h : wf a = true) (h' : wf a' = true)
    (hs : shapeOf a = shapeOf a') (he : enc old pos a = enc old' pos a') : view a = view a' := by
  have h1 := decode_spec old a pos [] h
  have h2 := decode_spec old' a' pos [] h'
  rw [hs, he, h2] at h1
  exact ((Prod.mk.inj (Option.some.inj h1)).1).symm

/-- **framing.** For every argument list, prior cache and header/level bytes of the extracted widths: the record is
    written without a cache fault, its length is the `total_size` reserved (`header + Σ sizes + 1 if dynamic`), and
    the backend — header, stored decoder at the statement's shapes, trailing level — consumes exactly those bytes and
    sees the header, the documented values and the level. -/
theorem C04_framing (old : Mem) (f : Frame) (c : Cache) (args : List Arg) (pos : Nat) (dyn : Bool)
    (hdr lvl rest : Bytes) (h : wfL args = true) (hh : hdr.length = f.header)
    (hl : lvl.length = if dyn then f.lvlBytes else 0) :
    ∃ record, writeRecord old c pos hdr args lvl = some record ∧
      record.length = reserved f c args dyn ∧
      readRecord f (shapesOf args) pos dyn (record ++ rest) = some (hdr, viewL args, lvl, rest) := by
  have hs := sizeStatement_spec old c args (pos + hdr.length) h
  have he := encodeL_spec old args ((startCache c args).pushAll (lensL args)) 0 (pos + hdr.length) h
    (window_statement c args)
  refine ⟨hdr ++ encL old (pos + hdr.length) args ++ lvl, ?_, ?_, ?_⟩
  · unfold writeRecord; rw [hs]; simp only [he]
  · unfold reserved; rw [hs]; simp only [List.length_append, hh, hl]
  · unfold readRecord
    have hnl : ¬ (hdr ++ encL old (pos + hdr.length) args ++ lvl ++ rest).length < f.header := by
      simp only [List.length_append, hh]; omega
    have hd : (hdr ++ encL old (pos + hdr.length) args ++ lvl ++ rest).drop f.header =
        encL old (pos + f.header) args ++ (lvl ++ rest) := by
      rw [List.append_assoc, List.append_assoc, drop_len _ _ hh, hh]
    have ht : (hdr ++ encL old (pos + hdr.length) args ++ lvl ++ rest).take f.header = hdr := by
      rw [List.append_assoc, List.append_assoc]; exact take_len _ _ hh
    simp only [hnl, if_false, hd, decodeL_spec old args (pos + f.header) (lvl ++ rest) h, ht]
    have hk : ¬ (lvl ++ rest).length < (if dyn = true then f.lvlBytes else 0) := by
      simp only [List.length_append, hl]; omega
    simp only [hk, if_false, take_len _ _ hl, drop_len _ _ hl]

/-- **a dropped statement leaves nothing behind.** Whatever the thread did before — any number of statements,
    each either logged (size pass + encode pass) or *dropped / rejected between the two passes* (size pass only: a
    full `BoundedDropping` / `UnboundedDropping` queue, or a record over the unbounded maximum), with any arguments,
    starting from any cache — the next statement behaves as on a thread that never logged: (1) its size pass
    reserves, and its encode pass writes, exactly the specified encoding `encL` (no fault, reserved = written);
    (2) that is literally what a fresh cache of any inline capacity `N` gives; (3) if the statement uses the cache at
    all, the size pass leaves exactly its own lengths in it — the same entries as on a fresh cache. This is what the
    `clear()` at the *start* of `compute_encoded_size_and_cache_string_lengths` buys (obligation `codec_clear_rule`
    pins it there and pins `detail::encode` to a `const&` cache). -/
theorem C04_drop_leaves_nothing (old : Mem) (c : Cache) (ops : List StmtOp) (args : List Arg) (pos N : Nat)
    (h : wfL args = true) :
    passesAfter true old c ops pos args = ((encL old pos args).length, some (encL old pos args)) ∧
    passesAfter true old c ops pos args = passesAfter true old (Cache.init N) [] pos args ∧
    (args.any needsClear = true →
      (sizeStatement (cacheAfter true c ops) args).2.data = lensL args ∧
      (sizeStatement (cacheAfter true c ops) args).2.data = (sizeStatement (Cache.init N) args).2.data) := by
  have key : ∀ c' : Cache, passesAfter true old c' [] pos args = ((encL old pos args).length, some (encL old pos args)) := by
    intro c'
    simp only [passesAfter, cacheAfter, List.foldl_nil, sizeStatementAt_true]
    exact passes_spec old c' args pos h
  have h1 : passesAfter true old c ops pos args = passesAfter true old (cacheAfter true c ops) [] pos args := by
    simp [passesAfter, cacheAfter]
  refine ⟨by rw [h1, key], by rw [h1, key, key], fun hc => ?_⟩
  have hd : ∀ c' : Cache, (sizeStatement c' args).2.data = lensL args := by
    intro c'
    rw [sizeStatement_spec old c' args pos h, pushAll_data]
    simp [startCache, hc, Cache.clear]
  exact ⟨hd _, by rw [hd, hd]⟩

/-- the same at record level: after any history of logged and dropped statements the record is written without a
    fault, has the reserved length and is read back as the documented values (`C04_framing` on the cache the history
    left) -/
theorem C04_framing_after_drops (old : Mem) (f : Frame) (c : Cache) (ops : List StmtOp) (args : List Arg) (pos : Nat)
    (dyn : Bool) (hdr lvl rest : Bytes) (h : wfL args = true) (hh : hdr.length = f.header)
    (hl : lvl.length = if dyn then f.lvlBytes else 0) :
    ∃ record, writeRecord old (cacheAfter true c ops) pos hdr args lvl = some record ∧
      record.length = reserved f (cacheAfter true c ops) args dyn ∧
      reserved f (cacheAfter true c ops) args dyn = reserved f c args dyn ∧
      readRecord f (shapesOf args) pos dyn (record ++ rest) = some (hdr, viewL args, lvl, rest) := by
  obtain ⟨record, h1, h2, h3⟩ := C04_framing old f (cacheAfter true c ops) args pos dyn hdr lvl rest h hh hl
  refine ⟨record, h1, h2, ?_, h3⟩
  unfold reserved
  rw [sizeStatement_spec old _ args pos h, sizeStatement_spec old c args pos h]

/-- **the position of the `clear()` matters** (why the obligation pins it): were the cache cleared *after* the encode
    pass instead (`clearAtStart = false`) — indistinguishable as long as every statement is encoded — one dropped
    statement would leave its lengths behind and the next statement would be encoded with them: here a direct-format
    text of 5 bytes after a dropped one of 1 byte is written as 4 + 1 bytes although 4 + 5 were reserved; with the
    `clear()` at the start the same history is harmless. -/
theorem C04_clear_position_matters :
    passesAfter false (fun _ => 0) (Cache.init 12) [.dropped [.direct [97]]] 0 [.direct [100, 100, 100, 100, 100]] =
      (9, some [1, 0, 0, 0, 100]) ∧
    passesAfter false (fun _ => 0) (Cache.init 12) [.logged [.direct [97]]] 0 [.direct [100, 100, 100, 100, 100]] =
      (9, some [5, 0, 0, 0, 100, 100, 100, 100, 100]) ∧
    passesAfter true (fun _ => 0) (Cache.init 12) [.dropped [.direct [97]]] 0 [.direct [100, 100, 100, 100, 100]] =
      (9, some [5, 0, 0, 0, 100, 100, 100, 100, 100]) := by decide

/-- **sanitiser.** The sink text is the message with exactly the bytes failing the printable predicate replaced by
    `\xHH` (backslash, `x`, two upper-case hex digits of the byte), every other byte kept, order kept; … -/
theorem C04_sanitize_spec (p : Printable) (s : Bytes) :
    sanitize p s = s.flatMap (fun b => if p.ok b then [b] else [92, 120, hexUpper (b.toNat / 16), hexUpper (b.toNat % 16)]) :=
  sanitize_eq_flatMap p s

/-- … it is the identity on a message whose bytes are all printable, and only on those; … -/
theorem C04_sanitize_id (p : Printable) (s : Bytes) : sanitize p s = s ↔ s.all p.ok = true := by
  constructor
  · intro h
    have hl := flatMap_length p s
    rw [← sanitize_eq_flatMap, h] at hl
    have h0 : (s.filter (fun b => !p.ok b)).length = 0 := by omega
    have hnil := List.eq_nil_of_length_eq_zero h0
    rw [List.all_eq_true]
    intro b hb
    cases hc : p.ok b with
    | true => rfl
    | false =>
      have : b ∈ s.filter (fun b => !p.ok b) := List.mem_filter.mpr ⟨hb, by simp [hc]⟩
      rw [hnil] at this; exact absurd this List.not_mem_nil
  · intro h; unfold sanitize; simp [h]

/-- … and it grows the message by three bytes per replaced byte. -/
theorem C04_sanitize_length (p : Printable) (s : Bytes) :
    (sanitize p s).length = s.length + 3 * (s.filter (fun b => !p.ok b)).length := by
  rw [sanitize_eq_flatMap]; exact flatMap_length p s

/-- **text = call-site formatting — partial.** Full statement (not provable here, libfmt is not modelled):
    `sinkText = sanitize (fmtquill::format fmtStr args…)`. Proved: for *every* function `fmt` of the format string and
    the decoded values, the text the backend produces from the record equals `finalText` of `fmt` applied to the
    documented values `viewL args` — i.e. the two sides agree provided call-site formatting of an argument is a
    function of its documented value (what the harness oracle checks on the real libfmt). -/
theorem C04_text_partial (old : Mem) (f : Frame) (c : Cache) (args : List Arg) (pos : Nat) (dyn : Bool)
    (hdr lvl rest : Bytes) (h : wfL args = true) (hh : hdr.length = f.header)
    (hl : lvl.length = if dyn then f.lvlBytes else 0)
    (fmt : Bytes → List Val → Bytes) (fmtStr : Bytes) (p : Option Printable) :
    ∃ record, writeRecord old c pos hdr args lvl = some record ∧
      (readRecord f (shapesOf args) pos dyn (record ++ rest)).map
          (fun r => finalText p (shapesOf args) (fmt fmtStr r.2.1)) =
        some (finalText p (shapesOf args) (fmt fmtStr (viewL args))) := by
  obtain ⟨record, hw, _, hr⟩ := C04_framing old f c args pos dyn hdr lvl rest h hh hl
  exact ⟨record, hw, by rw [hr]; rfl⟩

/-! ### non-vacuity: concrete, non-trivial inputs meet the hypotheses and exercise the branches -/

def kiVector : KindInfo := { hasPrefix := true, fastSize := true, fastEncode := true, pushCount := false, mapLike := false, pairTemp := false }
def kiList : KindInfo := { hasPrefix := true, fastSize := true, fastEncode := false, pushCount := false, mapLike := false, pairTemp := false }
def kiFwd : KindInfo := { hasPrefix := true, fastSize := false, fastEncode := false, pushCount := true, mapLike := false, pairTemp := false }
def kiMap : KindInfo := { hasPrefix := true, fastSize := true, fastEncode := false, pushCount := false, mapLike := true, pairTemp := true }
def kiArray : KindInfo := { hasPrefix := false, fastSize := true, fastEncode := true, pushCount := false, mapLike := false, pairTemp := false }

/-- `"ab\0cd"` behind a `char const*`, an unterminated `char[3]`, a `std::string` with an embedded NUL, a
    `forward_list<optional<char const*>>` with an empty member, a `vector<int16>` (shortcut), a `map<u8,u16>`,
    an aligned non-POD, a direct-format text, a null C string -/
def sampleArgs : List Arg :=
  [ .cstr (some [97, 98, 0, 99, 100]), .carr [120, 121, 122], .str [1, 0, 2],
    .seq kiFwd (.opt .cstr) [.optSome (.cstr (some [65])), .optNone .cstr, .optSome (.cstr none)],
    .seq kiVector (.prim .arith 2) [.prim .arith [1, 0], .prim .arith [255, 127]],
    .seq kiMap (.pair (.prim .arith 1) (.prim .arith 2)) [.pair (.prim .arith [7]) (.prim .arith [1, 2])],
    .nonpod 8 [9, 9, 9, 9, 9, 9, 9, 9, 9, 9, 9, 9], .direct [104, 105], .cstr none,
    .tuple [.prim .ptr [0, 0, 0, 0, 0, 0, 0, 0], .seq kiArray .str [.str [], .str [33]]] ]

example : wfL sampleArgs = true := by decide
/-- the seven cached lengths of `sampleArgs` are all needed: with six of them the encode pass faults -/
example : encodeL (fun _ => 0) { data := [3, 4, 3, 2, 1, 2], cap := 12 } 0 0 sampleArgs = none := by decide
example : (encodeL (fun _ => 0) { data := [3, 4, 3, 2, 1, 2, 1, 99], cap := 12 } 0 0 sampleArgs).map (·.2) = some 7 := by
  decide
example : lensL sampleArgs = [3, 4, 3, 2, 1, 2, 1] := by decide
example : (sizeStatement (Cache.init 12) sampleArgs).1 = 94 := by decide
/-- thirteen C strings in one statement: the cache grows once (12 → 24) and keeps all thirteen lengths -/
example : (sizeStatement (Cache.init 12) (List.replicate 13 (.cstr (some [65, 66])))).2 =
    { data := List.replicate 13 3, cap := 24, grown := [24] } := by decide
/-- a stale cache is cleared by a statement that caches, and left alone (and unread) by one that does not -/
example : (sizeStatement { data := [7, 7], cap := 12 } [.cstr none]).2.data = [1] ∧
    (sizeStatement { data := [7, 7], cap := 12 } [.str [1], .prim .arith [2]]).2.data = [7, 7] := by decide
/-- the record of `sampleArgs` written at an odd address over a buffer full of `0xAA`, decoded in place -/
example : decodeL (shapesOf sampleArgs) 3 (encL (fun _ => 170) 3 sampleArgs ++ [1, 2]) = some (viewL sampleArgs, [1, 2]) :=
  rfl
example : (encL (fun _ => 170) 3 sampleArgs).length = 94 := by decide
example : sanitize { lo := 32, hi := 126, extra := [10] } [97, 9, 200, 10] = [97, 92, 120, 48, 57, 92, 120, 67, 56, 10] := by
  decide

/-- `C04_drop_leaves_nothing` on a real history: two dropped statements (C strings of other lengths, a
    `forward_list`) and a logged one, then `sampleArgs` — the cache holds exactly `sampleArgs`' seven lengths -/
example : (sizeStatement (cacheAfter true { data := [9, 9, 9], cap := 12 }
      [.dropped [.cstr (some [97, 97, 97, 97, 97]), .cstr (some [98])],
       .logged [.str [1, 2, 3], .prim .arith [1]],
       .dropped [.seq kiFwd .cstr [.cstr (some [65, 66]), .cstr none]]]) sampleArgs).2.data = [3, 4, 3, 2, 1, 2, 1] ∧
    (cacheAfter true { data := [9, 9, 9], cap := 12 }
      [.dropped [.cstr (some [97, 97, 97, 97, 97]), .cstr (some [98])]]).data = [6, 2] := by decide

end Codec
