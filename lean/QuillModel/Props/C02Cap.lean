import QuillModel.Props.C02
import QuillModel.MathUtil.Ctor
/-!
# C02 — the capacities the unbounded queue computes are the model's, for every request

`UnboundedSPSCQueue(initial, max)` builds its first node with `next_power_of_two(initial)`; `_handle_full_queue`
doubles in 64-bit arithmetic; `shrink(c)` builds a node of `next_power_of_two(c)`. The C02 theorems are stated over
unbounded naturals (`Uspsc.growDecision`, `Uspsc.nextPow2`, any `0 < cap`). Here: the 64-bit computations coincide
with them on every node capacity up to `2^62` and every record up to `2^63` bytes, and what happens beyond.
-/
namespace MathUtil
open Uspsc

/-- chain safety for the first node the constructor builds, whatever initial capacity was requested -/
theorem C02_any_requested_initial_capacity (req : Nat) (o : UParams) (ho : UOrdersOK o) (batch : Nat → Nat)
    (ops : List UOp) (hr : URun o (uinit (nextPow2W 64 req) batch) ops) (op : UOp)
    (he : UEnabled o (urun o (uinit (nextPow2W 64 req) batch) ops) op) :
    USafe (urun o (uinit (nextPow2W 64 req) batch) ops) op := by
  obtain ⟨j, _, hc⟩ := nextPow2W_pow2 (w := 64) (by decide) req
  exact C02_reachable_safe o ho _ batch (by rw [hc]; exact Nat.two_pow_pos j) ops hr op he

/-- every node capacity is `2^j`, `j ≤ 63` -/
theorem C02_node_capacity_pow2 (req : Nat) : ∃ j, j ≤ 63 ∧ nextPow2W 64 req = 2 ^ j :=
  nextPow2W_pow2 (w := 64) (by decide) req

/-- the 64-bit `_handle_full_queue` decides exactly as `Uspsc.growDecision` (which `C02_alloc_within_cap`,
    `C02_throw_iff`, `C02_null`, `C02_null_means_at_max_partial` speak about) -/
theorem C02_grow_decision_is_model {j n maxCap : Nat} (hj : j ≤ 62) (hn : n ≤ 2 ^ 63) :
    handleFull (2 ^ j) n maxCap =
      match growDecision (2 ^ j) n maxCap with
      | .alloc c => .alloc c
      | .null => .null
      | .throw => .throw := handleFull_eq_growDecision hj hn

/-- `shrink(c)` allocates exactly when the model says so, with the model's capacity `Uspsc.nextPow2 c`, which is a
    power of two with `c ≤ · ≤ capacity/2` -/
theorem C02_shrink_is_model {j c : Nat} (hj1 : 1 ≤ j) (hj : j ≤ 63) :
    shrinkCap (2 ^ j) c = (if shrinkAllocates (2 ^ j) c then some (nextPow2 c) else none) ∧
    ∀ c', shrinkCap (2 ^ j) c = some c' → c ≤ c' ∧ c' ≤ 2 ^ j / 2 ∧ ∃ k, c' = 2 ^ k := shrinkCap_spec hj1 hj

/-- Observation: a record above `2^63` bytes never leaves the doubling loop (`capacity` wraps to 0); no such record
    can be produced by a log statement (its size is that of objects in memory). -/
theorem C02_doubling_loop_hangs_above_2pow63 {j n maxCap : Nat} (hj : j ≤ 63) (hn : 2 ^ 63 < n) :
    handleFull (2 ^ j) n maxCap = .hang := handleFull_hangs_big_record hj hn

/-- Observation (consequence of F32): on a node of capacity `2^63` any refused reservation spins for ever. -/
theorem C02_doubling_loop_hangs_on_max_node {n maxCap : Nat} (hn : 0 < n) :
    handleFull (2 ^ 63) n maxCap = .hang := handleFull_hangs_max_node hn

/-- with the repaired node constructor `_handle_full_queue` never builds a node of capacity `2^63`: that growth throws -/
theorem C02_repaired_growth_below_2pow63 {cap n maxCap c : Nat} (h : handleFullR true cap n maxCap = .alloc c) :
    c < 2 ^ 63 := handleFullR_alloc_lt h

example : handleFull 1024 5000 (2 ^ 31) = .alloc 8192 ∧ handleFull 1024 5000 4096 = .throw ∧
    handleFull 2048 100 2048 = .null ∧ shrinkCap 4096 1000 = some 1024 ∧ shrinkCap 4096 3000 = none ∧
    handleFull (2 ^ 62) (2 ^ 63 + 1) (2 ^ 64 - 1) = .hang := by decide

end MathUtil
