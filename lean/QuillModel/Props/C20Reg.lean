import QuillModel.Reg.Proofs
/-!
# C20 / C03 (part) — a newly registered thread context is never lost between the manager and the backend's cache

"when a thread logs, its statements are delivered": the backend only reads the queues of the contexts in its cache
(`_active_thread_contexts_cache`) and rebuilds the cache only when `new_thread_context_flag()` returns `true`. The end-to-end
model (`Backend/`) treats `register_thread_context` and `_update_active_thread_contexts_cache` as atomic; this file
justifies that for the real interleavings: every atomic access of both functions (including every iteration of the
spinlock's test loop) is a scheduling point, loads may return stale stores, any number of threads register concurrently,
the backend runs any number of updates.

Premises (all decidable, discharged for the extracted programs and memory orders in `Obligations/Reg.lean`): `CfgOK` —
in `register_thread_context` the flag store comes after `lock()` returned (inside the critical section or after it), the
`push_back` happens with the lock held; the backend resets the flag and clears its cache before the copy and copies with
the lock held; the spinlock's `exchange` acquires and its `unlock` releases (needed for the list accesses to be race-free:
`raced = false`). **No premise on the memory orders of the flag accesses is needed** (the code stores with release and loads
relaxed; in the model the flag transfers no view): the ordering that matters is program order plus the lock.
-/
namespace Reg

/-- **Never "registered, not cached, flag consumed".** In every reachable state, for every schedule and every legal stale
    load: no access of the context list raced; a thread whose `register_thread_context` returned is in the list; and a
    context that is in the list but not in the backend's cache has its pick-up pending — the newest store of the flag is
    `true` (so it stays `true` until the backend reads and resets it, which is followed by a copy), or an update is in
    progress whose copy is still ahead, or the registering thread has not executed its flag store yet. -/
theorem C20_registration_not_lost (c : Cfg) (hc : CfgOK c) (ops : List Op) (hr : Run c (init c) ops) :
    (run c (init c) ops).raced = false ∧
    (∀ t, t < c.n → ((run c (init c) ops).fr t).rest = [] → t ∈ (run c (init c) ops).list) ∧
    (∀ t, t < c.n → t ∈ (run c (init c) ops).list → t ∉ (run c (init c) ops).cache →
        newest (run c (init c) ops).flagHist = true ∨ BInstr.copy ∈ (run c (init c) ops).brest ∨
        FInstr.setFlag ∈ ((run c (init c) ops).fr t).rest) := by
  have h := reachable_inv c hc ops _ (init_inv c hc) hr
  refine ⟨h.noRace, ?_, ?_⟩
  · intro t ht hrest
    rcases h.pushAhead t ht with hp | hp
    · exact hp
    · rw [hrest] at hp; cases hp
  · intro t ht hin hnc
    rcases h.flagAhead t ht with hf | hf
    · rcases h.key t ht hf (Or.inl hin) hnc with hk | hk
      · exact Or.inl hk
      · exact Or.inr (Or.inl hk)
    · exact Or.inr (Or.inr hf)

/-- the same for a thread whose registration has returned: cached, or the flag is set, or the copy is on its way -/
theorem C20_registered_cached_or_flagged (c : Cfg) (hc : CfgOK c) (ops : List Op) (hr : Run c (init c) ops)
    (t : Nat) (ht : t < c.n) (hret : ((run c (init c) ops).fr t).rest = []) :
    t ∈ (run c (init c) ops).cache ∨ newest (run c (init c) ops).flagHist = true ∨
      BInstr.copy ∈ (run c (init c) ops).brest := by
  obtain ⟨_, h1, h2⟩ := C20_registration_not_lost c hc ops hr
  by_cases hcache : t ∈ (run c (init c) ops).cache
  · exact Or.inl hcache
  · rcases h2 t ht (h1 t ht hret) hcache with h | h | h
    · exact Or.inr (Or.inl h)
    · exact Or.inr (Or.inr h)
    · rw [hret] at h; cases h

theorem wfB_reset_copy : ∀ (p : List BInstr) (held : Bool), wfB held p = true → BInstr.reset ∈ p → BInstr.copy ∈ p
  | [], _, _, h => by cases h
  | ins :: r, held, hw, hm => by
    cases ins with
    | reset => simp only [wfB, Bool.and_eq_true] at hw; exact List.mem_cons_of_mem _ (contains_copy hw.1)
    | clear => simp only [wfB, Bool.and_eq_true] at hw; exact List.mem_cons_of_mem _ (contains_copy hw.1)
    | lock =>
      simp only [wfB, Bool.and_eq_true] at hw
      exact List.mem_cons_of_mem _ (wfB_reset_copy r true hw.2 (by simpa using hm))
    | copy => exact List.mem_cons_self
    | unlock =>
      simp only [wfB, Bool.and_eq_true] at hw
      exact List.mem_cons_of_mem _ (wfB_reset_copy r false hw.2 (by simpa using hm))

/-- **The next update picks it up.** From any reachable state in which no registering thread holds the lock (e.g. all
    registrations have returned): let the backend finish the update in progress and run one more whole update whose flag
    load returns the newest store — every context whose registration had returned is then in the cache. (With a stale flag
    load the update may return without rebuilding; by `C20_registration_not_lost` the newest store then still is `true`.)
    This is the statement the harness oracle checks on the real classes at the end of every schedule. -/
theorem C20_next_update_picks_up (c : Cfg) (hc : CfgOK c) (ops : List Op) (hr : Run c (init c) ops)
    (hfree : ∀ u, u < c.n → (run c (init c) ops).lk.inCS u = false)
    (t : Nat) (ht : t < c.n) (hret : ((run c (init c) ops).fr t).rest = []) :
    t ∈ (soloUpdate c (finishUpdate c (2 * (run c (init c) ops).brest.length) (run c (init c) ops))).cache := by
  have h := reachable_inv c hc ops _ (init_inv c hc) hr
  generalize run c (init c) ops = s at *
  obtain ⟨i1, i2, i3, i4, i5, _, _⟩ := finishUpdate_spec c hc (2 * s.brest.length) s h hfree (by unfold needSteps; omega)
  generalize finishUpdate c (2 * s.brest.length) s = s1 at *
  have hfl : (s1.fr t).flagged = true := by
    rcases i1.flagAhead t ht with hf | hf
    · exact hf
    · rw [i3, hret] at hf; cases hf
  have hin : t ∈ s1.list := by
    rcases i1.pushAhead t ht with hp | hp
    · exact hp
    · rw [i3, hret] at hp; cases hp
  unfold soloUpdate
  simp only [bstep, i2]
  by_cases hv : valAt s1.flagHist (s1.flagHist.length - 1) = true
  · simp only [hv, if_true]
    have hi := bLoadTrue_inv c hc s1 (s1.flagHist.length - 1) i1 i2
    have hbr : (bLoadTrue c s1 (s1.flagHist.length - 1)).brest = c.bprog := by simp only [bLoadTrue, fin_brest]
    have hfree' : ∀ u, u < c.n → (bLoadTrue c s1 (s1.flagHist.length - 1)).lk.inCS u = false := by
      simp only [bLoadTrue, fin_lk]; exact i5
    obtain ⟨_, _, _, _, _, j6, _⟩ := finishUpdate_spec c hc (2 * (bLoadTrue c s1 (s1.flagHist.length - 1)).brest.length) _ hi hfree'
      (by unfold needSteps; omega)
    have hcopy : BInstr.copy ∈ (bLoadTrue c s1 (s1.flagHist.length - 1)).brest := by
      rw [hbr]
      exact wfB_reset_copy c.bprog false hc.2.2.2.1 (by simpa using hc.2.2.2.2.1)
    rw [j6 hcopy]
    simp only [bLoadTrue, fin_list]
    exact hin
  · have hv' : valAt s1.flagHist (s1.flagHist.length - 1) = false := by simpa using hv
    simp only [hv', Bool.false_eq_true, if_false]
    have hfin : ∀ fuel, finishUpdate c fuel (bLoadFalse s1 (s1.flagHist.length - 1)) = bLoadFalse s1 (s1.flagHist.length - 1) := by
      intro fuel
      cases fuel with
      | zero => rfl
      | succ k =>
        have : (bLoadFalse s1 (s1.flagHist.length - 1)).brest = [] := i2
        simp only [finishUpdate, this, if_true]
    rw [hfin]
    show t ∈ s1.cache
    by_cases hcache : t ∈ s1.cache
    · exact hcache
    · rcases i1.key t ht hfl (Or.inl hin) hcache with hk | hk
      · rw [valAt_last] at hv'; rw [hv'] at hk; cases hk
      · rw [i2] at hk; cases hk

/-- at the end of a schedule (every registration returned) no registering thread holds the lock -/
theorem C20_all_returned_lock_free (c : Cfg) (hc : CfgOK c) (ops : List Op) (hr : Run c (init c) ops)
    (hall : ∀ u, u < c.n → ((run c (init c) ops).fr u).rest = []) :
    ∀ u, u < c.n → (run c (init c) ops).lk.inCS u = false := by
  have h := reachable_inv c hc ops _ (init_inv c hc) hr
  intro u hu
  have := h.wff u hu
  rw [hall u hu] at this
  simpa [wfF] using this

/-! ### negative witnesses -/

/-- the seeded change "flag store before lock + push": the backend consumes the flag and rebuilds its cache before the
    push; the thread is registered, not cached, the newest flag value is `false`, no update is in progress — and one
    more whole update with a newest-value load still does not find it -/
theorem C20_flag_before_push_lost :
    let c : Cfg := { fprog := [.setFlag, .lock, .push, .unlock], bprog := codeB, ord := { xchg := .acquire, unl := .release }, n := 1 }
    let sched : List Op := [.f 0 0, .b 1, .b 0, .b 0, .b 0, .b 0, .b 0, .b 0, .f 0 2, .f 0 0, .f 0 0, .f 0 0]
    let s := run c (init c) sched
    ¬ CfgOK c ∧ Run c (init c) sched ∧ (s.fr 0).rest = [] ∧ 0 ∈ s.list ∧ 0 ∉ s.cache ∧ newest s.flagHist = false ∧
      s.brest = [] ∧ s.raced = false ∧ 0 ∉ (soloUpdate c s).cache := by decide

/-- resetting the flag after the copy loses a registration that falls between the copy and the reset -/
theorem C20_reset_after_copy_lost :
    let c : Cfg := { fprog := codeF, bprog := [.clear, .lock, .copy, .unlock, .reset], ord := { xchg := .acquire, unl := .release }, n := 2 }
    let sched : List Op := [.f 0 0, .f 0 0, .f 0 0, .f 0 0, .f 0 0, .b 1, .b 0, .b 2, .b 0, .b 0, .b 0,
                            .f 1 4, .f 1 0, .f 1 0, .f 1 0, .f 1 0, .b 0]
    let s := run c (init c) sched
    ¬ CfgOK c ∧ Run c (init c) sched ∧ (s.fr 1).rest = [] ∧ 1 ∈ s.list ∧ 1 ∉ s.cache ∧ newest s.flagHist = false ∧
      s.brest = [] ∧ 1 ∉ (soloUpdate c s).cache := by decide

/-- without release/acquire on the lock the copy races with the push -/
theorem C20_relaxed_unlock_races :
    let c : Cfg := { fprog := codeF, bprog := codeB, ord := { xchg := .acquire, unl := .relaxed }, n := 1 }
    let sched : List Op := [.f 0 0, .f 0 0, .f 0 0, .f 0 0, .f 0 0, .b 1, .b 0, .b 0, .b 2, .b 0, .b 0]
    Run c (init c) sched ∧ (run c (init c) sched).raced = true := by decide

/-! ### non-vacuity -/

/-- the programs of the code as it stands satisfy the premises, for any number of threads -/
example (n : Nat) : CfgOK { fprog := codeF, bprog := codeB, ord := { xchg := .acquire, unl := .release }, n := n } :=
  ⟨rfl, rfl, rfl, rfl, rfl, rfl, rfl⟩

/-- the other placements of the flag store after `lock()` (LockGuard over the whole body) are covered too -/
example : CfgOK { fprog := [.lock, .push, .setFlag, .unlock], bprog := codeB, ord := { xchg := .acquire, unl := .release }, n := 3 } ∧
          CfgOK { fprog := [.lock, .setFlag, .push, .unlock], bprog := codeB, ord := { xchg := .seqcst, unl := .seqcst }, n := 3 } := by
  decide

/-- a schedule with two registering threads contending for the lock, a failed `exchange`, a stale flag load (the backend
    reads index 0 while index 1 exists), the backend consuming the flag between the two registrations and spinning on the
    lock held by the second thread -/
example :
    let c : Cfg := { fprog := codeF, bprog := codeB, ord := { xchg := .acquire, unl := .release }, n := 2 }
    let sched : List Op := [.f 0 0, .f 1 0, .f 0 0, .f 1 0, .f 0 0, .f 0 0, .f 0 0, .b 0, .b 1, .b 0, .b 0,
                            .f 1 3, .f 1 0, .f 1 0, .b 4, .f 1 0, .b 5, .b 0, .b 0, .b 0, .f 1 0]
    let s := run c (init c) sched
    Run c (init c) sched ∧ s.list = [0, 1] ∧ s.cache = [0, 1] ∧ (s.fr 1).rest = [] ∧ newest s.flagHist = true ∧ s.updates = 2 := by
  decide

end Reg
