import QuillModel.Props.C14More
import QuillModel.Props.C14Dated
/-!
# C15 — across restarts, and the composition with size rotation and the backup limit on one history

* `C15_separates_across_restarts` / `C15_not_due_across_restarts`: `C15_separates_on_schedule` / `C15_not_due_on_schedule`
  (Props/C15Schedule.lean) speak about the writes after one start on an arbitrary directory. Here the start is the last
  restart of **any** history (earlier runs with other schedules, limits, backup counts): the schedule that counts is the
  one configured at that restart, anchored at its start instant — as in the code, which recomputes
  `_next_rotation_time` in the constructor.
* `C15_composition_index`, `C15_composition_dated`: time rotation, size rotation and the backup limit together on one
  history of writes and append-mode restarts (every write may trigger either rotation; nothing in the premises restricts
  the frequency): the order of the names is the write order (`IndexInv` / `DatedInv`), nothing is reordered, and what is
  missing from the retained sequence is exactly the whole oldest files removed write by write (`droppedRun`) — nothing at
  all when overwriting is never on. `C15_composes_with_C14` in Props/C15.lean was only the pair of the C14 theorems; this
  is the statement it stood for.
-/
namespace Rot

theorem run_append (P : Params) (z : Nat → Int) : ∀ (a b : List Op) (w : World),
    run P z w (a ++ b) = run P z (run P z w a) b
  | [], _, _ => rfl
  | x :: a, b, w => by simp only [List.cons_append, run]; exact run_append P z a b _

/-- **separation against the schedule of the last restart, after any history** -/
theorem C15_separates_across_restarts (P : Params) (hP : P.advancesFromSchedule = true) (z : Nat → Int) (w0 : World)
    (ops0 : List Op) (c : Cfg) (start : Nat) (hc : CfgOK c) (hf : c.freq ≠ .disabled) (l : List (Stmt × Nat)) (st : Stmt)
    (ts k : Nat) (hk : ∀ t ∈ l.map (·.2), t < initialRot z c start + k * period c)
    (hle : initialRot z c start + k * period c ≤ ts)
    (hns : stopped (run P z w0 (ops0 ++ .restart c start :: writeOps l)).sink = false) :
    ∃ pre, (write P z (run P z w0 (ops0 ++ .restart c start :: writeOps l)) st ts).fs.get curName = some (pre ++ [st]) ∧
      bytes pre = 0 := by
  have e : run P z w0 (ops0 ++ .restart c start :: writeOps l) =
      run P z (restart z (run P z w0 ops0).fs c start) (writeOps l) := by
    rw [run_append]; rfl
  rw [e] at hns ⊢
  exact C15_separates_on_schedule P hP z _ c start hc hf l st ts k hk hle hns

/-- **sharing against the schedule of the last restart, after any history** -/
theorem C15_not_due_across_restarts (P : Params) (hP : P.advancesFromSchedule = true) (z : Nat → Int) (w0 : World)
    (ops0 : List Op) (c : Cfg) (start : Nat) (hc : CfgOK c) (hf : c.freq ≠ .disabled) (l : List (Stmt × Nat)) (ts : Nat)
    (hno : ∀ k, (∀ t ∈ l.map (·.2), t < initialRot z c start + k * period c) → ts < initialRot z c start + k * period c) :
    ¬ timeDue (run P z w0 (ops0 ++ .restart c start :: writeOps l)) ts := by
  have e : run P z w0 (ops0 ++ .restart c start :: writeOps l) =
      run P z (restart z (run P z w0 ops0).fs c start) (writeOps l) := by
    rw [run_append]; rfl
  rw [e]
  exact C15_not_due_on_schedule P hP z _ c start hc hf l ts hno

/-- **Composition, Index scheme.** Any start (`DirOK`, `RestartOK`), any history of writes — each of which may rotate by
    time, by size, or not at all, and delete by the backup limit — and append-mode restarts with any other settings:
    the invariant holds (names in strictly decreasing index = oldest → newest), the content at the start followed by
    everything written equals what the writes removed (whole oldest files, `write_dropped`) followed by what is retained
    — so nothing is reordered and nothing else is lost —, and if overwriting is never on nothing is removed. -/
theorem C15_composition_index (P : Params) (z : Nat → Int) (fs0 : FS) (hd : DirOK fs0) (c0 : Cfg) (start0 : Nat)
    (hc0 : RestartOK c0) (ops : List Op) (hops : ∀ op ∈ ops, OpAppend op) :
    let w0 := restart z fs0 c0 start0
    IndexInv (run P z w0 ops) ∧
      diskSeq w0 ++ written ops = droppedRun P z w0 ops ++ diskSeq (run P z w0 ops) ∧
      (NoOverwrite c0 ops → droppedRun P z w0 ops = []) := by
  intro w0
  have h0 : IndexInv w0 := restart_inv z fs0 c0 start0 hd hc0
  have heq := C14_index_sequence_eq P z ops w0 h0 hops
  refine ⟨run_inv P z ops w0 h0 (fun o ho => (hops o ho).ok), heq, ?_⟩
  intro hno
  have h1 := C14_index_nothing_dropped_without_overwrite P z ops w0 h0 hops hno
  rw [h1] at heq
  exact (List.append_left_eq_self.mp heq.symm)

/-- **Composition, Date / DateAndTime** (premise `DatedHistOK`, append-mode restarts): the dated invariant (deque order =
    name order), the retained tracked sequence is the written one minus a prefix, and with overwriting off a write removes
    nothing (`C14_dated_write_keeps_all_without_overwrite`); what leaves the bookkeeping at a restart stays on disk
    (`C14_dated_untracked_untouched`). -/
theorem C15_composition_dated (P : Params) (z : Nat → Int) (w : World) (h : DatedInv z w) (ops : List Op)
    (hok : DatedHistOK P z w ops) (ha : AppendOnly ops) :
    DatedInv z (run P z w ops) ∧ diskSeq (run P z w ops) <:+ diskSeq w ++ written ops :=
  ⟨C14_dated_invariant P z ops w h hok, C14_dated_sequence P z ops w h hok ha⟩

/-- non-vacuity: minutely rotation + a 10-byte limit + two backups, overwriting on — a size rotation, a time rotation at
    the minute, and a deletion happen in one history; the equation shows statement 1's file as the only thing removed -/
example :
    let c : Cfg := { limit := 10, maxBackup := 2, append := true, freq := .minutely, interval := 1 }
    let ops : List Op := [.write ⟨1, 8⟩ 1, .write ⟨2, 8⟩ 2, .write ⟨3, 1⟩ (60 * NS), .write ⟨4, 8⟩ (60 * NS + 1),
      .write ⟨5, 8⟩ (60 * NS + 2)]
    let w0 := restart zGmt [] c 0
    droppedRun Params.repaired zGmt w0 ops = [⟨1, 8⟩] ∧
      diskSeq (run Params.repaired zGmt w0 ops) = [⟨2, 8⟩, ⟨3, 1⟩, ⟨4, 8⟩, ⟨5, 8⟩] ∧
      (run Params.repaired zGmt w0 ops).fs.get (.file none 1) = some [⟨3, 1⟩, ⟨4, 8⟩] ∧
      (run Params.repaired zGmt w0 ops).sink.created.length = 3 := by
  decide

end Rot
