import QuillModel.Exit.Proofs
import QuillModel.Exit.Program
import QuillModel.Exit.StopProofs
/-!
# C07 — stopping, exiting or dying by a handled signal loses no completed statement  (PARTIAL)

Property (authoritative text in `properties.jsonl`): with `wait_for_queues_to_empty_before_exit`, `Backend::stop()` /
normal exit write and flush every statement whose log call completed before, including those of exited threads, and
the backend can be started again; with the built-in signal handler, SIGSEGV / SIGABRT / SIGFPE / SIGILL / SIGINT /
SIGTERM on a thread that has logged leaves every earlier statement of that thread in the destination, followed by
the handler's notice, and the process then dies from that signal (exits successfully for SIGINT / SIGTERM) — for
every crash point, every handled signal, backend busy or idle, any number of threads, both clocks, any number of
start/stop cycles.

What is proved here (this file + `Exit/Proofs.lean`), for *all* signals, contexts, queue contents and operation
sequences:

* the handler's decisions (`onSignal`, proved equal to the control-flow skeleton extracted from `on_signal` in
  `Obligations/Exit.lean`): on a frontend thread the notice(s) go to the caller's own queue — behind every earlier
  statement of that thread —, then `flush_log`, then default action + re-raise, or `exit` for SIGINT/SIGTERM;
  nothing is logged, flushed or parked on the backend thread / without a running backend; a later entrant only
  parks;
* the life-cycle machine: invariant for every sequence of `start` / `start(with handler)` / `stop` / exit, restart
  after any number of cycles (induction over the cycle list), redundant `stop`/`start` are no-ops, one `atexit`
  handler per effective start (at most one while no `stop` intervenes), exit drains and joins everything, and the
  id the signal handler compares against is never stale (the repair of F23; the unrepaired variant is refuted by
  a witness);
* their composition: a handled signal in any cycle that was started with the handler loses nothing.

What is **not** proved here and is only *enumerated* by harness H4 on the real process: the wait status
(`WIFSIGNALED/WTERMSIG`, `WEXITSTATUS`), the order of `atexit` handlers and static destructors, the signal mask
the backend thread inherits, `pause()` and the `alarm` time-out. The drain itself (`_exit` ends with every queue and
transit buffer empty and the sinks flushed) is the theorem of the backend model (`Backend.exitLoop`, a separate
bundle); `Fe.drain` below is its contract, `flush` that of C06.

Full statement kept for reference (not provable inside a pure model):
  ∀ program, crash point p, action ∈ {stop, return, exit, handled signal}, schedule:
    file(process run to its end) ⊇ completed-before(p) in thread order ∧ wait-status = expected(action).
-/
namespace Exit

/-! ## the handler: decisions -/

/-- frontend branch = the calls of the C++ `else` branch, in order -/
theorem C07_handler_frontend_calls (s : Sig) (pr : Bool) :
    onSignal (Ctx.frontend s pr) =
      if s.graceful then [.storeSignal, .setAlarm, .logNotice, .flush, .exitSuccess]
      else [.storeSignal, .setAlarm, .logNotice, .logCritical, .flush, .restoreDefault, .reraise, .ret] :=
  onSignal_frontend s pr

example : onSignal (Ctx.frontend .segv false) =
    [.storeSignal, .setAlarm, .logNotice, .logCritical, .flush, .restoreDefault, .reraise, .ret] := by decide

/-- **the signal half of C07 on the model**: for every signal (in particular every handled one), every list of
    earlier statements of the signalled thread and every split of it into "already written" and "still queued"
    (backend busy or idle), every logger level: when the handler has run on a frontend thread while a backend
    serves the queues, that thread's lines in the destination are exactly its earlier statements in order followed
    by the notice(s), nothing of it is left queued, and the process ends by the signal's default action — by
    `exit(EXIT_SUCCESS)` for SIGINT/SIGTERM. -/
theorem C07_signal_loses_nothing (e : Env) (s : Sig) (pr : Bool) (earlier : List Nat) (w q : List Item)
    (hsplit : w ++ q = earlier.map Item.stmt) (hrun : e.backendRunning = true) :
    exec e s (onSignal (Ctx.frontend s pr)) false false { queue := q, written := w } =
      ({ queue := [], written := earlier.map Item.stmt ++ notices e s },
       if s.graceful then .exit0 else .diedBy s) := by
  rw [exec_frontend e s pr _ hrun, hsplit]

example : exec { backendRunning := true } .segv (onSignal (Ctx.frontend .segv false)) false false
      { queue := [.stmt 2, .stmt 3], written := [.stmt 0, .stmt 1] } =
    ({ queue := [], written := [.stmt 0, .stmt 1, .stmt 2, .stmt 3, .notice, .critical] }, .diedBy .segv) := by decide

/-- the six handled signals, default logger level: both notices for the crash signals and death by that signal,
    one notice and a successful exit for SIGINT / SIGTERM -/
theorem C07_handled_signal_outcomes (s : Sig) (hs : s ∈ handled) (earlier : List Nat) (w q : List Item)
    (hsplit : w ++ q = earlier.map Item.stmt) :
    exec { backendRunning := true } s (onSignal (Ctx.frontend s false)) false false { queue := q, written := w } =
      if s = .int ∨ s = .term then
        ({ queue := [], written := earlier.map Item.stmt ++ [.notice] }, .exit0)
      else
        ({ queue := [], written := earlier.map Item.stmt ++ [.notice, .critical] }, .diedBy s) := by
  rw [C07_signal_loses_nothing _ s false earlier w q hsplit rfl]
  simp only [handled, List.mem_cons, List.not_mem_nil, or_false] at hs
  rcases hs with h | h | h | h | h | h <;> subst h <;> simp [notices, Sig.graceful]

example : Sig.fpe ∈ handled := by decide

/-- the notice never overtakes: in the destination every earlier statement of the thread stands before the notice -/
theorem C07_notice_follows_earlier (e : Env) (s : Sig) (pr : Bool) (earlier : List Nat) (w q : List Item)
    (hsplit : w ++ q = earlier.map Item.stmt) (hrun : e.backendRunning = true) (hinfo : e.infoOn = true) :
    ∃ tail, (exec e s (onSignal (Ctx.frontend s pr)) false false { queue := q, written := w }).1.written =
      earlier.map Item.stmt ++ Item.notice :: tail := by
  rw [C07_signal_loses_nothing e s pr earlier w q hsplit hrun]
  exact ⟨if s.graceful || !e.critOn then [] else [.critical], by simp [notices, hinfo]⟩

/-- on the backend thread, or when no backend thread id is published: nothing is logged, nothing is flushed, nothing
    parks — whatever the signal, the logger, the re-raise flag -/
theorem C07_backend_or_no_backend_silent (x : Ctx) (hfirst : x.first = true)
    (hb : x.backendIdSet = false ∨ x.onBackend = true) :
    onSignal x =
      [.storeSignal, .setAlarm] ++
        (if x.sig.graceful then [.exitSuccess] else if x.reraise then [.restoreDefault, .reraise, .ret] else [.ret]) ∧
    Action.logNotice ∉ onSignal x ∧ Action.logCritical ∉ onSignal x ∧ Action.flush ∉ onSignal x ∧
    Action.park ∉ onSignal x := by
  obtain ⟨s, a, b, c, d, e, f⟩ := x
  cases s <;> cases a <;> cases b <;> cases c <;> cases d <;> cases e <;> cases f <;>
    first | decide | (simp at hfirst hb)

/-- … and the process ends at once: successfully for SIGINT/SIGTERM (the `atexit` drain still runs if a backend
    thread exists), by the signal otherwise; the thread's queue is not touched by the handler -/
theorem C07_backend_or_no_backend_outcome (e : Env) (x : Ctx) (f : Fe) (hfirst : x.first = true)
    (hb : x.backendIdSet = false ∨ x.onBackend = true) (hre : x.reraise = true) :
    exec e x.sig (onSignal x) false false f =
      if x.sig.graceful then (if e.backendRunning && e.waitOnExit then f.drain else f, .exit0)
      else (f, .diedBy x.sig) := by
  rw [(C07_backend_or_no_backend_silent x hfirst hb).1]
  cases hg : x.sig.graceful <;> simp [exec, hre]

example : onSignal ⟨.term, true, false, true, true, true, true⟩ = [.storeSignal, .setAlarm, .exitSuccess] := by decide

/-- a later entrant (while `pause()` does not return) makes exactly one call, `pause()`: it never logs, never
    flushes, never re-raises, never exits -/
theorem C07_second_entrant_only_parks (x : Ctx) (h1 : x.first = false) (h2 : x.parkReturns = false) (e : Env) (f : Fe) :
    onSignal x = [.park] ∧ exec e x.sig (onSignal x) false false f = (f, .hangs) := by
  have : onSignal x = [.park] := by simp [onSignal, h1, h2]
  exact ⟨this, by rw [this]; rfl⟩

example : onSignal ⟨.abrt, false, false, true, false, true, true⟩ = [.park] := by decide

/-- quirk of the code, kept by the model: `pause()` is followed by the rest of the handler, so a later entrant whose
    `pause()` returns (some handler ran on that thread and came back) does everything a first entrant does -/
theorem C07_quirk_woken_entrant_proceeds (x : Ctx) (h1 : x.first = false) (h2 : x.parkReturns = true) :
    onSignal x = .park :: onSignal { x with first := true } := by
  obtain ⟨s, a, b, c, d, e, f⟩ := x
  simp only at h1 h2
  subst h1 h2
  cases s <;> cases c <;> cases d <;> cases e <;> cases f <;> decide

/-- quirk: on a frontend thread with no valid logger the handler returns without re-raising — the signal is
    swallowed (only the alarm ends the process later) -/
theorem C07_quirk_no_logger_swallows (s : Sig) (pr re : Bool) (e : Env) (f : Fe) :
    let x : Ctx := ⟨s, true, pr, true, false, false, re⟩
    onSignal x = [.storeSignal, .setAlarm, .ret] ∧ exec e s (onSignal x) false false f = (f, .continues) := by
  cases s <;> cases pr <;> cases re <;> exact ⟨by decide, rfl⟩

/-- with `should_reraise_signal` off: notice, flush, return — the program continues with everything written -/
theorem C07_reraise_off_returns (e : Env) (s : Sig) (hs : s.graceful = false) (pr : Bool) (f : Fe) (hrun : e.backendRunning = true) :
    let x : Ctx := ⟨s, true, pr, true, false, true, false⟩
    onSignal x = [.storeSignal, .setAlarm, .logNotice, .flush, .ret] ∧
    exec e s (onSignal x) false false f =
      ({ queue := [], written := f.written ++ f.queue ++ (if e.infoOn then [.notice] else []) }, .continues) := by
  obtain ⟨run, info, crit, wait, gu⟩ := e
  simp only at hrun
  subst hrun
  have h1 : onSignal ⟨s, true, pr, true, false, true, false⟩ = [.storeSignal, .setAlarm, .logNotice, .flush, .ret] := by
    cases s <;> cases pr <;> first | rfl | (simp [Sig.graceful] at hs)
  refine ⟨h1, ?_⟩
  rw [h1]
  cases info <;> simp [exec, Fe.log, Fe.drain, List.append_assoc]

/-! ### why the order of the calls matters (mutants of the call list, refuted on the model) -/

/-- the notice enqueued only after the flush is lost when the process dies -/
theorem C07_neg_notice_after_flush :
    (exec { backendRunning := true } .segv [.storeSignal, .setAlarm, .flush, .logNotice, .logCritical, .restoreDefault, .reraise, .ret]
      false false { queue := [.stmt 0], written := [] }).1.written = [.stmt 0] := by decide

/-- no flush before dying: what is still queued never reaches the destination -/
theorem C07_neg_no_flush :
    exec { backendRunning := true } .segv [.storeSignal, .setAlarm, .logNotice, .logCritical, .restoreDefault, .reraise, .ret]
      false false { queue := [.stmt 0], written := [] } =
    ({ queue := [.stmt 0, .notice, .critical], written := [] }, .diedBy .segv) := by decide

/-- re-raising without restoring the default action re-enters the handler, which parks: the process hangs -/
theorem C07_neg_raise_without_default :
    (exec { backendRunning := true } .segv [.storeSignal, .setAlarm, .logNotice, .logCritical, .flush, .reraise, .ret]
      false false {}).2 = .hangs := by decide

/-- SIGTERM treated like a crash signal dies by SIGTERM instead of exiting successfully -/
theorem C07_neg_term_reraised :
    (exec { backendRunning := true } .term [.storeSignal, .setAlarm, .logNotice, .logCritical, .flush, .restoreDefault, .reraise, .ret]
      false false {}).2 = .diedBy .term := by decide

/-- flushing without a backend thread never returns (the mechanism behind F23) -/
theorem C07_neg_flush_without_backend (s : Sig) (pr : Bool) (f : Fe) :
    (exec { backendRunning := false } s (onSignal (Ctx.frontend s pr)) false false f).2 = .hangs := by
  rw [onSignal_frontend]
  cases hg : s.graceful <;> simp [exec]

/-! ## start / stop life-cycle -/

/-- invariant of every reachable state, whatever the sequence of `start`, `start` with handler, `stop`, exit -/
theorem C07_life_invariant (ops : List LOp) : LInv (Life.run R {} ops) :=
  LInv.run ops {} LInv.init

example : (Life.run R {} [.start, .stop, .stop, .startSH, .start, .stop]).spawned = 2 := by decide

/-- **restart**: after any number of start/stop cycles — each with either kind of start, any number of redundant
    starts and redundant stops — the backend is stopped with a fresh once-flag, exactly one thread was spawned,
    drained and joined per cycle, and one `atexit` handler registered per cycle (induction over the cycle list) -/
theorem C07_any_number_of_cycles (cs : List Cycle) :
    let s := Life.run R {} (cs.flatMap Cycle.ops)
    Stopped s ∧ s.onceDone = false ∧ s.spawned = cs.length ∧ s.joined = cs.length ∧
    s.atexits = (cs.map (·.sh)).reverse ∧ s.nextTid = cs.length + 1 ∧ s.ctxTid = 0 := by
  suffices h : ∀ (cs : List Cycle) (s0 : Life), Stopped s0 →
      let s := Life.run R s0 (cs.flatMap Cycle.ops)
      Stopped s ∧ s.spawned = s0.spawned + cs.length ∧ s.joined = s0.joined + cs.length ∧
      s.atexits = (cs.map (·.sh)).reverse ++ s0.atexits ∧ s.nextTid = s0.nextTid + cs.length by
    obtain ⟨h1, h2, h3, h4, h5⟩ := h cs {} ⟨LInv.init, rfl, rfl⟩
    refine ⟨h1, h1.once, by simpa using h2, by simpa using h3, by simpa using h4, ?_, h1.ctx0⟩
    simp only at h5; omega
  intro cs
  induction cs with
  | nil => intro s0 h0; exact ⟨h0, rfl, rfl, rfl, rfl⟩
  | cons c cs ih =>
    intro s0 h0
    obtain ⟨e, hst⟩ := run_cycle c s0 h0
    obtain ⟨h1, h2, h3, h4, h5⟩ := ih _ hst
    simp only [List.flatMap_cons, run_append]
    refine ⟨h1, ?_, ?_, ?_, ?_⟩
    · rw [h2, e]; simp [Life.afterCycle]; omega
    · rw [h3, e]; simp [Life.afterCycle]; omega
    · rw [h4, e]; simp [Life.afterCycle]
    · rw [h5, e]; simp [Life.afterCycle]; omega

example : ([⟨true, 1, 2⟩, ⟨false, 0, 0⟩] : List Cycle).flatMap Cycle.ops =
    [.startSH, .start, .stop, .stop, .stop, .start, .stop] := by decide

/-- … and the next `start` of either kind then yields a running backend on a fresh thread, whose id the signal
    handler knows when (and only when) it was started with the handler -/
theorem C07_start_after_cycles_runs (cs : List Cycle) (sh : Bool) :
    let s := Life.run R {} (cs.flatMap Cycle.ops ++ [if sh then .startSH else .start])
    s.running = true ∧ s.workerTid = cs.length + 1 ∧ s.spawned = cs.length + 1 ∧ s.joined = cs.length ∧
    s.ctxTid = (if sh then s.workerTid else 0) := by
  obtain ⟨h1, _, h3, h4, _, h6, _⟩ := C07_any_number_of_cycles cs
  intro s
  have hs : s = (Life.run R {} (cs.flatMap Cycle.ops)).started sh := by
    show Life.run R {} (_ ++ _) = _
    rw [run_append]
    exact step_start_stopped _ h1 sh
  rw [hs]
  cases sh <;> simp [Life.started, h3, h4, h6]

/-- `stop` on a stopped backend changes nothing at all, in every reachable state -/
theorem C07_stop_when_stopped_is_noop (ops : List LOp) (h : (Life.run R {} ops).running = false) :
    Life.run R {} (ops ++ [.stop]) = Life.run R {} ops := by
  rw [run_append]
  exact step_stop_stopped _ (C07_life_invariant ops) h

/-- `stop` is idempotent in every reachable state -/
theorem C07_stop_idempotent (ops : List LOp) :
    Life.run R {} (ops ++ [.stop, .stop]) = Life.run R {} (ops ++ [.stop]) := by
  have : ops ++ [LOp.stop, LOp.stop] = (ops ++ [.stop]) ++ [.stop] := by simp
  rw [this]
  apply C07_stop_when_stopped_is_noop
  have hinv := C07_life_invariant ops
  rw [run_append]
  generalize Life.run R {} ops = s at hinv
  by_cases hx : s.exited = true
  · have := (hinv.exitedStopped hx).1
    simp [Life.run, Life.step, hx, this]
  · have hx' : s.exited = false := by simpa using hx
    simp only [Life.run, List.foldl_cons, List.foldl_nil, Life.step, hx', Bool.false_eq_true, ↓reduceIte,
      stopBackendThread_spec s hinv]
    simp [R, LParams.repaired, Life.joinedAll]

/-- `start` (either kind) on a running backend changes nothing: no second thread, no second `atexit` handler -/
theorem C07_start_when_running_is_noop (ops : List LOp) (h : (Life.run R {} ops).running = true) (sh : Bool) :
    Life.run R {} (ops ++ [if sh then .startSH else .start]) = Life.run R {} ops := by
  rw [run_append]
  exact step_start_running _ (C07_life_invariant ops) h sh

/-- one `atexit` handler per backend thread ever spawned, in every reachable state … -/
theorem C07_atexit_once_per_effective_start (ops : List LOp) :
    (Life.run R {} ops).atexits.length = (Life.run R {} ops).spawned :=
  (C07_life_invariant ops).atexitCount

/-- … hence at most one as long as the program never stops the backend, however often it calls `start` -/
theorem C07_atexit_at_most_once_without_stop (ops : List LOp) (h : ∀ op ∈ ops, op = .start ∨ op = .startSH) :
    (Life.run R {} ops).atexits.length ≤ 1 := by
  suffices hk : ∀ (ops : List LOp) (s : Life), LInv s → (∀ op ∈ ops, op = .start ∨ op = .startSH) →
      (s.running = true ∨ s.atexits = []) → s.atexits.length ≤ 1 → (Life.run R s ops).atexits.length ≤ 1 from
    hk ops {} LInv.init h (Or.inr rfl) (by simp)
  intro ops
  induction ops with
  | nil => intro s _ _ _ hl; exact hl
  | cons op ops ih =>
    intro s hinv hops hor hl
    have hop := hops op (List.mem_cons_self ..)
    have hrest : ∀ o ∈ ops, o = .start ∨ o = .startSH := fun o ho => hops o (List.mem_cons_of_mem _ ho)
    rw [run_cons]
    have hsh : ∃ sh : Bool, op = (if sh then .startSH else .start) := by
      rcases hop with h | h
      · exact ⟨false, by simp [h]⟩
      · exact ⟨true, by simp [h]⟩
    obtain ⟨sh, hsh⟩ := hsh
    by_cases hr : s.running = true
    · rw [hsh, step_start_running s hinv hr sh]
      exact ih s hinv hrest (Or.inl hr) hl
    · have hr' : s.running = false := by simpa using hr
      have hnil : s.atexits = [] := by rcases hor with h | h; exact absurd h hr; exact h
      by_cases hx : s.exited = true
      · have : s.step R op = s := by rcases hop with h | h <;> subst h <;> simp [Life.step, hx]
        rw [this]
        exact ih s hinv hrest hor hl
      · have hx' : s.exited = false := by simpa using hx
        have hst := step_start_stopped s ⟨hinv, hr', hx'⟩ sh
        rw [← hsh] at hst
        apply ih _ (hinv.step s op) hrest
        · left; rw [hst]; rfl
        · rw [hst]; simp [Life.started, hnil]

example : (Life.run R {} [.start, .startSH, .start, .start]).atexits.length = 1 := by decide

/-- normal exit from any reachable state: the `atexit` handlers stop, drain and join the backend thread if one
    runs — every thread ever spawned has been drained and joined —, the handler's id is cleared, and the
    `ManualBackendWorker` destructor runs one more `_exit()` drain on the exiting thread -/
theorem C07_exit_drains_and_joins (ops : List LOp) (h : (Life.run R {} ops).exited = false) :
    let s := Life.run R {} (ops ++ [.exit])
    s.running = false ∧ s.joined = s.spawned ∧ s.spawned = (Life.run R {} ops).spawned ∧ s.ctxTid = 0 ∧
    s.finalDrains = 1 ∧ s.exited = true := by
  have hinv := C07_life_invariant ops
  simp only [run_append]
  generalize Life.run R {} ops = s at hinv h
  have hd := hinv.drains
  simp only [Life.run, List.foldl_cons, List.foldl_nil, Life.step, h, Bool.false_eq_true, ↓reduceIte,
    runAtexits_spec s hinv, Life.joinedAll]
  simp [hd, h]

/-- **no stale id** (F23 repaired): in every reachable state, if the signal handler believes a backend thread
    exists then one is running and it is that thread -/
theorem C07_handler_id_never_stale (ops : List LOp) :
    let s := Life.run R {} ops
    s.ctxTid ≠ 0 → s.running = true ∧ s.ctxTid = s.workerTid ∧ s.workerTid ≠ 0 := by
  intro s h
  have hinv := C07_life_invariant ops
  obtain ⟨h1, h2, _⟩ := hinv.ctx h
  exact ⟨h1, h2, hinv.tidRun h1⟩

/-- F23 on the unrepaired code (`Backend::stop()` not clearing the id): after `start(handler); stop` the handler
    still sees a backend thread, takes the frontend branch and flushes with nobody to serve it -/
theorem C07_F23_stale_id_hangs :
    let P : LParams := { renewOnce := true, stopClearsId := false, atexitClearsId := false }
    let s := Life.run P {} [.startSH, .stop]
    s.running = false ∧ s.ctxTid ≠ 0 ∧
    (exec (s.env true true) .term (onSignal (s.ctx 77 .term true false true true)) false false {}).2 = .hangs ∧
    (exec (s.env true true) .segv (onSignal (s.ctx 77 .segv true false true true)) false false {}).2 = .hangs := by
  decide

/-- the once-flag not renewed by `stop` (mutant): the second `start` does nothing -/
theorem C07_neg_once_flag_not_renewed :
    (Life.run { renewOnce := false, stopClearsId := true, atexitClearsId := true } {} [.start, .stop, .start]).running = false := by
  decide

/-! ## composition: a handled signal at any point of any life-cycle -/

/-- **C07, signal half, in context**: in every reachable life-cycle state whose current cycle was started with the
    handler (so the handler's id is set — and then, by `C07_handler_id_never_stale`, a backend runs), a signal on
    any thread other than the backend thread, with a logger, first entrant: every earlier statement of that thread
    and then the notice(s) are in the destination, nothing stays queued, and the process ends by that signal
    (successfully for SIGINT/SIGTERM). -/
theorem C07_signal_in_any_cycle (ops : List LOp) (thread : Nat) (s : Sig) (pr info crit : Bool)
    (earlier : List Nat) (w q : List Item) (hsplit : w ++ q = earlier.map Item.stmt) :
    let st := Life.run R {} ops
    st.ctxTid ≠ 0 → thread ≠ st.workerTid →
    exec (st.env info crit) s (onSignal (st.ctx thread s true pr true true)) false false { queue := q, written := w } =
      ({ queue := [], written := earlier.map Item.stmt ++ notices (st.env info crit) s },
       if s.graceful then .exit0 else .diedBy s) := by
  intro st hctx hthr
  obtain ⟨hrun, hid, _⟩ := C07_handler_id_never_stale ops hctx
  have hx : st.ctx thread s true pr true true = Ctx.frontend s pr := by
    simp only [Life.ctx, Ctx.frontend, Ctx.mk.injEq, true_and, and_true, bne_iff_ne, ne_eq, beq_eq_false_iff_ne]
    refine ⟨by simpa using hctx, ?_⟩
    rw [hid]; exact hthr
  rw [hx]
  exact C07_signal_loses_nothing _ s pr earlier w q hsplit hrun

/-- a handled signal when the handler's id is clear (backend stopped, or this cycle started without the handler):
    no notice, no flush, no waiting — the process ends at once, by the signal or successfully; for SIGINT/SIGTERM
    the exit path still drains a running backend -/
theorem C07_signal_outside_handler_cycle (ops : List LOp) (thread : Nat) (s : Sig) (pr lg info crit : Bool) (f : Fe) :
    let st := Life.run R {} ops
    st.ctxTid = 0 →
    exec (st.env info crit) s (onSignal (st.ctx thread s true pr lg true)) false false f =
      if s.graceful then (if st.running then f.drain else f, .exit0) else (f, .diedBy s) := by
  intro st hctx
  have := C07_backend_or_no_backend_outcome (st.env info crit) (st.ctx thread s true pr lg true) f rfl
    (Or.inl (by simp [Life.ctx, hctx])) rfl
  simpa [Life.ctx, Life.env] using this

example : (Life.run R {} [.startSH, .stop, .startSH]).ctxTid = 2 := by decide
example : (Life.run R {} [.startSH, .stop]).ctxTid = 0 := by decide

/-! ## whole programs: every point of every sequence of log statements, start/stop cycles and background progress -/

/-- **nothing lost, nothing duplicated, order kept — at every point of every program**: whatever the program logs,
    however often it starts and stops the backend (redundantly or not), however much the backend has written in the
    background: written ++ still queued = the completed statements in program order -/
theorem C07_program_conservation (ops : List POp) (hne : noExit ops = true) :
    (Sys.run R {} ops).fe.written ++ (Sys.run R {} ops).fe.queue = logged ops := by
  have := (Sys.conservation R ops {} rfl hne).1
  simpa using this

example : Sys.run R {} [.log 0, .life .start, .log 1, .bg 1, .log 2, .life .stop, .log 3] =
    { life := Life.run R {} [.start, .stop], fe := { queue := [.stmt 3], written := [.stmt 0, .stmt 1, .stmt 2] } } := by
  decide

/-- the life-cycle component of a program run is the life-cycle machine on the program's life-cycle operations -/
theorem C07_program_life (ops : List POp) : (Sys.run R {} ops).life = Life.run R {} (lifeOps ops) :=
  Sys.run_life R ops {}

/-- **stop loses nothing**: at every point of every program at which a backend runs, `Backend::stop()` returns with
    every statement completed before it in the destination, in order, nothing queued — including what was logged
    while the backend was stopped in earlier cycles — and with the backend not running -/
theorem C07_stop_writes_everything (ops : List POp) (hne : noExit ops = true)
    (hrun : (Sys.run R {} ops).life.running = true) :
    let s := Sys.run R {} (ops ++ [.life .stop])
    s.fe.queue = [] ∧ s.fe.written = logged ops ∧ s.life.running = false := by
  obtain ⟨hc, hx⟩ := Sys.conservation R ops {} rfl hne
  have hinv : LInv (Sys.run R {} ops).life := by rw [C07_program_life]; exact C07_life_invariant _
  simp only [Sys.run_append]
  generalize Sys.run R {} ops = t at hc hx hrun hinv
  have hstop : (t.life.step R .stop).running = false := by
    simp only [Life.step, hx, Bool.false_eq_true, ↓reduceIte, stopBackendThread_spec t.life hinv]
    simp [R, LParams.repaired, Life.joinedAll]
  simp only [Sys.run, List.foldl_cons, List.foldl_nil, Sys.step, hrun, hx, R_wait]
  refine ⟨by simp [Fe.drain], ?_, hstop⟩
  simpa [Fe.drain] using hc

example : (Sys.run R {} [.life .startSH, .log 0, .log 1, .bg 1, .log 2]).life.running = true := by decide

/-- **normal exit loses nothing**: at every point of every program, return from `main` / `exit()` ends with every
    completed statement in the destination, in order — whether a backend runs (the `atexit` handler stops, drains and
    joins it) or was stopped before (the final `_exit()` of `~ManualBackendWorker` drains what was logged since) —
    and with every backend thread ever spawned drained and joined -/
theorem C07_exit_writes_everything (ops : List POp) (hne : noExit ops = true) :
    let s := Sys.run R {} (ops ++ [.life .exit])
    s.fe.queue = [] ∧ s.fe.written = logged ops ∧ s.life.running = false ∧ s.life.joined = s.life.spawned ∧
    s.life.exited = true := by
  obtain ⟨hc, hx⟩ := Sys.conservation R ops {} rfl hne
  have hl := C07_program_life ops
  have hexit := C07_exit_drains_and_joins (lifeOps ops) (by rw [← hl]; exact hx)
  simp only [run_append] at hexit
  rw [← hl] at hexit
  simp only [Sys.run_append]
  generalize Sys.run R {} ops = t at hc hx hexit
  obtain ⟨e1, e2, _, _, _, e6⟩ := hexit
  simp only [Life.run, List.foldl_cons, List.foldl_nil] at e1 e2 e6
  simp only [Sys.run, List.foldl_cons, List.foldl_nil, Sys.step, hx, Bool.false_eq_true, ↓reduceIte, R_wait, Bool.true_or]
  refine ⟨by simp [Fe.drain], ?_, e1, e2, e6⟩
  simpa [Fe.drain] using hc

example : (Sys.run R {} [.life .start, .log 0, .life .stop, .log 1, .life .exit]).fe =
    { queue := [], written := [.stmt 0, .stmt 1] } := by decide

/-- **a handled signal loses nothing, at every point of every program**: if the current cycle was started with the
    handler, a signal on a frontend thread (first entrant, logger present) leaves every statement completed before it,
    in order, followed by the notice(s), nothing queued, and the process ends by that signal — `exit(0)` for
    SIGINT/SIGTERM -/
theorem C07_program_signal (ops : List POp) (hne : noExit ops = true) (thread : Nat) (s : Sig) (pr info crit : Bool) :
    let st := Sys.run R {} ops
    st.life.ctxTid ≠ 0 → thread ≠ st.life.workerTid →
    exec (st.life.env info crit) s (onSignal (st.life.ctx thread s true pr true true)) false false st.fe =
      ({ queue := [], written := logged ops ++ notices (st.life.env info crit) s },
       if s.graceful then .exit0 else .diedBy s) := by
  intro st hctx hthr
  have hc := C07_program_conservation ops hne
  have hl : st.life = Life.run R {} (lifeOps ops) := C07_program_life ops
  have hstale := C07_handler_id_never_stale (lifeOps ops)
  simp only at hstale
  rw [← hl] at hstale
  obtain ⟨hrun, hid, _⟩ := hstale hctx
  have hx : st.life.ctx thread s true pr true true = Ctx.frontend s pr := by
    simp only [Life.ctx, Ctx.frontend, Ctx.mk.injEq, true_and, and_true, bne_iff_ne, ne_eq, beq_eq_false_iff_ne]
    refine ⟨by simpa using hctx, ?_⟩
    rw [hid]; exact hthr
  rw [hx, exec_frontend _ s pr _ (by simpa [Life.env] using hrun)]
  show (_, _) = (_, _)
  rw [show st.fe.written ++ st.fe.queue = logged ops from hc]

example : noExit [.life .startSH, .log 0, .bg 1, .log 1] = true ∧
    (Sys.run R {} [.life .startSH, .log 0, .bg 1, .log 1]).life.ctxTid = 1 := by decide

/-! ## `wait_for_queues_to_empty_before_exit` as a parameter -/

/-- the signal half does not depend on the option: whatever `wait_for_queues_to_empty_before_exit` is, a handled signal
    on a frontend thread leaves that thread's earlier statements and the notice(s) in the destination -/
theorem C07_signal_independent_of_wait_option (e : Env) (wait : Bool) (s : Sig) (pr : Bool) (earlier : List Nat)
    (w q : List Item) (hsplit : w ++ q = earlier.map Item.stmt) (hrun : e.backendRunning = true) :
    exec { e with waitOnExit := wait } s (onSignal (Ctx.frontend s pr)) false false { queue := q, written := w } =
      ({ queue := [], written := earlier.map Item.stmt ++ notices e s },
       if s.graceful then .exit0 else .diedBy s) := by
  have := C07_signal_loses_nothing { e with waitOnExit := wait } s pr earlier w q hsplit hrun
  simpa [notices] using this

example : exec { backendRunning := true, waitOnExit := false } .int (onSignal (Ctx.frontend .int false)) false false
      { queue := [.stmt 1], written := [.stmt 0] } =
    ({ queue := [], written := [.stmt 0, .stmt 1, .notice] }, .exit0) := by decide

/-- **seeded change C07_m2 refuted**: a SIGINT/SIGTERM branch that goes to `exit` without `flush_log` relies on the
    drain of the `atexit` stop — with the option off there is none: the thread's queued statement and the notice are
    lost while the process exits successfully (with the option on the same call list loses nothing, which is why
    the change is invisible under default options) -/
theorem C07_neg_graceful_exit_without_flush :
    exec { backendRunning := true, waitOnExit := false } .int [.storeSignal, .setAlarm, .logNotice, .exitSuccess] false false
        { queue := [.stmt 1], written := [.stmt 0] } =
      ({ queue := [.stmt 1, .notice], written := [.stmt 0] }, .exit0) ∧
    exec { backendRunning := true, waitOnExit := true } .int [.storeSignal, .setAlarm, .logNotice, .exitSuccess] false false
        { queue := [.stmt 1], written := [.stmt 0] } =
      ({ queue := [], written := [.stmt 0, .stmt 1, .notice] }, .exit0) := by decide

/-- the code with the option off -/
abbrev RNoWait : LParams := { R with waitOnExit := false }

/-- **what `stop` guarantees with the option off**: `_exit` reads no queue any more — the destination and the queue are
    exactly what they were when the stop was requested (whatever the backend had written by then, `bg`), nothing is
    lost from the queue, duplicated or reordered, and the backend is stopped -/
theorem C07_nowait_stop_keeps_state (ops : List POp) (hne : noExit ops = true) :
    let s0 := Sys.run RNoWait {} ops
    let s := Sys.run RNoWait {} (ops ++ [.life .stop])
    s.fe = s0.fe ∧ s.fe.written ++ s.fe.queue = logged ops := by
  have hc := (Sys.conservation RNoWait ops {} rfl hne).1
  simp only [Sys.run_append]
  generalize Sys.run RNoWait {} ops = t at hc
  refine ⟨?_, ?_⟩
  · simp [Sys.run, Sys.step]
  · simpa [Sys.run, Sys.step] using hc

/-- … so with the option off `stop` may return with completed statements unwritten (they stay queued) -/
theorem C07_nowait_stop_may_leave_unwritten :
    (Sys.run RNoWait {} [.life .startSH, .log 0, .log 1, .bg 1, .life .stop]).fe = { queue := [.stmt 1], written := [.stmt 0] } ∧
    (Sys.run R {} [.life .startSH, .log 0, .log 1, .bg 1, .life .stop]).fe = { queue := [], written := [.stmt 0, .stmt 1] } := by
  decide

/-- … a later `start` serves what was left, and conservation holds at every point of every program with the option off -/
theorem C07_nowait_program_conservation (ops : List POp) (hne : noExit ops = true) :
    (Sys.run RNoWait {} ops).fe.written ++ (Sys.run RNoWait {} ops).fe.queue = logged ops := by
  have := (Sys.conservation RNoWait ops {} rfl hne).1
  simpa using this

example : (Sys.run RNoWait {} [.life .start, .log 0, .life .stop, .life .start, .bg 1]).fe = { queue := [], written := [.stmt 0] } := by
  decide

/-- normal exit with the option off: the final `_exit()` of `~ManualBackendWorker` runs with the options of the last
    `start` and drains nothing; a process whose backend was never started has the default options and drains -/
theorem C07_nowait_exit :
    (Sys.run RNoWait {} [.life .start, .log 0, .life .exit]).fe = { queue := [.stmt 0], written := [] } ∧
    (Sys.run RNoWait {} [.log 0, .life .exit]).fe = { queue := [], written := [.stmt 0] } := by decide

/-! ## a handled signal while another thread is inside `Backend::stop()` / the `atexit` stop

`stop()` as its real sequence of steps (`stopSeqCurrent`; `Obligations.exit_stop_sequence` ties it to the extracted
order), the backend thread leaving in the background, the handler in two phases (A: reads the cached backend id;
B: enqueues the notice(s) and the flush request) — any steps before A and between A and B (`Exit/Stop.lean`). -/

/-- in every state any schedule can reach with the current order: the id the handler reads is set exactly until the
    last step of `stop()`, so it is cleared only after the backend thread has ended; the stopping thread is past
    `join()` only if the backend thread has ended; the backend stops looking at the queues only after the stop request -/
theorem C07_stop_id_set_until_backend_gone (wait : Bool) (f : Fe) (evs : List Ev) :
    let c := (CS.init f).run stopSeqCurrent wait evs
    (c.idSet = true ↔ c.pc < 6) ∧ (c.idSet = false → c.ended = true) ∧ (3 ≤ c.pc → c.ended = true) ∧
    (c.ended = true → c.serving = false) ∧ (c.serving = false → c.running = false) := by
  exact CS.ok_facts _ (CS.ok_run wait evs _ (CS.ok_init f))

example : ((CS.init {}).run stopSeqCurrent true [.stopper, .stopper, .bgLastCheck, .bgEnd, .stopper, .stopper]).pc = 4 := by decide

/-- nothing is lost, duplicated or reordered by any interleaving of the three threads — in any order of the stop
    sequence, with the option on or off: written ++ queued = what the thread had ++ what it completed since -/
theorem C07_stop_interleaving_conservation (seq : List SStep) (wait : Bool) (f : Fe) (evs : List Ev) :
    let c := (CS.init f).run seq wait evs
    c.fe.written ++ c.fe.queue = f.written ++ f.queue ++ loggedEv evs :=
  CS.run_conservation seq wait evs (CS.init f)

/-- **signal inside `stop()`, served**: for every schedule before phase A (`pre`) and between A and B (`mid`), every
    signal, every written/queued split, the option on or off: if `stop()` has not returned at A and the backend thread
    has not yet taken its last look at the queues at B, the signalled thread's lines in the destination are all its
    earlier statements (those before the stop and those completed during it) followed by the notice(s), nothing is
    left queued, and the process dies by the signal (`exit(0)` for SIGINT/SIGTERM) -/
theorem C07_signal_during_stop_served (wait info crit : Bool) (s : Sig) (pr : Bool) (earlier : List Nat) (w q : List Item)
    (hsplit : w ++ q = earlier.map Item.stmt) (pre mid : List Ev) :
    let a := (CS.init { queue := q, written := w }).run stopSeqCurrent wait pre
    let b := a.run stopSeqCurrent wait mid
    a.pc < 6 → b.serving = true →
    signalDuringStop wait info crit s pr a b =
      ({ queue := [], written := earlier.map Item.stmt ++ loggedEv (pre ++ mid) ++ notices { backendRunning := true, infoOn := info, critOn := crit } s },
       if s.graceful then .exit0 else .diedBy s) := by
  intro a b ha hb
  have hid : a.idSet = true := (C07_stop_id_set_until_backend_gone wait _ pre).1.mpr ha
  have hx : a.ctx s pr = Ctx.frontend s pr := by simp [CS.ctx, Ctx.frontend, hid]
  have hc : b.fe.written ++ b.fe.queue = w ++ q ++ loggedEv (pre ++ mid) := by
    have := CS.run_conservation stopSeqCurrent wait (pre ++ mid) (CS.init { queue := q, written := w })
    rw [CS.run_append] at this
    exact this
  unfold signalDuringStop
  rw [hx, exec_frontend _ s pr _ (by simpa using hb), hc, hsplit]
  simp [notices]

example : let a := (CS.init { queue := [.stmt 1], written := [.stmt 0] }).run stopSeqCurrent true [.stopper, .stopper, .bgWrite 1]
    a.pc < 6 ∧ (a.run stopSeqCurrent true [.log 2]).serving = true := by decide

/-- **FINDING F27 — the points the current code does not cover**: if `stop()` has not returned at A but the backend
    thread has already taken its last look at the queues at B, the handler still takes the frontend branch, enqueues
    its notice(s) and waits in `flush_log` for a backend thread that never looks again: the process hangs, the notice(s)
    — and whatever the thread completed after that last look — stay queued -/
theorem C07_signal_during_stop_after_last_look_hangs (wait info crit : Bool) (s : Sig) (pr : Bool) (f : Fe) (pre mid : List Ev) :
    let a := (CS.init f).run stopSeqCurrent wait pre
    let b := a.run stopSeqCurrent wait mid
    a.pc < 6 → b.serving = false →
    (signalDuringStop wait info crit s pr a b).2 = .hangs ∧
    (signalDuringStop wait info crit s pr a b).1.written = b.fe.written := by
  intro a b ha hb
  have hid : a.idSet = true := (C07_stop_id_set_until_backend_gone wait _ pre).1.mpr ha
  have hx : a.ctx s pr = Ctx.frontend s pr := by simp [CS.ctx, Ctx.frontend, hid]
  unfold signalDuringStop
  rw [hx, onSignal_frontend, hb]
  cases hg : s.graceful <;> cases info <;> cases crit <;> simp [exec, Fe.log]

/-- **exact characterisation** of the interleaving points: while `stop()` has not returned, the handler's outcome is the
    one the property asks for if and only if the backend thread's last look at the queues comes after phase B -/
theorem C07_signal_during_stop_exact (wait info crit : Bool) (s : Sig) (pr : Bool) (f : Fe) (pre mid : List Ev) :
    let a := (CS.init f).run stopSeqCurrent wait pre
    let b := a.run stopSeqCurrent wait mid
    a.pc < 6 →
    ((signalDuringStop wait info crit s pr a b).2 = (if s.graceful then .exit0 else .diedBy s) ↔ b.serving = true) := by
  intro a b ha
  cases hb : b.serving
  · have := (C07_signal_during_stop_after_last_look_hangs wait info crit s pr f pre mid ha hb).1
    rw [this]
    cases hg : s.graceful <;> simp
  · have hid : a.idSet = true := (C07_stop_id_set_until_backend_gone wait _ pre).1.mpr ha
    have hx : a.ctx s pr = Ctx.frontend s pr := by simp [CS.ctx, Ctx.frontend, hid]
    unfold signalDuringStop
    rw [hx, exec_frontend _ s pr _ (by simpa using hb)]
    simp

/-- with the option on and the thread logging nothing during the stop, the window costs the notice and the ending only:
    at the backend's last look the thread's queue was empty, so all its earlier statements are in the destination -/
theorem C07_window_keeps_earlier_statements (earlier : List Nat) (w q : List Item) (hsplit : w ++ q = earlier.map Item.stmt)
    (evs : List Ev) (hn : noLogEv evs = true) :
    let b := (CS.init { queue := q, written := w }).run stopSeqCurrent true evs
    b.serving = false → b.fe.queue = [] ∧ b.fe.written = earlier.map Item.stmt := by
  intro b hb
  have hq : b.fe.queue = [] := CS.run_queue_empty stopSeqCurrent evs _ hn (by intro h; cases h) hb
  have hc := CS.run_conservation stopSeqCurrent true evs (CS.init { queue := q, written := w })
  have hl : loggedEv evs = [] := by
    clear hc hq hb b
    induction evs with
    | nil => rfl
    | cons e evs ih =>
      cases e <;> simp_all [noLogEv, loggedEv]
  refine ⟨hq, ?_⟩
  show ((CS.init { queue := q, written := w }).run stopSeqCurrent true evs).fe.written = _
  have hq' : ((CS.init { queue := q, written := w }).run stopSeqCurrent true evs).fe.queue = [] := hq
  rw [hq', hl] at hc
  simpa [CS.init, hsplit] using hc

/-- F27 witnesses on the current order. Option on: stop requested, the backend finds the queues empty and goes for its
    final flush, SIGSEGV on the thread → hang, notices never written. Option off: the backend leaves with the thread's
    statement still queued → that statement is lost as well. -/
theorem C07_F27_signal_after_last_look :
    (let a := (CS.init { queue := [], written := [.stmt 0] }).run stopSeqCurrent true [.stopper, .stopper, .bgLastCheck]
     signalDuringStop true true true .segv false a a = ({ queue := [.notice, .critical], written := [.stmt 0] }, .hangs)) ∧
    (let a := (CS.init { queue := [.stmt 1], written := [.stmt 0] }).run stopSeqCurrent false [.stopper, .bgLastCheck]
     signalDuringStop false true true .segv false a a = ({ queue := [.stmt 1, .notice, .critical], written := [.stmt 0] }, .hangs)) := by
  decide

/-- the order of seeded change C07_m3: the id is cleared first -/
def stopSeqIdFirst : List SStep := [.clearCtxId, .exchangeRunning, .notify, .join, .clearWorkerTid, .renewOnce]

/-- **seeded change C07_m3 refuted**: with the id cleared before `stop_backend_thread()` the handler takes the
    "no backend" branch while the backend thread is alive and draining — the process dies at once, the signalled
    thread's queued statement never reaches the destination and there is no notice; on the current order the same
    schedule, signal and split give the full outcome -/
theorem C07_neg_id_cleared_before_stop :
    (let a := (CS.init { queue := [.stmt 1], written := [.stmt 0] }).run stopSeqIdFirst true [.stopper, .stopper]
     a.serving = true ∧ a.ended = false ∧
     signalDuringStop true true true .segv false a a = ({ queue := [.stmt 1], written := [.stmt 0] }, .diedBy .segv)) ∧
    (let a := (CS.init { queue := [.stmt 1], written := [.stmt 0] }).run stopSeqCurrent true [.stopper, .stopper]
     signalDuringStop true true true .segv false a a =
       ({ queue := [], written := [.stmt 0, .stmt 1, .notice, .critical] }, .diedBy .segv)) := by
  decide

/-! ### the candidate repair of F27 (`findings/F27_candidate_repair.diff`): the handler's wait ends when the backend thread is gone -/

/-- the interleaving theorems above are about the code whose handler waits for ever (extracted: `flushEndsWhenBackendGone = false`; `Obligations.C07_signal_during_stop_extracted_flush`) -/
theorem C07_stop_model_waits_for_ever (wait info crit : Bool) (s : Sig) (pr : Bool) (a b : CS) :
    signalDuringStopG false wait info crit s pr a b = signalDuringStop wait info crit s pr a b := rfl

/-- with the repair, at **every** interleaving point inside `stop()` the process ends the way the property asks for (by
    the signal; `exit(0)` for SIGINT/SIGTERM) — no hang; before the backend's last look nothing changes; after it the
    lines already in the destination stay and the notice(s) are what remains lost -/
theorem C07_F27_repair_never_hangs (wait info crit : Bool) (s : Sig) (pr : Bool) (f : Fe) (pre mid : List Ev) :
    let a := (CS.init f).run stopSeqCurrent wait pre
    let b := a.run stopSeqCurrent wait mid
    a.pc < 6 →
    (signalDuringStopG true wait info crit s pr a b).2 = (if s.graceful then .exit0 else .diedBy s) ∧
    (b.serving = true → signalDuringStopG true wait info crit s pr a b = signalDuringStop wait info crit s pr a b) ∧
    (b.serving = false → (signalDuringStopG true wait info crit s pr a b).1.written = b.fe.written) := by
  intro a b ha
  have hid : a.idSet = true := (C07_stop_id_set_until_backend_gone wait _ pre).1.mpr ha
  have hx : a.ctx s pr = Ctx.frontend s pr := by simp [CS.ctx, Ctx.frontend, hid]
  cases hb : b.serving
  · have hw : signalDuringStopG true wait info crit s pr a b =
        (if s.graceful then ({ queue := b.fe.queue ++ notices { backendRunning := true, infoOn := info, critOn := crit } s, written := b.fe.written }, Outcome.exit0)
         else ({ queue := b.fe.queue ++ notices { backendRunning := true, infoOn := info, critOn := crit } s, written := b.fe.written }, Outcome.diedBy s)) := by
      unfold signalDuringStopG
      rw [hx, onSignal_frontend, hb]
      cases hg : s.graceful <;> cases info <;> cases crit <;> simp [exec, Fe.log, notices, hg]
    refine ⟨?_, ?_, ?_⟩
    · rw [hw]; cases hg : s.graceful <;> simp
    · intro h; cases h
    · intro _; rw [hw]; cases hg : s.graceful <;> simp
  · have e1 : signalDuringStopG true wait info crit s pr a b = signalDuringStop wait info crit s pr a b := by
      unfold signalDuringStopG signalDuringStop
      rw [hx, exec_frontend _ s pr _ (by simpa using hb), exec_frontend _ s pr _ (by simpa using hb)]
      simp [notices]
    refine ⟨?_, ?_, ?_⟩
    · rw [e1]
      exact (C07_signal_during_stop_exact wait info crit s pr f pre mid ha).mpr hb
    · intro _; exact e1
    · intro h; cases h

/-- the F27 witness under the repair: death by SIGSEGV instead of the hang; the notices stay queued -/
example : (let a := (CS.init { queue := [], written := [.stmt 0] }).run stopSeqCurrent true [.stopper, .stopper, .bgLastCheck]
    signalDuringStopG true true true true .segv false a a) = ({ queue := [.notice, .critical], written := [.stmt 0] }, .diedBy .segv) := by
  decide

/-! ## a process-directed signal with several threads: the outcome as a function of the receiving thread's class -/

/-- **every class**: on a frontend thread — whether it has logged before or not — the handler enqueues the notice(s) on
    that thread's own queue behind whatever that thread had queued, flushes, and the process ends by the signal
    (`exit(0)` for SIGINT/SIGTERM); on the backend thread nothing is logged or flushed and the process ends at once -/
theorem C07_kill_outcome_by_receiver (e : Env) (hrun : e.backendRunning = true) (s : Sig) (pr : Bool) (r : Receiver) (own : Fe) :
    killOutcome e s pr r own =
      match r with
      | .backend => if s.graceful then (if e.waitOnExit then own.drain else own, .exit0) else (own, .diedBy s)
      | _ => ({ queue := [], written := own.written ++ own.queue ++ notices e s }, if s.graceful then .exit0 else .diedBy s) := by
  cases r with
  | backend =>
    have h := C07_backend_or_no_backend_outcome e (Receiver.ctx .backend s pr) own rfl (Or.inr rfl) rfl
    simpa [killOutcome, Receiver.ctx, hrun] using h
  | logged => exact exec_frontend e s pr own hrun
  | neverLogged => exact exec_frontend e s pr own hrun

example : killOutcome { backendRunning := true } .segv false .backend { queue := [.stmt 0], written := [] } =
    ({ queue := [.stmt 0], written := [] }, .diedBy .segv) := by decide

/-- **what the property promises**: if every thread that does not block the signal has logged before, then whichever of
    them the kernel chooses, that thread's earlier statements are in the destination followed by the notice(s), nothing
    of it stays queued, and the process dies by the signal (exits successfully for SIGINT/SIGTERM) -/
theorem C07_kill_whichever_logged_thread (e : Env) (hrun : e.backendRunning = true) (s : Sig) (pr : Bool) (ts : List Thr)
    (hall : ∀ t ∈ ts, t.blocked = false → t.cls = .logged) (r : Receiver) (hr : r ∈ candidates ts)
    (earlier : List Nat) (w q : List Item) (hsplit : w ++ q = earlier.map Item.stmt) :
    killOutcome e s pr r { queue := q, written := w } =
      ({ queue := [], written := earlier.map Item.stmt ++ notices e s }, if s.graceful then .exit0 else .diedBy s) := by
  have hl : r = .logged := by
    simp only [candidates, List.mem_map, List.mem_filter, Bool.not_eq_true'] at hr
    obtain ⟨t, ⟨ht, hb⟩, rfl⟩ := hr
    exact hall t ht hb
  subst hl
  rw [C07_kill_outcome_by_receiver e hrun s pr .logged, hsplit]

example : candidates [⟨.logged, false⟩, ⟨.backend, true⟩, ⟨.logged, false⟩, ⟨.neverLogged, true⟩] = [.logged, .logged] := by decide

/-- a thread that never logged: the handler's first log call creates its context; the destination gets the notice(s)
    and the process ends as for any frontend thread — nothing of that thread existed to be lost (outside the premise
    "a thread that has logged before"; the creation of the queue inside the handler is not async-signal-safe, which the
    model cannot show) -/
theorem C07_kill_never_logged_thread (e : Env) (hrun : e.backendRunning = true) (s : Sig) (pr : Bool) :
    killOutcome e s pr .neverLogged {} = ({ queue := [], written := notices e s }, if s.graceful then .exit0 else .diedBy s) := by
  rw [C07_kill_outcome_by_receiver e hrun s pr .neverLogged]; simp

/-- the backend thread inherits a mask with every signal blocked (order of `start` with the handler, extracted:
    `shStartOrder`): as long as no user code on that thread unblocks it, the kernel never chooses it; and a signal
    that every thread blocks is delivered to nobody (it stays pending) -/
theorem C07_kill_candidates (ts : List Thr) :
    ((∀ t ∈ ts, t.cls = .backend → t.blocked = true) → Receiver.backend ∉ candidates ts) ∧
    ((∀ t ∈ ts, t.blocked = true) → candidates ts = []) := by
  constructor
  · intro h hm
    simp only [candidates, List.mem_map, List.mem_filter, Bool.not_eq_true'] at hm
    obtain ⟨t, ⟨ht, hb⟩, hc⟩ := hm
    have := h t ht hc
    rw [hb] at this; cases this
  · intro h
    simp only [candidates, List.map_eq_nil_iff, List.filter_eq_nil_iff, Bool.not_eq_true', Bool.not_eq_false]
    intro t ht
    simpa using h t ht

end Exit
