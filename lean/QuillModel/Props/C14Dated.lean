import QuillModel.Props.C14
/-!
# C14 — Date / DateAndTime schemes through restarts with configuration changes

`Props/C14.lean` has the dated invariant for one run (`C14_dated_run_partial`) and one restart
(`C14_dated_restart_partial`). Here: **every** sequence of writes and restarts — any limit, `max_backup_files`, overwrite
flag, frequency, open mode `a` or `w` with clean-up, the naming scheme kept — that satisfies the explicit decidable premise
`DatedHistOK`: the civil suffix (day / second in the sink's zone) of each record is not below the open file's (the F14
premise: non-decreasing timestamps in a zone of constant offset), and each restart starts on a later-or-equal day (Date) /
a **strictly** later second (DateAndTime — nothing is recovered, so a start in the second in which the current file was
opened reuses the name of a file it does not track: the recovery gap F15, witness below) than the open file's suffix.
Proved: the invariant (`DatedInv`: all tracked files exist, deque order = name order of the scheme, untracked dated files
strictly older), hence no rename lands on a retained file, every statement is in exactly one file, and — for append-mode
restarts — the retained tracked sequence is the written one minus a prefix. NOT provable (false of the code, F15): the
backup bound across restarts and "the deleted file is the oldest on disk" — the files of earlier days / runs leave the
bookkeeping at a restart; `C14_dated_restart_leaves_files` states exactly that they stay on disk untouched by the start.
-/
namespace Rot

/-- what the dated theorems need of one operation in state `w` -/
def DatedOpOK (z : Nat → Int) (w : World) : Op → Prop
  | .write _ ts => sfxVal z w.sink.cfg.scheme w.sink.openTs ≤ sfxVal z w.sink.cfg.scheme ts
  | .restart c start => c.scheme = w.sink.cfg.scheme ∧ (c.append = true ∨ c.removeOld = true) ∧
      (c.scheme = .date → sfxVal z c.scheme w.sink.openTs ≤ civilDay z start) ∧
      (c.scheme = .dateTime → sfxVal z c.scheme w.sink.openTs < civilSec z start)

instance (z : Nat → Int) (w : World) (op : Op) : Decidable (DatedOpOK z w op) := by
  cases op <;> (unfold DatedOpOK; infer_instance)

/-- the premise on a whole history, evaluated along the run -/
def DatedHistOK (P : Params) (z : Nat → Int) : World → List Op → Prop
  | _, [] => True
  | w, op :: ops => DatedOpOK z w op ∧ DatedHistOK P z (step P z w op) ops

instance instDecDatedHistOK (P : Params) (z : Nat → Int) : (w : World) → (ops : List Op) → Decidable (DatedHistOK P z w ops)
  | _, [] => isTrue trivial
  | w, op :: ops =>
    have := instDecDatedHistOK P z (step P z w op) ops
    by unfold DatedHistOK; infer_instance

theorem step_dated_inv (P : Params) (z : Nat → Int) (w : World) (op : Op) (h : DatedInv z w) (hop : DatedOpOK z w op) :
    DatedInv z (step P z w op) := by
  cases op with
  | write st ts => exact write_dated_inv P z w st ts h hop
  | restart c start => exact C14_dated_restart_partial z w c start h hop.1 hop.2.1 hop.2.2

/-- **Invariant, every history** (premise `DatedHistOK`). -/
theorem C14_dated_invariant (P : Params) (z : Nat → Int) : ∀ (ops : List Op) (w : World), DatedInv z w →
    DatedHistOK P z w ops → DatedInv z (run P z w ops)
  | [], _, h, _ => h
  | op :: ops, w, h, hok => C14_dated_invariant P z ops _ (step_dated_inv P z w op h hok.1) hok.2

/-- … from a fresh start on any directory whose dated files are not from the future (`DirDated`) -/
theorem C14_dated_invariant_from_start (P : Params) (z : Nat → Int) (fs0 : FS) (c0 : Cfg) (start0 : Nat)
    (hs : c0.scheme ≠ .index) (hmode : c0.append = true ∨ c0.removeOld = true) (hd : DirDated z c0.scheme fs0 start0)
    (ops : List Op) (hok : DatedHistOK P z (restart z fs0 c0 start0) ops) :
    DatedInv z (run P z (restart z fs0 c0 start0) ops) :=
  C14_dated_invariant P z ops _ (restart_dated_inv z fs0 c0 start0 hs hmode hd) hok

/-- **No clobbering after any such history**: every rename target of the next rotation is absent or is the source of a
    rename performed earlier in the same loop. -/
theorem C14_dated_no_clobber_run (P : Params) (z : Nat → Int) (w : World) (h : DatedInv z w) (ops : List Op)
    (hok : DatedHistOK P z w ops) :
    let w' := run P z w ops
    ∀ m ∈ w'.sink.created.filterMap (moveOf w'.sink.cfg.scheme (newSuffix z w'.sink.cfg.scheme w'.sink.openTs)),
      w'.fs.get m.2 = none ∨
        m.2 ∈ (w'.sink.created.filterMap (moveOf w'.sink.cfg.scheme (newSuffix z w'.sink.cfg.scheme w'.sink.openTs))).map (·.1) :=
  (C14_dated_no_clobber_partial z _ (C14_dated_invariant P z ops w h hok)).1

theorem DatedInv.curInv {z : Nat → Int} {w : World} (h : DatedInv z w) : CurInv w := by
  obtain ⟨c, hc⟩ := Option.isSome_iff_exists.mp (h.tracked curInfo h.cur_mem)
  have hc' : w.fs.get curName = some c := hc
  exact ⟨c, hc', by rw [h.size, content_cur, hc']; rfl⟩

/-- **Exactly one file** (dated schemes): if the statements on disk in tracked files and the new one are pairwise
    distinct, after the write every statement occurs once in the tracked files and the new one ends the current file. -/
theorem C14_dated_exactly_one_file (P : Params) (z : Nat → Int) (w : World) (st : Stmt) (ts : Nat) (h : DatedInv z w)
    (hop : DatedOpOK z w (.write st ts)) (hn : (diskSeq w ++ [st]).Nodup) :
    (diskSeq (write P z w st ts)).Nodup ∧ ∃ pre, (write P z w st ts).fs.get curName = some (pre ++ [st]) := by
  constructor
  · obtain ⟨n, he, _⟩ := write_dated_diskSeq P z w st ts h hop
    rw [he] at hn
    exact (List.nodup_append.mp hn).2.1
  · obtain ⟨pre, h1, _⟩ := write_cur P z w st ts h.curInv
    exact ⟨pre, h1⟩

/-- **Nothing is deleted when overwriting is off** (dated schemes, one write): the tracked sequence only grows. -/
theorem C14_dated_write_keeps_all_without_overwrite (P : Params) (z : Nat → Int) (w : World) (st : Stmt) (ts : Nat)
    (h : DatedInv z w) (hop : DatedOpOK z w (.write st ts)) (how : w.sink.cfg.overwrite = false) :
    diskSeq (write P z w st ts) = diskSeq w ++ [st] := by
  obtain ⟨n, he, hor⟩ := write_dated_diskSeq P z w st ts h hop
  rcases hor with h0 | ⟨h1, _⟩
  · subst h0; simpa using he.symm
  · rw [how] at h1; simp at h1

/-- **An append-mode start touches no file** (any scheme): the directory is the same afterwards, except that the current
    file exists. In particular the dated files that leave the bookkeeping at a restart (other days / every earlier run:
    F15) stay on disk with their content — they are lost to the *count*, not to the reader. -/
theorem C14_dated_restart_leaves_files (z : Nat → Int) (fs : FS) (c : Cfg) (start : Nat) (ha : c.append = true) (n : Name)
    (hn : n ≠ curName ∨ (fs.get curName).isSome) : (restart z fs c start).fs.get n = fs.get n := by
  simp only [restart, ha, Bool.not_true, Bool.and_false, Bool.false_eq_true, ↓reduceIte]
  cases hc : fs.get curName with
  | some x => rfl
  | none =>
    simp only [FS.get_put]
    rcases hn with hn | hn
    · simp [hn]
    · rw [hc] at hn; simp at hn

/-! ### the excluded classes, by `decide` -/

/-- **Same-second restart (DateAndTime), excluded by the strict `<`.** Overwriting off, no backup limit: run 1 opens a file
    in second 6 and rotates it to `log.<6>.log`… the restarted process (append) starts in second 7, the second in which the
    current file was opened; its first rotation names the file after second 7 — the name of a file of run 1 it does not
    track. Statement 2 is gone although nothing may be deleted. (The recovery gap F15.) -/
theorem C14_dated_same_second_restart_clobbers :
    let c : Cfg := { scheme := .dateTime, limit := 10, overwrite := false, append := true }
    let w1 := run Params.repaired zGmt (restart zGmt [] c (5 * NS))
      [.write ⟨1, 8⟩ (5 * NS), .write ⟨2, 8⟩ (7 * NS), .write ⟨3, 8⟩ (7 * NS + 1), .write ⟨4, 8⟩ (7 * NS + 2)]
    let ops2 : List Op := [.restart c (7 * NS + 5), .write ⟨5, 8⟩ (7 * NS + 6), .write ⟨6, 8⟩ (7 * NS + 7)]
    let w2 := run Params.repaired zGmt w1 ops2
    ¬ DatedHistOK Params.repaired zGmt w1 ops2 ∧
      w1.fs.get (.file (some 7) 1) = some [⟨2, 8⟩] ∧ w1.fs.get (.file (some 7) 0) = some [⟨3, 8⟩] ∧
      w2.fs.get (.file (some 7) 0) = some [⟨5, 8⟩] ∧ w2.fs.get (.file (some 7) 1) = some [⟨4, 8⟩] ∧
      w2.fs.get (.file (some 7) 2) = none := by
  decide

/-- **Restart on an earlier day (Date), excluded by `≤`** — F14's class at a restart: the newer file gets the earlier date. -/
theorem C14_dated_backwards_restart_breaks_order :
    let c : Cfg := { scheme := .date, limit := 10, append := true }
    let w1 := run Params.repaired zGmt (restart zGmt [] c (2 * dayNs)) [.write ⟨1, 8⟩ (2 * dayNs), .write ⟨2, 8⟩ (2 * dayNs + 1)]
    let ops2 : List Op := [.restart c (1 * dayNs), .write ⟨3, 8⟩ (1 * dayNs + 1)]
    let w2 := run Params.repaired zGmt w1 ops2
    ¬ DatedHistOK Params.repaired zGmt w1 ops2 ∧
      w2.fs.get (.file (some 2) 0) = some [⟨1, 8⟩] ∧ w2.fs.get (.file (some 1) 0) = some [⟨2, 8⟩] := by
  decide

/-- **The backup bound does not survive restarts** (Date, later day; F15): `max_backup_files = 1`, overwriting on, one
    rotation on each of two days — the history satisfies `DatedHistOK`, two rotated files remain, the sink tracks one. -/
theorem C14_dated_backup_bound_across_restarts_fails :
    let c : Cfg := { scheme := .date, limit := 10, maxBackup := 1, overwrite := true, append := true }
    let w1 := run Params.repaired zGmt (restart zGmt [] c dayNs) [.write ⟨1, 8⟩ dayNs, .write ⟨2, 8⟩ (dayNs + 1)]
    let ops2 : List Op := [.restart c (2 * dayNs), .write ⟨3, 8⟩ (2 * dayNs + 1)]
    let w2 := run Params.repaired zGmt w1 ops2
    DatedHistOK Params.repaired zGmt w1 ops2 ∧
      w2.fs.get (.file (some 1) 0) = some [⟨1, 8⟩] ∧ w2.fs.get (.file (some 2) 0) = some [⟨2, 8⟩] ∧
      w2.sink.created = [⟨some 2, 0⟩, curInfo] ∧ w2.sink.cfg.maxBackup = 1 := by
  decide

/-! ### non-vacuity: histories with configuration-changing restarts that satisfy the premise -/

/-- Date: three runs over two days; the restarts lower `max_backup_files`, switch overwriting off, change the limit and
    the open mode (`w` with clean-up); 3 rotations, an index bump -/
example :
    let c0 : Cfg := { scheme := .date, limit := 10, append := true }
    let c1 : Cfg := { scheme := .date, limit := 10, maxBackup := 1, overwrite := false, append := true }
    let c2 : Cfg := { scheme := .date, limit := 12, maxBackup := 2, append := false, removeOld := true }
    let ops : List Op := [.write ⟨1, 8⟩ (dayNs + 1), .write ⟨2, 8⟩ (dayNs + 2), .write ⟨3, 8⟩ (dayNs + 3),
      .restart c1 (dayNs + 10), .write ⟨4, 8⟩ (dayNs + 11), .restart c2 (2 * dayNs), .write ⟨5, 8⟩ (2 * dayNs + 1),
      .write ⟨6, 8⟩ (2 * dayNs + 2)]
    DatedHistOK Params.repaired zGmt (restart zGmt [] c0 dayNs) ops ∧
      (run Params.repaired zGmt (restart zGmt [] c0 dayNs) ops).sink.created = [⟨some 2, 0⟩, curInfo] := by
  decide

/-- DateAndTime: restarts in later seconds with other settings -/
example :
    let c0 : Cfg := { scheme := .dateTime, limit := 10, append := true }
    let c1 : Cfg := { scheme := .dateTime, limit := 10, maxBackup := 0, overwrite := false, append := true }
    let ops : List Op := [.write ⟨1, 8⟩ (5 * NS), .write ⟨2, 8⟩ (6 * NS), .restart c1 (8 * NS), .write ⟨3, 8⟩ (9 * NS),
      .restart c0 (20 * NS), .write ⟨4, 8⟩ (21 * NS)]
    DatedHistOK Params.repaired zGmt (restart zGmt [] c0 (5 * NS)) ops := by
  decide

end Rot
