import QuillModel.Props.C14
/-!
# C14 — Date / DateAndTime schemes through restarts with configuration changes

`Props/C14.lean` has the dated invariant for one run (`C14_dated_run_partial`) and one restart
(`C14_dated_restart_partial`). Here: **every** sequence of writes and restarts — any limit, `max_backup_files`, overwrite
flag, frequency, open mode `a` or `w` with clean-up, the naming scheme kept — that satisfies the explicit decidable premise
`DatedHistOK`: the civil suffix (day / second in the sink's zone) of each record is not below the open file's (the F14
premise: non-decreasing timestamps in a zone of constant offset), and each restart starts on a later-or-equal day (Date) /
a **strictly** later second (DateAndTime — nothing is recovered, so a start in the second in which the current file was
opened reuses the name of a file it does not track: the recovery gap F15, witness below) than the open file's suffix.
Proved: the invariant (`DatedInv`: all tracked files exist, deque order = name order of the scheme, untracked dated files
strictly older), hence no rename lands on a retained file, every statement is in exactly one file, and — for append-mode
restarts — the retained tracked sequence is the written one minus a prefix. NOT provable (false of the code, F15): the
backup bound across restarts and "the deleted file is the oldest on disk" — the files of earlier days / runs leave the
bookkeeping at a restart; `C14_dated_restart_leaves_files` states exactly that they stay on disk untouched by the start.
-/
namespace Rot

/-- what the dated theorems need of one operation in state `w` -/
def DatedOpOK (z : Nat → Int) (w : World) : Op → Prop
  | .write _ ts => sfxVal z w.sink.cfg.scheme w.sink.openTs ≤ sfxVal z w.sink.cfg.scheme ts
  | .restart c start => c.scheme = w.sink.cfg.scheme ∧ (c.append = true ∨ c.removeOld = true) ∧
      (c.scheme = .date → sfxVal z c.scheme w.sink.openTs ≤ civilDay z start) ∧
      (c.scheme = .dateTime → sfxVal z c.scheme w.sink.openTs < civilSec z start)

instance (z : Nat → Int) (w : World) (op : Op) : Decidable (DatedOpOK z w op) := by
  cases op <;> (unfold DatedOpOK; infer_instance)

/-- the premise on a whole history, evaluated along the run -/
def DatedHistOK (P : Params) (z : Nat → Int) : World → List Op → Prop
  | _, [] => True
  | w, op :: ops => DatedOpOK z w op ∧ DatedHistOK P z (step P z w op) ops

instance instDecDatedHistOK (P : Params) (z : Nat → Int) : (w : World) → (ops : List Op) → Decidable (DatedHistOK P z w ops)
  | _, [] => isTrue trivial
  | w, op :: ops =>
    have := instDecDatedHistOK P z (step P z w op) ops
    by unfold DatedHistOK; infer_instance

theorem step_dated_inv (P : Params) (z : Nat → Int) (w : World) (op : Op) (h : DatedInv z w) (hop : DatedOpOK z w op) :
    DatedInv z (step P z w op) := by
  cases op with
  | write st ts => exact write_dated_inv P z w st ts h hop
  | restart c start => exact C14_dated_restart_partial z w c start h hop.1 hop.2.1 hop.2.2

/-- **Invariant, every history** (premise `DatedHistOK`). -/
theorem C14_dated_invariant (P : Params) (z : Nat → Int) : ∀ (ops : List Op) (w : World), DatedInv z w →
    DatedHistOK P z w ops → DatedInv z (run P z w ops)
  | [], _, h, _ => h
  | op :: ops, w, h, hok => C14_dated_invariant P z ops _ (step_dated_inv P z w op h hok.1) hok.2

/-- … from a fresh start on any directory whose dated files are not from the future (`DirDated`) -/
theorem C14_dated_invariant_from_start (P : Params) (z : Nat → Int) (fs0 : FS) (c0 : Cfg) (start0 : Nat)
    (hs : c0.scheme ≠ .index) (hmode : c0.append = true ∨ c0.removeOld = true) (hd : DirDated z c0.scheme fs0 start0)
    (ops : List Op) (hok : DatedHistOK P z (restart z fs0 c0 start0) ops) :
    DatedInv z (run P z (restart z fs0 c0 start0) ops) :=
  C14_dated_invariant P z ops _ (restart_dated_inv z fs0 c0 start0 hs hmode hd) hok

/-- **No clobbering after any such history**: every rename target of the next rotation is absent or is the source of a
    rename performed earlier in the same loop. -/
theorem C14_dated_no_clobber_run (P : Params) (z : Nat → Int) (w : World) (h : DatedInv z w) (ops : List Op)
    (hok : DatedHistOK P z w ops) :
    let w' := run P z w ops
    ∀ m ∈ w'.sink.created.filterMap (moveOf w'.sink.cfg.scheme (newSuffix z w'.sink.cfg.scheme w'.sink.openTs)),
      w'.fs.get m.2 = none ∨
        m.2 ∈ (w'.sink.created.filterMap (moveOf w'.sink.cfg.scheme (newSuffix z w'.sink.cfg.scheme w'.sink.openTs))).map (·.1) :=
  (C14_dated_no_clobber_partial z _ (C14_dated_invariant P z ops w h hok)).1

theorem DatedInv.curInv {z : Nat → Int} {w : World} (h : DatedInv z w) : CurInv w := by
  obtain ⟨c, hc⟩ := Option.isSome_iff_exists.mp (h.tracked curInfo h.cur_mem)
  have hc' : w.fs.get curName = some c := hc
  exact ⟨c, hc', by rw [h.size, content_cur, hc']; rfl⟩

/-- **Exactly one file** (dated schemes): if the statements on disk in tracked files and the new one are pairwise
    distinct, after the write every statement occurs once in the tracked files and the new one ends the current file. -/
theorem C14_dated_exactly_one_file (P : Params) (z : Nat → Int) (w : World) (st : Stmt) (ts : Nat) (h : DatedInv z w)
    (hop : DatedOpOK z w (.write st ts)) (hn : (diskSeq w ++ [st]).Nodup) :
    (diskSeq (write P z w st ts)).Nodup ∧ ∃ pre, (write P z w st ts).fs.get curName = some (pre ++ [st]) := by
  constructor
  · obtain ⟨n, he, _⟩ := write_dated_diskSeq P z w st ts h hop
    rw [he] at hn
    exact (List.nodup_append.mp hn).2.1
  · obtain ⟨pre, h1, _⟩ := write_cur P z w st ts h.curInv
    exact ⟨pre, h1⟩

/-- **Nothing is deleted when overwriting is off** (dated schemes, one write): the tracked sequence only grows. -/
theorem C14_dated_write_keeps_all_without_overwrite (P : Params) (z : Nat → Int) (w : World) (st : Stmt) (ts : Nat)
    (h : DatedInv z w) (hop : DatedOpOK z w (.write st ts)) (how : w.sink.cfg.overwrite = false) :
    diskSeq (write P z w st ts) = diskSeq w ++ [st] := by
  obtain ⟨n, he, hor⟩ := write_dated_diskSeq P z w st ts h hop
  rcases hor with h0 | ⟨h1, _⟩
  · subst h0; simpa using he.symm
  · rw [how] at h1; simp at h1

/-- **An append-mode start touches no file** (any scheme): the directory is the same afterwards, except that the current
    file exists. In particular the dated files that leave the bookkeeping at a restart (other days / every earlier run:
    F15) stay on disk with their content — they are lost to the *count*, not to the reader. -/
theorem C14_dated_restart_leaves_files (z : Nat → Int) (fs : FS) (c : Cfg) (start : Nat) (ha : c.append = true) (n : Name)
    (hn : n ≠ curName ∨ (fs.get curName).isSome) : (restart z fs c start).fs.get n = fs.get n := by
  simp only [restart, ha, Bool.not_true, Bool.and_false, Bool.false_eq_true, ↓reduceIte]
  cases hc : fs.get curName with
  | some x => rfl
  | none =>
    simp only [FS.get_put]
    rcases hn with hn | hn
    · simp [hn]
    · rw [hc] at hn; simp at hn

/-! ### the retained sequence across append-mode restarts -/

/-- in a list sorted by non-decreasing date whose dates are all `≤ today`, the entries dated `today` form a suffix -/
theorem today_suffix (today : Int) : ∀ (l : List FileInfo), l.Pairwise (fun a b => dOf a ≤ dOf b) →
    (∀ e ∈ l, dOf e ≤ today) → l.filter (fun e => decide (dOf e = today)) <:+ l
  | [], _, _ => by simp
  | x :: xs, hp, hb => by
    have hp' := List.pairwise_cons.mp hp
    by_cases hx : dOf x = today
    · have hall : ∀ e ∈ x :: xs, decide (dOf e = today) = true := by
        intro e he
        rcases List.mem_cons.mp he with rfl | he'
        · simpa using hx
        · have h1 := hp'.1 e he'
          have h2 := hb e (List.mem_cons_of_mem _ he')
          simp only [decide_eq_true_eq]; omega
      rw [List.filter_eq_self.mpr hall]
      exact List.suffix_refl _
    · simp only [List.filter_cons, hx, decide_false, Bool.false_eq_true, ↓reduceIte]
      exact (today_suffix today xs hp'.2 (fun e he => hb e (List.mem_cons_of_mem _ he))).trans (List.suffix_cons x xs)

/-- **An append-mode restart keeps a suffix of the bookkeeping**: under the restart premise the new `_created_files` is
    the current file preceded by — DateAndTime: nothing; Date: exactly the tracked files dated today, which are the tail of
    the old deque — and no file changes. The retained tracked sequence after the start is a suffix of the one before. -/
theorem restart_dated_diskSeq_suffix (z : Nat → Int) (w : World) (c : Cfg) (start : Nat) (h : DatedInv z w)
    (hop : DatedOpOK z w (.restart c start)) (ha : c.append = true) :
    diskSeq (restart z w.fs c start) <:+ diskSeq w := by
  obtain ⟨hsch, _, hd1, _⟩ := hop
  obtain ⟨rest, hr⟩ := h.last
  have hcurS := h.tracked curInfo h.cur_mem
  obtain ⟨cc, hcc⟩ := Option.isSome_iff_exists.mp hcurS
  have hcc' : w.fs.get curName = some cc := hcc
  have hfs : (restart z w.fs c start).fs = w.fs := by simp [restart, ha, hcc']
  have hsorted := h.sorted
  rw [hr, List.pairwise_append] at hsorted
  have hdw : diskSeq w = rest.flatMap (content w.fs) ++ content w.fs curInfo := by
    unfold diskSeq; rw [hr]; simp
  cases hs : c.scheme with
  | index => exact absurd (hsch ▸ hs) h.scheme
  | dateTime =>
    have hcr : (restart z w.fs c start).sink.created = [curInfo] := by simp [restart, hs, recover]
    have : diskSeq (restart z w.fs c start) = content w.fs curInfo := by
      unfold diskSeq; rw [hcr, hfs]; simp
    rw [this, hdw]
    exact List.suffix_append _ _
  | date =>
    have hcr : (restart z w.fs c start).sink.created =
        sortDesc (w.fs.filterMap (scanDate (civilDay z start))) ++ [curInfo] := by
      simp [restart, ha, hs, recover]
    have hle : sfxVal z w.sink.cfg.scheme w.sink.openTs ≤ civilDay z start := by
      have := hd1 hs; rw [hs] at this; rw [← hsch, hs]; exact this
    have hsome : ∀ e ∈ rest, ∃ d, e.sfx = some d := by
      intro e he
      exact Option.isSome_iff_exists.mp (hsorted.2.2 e he curInfo (by simp)).1
    have hdate : rest.Pairwise (fun a b => dOf a ≤ dOf b) := by
      refine List.Pairwise.imp_of_mem ?_ hsorted.1
      intro a b _ hb hab
      obtain ⟨d, hd⟩ := hsome b hb
      rcases hab.2 with h0 | h0
      · rw [hd] at h0; simp at h0
      · rcases h0 with h1 | ⟨h1, _⟩ <;> omega
    have hbound : ∀ e ∈ rest, dOf e ≤ civilDay z start := by
      intro e he
      obtain ⟨d, hd⟩ := hsome e he
      have := h.bound e (by rw [hr]; exact List.mem_append_left _ he) d hd
      simp only [dOf, hd, Option.getD_some]; omega
    have hsuf := today_suffix (civilDay z start) rest hdate hbound
    -- the recovered list is that filter
    have heq : sortDesc (w.fs.filterMap (scanDate (civilDay z start))) =
        rest.filter (fun e => decide (dOf e = civilDay z start)) := by
      have hs1 := sortDesc_sorted _ (scanDate_distinct w.fs (civilDay z start) h.keys)
      have hs2 : (rest.filter (fun e => decide (dOf e = civilDay z start))).Pairwise (fun a b => a.idx > b.idx) := by
        have hp : rest.Pairwise (fun a b => dOf a = civilDay z start → dOf b = civilDay z start → a.idx > b.idx) := by
          refine List.Pairwise.imp_of_mem ?_ hsorted.1
          intro a b _ hb hab ha' hb'
          obtain ⟨d, hd⟩ := hsome b hb
          rcases hab.2 with h0 | h0
          · rw [hd] at h0; simp at h0
          · rcases h0 with h1 | ⟨_, h2⟩
            · omega
            · exact h2
        refine List.Pairwise.imp_of_mem ?_ (hp.sublist List.filter_sublist)
        intro a b ha' hb' hab
        exact hab (by simpa using (List.mem_filter.mp ha').2) (by simpa using (List.mem_filter.mp hb').2)
      have nd : ∀ {l : List FileInfo}, l.Pairwise (fun a b => a.idx > b.idx) → l.Nodup := by
        intro l hl
        exact hl.imp (fun {a b} hab heq => by subst heq; omega)
      apply List.Perm.eq_of_pairwise (le := fun a b => a.idx > b.idx) _ hs1 hs2
      · rw [List.perm_ext_iff_of_nodup (nd hs1) (nd hs2)]
        intro e
        rw [mem_sortDesc, mem_scanDate, List.mem_filter]
        constructor
        · rintro ⟨h1, h2⟩
          have h2' : (w.fs.get (.file (some (civilDay z start)) e.idx)).isSome := by
            simpa [FileInfo.name, h1] using h2
          rcases h.ghosts _ _ h2' with hm | hm
          · have he : e = ⟨some (civilDay z start), e.idx⟩ := by cases e; simp_all
            rw [← he, hr] at hm
            rcases List.mem_append.mp hm with hm | hm
            · exact ⟨hm, by simp [dOf, h1]⟩
            · simp only [List.mem_singleton] at hm; rw [hm] at h1; simp [curInfo] at h1
          · omega
        · rintro ⟨he, hd⟩
          obtain ⟨d, hd'⟩ := hsome e he
          have : d = civilDay z start := by simpa [dOf, hd'] using hd
          subst this
          exact ⟨hd', h.tracked e (by rw [hr]; exact List.mem_append_left _ he)⟩
      · intro a b _ _ h1 h2; omega
    obtain ⟨pre, hpre⟩ := hsuf
    have : diskSeq (restart z w.fs c start) =
        (rest.filter (fun e => decide (dOf e = civilDay z start))).flatMap (content w.fs) ++ content w.fs curInfo := by
      unfold diskSeq; rw [hcr, hfs, heq]; simp
    rw [this, hdw]
    refine ⟨pre.flatMap (content w.fs), ?_⟩
    rw [← List.append_assoc, ← List.flatMap_append, hpre]

/-- every restart of the history is in append mode -/
def AppendOnly : List Op → Prop
  | [] => True
  | .write _ _ :: ops => AppendOnly ops
  | .restart c _ :: ops => c.append = true ∧ AppendOnly ops

/-- **Order and completeness, dated schemes, every history** (premise `DatedHistOK`, append-mode restarts with any other
    settings). The tracked files read oldest → newest (which by `DatedInv` is the order of the names) give the sequence on
    disk at the beginning followed by every statement written, minus a prefix. What leaves at the front is (a) whole files
    deleted as the oldest tracked one by a rotation with overwriting on and the backup limit reached
    (`write_dated_diskSeq`), or (b) at a restart, whole files that leave the bookkeeping but stay on disk untouched
    (`C14_dated_restart_leaves_files`, `C14_dated_untracked_untouched`) — the recovery gap F15, which is why the backup
    bound fails across restarts while nothing is lost to the reader. -/
theorem C14_dated_sequence (P : Params) (z : Nat → Int) : ∀ (ops : List Op) (w : World), DatedInv z w →
    DatedHistOK P z w ops → AppendOnly ops → diskSeq (run P z w ops) <:+ diskSeq w ++ written ops
  | [], w, _, _, _ => by simp [run, written]
  | op :: ops, w, h, hok, ha => by
    have hinv := step_dated_inv P z w op h hok.1
    cases op with
    | write st ts =>
      have ih := C14_dated_sequence P z ops _ hinv hok.2 ha
      simp only [run, written, step] at ih ⊢
      obtain ⟨n, he, _⟩ := write_dated_diskSeq P z w st ts h hok.1
      have h1 : diskSeq (write P z w st ts) ++ written ops <:+ diskSeq w ++ st :: written ops := by
        refine ⟨(w.sink.created.take n).flatMap (content w.fs), ?_⟩
        rw [← List.append_assoc, ← he]; simp
      exact ih.trans h1
    | restart c start =>
      have ih := C14_dated_sequence P z ops _ hinv hok.2 ha.2
      simp only [run, written, step] at ih ⊢
      obtain ⟨pre, hpre⟩ := restart_dated_diskSeq_suffix z w c start h hok.1 ha.1
      refine ih.trans ⟨pre, ?_⟩
      rw [← List.append_assoc, hpre]

/-! ### files outside the bookkeeping are never touched (the exact shape of the recovery gap F15) -/

theorem rotate_dated_untracked (P : Params) (z : Nat → Int) (w : World) (ts : Nat) (h : DatedInv z w) (d : Int) (k : Nat)
    (c : List Stmt) (hc : w.fs.get (.file (some d) k) = some c) (hu : (⟨some d, k⟩ : FileInfo) ∉ w.sink.created) :
    (rotate P z w ts).fs.get (.file (some d) k) = some c ∧ (⟨some d, k⟩ : FileInfo) ∉ (rotate P z w ts).sink.created := by
  by_cases hr : rotates w
  · obtain ⟨hns, cont, hcur, hb⟩ := hr
    have hlt : d < sfxVal z w.sink.cfg.scheme w.sink.openTs := by
      rcases h.ghosts d k (by rw [hc]; rfl) with h1 | h1
      · exact absurd h1 hu
      · exact h1
    have hsfx := newSuffix_dated z w.sink.cfg.scheme w.sink.openTs h.scheme
    -- no entry is renamed to (or stays at) this name
    have hnt : ∀ e ∈ w.sink.created,
        entryAfter w.sink.cfg.scheme (some (sfxVal z w.sink.cfg.scheme w.sink.openTs)) e ≠ ⟨some d, k⟩ := by
      intro e he heq
      obtain ⟨d', hd', hor⟩ := entryAfter_dated_sfx w.sink.cfg.scheme (sfxVal z w.sink.cfg.scheme w.sink.openTs) e h.scheme
      rw [heq] at hd'
      have hdd : d = d' := by simpa using hd'
      rcases hor with h1 | h1
      · omega
      · -- the entry keeps its suffix `d ≠ S`: it is unchanged, hence tracked
        have hne : d' ≠ sfxVal z w.sink.cfg.scheme w.sink.openTs := by omega
        rw [entryAfter_other _ _ d' e h.scheme h1 hne] at heq
        exact hu (heq ▸ he)
    have hp := h.pairs
    obtain ⟨_, hB⟩ := chain_generic w.sink.cfg.scheme (some (sfxVal z w.sink.cfg.scheme w.sink.openTs)) w.fs w.sink.created
      (List.pairwise_map.mpr (hp.imp (fun hx => hx.1)))
      (List.pairwise_map.mpr (hp.imp (fun hx => hx.2.1)))
      (hp.imp (fun hx => hx.2.2.1)) h.tracked
    have hname : ∀ e : FileInfo, e.name = Name.file (some d) k → e = ⟨some d, k⟩ := by
      intro e he; cases e; simp only [FileInfo.name, Name.file.injEq] at he; rw [he.1, he.2]
    have h1 := hB (.file (some d) k) (fun e he heq => hnt e he (hname _ heq.symm))
    have hnsrc : Name.file (some d) k ∉ w.sink.created.map FileInfo.name := by
      intro hm
      obtain ⟨e, he, hen⟩ := List.mem_map.mp hm
      exact hu (hname e hen ▸ he)
    simp only [hnsrc, ↓reduceIte] at h1
    rw [rotate_eq P z w ts cont hns hcur hb, hsfx]
    dsimp only
    constructor
    · rw [FS.get_put]
      have hne : Name.file (some d) k ≠ curName := by simp [curName]
      simp only [hne, ↓reduceIte, delAll_get]
      have hnd : Name.file (some d) k ∉ (List.take
          (excess P.deletesAllExcess (w.sink.created.map (entryAfter w.sink.cfg.scheme (some (sfxVal z w.sink.cfg.scheme w.sink.openTs)))).length w.sink.cfg.maxBackup)
          (w.sink.created.map (entryAfter w.sink.cfg.scheme (some (sfxVal z w.sink.cfg.scheme w.sink.openTs))))).map FileInfo.name := by
        intro hm
        obtain ⟨e', he', hen⟩ := List.mem_map.mp hm
        obtain ⟨e, he, rfl⟩ := List.mem_map.mp (List.mem_of_mem_take he')
        exact hnt e he (hname _ hen)
      simp only [hnd, ↓reduceIte]
      rw [h1, hc]
    · intro hm
      rcases List.mem_append.mp hm with hm | hm
      · obtain ⟨e, he, heq⟩ := List.mem_map.mp (List.mem_of_mem_drop hm)
        exact hnt e he heq
      · simp [curInfo] at hm
  · rw [rotate_of_not_rotates' P z w ts (h.tracked curInfo h.cur_mem) hr]; exact ⟨hc, hu⟩

/-- **A dated file the sink does not track is never touched by a write** (dated schemes, write premise): it keeps its
    content — it is no rename source (untracked), no rename target (targets carry the open file's suffix, untracked files
    are strictly older: `DatedInv.ghosts`), not deleted (only tracked files are) — and it stays untracked. Together with
    `C14_dated_restart_leaves_files` (a start in append mode changes no file): what leaves `_created_files` at a restart
    stays on disk for ever — never lost, never counted against `max_backup_files`, never deleted (F15). -/
theorem C14_dated_untracked_untouched (P : Params) (z : Nat → Int) (w : World) (st : Stmt) (ts : Nat) (h : DatedInv z w)
    (d : Int) (k : Nat) (c : List Stmt) (hc : w.fs.get (.file (some d) k) = some c)
    (hu : (⟨some d, k⟩ : FileInfo) ∉ w.sink.created) :
    (write P z w st ts).fs.get (.file (some d) k) = some c ∧ (⟨some d, k⟩ : FileInfo) ∉ (write P z w st ts).sink.created := by
  have hne : Name.file (some d) k ≠ curName := by simp [curName]
  show ((prepare P z w st.size ts).fs.put curName _).get _ = _ ∧ _ ∉ (prepare P z w st.size ts).sink.created
  rw [FS.get_put]
  simp only [hne, ↓reduceIte]
  rcases prepare_cases P z w st.size ts with hs | hs
  · rw [hs.fs, hs.created]; exact ⟨hc, hu⟩
  · rw [hs.fs, hs.created]; exact rotate_dated_untracked P z w ts h d k c hc hu

/-! ### the excluded classes, by `decide` -/

/-- **Same-second restart (DateAndTime), excluded by the strict `<`.** Overwriting off, no backup limit: run 1 opens a file
    in second 6 and rotates it to `log.<6>.log`… the restarted process (append) starts in second 7, the second in which the
    current file was opened; its first rotation names the file after second 7 — the name of a file of run 1 it does not
    track. Statement 2 is gone although nothing may be deleted. (The recovery gap F15.) -/
theorem C14_dated_same_second_restart_clobbers :
    let c : Cfg := { scheme := .dateTime, limit := 10, overwrite := false, append := true }
    let w1 := run Params.repaired zGmt (restart zGmt [] c (5 * NS))
      [.write ⟨1, 8⟩ (5 * NS), .write ⟨2, 8⟩ (7 * NS), .write ⟨3, 8⟩ (7 * NS + 1), .write ⟨4, 8⟩ (7 * NS + 2)]
    let ops2 : List Op := [.restart c (7 * NS + 5), .write ⟨5, 8⟩ (7 * NS + 6), .write ⟨6, 8⟩ (7 * NS + 7)]
    let w2 := run Params.repaired zGmt w1 ops2
    ¬ DatedHistOK Params.repaired zGmt w1 ops2 ∧
      w1.fs.get (.file (some 7) 1) = some [⟨2, 8⟩] ∧ w1.fs.get (.file (some 7) 0) = some [⟨3, 8⟩] ∧
      w2.fs.get (.file (some 7) 0) = some [⟨5, 8⟩] ∧ w2.fs.get (.file (some 7) 1) = some [⟨4, 8⟩] ∧
      w2.fs.get (.file (some 7) 2) = none := by
  decide

/-- **Restart on an earlier day (Date), excluded by `≤`** — F14's class at a restart: the newer file gets the earlier date. -/
theorem C14_dated_backwards_restart_breaks_order :
    let c : Cfg := { scheme := .date, limit := 10, append := true }
    let w1 := run Params.repaired zGmt (restart zGmt [] c (2 * dayNs)) [.write ⟨1, 8⟩ (2 * dayNs), .write ⟨2, 8⟩ (2 * dayNs + 1)]
    let ops2 : List Op := [.restart c (1 * dayNs), .write ⟨3, 8⟩ (1 * dayNs + 1)]
    let w2 := run Params.repaired zGmt w1 ops2
    ¬ DatedHistOK Params.repaired zGmt w1 ops2 ∧
      w2.fs.get (.file (some 2) 0) = some [⟨1, 8⟩] ∧ w2.fs.get (.file (some 1) 0) = some [⟨2, 8⟩] := by
  decide

/-- **The backup bound does not survive restarts** (Date, later day; F15): `max_backup_files = 1`, overwriting on, one
    rotation on each of two days — the history satisfies `DatedHistOK`, two rotated files remain, the sink tracks one. -/
theorem C14_dated_backup_bound_across_restarts_fails :
    let c : Cfg := { scheme := .date, limit := 10, maxBackup := 1, overwrite := true, append := true }
    let w1 := run Params.repaired zGmt (restart zGmt [] c dayNs) [.write ⟨1, 8⟩ dayNs, .write ⟨2, 8⟩ (dayNs + 1)]
    let ops2 : List Op := [.restart c (2 * dayNs), .write ⟨3, 8⟩ (2 * dayNs + 1)]
    let w2 := run Params.repaired zGmt w1 ops2
    DatedHistOK Params.repaired zGmt w1 ops2 ∧
      w2.fs.get (.file (some 1) 0) = some [⟨1, 8⟩] ∧ w2.fs.get (.file (some 2) 0) = some [⟨2, 8⟩] ∧
      w2.sink.created = [⟨some 2, 0⟩, curInfo] ∧ w2.sink.cfg.maxBackup = 1 := by
  decide

/-! ### non-vacuity: histories with configuration-changing restarts that satisfy the premise -/

/-- Date: three runs over two days; the restarts lower `max_backup_files`, switch overwriting off, change the limit and
    the open mode (`w` with clean-up); 3 rotations, an index bump -/
example :
    let c0 : Cfg := { scheme := .date, limit := 10, append := true }
    let c1 : Cfg := { scheme := .date, limit := 10, maxBackup := 1, overwrite := false, append := true }
    let c2 : Cfg := { scheme := .date, limit := 12, maxBackup := 2, append := false, removeOld := true }
    let ops : List Op := [.write ⟨1, 8⟩ (dayNs + 1), .write ⟨2, 8⟩ (dayNs + 2), .write ⟨3, 8⟩ (dayNs + 3),
      .restart c1 (dayNs + 10), .write ⟨4, 8⟩ (dayNs + 11), .restart c2 (2 * dayNs), .write ⟨5, 8⟩ (2 * dayNs + 1),
      .write ⟨6, 8⟩ (2 * dayNs + 2)]
    DatedHistOK Params.repaired zGmt (restart zGmt [] c0 dayNs) ops ∧
      (run Params.repaired zGmt (restart zGmt [] c0 dayNs) ops).sink.created = [⟨some 2, 0⟩, curInfo] := by
  decide

/-- DateAndTime: restarts in later seconds with other settings -/
example :
    let c0 : Cfg := { scheme := .dateTime, limit := 10, append := true }
    let c1 : Cfg := { scheme := .dateTime, limit := 10, maxBackup := 0, overwrite := false, append := true }
    let ops : List Op := [.write ⟨1, 8⟩ (5 * NS), .write ⟨2, 8⟩ (6 * NS), .restart c1 (8 * NS), .write ⟨3, 8⟩ (9 * NS),
      .restart c0 (20 * NS), .write ⟨4, 8⟩ (21 * NS)]
    DatedHistOK Params.repaired zGmt (restart zGmt [] c0 (5 * NS)) ops := by
  decide

end Rot
