import QuillModel.Filt.Proofs
/-!
# C16 (concurrency part) — filters installed concurrently with the backend's evaluation

"A statement is written to a sink exactly when its level is at or above that sink's level filter and every filter
installed on that sink accepts it … for every interleaving with concurrent set_log_level / add_filter calls."

`Props/C16.lean` proves the decision logic on a sequential scheduler. This file covers the concurrency of
`Sink::add_filter` / `set_log_level_filter` (frontend threads) against `Sink::apply_all_filters` (backend thread) under the
release/acquire view semantics of `Filt/Model.lean` (relaxed `_new_filter` / `_log_level`, the real `Spin` lock model).

**The premise, and why it is there.** `_new_filter` is read and written with `memory_order_relaxed`. A completed
`add_filter(F)` becomes visible to the backend only through a release/acquire edge: the lock's `unlock → exchange`, or —
the case that matters for a user — the SPSC queue's publication of a statement logged *after* `add_filter` returned (by the
same thread, or by a thread that synchronised with it). Without such an edge the C++ memory model allows the backend to
read a stale `false` from `_new_filter` and to evaluate against its old `_local_filters` (`stale_flag_without_happens_before`
below exhibits that run in the model, on the unchanged parameters). The theorems therefore take DONE to be the filters
whose `add_filter` call returned **happens-before** the begin of the evaluation (`EvalRec.done`, the backend's knowledge
after it popped the statement), not "returned earlier in wall-clock time"; `harness/h1_filters.cpp` uses the same DONE
(vector clocks), so it does not alarm on the unchanged code. STARTED = calls begun before the evaluation ended.
-/
namespace Filt

/-- **(a) Mutual exclusion carries over, the copy is race-free.** For every number of frontend threads, every schedule
    and every stale-load choice (lock orders acquire/release, no `try_lock`): no critical-section access of
    `_global_filters` (the push of `add_filter`, the copy of `apply_all_filters`) is racy — each happens-after the previous
    critical section and finds nobody else inside (`races = 0`); at most one thread is inside; and while the backend is
    inside (between its `exchange` and its unlock — where the copy is) no `add_filter` is between its lock and unlock. -/
theorem C16_filter_lock_exclusive (p : Params) (ho : Spin.OrdersOK p.lock) (hnt : p.tryLock = false) (n lvl0 : Nat)
    (ops : List Op) (hr : Run p (init n lvl0) ops) :
    (run p (init n lvl0) ops).races = 0 ∧
    (∀ t u, (run p (init n lvl0) ops).lock.inCS t = true → (run p (init n lvl0) ops).lock.inCS u = true → t = u) ∧
    (((run p (init n lvl0) ops).bpc = .reset ∨ (run p (init n lvl0) ops).bpc = .unl) →
      ∀ u, 0 < u → ¬ ((run p (init n lvl0) ops).fpc u).inside) := by
  have h := reachable_inv p ho hnt ops _ (init_inv p n lvl0) hr
  refine ⟨h.a.rc, h.a.lk.excl, ?_⟩
  intro hb u hu hin
  have h0 := h.a.bcs.mpr hb
  have h1 := (h.a.fcs u hu).mpr hin
  have := h.a.lk.excl u 0 h1 h0
  omega

/-- **(b) DONE ⊆ `_local_filters` used ⊆ STARTED at every evaluation** — the oracle's statement as an invariant. For every
    schedule and every stale-load choice, every evaluation `e` of a statement by `apply_all_filters`:
    the sink level it was compared with is a store of `_log_level` at or above the backend's floor when the evaluation began;
    if the level test failed the verdict is `false`; otherwise the verdict is exactly "every filter of `e.used` accepts the
    statement", where `e.used` (the `_local_filters` consulted) contains every filter whose `add_filter` returned
    happens-before the evaluation began and only filters whose `add_filter` had begun before it ended. -/
theorem C16_filter_visibility (p : Params) (ho : Spin.OrdersOK p.lock) (hnt : p.tryLock = false) (n lvl0 : Nat)
    (ops : List Op) (hr : Run p (init n lvl0) ops) :
    ∀ e, e ∈ (run p (init n lvl0) ops).evals →
      e.lvlFloor ≤ e.lvlIdx ∧
      (e.reached = false → e.lv < e.sinkLvl ∧ e.verdict = false) ∧
      (e.reached = true → e.sinkLvl ≤ e.lv ∧ e.verdict = e.used.all (fun F => accepts F e.k) ∧
        (∀ F, F ∈ e.done → F ∈ e.used) ∧ (∀ F, F ∈ e.used → F ∈ e.started)) :=
  fun e he => (reachable_inv p ho hnt ops _ (init_inv p n lvl0) hr).d.ev e he

/-- corollary in the property's words: a statement that a filter of its DONE set rejects is never accepted -/
theorem C16_no_rejected_statement_accepted (p : Params) (ho : Spin.OrdersOK p.lock) (hnt : p.tryLock = false) (n lvl0 : Nat)
    (ops : List Op) (hr : Run p (init n lvl0) ops) :
    ∀ e, e ∈ (run p (init n lvl0) ops).evals → e.leaked = false := by
  intro e he
  obtain ⟨_, h1, h2⟩ := C16_filter_visibility p ho hnt n lvl0 ops hr e he
  unfold EvalRec.leaked
  cases hv : e.verdict with
  | false => simp
  | true =>
    cases hre : e.reached with
    | false => have := (h1 hre).2; rw [hv] at this; cases this
    | true =>
      obtain ⟨_, h3, h4, _⟩ := h2 hre
      rw [hv] at h3
      have hall := List.all_eq_true.mp h3.symm
      simp only [Bool.true_and, List.any_eq_false, Bool.not_eq_true', Bool.not_eq_false]
      intro F hF
      simpa using hall F (h4 F hF)

def pReal : Params := { lock := { xchg := .acquire, unl := .release }, resetBeforeCopy := false, tryLock := false }

/-- A1 installs filter 33 (rejects odd ids) and then logs statement 7; A2 is inside `add_filter(48)`: it holds the lock
    and has already set `_new_filter`; the backend pops 7, reads the level and the flag (set) and clears `_local_filters` -/
def window1 : List Op :=
  [.beginAdd 1 33, .spin 1, .xchg 1, .setFlag 1, .unlock 1, .beginLog 1 7 4, .logStore 1,
   .beginAdd 2 48, .spin 2, .xchg 2, .setFlag 2,
   .beginPoll 1, .pollLoad 1, .loadLvl 0, .loadFlag 2]

/-- **(c) Negative witness.** The variant "clear `_local_filters`, then `try_lock`, evaluate anyway when the lock is busy"
    violates (b): on `window1` the lock is really busy (`tryFail` is enabled only then), statement 7 is evaluated against
    the empty list and accepted although filter 33 — whose `add_filter` returned before 7 was even logged — rejects it. -/
theorem trylock_variant_leaks :
    let p : Params := { pReal with tryLock := true }
    let sched := window1 ++ [.tryFail]
    Run p (init 2 0) sched ∧ (run p (init 2 0) sched).evals.any EvalRec.leaked = true ∧
      (run p (init 2 0) sched).evals.any (fun e => e.done.contains 33 && !e.used.contains 33 && e.verdict) = true := by
  decide

/-- non-vacuity of (a)/(b), and the same window on the real parameters: the backend spins (`xchg 0` fails while A2 is
    inside), A2 unlocks, the backend copies both filters and rejects 7 -/
example :
    let sched := window1 ++ [.spin 0, .xchg 0, .unlock 2, .spin 0, .xchg 0, .reset, .unlock 0]
    Run pReal (init 2 0) sched ∧
      (run pReal (init 2 0) sched).evals.any (fun e => e.done == [33] && e.used == [33, 48] && !e.verdict && e.reached) = true ∧
      (run pReal (init 2 0) sched).races = 0 := by
  decide

/-- non-vacuity with the reset placed before the copy loop (both inside the critical section): same result -/
example :
    let p : Params := { pReal with resetBeforeCopy := true }
    let sched := window1 ++ [.spin 0, .xchg 0, .unlock 2, .spin 0, .xchg 0, .reset, .unlock 0]
    Run p (init 2 0) sched ∧
      (run p (init 2 0) sched).evals.any (fun e => e.done == [33] && e.used == [33, 48] && !e.verdict && e.reached) = true := by
  decide

/-- **Why the happens-before premise is needed** (unchanged parameters): A2's `add_filter(48)` has *returned* before A1
    even logs statement 6, but nothing orders A2's call before A1's statement; the backend's floor for `_new_filter` is still
    the initial store, it may read that stale `false` and accept 6 although filter 48 rejects it. DONE is empty, so this run
    satisfies (b): the code guarantees no more than the theorem says. -/
theorem stale_flag_without_happens_before :
    let sched : List Op := [.beginAdd 2 48, .spin 2, .xchg 2, .setFlag 2, .unlock 2,
                            .beginLog 1 6 4, .logStore 1, .beginPoll 1, .pollLoad 1, .loadLvl 0, .loadFlag 0]
    Run pReal (init 2 0) sched ∧ accepts 48 6 = false ∧
      (run pReal (init 2 0) sched).evals.any (fun e => e.verdict && e.started.contains 48 && e.done.isEmpty && e.used.isEmpty) = true := by
  decide

/-- … whereas with the edge (A2 itself logs the statement after its `add_filter` returned) the stale `false` is no longer a
    legal result of the flag load: the step is not enabled -/
example :
    let sched : List Op := [.beginAdd 2 48, .spin 2, .xchg 2, .setFlag 2, .unlock 2,
                            .beginLog 2 6 4, .logStore 2, .beginPoll 2, .pollLoad 1, .loadLvl 0]
    Run pReal (init 2 0) sched ∧ ¬ Enabled pReal (run pReal (init 2 0) sched) (.loadFlag 0) ∧
      Enabled pReal (run pReal (init 2 0) sched) (.loadFlag 1) := by
  decide

/-- the lock's orders matter for (a): with a relaxed `exchange` the copy of `_global_filters` races with the push -/
theorem relaxed_lock_races :
    let p : Params := { pReal with lock := { xchg := .relaxed, unl := .release } }
    let sched : List Op := [.beginAdd 1 33, .spin 1, .xchg 1, .setFlag 1, .unlock 1, .beginLog 1 7 4, .logStore 1,
                            .beginPoll 1, .pollLoad 1, .loadLvl 0, .loadFlag 1, .spin 0, .xchg 0]
    Run p (init 1 0) sched ∧ 0 < (run p (init 1 0) sched).races := by
  decide

end Filt
