import QuillModel.Backend.SinkRefsSched
import QuillModel.Props.C17Removal
import QuillModel.Props.C03
/-!
# C17 — a sink nobody references any more IS destroyed; the erase comes after everything was written; re-creation

Closes four audit gaps of `Props/C17.lean` (helpers: `Backend/SinkRefs.lean`, `Backend/SinkRefsSched.lean`):

* (a) `C17_dead_sink_unreferenced` is one direction ("destroyed ⇒ unreferenced"). The converse — *unreferenced ⇒
  destroyed, destructor event in the log exactly once* — is `C17_unreferenced_sink_destroyed`, for every schedule
  (frontend operations inside sink destructors at hook site 9 included). The premise on the initial state is explicit:
  every sink of the system is referenced at the start (`0 < sinkRefs s0 sid`: the user's handle or a logger).
* (b) `C17_erase_only_when_drained` only talks about the emptiness check. `C17_erase_after_everything_popped` is the
  erase step itself; `C17_erased_logger_statements_popped` the statement over every reachable state.
* (c) re-creation after `remove_logger_blocking` returned: `C17_recreate_after_removal`.
* (d) the ids the theorems quantify over are valid along every run: `C17_ids_in_range`; non-vacuity of
  `C17_parked_removal_exclusive`.
-/
namespace Backend
open Backend.PC Spsc

/-- the sink ids of the system -/
def BSt.sids (s : BSt) : List Nat := s.sinks.map (·.sid)

/-! ### (a) unreferenced ⇒ destroyed -/

theorem fresh_sinkOf_alive {s : BSt} (h : LoggerFresh s) (sid : Nat) : (s.sinkOf sid).alive = true := by
  simp only [BSt.sinkOf]
  cases hf : s.sinks.find? (·.sid = sid) with
  | none => rfl
  | some k => exact h.2.2.2.1 k (List.mem_of_find?_eq_some hf)

/-- **A sink that nobody references is destroyed — exactly once.** Premises on the initial state: the driver's shape
    (`LoggerFresh`: in particular every sink alive, no event yet) and *every sink of the system is referenced*
    (`0 < sinkRefs s0 sid`: by the user's own `shared_ptr` — `userRef` — or by a logger object). Then after **every**
    schedule — `remove_logger`, `remove_logger_blocking`, the user dropping handles (`dropSink`), re-creations, polls
    with arbitrary frontend operations injected at every hook site including site 9 *inside a sink's destructor between
    two visits of `cleanup_unused_sinks`*, the exit drain — every sink of the system whose reference count is zero
    (the user holds no handle and no logger object that is not erased lists it: the clean-up that erased the last such
    logger, or the `dropSink` that released the last handle, is over) has been destroyed: `alive = false`, and its
    destructor event occurs in the event log **exactly once**. Together with `C17_dead_sink_unreferenced` and
    `C17_alive_sink_no_dtor`: destroyed ⇔ unreferenced (`C17_sink_destroyed_iff_unreferenced`). -/
theorem C17_unreferenced_sink_destroyed (s0 : BSt) (h0 : LoggerFresh s0)
    (href : ∀ sid ∈ s0.sids, 0 < sinkRefs s0 sid) (ops : List Op) :
    let s := runOps s0 ops
    ∀ sid ∈ s.sids, sinkRefs s sid = 0 →
      (s.sinkOf sid).alive = false ∧ s.log.countP (isDtor sid) = 1 := by
  intro s sid hsid hz
  have hP : PR [] s := PR_runOps s0 ⟨h0.inv, fun k hk _ => Or.inl (refd_of_sinkRefs_pos (href k hk))⟩ ops
  have hD : FD s := FD_runOps s0 ⟨h0.inv, fun k _ ha => by rw [fresh_sinkOf_alive h0 k] at ha; cases ha⟩ ops
  have hdead : (s.sinkOf sid).alive = false := by
    cases ha : (s.sinkOf sid).alive
    · rfl
    · rcases hP.2 sid hsid ha with hr | hp
      · exact absurd hr ((sinkRefs_zero_iff s sid).mp hz)
      · cases hp
  exact ⟨hdead, hD.2 sid hsid hdead⟩

/-- **Destroyed ⇔ unreferenced**, for every sink of the system in every reachable state; a live sink has no destructor
    event, a destroyed one exactly one. -/
theorem C17_sink_destroyed_iff_unreferenced (s0 : BSt) (h0 : LoggerFresh s0)
    (href : ∀ sid ∈ s0.sids, 0 < sinkRefs s0 sid) (ops : List Op) :
    let s := runOps s0 ops
    ∀ sid ∈ s.sids, ((s.sinkOf sid).alive = false ↔ sinkRefs s sid = 0) ∧
      s.log.countP (isDtor sid) = (if (s.sinkOf sid).alive then 0 else 1) := by
  intro s sid hsid
  have hL : LS s := (FInv_runOps s0 h0.inv ops).2
  have hiff : (s.sinkOf sid).alive = false ↔ sinkRefs s sid = 0 := by
    constructor
    · intro hd
      rw [sinkRefs_zero_iff]
      rintro (hu | ⟨i, hi, he, hm⟩)
      · rw [(hL.dead sid hd).1] at hu; cases hu
      · exact (hL.dead sid hd).2 i hi he hm
    · intro hz
      exact (C17_unreferenced_sink_destroyed s0 h0 href ops sid hsid hz).1
  refine ⟨hiff, ?_⟩
  cases ha : (s.sinkOf sid).alive
  · simp only [Bool.false_eq_true, if_false]
    exact (C17_unreferenced_sink_destroyed s0 h0 href ops sid hsid (hiff.mp ha)).2
  · simp only [if_true]
    rw [List.countP_eq_zero]
    intro d hd
    rw [hL.nodtor sid ha d hd]; simp

/-- **The clean-up step itself** (any state satisfying the invariants — every reachable state and every state inside a
    poll —, any injection runner built from frontend operations): if every live sink is referenced when
    `_cleanup_invalidated_loggers` starts, every live sink is referenced when it returns — the sinks released by the
    loggers it erased have all been visited, whatever ran at hook site 9 in between. -/
theorem C17_cleanup_reaps_released_sinks (table : List (Nat × Nat × List FOp)) (x : BSt) (hx : FInv x)
    (href : ∀ sid ∈ x.sids, (x.sinkOf sid).alive = true → 0 < sinkRefs x sid) :
    let y := cleanupLoggers (runInj table) x
    ∀ sid ∈ y.sids, (y.sinkOf sid).alive = true → 0 < sinkRefs y sid := by
  intro y sid hsid ha
  have h := cleanupLoggers_PR (runInj table) (fun pend z k hz => ((runInj_okR (PR_closedR pend) table) z k hz).1) x
    ⟨hx, fun k hk hka => Or.inl (refd_of_sinkRefs_pos (href k hk hka))⟩
  rcases h.2 sid hsid ha with hr | hp
  · exact sinkRefs_pos_of_refd hr
  · cases hp

/-! ### (b) the erase comes after everything logged through the logger was popped (= written, `C03_pop_writes_exactly`) -/

/-- **The erase step, positively.** In any state `x` satisfying the invariants of bundles A and C (every reachable
    state and every state inside a poll: both are carried by the schedule skeletons), when the guard of the erase
    answers yes — `check_queues_empty()` on the *current* state — then in the state in which logger `i` is erased
    **every statement ever accepted by any context — in particular every statement logged through `i` — has been
    popped**: `accepted = popped`, nothing is left in any queue or transit buffer. A popped ordinary statement has
    been written to every accepting sink of its logger at its pop (`C03_pop_writes_exactly`, whole event log), and the
    event log only grows: these writes precede every event emitted after the erase — in particular the destructor
    events of the sinks the erase releases (`C17_no_use_after_dtor` is the same fact read from the log). -/
theorem C17_erase_after_everything_popped (x : BSt) (hA : PA.Inv x) (hT : TCInv x) (i : Nat)
    (he : (allEmpty x).2 = true) :
    let y := (allEmpty x).1.setLg i (fun l => { l with erased := true })
    ∀ t, t < y.ths.length → (y.th t).accepted = (y.th t).popped ∧ (y.th t).buf = [] ∧ (y.th t).qStmts = [] := by
  intro y t ht
  have hd := allEmpty_drained x hT he t ht
  have hA' : PA.Inv (allEmpty x).1 := PA.allEmpty_closed PA.Inv.closed.toClosedH x hA
  have hc := (hA'.a.th t).cons
  refine ⟨?_, hd.1, hd.2⟩
  show ((allEmpty x).1.th t).accepted = ((allEmpty x).1.th t).popped
  rw [hc, hd.1, hd.2]; simp

/-- **Nothing logged through an erased logger is pending anywhere** (every schedule): in every reachable state every
    statement ever accepted through a logger object that is erased now has been popped by the backend — so the
    statements logged before the removal were all processed before the logger was freed. -/
theorem C17_erased_logger_statements_popped (s0 : BSt) (hA : PA.Inv s0) (h0 : LoggerFresh s0) (ops : List Op) :
    let s := runOps s0 ops
    ∀ t, t < s.ths.length → ∀ st ∈ (s.th t).accepted, (s.lgOf st.lg).erased = true → st ∈ (s.th t).popped := by
  intro s t ht st hst he
  have hc := C03_conservation s0 hA ops t
  have hlive := (C17_erased_logger_has_no_record s0 h0 ops).1 t ht st
  have hst' : st ∈ (s.th t).popped ++ (s.th t).buf ++ (s.th t).qStmts := by rw [← hc]; exact hst
  rcases List.mem_append.mp hst' with h1 | h1
  · rcases List.mem_append.mp h1 with h2 | h2
    · exact h2
    · rw [hlive (Or.inr h2)] at he; cases he
  · rw [hlive (Or.inl h1)] at he; cases he

/-! ### (c) re-creation after the removal -/

/-- **Re-create after removal.** In a state where no un-erased object of the name `g` is left — which is the state
    `remove_logger_blocking(g)` returns into (`C17_remove_blocking_returns_after_erase`: the object is erased, all its
    statements popped, nobody parked in it) unless somebody re-created the name already —, `create_or_get_logger(g, sl)`
    with *other* sinks `sl` yields a **fresh** logger object (a new index: the erased object is never handed out
    again and is not touched), valid, not erased, of that name and with **exactly the sinks `sl`**; the name resolves
    to it; and a statement dispatched through it calls into sinks of `sl` only (no event of the dispatch uses any
    other sink — the old sinks are not written to), emitting no destructor. -/
theorem C17_recreate_after_removal (s : BSt) (a g : Nat) (sl : List Nat)
    (hok : ¬ (!idleActor s a ∨ loggerBusy s g ∨ sl.any (fun sid => !(s.sinks.any (fun k => k.sid = sid ∧ k.alive)))))
    (hex : (List.range s.lgs.length).find? (fun i => (s.lgOf i).gid = g ∧ !(s.lgOf i).erased) = none) :
    let s' := (applyFront s (.create a g sl)).1
    let n := s.lgs.length
    loggerOf s' g = some n ∧ s'.lgOf n = { gid := g, sinks := sl } ∧ (∀ j, j < n → s'.lgOf j = s.lgOf j) ∧
    ∀ (X : BSt) (st : Stmt), (X.lgOf st.lg).sinks = sl →
      ∃ evs, (dispatch X st).1.log = evs ++ X.log ∧
        ∀ e ∈ evs, (∀ sid, usesSink sid e = true → sid ∈ sl) ∧ ∀ sid, isDtor sid e = false := by
  intro s' n
  obtain ⟨h1, h2⟩ := C17_create_fresh_object s a g sl hok hex
  have hnew : s'.lgOf n = { gid := g, sinks := sl } := by
    simp only [BSt.lgOf, List.getD_eq_getElem?_getD]
    show (s'.lgs[n]?).getD default = _
    rw [h1]; simp [n]
  refine ⟨h2, hnew, ?_, ?_⟩
  · intro j hj
    simp only [BSt.lgOf, List.getD_eq_getElem?_getD]
    show (s'.lgs[j]?).getD default = _
    rw [h1, List.getElem?_append_left hj]
  · intro X st hX
    obtain ⟨evs, ho, hev⟩ := dispatch_out X st
    rw [hX] at hev
    exact ⟨evs, ho.log, hev⟩

/-! ### (d) the ids are valid along every run -/

/-- **No dangling id.** In every reachable state (initial states `RemovalFresh`): every name points to an existing
    logger object of that name; the statement of every parked call, and every statement ever accepted into a queue
    (hence every record in a queue or a transit buffer), carries the index of an existing logger object — so the
    clauses of the C17 theorems about `lgOf st.lg` never speak about the default object of an out-of-range index; and
    two logger objects that are not erased never share a name. -/
theorem C17_ids_in_range (s0 : BSt) (h0 : RemovalFresh s0) (ops : List Op) :
    let s := runOps s0 ops
    (∀ p ∈ s.names, p.2 < s.lgs.length ∧ (s.lgOf p.2).gid = p.1) ∧
    (∀ x ∈ s.actors, x.alive = true → ∀ st, pendStmt x.pend = some st → st.lg < s.lgs.length) ∧
    (∀ t st, st ∈ (s.th t).accepted → st.lg < s.lgs.length) ∧
    (∀ i j, i < s.lgs.length → j < s.lgs.length → (s.lgOf i).erased = false → (s.lgOf j).erased = false →
      (s.lgOf i).gid = (s.lgOf j).gid → i = j) := by
  intro s
  have h := FRI_runOps s0 h0.inv ops
  have hla := h.1.1.2.1
  exact ⟨hla.names, fun x hx ha st hst => (hla.pendOK x hx ha st hst).2.2, h.2.accLg, h.2.uniq⟩

/-! ### non-vacuity -/

theorem c17Init_referenced : ∀ sid ∈ c17Init.sids, 0 < sinkRefs c17Init sid := by decide

/-- (a): the life of `Props/C17.lean` — statement through logger 0, user drops both handles, `remove_logger(0)`, polls:
    sink 0 (reference count 0) is dead with exactly one destructor event; sink 1 (still held by logger 1) has a
    positive count, is alive and has none -/
example :
    let ops : List Op := [.front (.tstart 0), .front (.log 0 0 4 8 false), .front (.dropSink 0), .front (.dropSink 1),
      .front (.remove 0 0), .poll [], .poll []]
    let s := runOps c17Init ops
    s.sids = [0, 1] ∧ sinkRefs s 0 = 0 ∧ (s.sinkOf 0).alive = false ∧ s.log.countP (isDtor 0) = 1 ∧
    sinkRefs s 1 = 1 ∧ (s.sinkOf 1).alive = true ∧ s.log.countP (isDtor 1) = 0 := by
  refine ⟨by decide +kernel, by decide +kernel, by decide +kernel, by decide +kernel, by decide +kernel,
    by decide +kernel, by decide +kernel⟩

/-- (a) with hook site 9: while sink 0 is being destroyed the user drops the handle of sink 1 and removes logger 1 —
    in the end both sinks are unreferenced and both destroyed, once each -/
example :
    let ops : List Op := [.front (.tstart 0), .front (.dropSink 0), .front (.remove 0 0),
      .poll [(9, 1, [.dropSink 1, .remove 0 1])], .poll [], .poll []]
    let s := runOps c17Init ops
    sinkRefs s 0 = 0 ∧ sinkRefs s 1 = 0 ∧ (s.sinkOf 0).alive = false ∧ (s.sinkOf 1).alive = false ∧
    s.log.countP (isDtor 0) = 1 ∧ s.log.countP (isDtor 1) = 1 := by
  refine ⟨by decide +kernel, by decide +kernel, by decide +kernel, by decide +kernel, by decide +kernel,
    by decide +kernel⟩

/-- a small blocking queue: one statement fits, a second record does not -/
def c17SmallCfg : Cfg := { c17Cfg with qcap := 64 }
def c17SmallInit : BSt := { c17Init with cfg := c17SmallCfg }

/-- (d) non-vacuity of `C17_parked_removal_exclusive`: the queue of thread 0 is full, so its
    `remove_logger_blocking(0)` parks with its removal request not yet enqueued; thread 1's request for the same name
    is refused (the name resolves to nothing), the name is gone from the table -/
example :
    let ops : List Op := [.front (.tstart 0), .front (.tstart 1), .front (.log 0 0 4 8 false),
      .front (.removeBlocking 0 0), .front (.removeBlocking 1 0)]
    let s := runOps c17SmallInit ops
    (match (s.actor 0).map (·.pend) with
      | some (.retry st 4) => st.kind == .removal 0 && st.lg == 0
      | _ => false) = true ∧
    (match (s.actor 1).map (·.pend) with | some Pend.none => true | _ => false) = true ∧
    s.names = [(1, 1)] ∧ (s.lgOf 0).valid = true := by
  refine ⟨by decide +kernel, by decide +kernel, by decide +kernel, by decide +kernel⟩

/-- (b), (c): `remove_logger_blocking(0)` by thread 0 after a statement through logger 0; two polls later the caller's
    resume answers `done`: the statement was written to both old sinks *before* the destructor of sink 0, the object is
    erased; `create_or_get_logger(0, [1])` then yields the fresh object 2 with sink 1 only, and the next statement
    through the name goes to sink 1 only -/
example :
    let ops1 : List Op := [.front (.tstart 0), .front (.log 0 0 4 8 false), .front (.dropSink 0),
      .front (.removeBlocking 0 0), .poll [], .poll [], .poll []]
    let s1 := runOps c17Init ops1
    let s2 := runOps s1 [.front (.resume 0), .front (.create 0 0 [1]), .front (.log 0 0 4 8 false), .poll []]
    (resume s1 0).2 = "done" ∧ (s1.lgOf 0).erased = true ∧
    (List.range s1.lgs.length).find? (fun i => (s1.lgOf i).gid = 0 ∧ !(s1.lgOf i).erased) = none ∧
    (s1.log.filterMap c17Ev).reverse = [(0, 0), (0, 100), (1, 0)] ∧
    loggerOf s2 0 = some 2 ∧ (s2.lgOf 2).sinks = [1] ∧
    (s2.log.filterMap c17Ev).reverse = [(0, 0), (0, 100), (1, 0), (0, 101)] := by
  refine ⟨by decide +kernel, by decide +kernel, by decide +kernel, by decide +kernel, by decide +kernel,
    by decide +kernel, by decide +kernel⟩

end Backend
