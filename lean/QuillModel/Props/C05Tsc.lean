import QuillModel.Tsc.Runs
import QuillModel.Tsc.PipeProofs
/-!
# C05 (and the ordering half of C06) for `ClockSourceType::Tsc` loggers — the TSC → epoch conversion

Property theorems only (lemmas: `Tsc/Proofs.lean`, `Tsc/Runs.lean`, `Tsc/PipeProofs.lean`). Model: `Tsc/Model.lean`
(`RdtscClock` as it is, one conversion per decoded record in read order, the `ts_now` gate on the converted value, the pop
rule on the converted value). Quantifiers: every clock state, every sequence of conversions and idle-path resyncs, every
value of the `rdtsc` / `system_clock` reads of every resync attempt; the scaling `sc` is any function that is monotone and
additive up to `ε` (`ScaleOK`) — `scaleExact num k` is one with `ε = 1` (`C05Tsc_exact_scale_ok`); the IEEE computation of
the code (`scaleF64`, run bit for bit against the real class by `driver tsc`) is monotone by the monotonicity of
round-to-nearest and is compared with `scaleExact` on every conversion of the correspondence stream (trusted base).

What is proved:
 (i)   between two successful resyncs the conversion is monotone in the tsc value (`C05Tsc_monotone_between_resyncs`),
       and the value a call returns never depends on the resync it may trigger (`C05Tsc_value_independent_of_reads`);
 (ii)  across a resync every tsc value is moved by exactly the drift of the old line at the new base point, up to `ε`
       (`C05Tsc_resync_shift`); hence a later tsc can be converted below an earlier one by at most `drift + ε`
       (`C05Tsc_inversion_bound`), never when the old line is behind (`C05Tsc_no_inversion_when_behind`) or when the two
       statements are further apart than `drift + ε` (`C05Tsc_no_inversion_beyond_drift`);
       **the bound is attained by the code as it is** (finding F38): `C05Tsc_backstep_witness` — one thread, grace period
       on, both statements enqueued at once: the sink receives timestamps W+1002100 then W+1001650;
       `C05Tsc_inversion_witness` — two threads: the statement whose log call began later is written first;
 (iii) per-thread order and conservation do not depend on the conversion (`C05Tsc_thread_order_any_conversion`), and the
       pop rule takes a least converted front (`C05Tsc_pop_takes_least_converted`).

       `C05Tsc_gate_needed`: the `ts_now` gate must follow the conversion for TSC loggers too (seeded change C05/m2).

NOT claimed: "the backend writes the statements of TSC loggers in non-decreasing timestamp order" across a resync — false of the
code as it is (F38, listed in known_findings.json; the check reports its input class as KNOWN-FINDING).
-/
namespace Tsc

/-- **(i)** Conversions made under the same ghost epoch (no successful resync in between) are order-preserving in the
    tsc value, in both directions, for every run of conversions and idle resyncs from every clock state. -/
theorem C05Tsc_monotone_between_resyncs {sc : Int → Int} {ε : Int} (hs : ScaleOK sc ε) (c : Clock) (ops : List COp) :
    (crun Params.code sc c ops).Pairwise (fun o1 o2 => o1.epoch = o2.epoch →
      InWin o1.base.tsc o1.tsc → InWin o1.base.tsc o2.tsc →
      (o1.tsc ≤ o2.tsc → o1.value ≤ o2.value) ∧ (o2.tsc ≤ o1.tsc → o2.value ≤ o1.value)) := by
  have hb := crun_same_epoch_same_base sc ops c
  have hall : ∀ o ∈ crun Params.code sc c ops, o.value = convAt sc o.base o.tsc := fun o ho => (crun_obs sc ops c o ho).2.2
  rw [List.pairwise_iff_forall_sublist] at hb ⊢
  intro o1 o2 hsub he w1 w2
  have e := hb hsub he
  have m1 : o1 ∈ crun Params.code sc c ops := hsub.subset (by simp)
  have m2 : o2 ∈ crun Params.code sc c ops := hsub.subset (by simp)
  rw [hall o1 m1, hall o2 m2, ← e]
  exact ⟨fun h => conv_mono hs o1.base w1 w2 h, fun h => conv_mono hs o1.base w2 w1 h⟩

/-- A call answers against the base that was current when it was entered — also the call that triggers the resync. -/
theorem C05Tsc_value_independent_of_reads (sc : Int → Int) (c : Clock) (tsc : Nat) (rs rs' : List Read) :
    (timeSinceEpoch Params.code sc c tsc rs).1 = (timeSinceEpoch Params.code sc c tsc rs').1 := by
  rw [tse_value, tse_value]

/-- **(ii)** A resync from base `old` to base `new` moves the converted value of every tsc by the drift
    `convAt old new.tsc - new.time` (how far the old line runs ahead of the wall clock read at the new base point), ± ε. -/
theorem C05Tsc_resync_shift {sc : Int → Int} {ε : Int} (hs : ScaleOK sc ε) (old new : Base) {t : Nat}
    (wo : InWin old.tsc t) (wn : InWin new.tsc t) (wb : InWin old.tsc new.tsc) :
    convAt sc old t - convAt sc new t ≤ drift sc old new + ε ∧ drift sc old new - ε ≤ convAt sc old t - convAt sc new t :=
  shift_bound hs old new wo wn wb

/-- How far a later statement can land below an earlier one converted before the resync. -/
theorem C05Tsc_inversion_bound {sc : Int → Int} {ε : Int} (hs : ScaleOK sc ε) (old new : Base) {t1 t2 : Nat}
    (w1 : InWin old.tsc t1) (wo : InWin old.tsc t2) (wn : InWin new.tsc t2) (wb : InWin old.tsc new.tsc) (le : t1 ≤ t2) :
    convAt sc old t1 - convAt sc new t2 ≤ drift sc old new + ε := by
  have m := conv_mono hs old w1 wo le
  have s := (shift_bound hs old new wo wn wb).1
  omega

/-- The other direction: the **earlier** statement is converted after the resync (it sat in another thread's queue), the later
    one before it — a forward step of the base (old line behind the wall clock, `drift < 0`) lifts the earlier statement above
    the later one by at most `-drift + ε`. Either sign of the drift can therefore invert two threads; only a positive drift can make
    the timestamps of ONE thread decrease. -/
theorem C05Tsc_inversion_bound_forward {sc : Int → Int} {ε : Int} (hs : ScaleOK sc ε) (old new : Base) {t1 t2 : Nat}
    (w1 : InWin old.tsc t1) (wn : InWin new.tsc t1) (w2 : InWin old.tsc t2) (wb : InWin old.tsc new.tsc) (le : t1 ≤ t2) :
    convAt sc new t1 - convAt sc old t2 ≤ -(drift sc old new) + ε := by
  have m := conv_mono hs old w1 w2 le
  have s := (shift_bound hs old new w1 wn wb).2
  omega

theorem C05Tsc_no_inversion_when_behind {sc : Int → Int} {ε : Int} (hs : ScaleOK sc ε) (old new : Base) {t1 t2 : Nat}
    (w1 : InWin old.tsc t1) (wo : InWin old.tsc t2) (wn : InWin new.tsc t2) (wb : InWin old.tsc new.tsc) (le : t1 ≤ t2)
    (hd : drift sc old new + ε ≤ 0) : convAt sc old t1 ≤ convAt sc new t2 := by
  have := C05Tsc_inversion_bound hs old new w1 wo wn wb le
  omega

theorem C05Tsc_no_inversion_beyond_drift {sc : Int → Int} {ε : Int} (hs : ScaleOK sc ε) (old new : Base) {t1 t2 : Nat}
    (wo : InWin old.tsc t1) (wn : InWin new.tsc t1) (wb : InWin old.tsc new.tsc)
    (gap : convAt sc new t1 + drift sc old new + ε ≤ convAt sc new t2) : convAt sc old t1 ≤ convAt sc new t2 := by
  have s := (shift_bound hs old new wo wn wb).1
  omega

/-- the exact rational scaling is an instance (non-vacuity of `ScaleOK`, and the reference of the `within 1 ns` check) -/
theorem C05Tsc_exact_scale_ok (num k : Nat) : ScaleOK (scaleExact num k) 1 := scaleExact_ok num k

/-! ### witnesses: the bound is attained (finding F38) — the scripts of `corpus/C05/tsc_resync_*.e2e.txt` -/

/-- `ns_per_tick = 1.0` -/
def sc1 : Int → Int := scaleExact 1 0

/-- the clock after its construction at `(W + 2000, 1002000)`, resync interval 1 ms = 1000000 ticks -/
def wClock : Clock :=
  { b1 := ⟨1700000000000002000, 1002000⟩, version := 1, interval := 1000000, intervalOrig := 1000000, epoch := 1 }

/-- the read of the resync: tsc 2007000, wall clock W + 1006500 (the old line says W + 1007000: drift 500 ns) -/
def wRead : Read := ⟨2007000, 1700000000001006500, 2007000⟩

/-- `ts_now` of the pass: wall clock − 1 µs grace period -/
def wNow : Option Nat := some 1700000000001005500

/-- one thread logs B (tsc 2002100) and C (tsc 2002150); one pass decodes both, then two pops -/
def wBackstep : List POp :=
  [.decode 1 1 2002100 wNow [wRead], .decode 1 2 2002150 wNow [wRead], .pop, .pop]

/-- two threads: thread 1 logs B, then thread 2 logs C -/
def wInversion : List POp :=
  [.decode 1 1 2002100 wNow [wRead], .decode 2 2 2002150 wNow [wRead], .pop, .pop]

/-- **Finding F38, one thread.** Grace period on, both statements pass the `ts_now` gate, and the sink receives B with
    W+1002100 and then C with W+1001650: the written timestamps decrease by 450 ns (= drift − 50 ticks). -/
theorem C05Tsc_backstep_witness :
    ((prun Params.code sc1 { clock := wClock } wBackstep).written.map (fun e => (e.id, e.tsc, e.ts)))
      = [(1, 2002100, 1700000000001002100), (2, 2002150, 1700000000001001650)] ∧
    drift sc1 ⟨1700000000000002000, 1002000⟩ ⟨1700000000001006500, 2007000⟩ = 500 := by
  decide +kernel

/-- **Finding F38, two threads.** Same clock values; the pop rule takes the least converted front: C (log call started at
    tsc 2002150) is written before B (tsc 2002100). -/
theorem C05Tsc_inversion_witness :
    ((prun Params.code sc1 { clock := wClock } wInversion).written.map (fun e => (e.id, e.th, e.tsc, e.ts)))
      = [(2, 2, 2002150, 1700000000001001650), (1, 1, 2002100, 1700000000001002100)] := by
  decide +kernel

/-- non-vacuity of (i)/(ii) on the witness numbers: the windows hold and the bound of `C05Tsc_inversion_bound` is met
    with 450 ≤ 500 + 1 -/
example : InWin 1002000 2002100 ∧ InWin 1002000 2002150 ∧ InWin 2007000 2002150 ∧ InWin 1002000 2007000 ∧
    convAt sc1 ⟨1700000000000002000, 1002000⟩ 2002100 - convAt sc1 ⟨1700000000001006500, 2007000⟩ 2002150 = 450 := by
  decide +kernel

/-! ### the `ts_now` gate applies to TSC loggers (after the conversion) — seeded change C05/m2 -/

/-- the schedule of `corpus/C05/tsc_gate_window.e2e.txt` with an exact conversion: inside one pass, after thread 1's queue was read,
    thread 1 logs a1 (tsc 1010100) and thread 2 logs b1 (tsc 1010600); the pass (`ts_now` = W+9000) reads thread 2's queue and
    pops; the next pass (`ts_now` = W+19000) reads both queues and pops -/
def gClock : Clock :=
  { b1 := ⟨1700000000000005000, 1005000⟩, version := 1, interval := 1000000000, intervalOrig := 1000000000, epoch := 1 }

def gPass1 : List POp := [.decode 2 2 1010600 (some 1700000000000009000) [], .pop]
def gPass2 (b1Left : Bool) : List POp :=
  [.decode 1 1 1010100 (some 1700000000000019000) []] ++
  (if b1Left then [.decode 2 2 1010600 (some 1700000000000019000) []] else []) ++ [.pop, .pop]

/-- **The gate is needed for TSC loggers.** Code as it is: b1 is newer than `ts_now`, is not consumed by the first pass, and the
    second pass writes a1 then b1. With the gate skipped for TSC loggers (`gateAfterConv = false`: the `else if` of seeded change
    C05/m2) the first pass caches and writes b1 and a1 follows it — decreasing timestamps although both statements were enqueued
    at once (the grace-period premise holds) and no resync took place. -/
theorem C05Tsc_gate_needed :
    ((prun Params.code sc1 { clock := gClock } (gPass1 ++ gPass2 true)).written.map (fun e => (e.id, e.ts)))
      = [(1, 1700000000000010100), (2, 1700000000000010600)] ∧
    ((prun { Params.code with gateAfterConv := false } sc1 { clock := gClock } (gPass1 ++ gPass2 false)).written.map
        (fun e => (e.id, e.ts))) = [(2, 1700000000000010600), (1, 1700000000000010100)] := by
  decide +kernel

/-! ### (iii) the conversion does not enter the per-thread order or the exactly-once argument -/

/-- For **every** conversion function (monotone or not), every parameter record and every sequence of decodes, idle
    resyncs and pops: per thread, what was written followed by what is still buffered is exactly what was decoded and
    accepted, in decode order. Timestamps decide *which* buffer is popped next, never the order inside a thread nor whether
    a statement is written. -/
theorem C05Tsc_thread_order_any_conversion (p : Params) (sc : Int → Int) (c : Clock) (ops : List POp) (t : Nat) :
    let s := prun p sc { clock := c } ops
    s.written.filter (fun e => e.th = t) ++ s.buf t = s.accepted.filter (fun e => e.th = t) :=
  (PInv_run p sc ops _ (PInv_init c)).cons t

/-- `_process_lowest_timestamp_transit_event` compares the **converted** value stored in the transit event: the event it
    takes is a front, and no cached buffer has a front with a smaller converted value. -/
theorem C05Tsc_pop_takes_least_converted (s : Pipe) (t : Nat) (e : Ev) (h : minFront s.buf s.order none = some (t, e)) :
    (∃ r, s.buf t = e :: r) ∧ ∀ t' ∈ s.order, ∀ e' r, s.buf t' = e' :: r → e.ts ≤ e'.ts :=
  ⟨minFront_front s.buf s.order none (fun _ _ hq => by cases hq) t e h, (minFront_least s.buf s.order none t e h).2⟩

end Tsc
