import QuillModel.Backend.LiftRingTop
/-!
# C10 / C18 — a backtrace statement reaches a sink at most once, over the whole history (closes the partial of C10Replay)

`Props/C10Replay.lean` proves what ONE repaired replay does (`C10_replay_once_per_flush`, `C10_replay_clears_ring`) and
left the whole-log form open. This file closes it, for **every schedule** `ops : List Op` from every freshly started
system that runs the repaired replay callback (`StartR`: `Fresh` + `replayCatchesPerEvent = true`), every configuration
otherwise, every fault schedule of the sinks:

* `C10_backtrace_at_most_once_per_flush`: a `LOG_BACKTRACE` statement (`Event::Log`, level 9) accepted by any queue has,
  in the WHOLE event history, at most as many `write` events (any level: `bwcount`) at sink `sid` as `sid` occurs in its
  logger's sink list — whatever number of `flush_backtrace()` calls, flush-level statements, `init_backtrace` re-sizings,
  ring wrap-arounds and sink faults the schedule contains;
* `C10_log_at_most_once_any_level`: the same for every `Event::Log` statement, the level is irrelevant (for ordinary
  statements this strengthens `C03_at_most_once`, which counts with `wcount` and so ignores level-9 `write` events);
* `C10_nothing_handed_before_pop`: a statement still in a queue or transit buffer has no `write` event at all;
* `C10_ring_potential`: the invariant that carries it (helpers: `Backend/LiftRing{Pot,Pop,Top}.lean`) —
  `writes + ring occupancy × sink multiplicity ≤ grants of the pops` — a stored statement still owns its grant, a replay
  converts occupancy into writes and always clears the ring, `Ring.store` / `setCapacity` only drop.

The bound is FALSE for the pinned callback (`replayCatchesPerEvent = false`): `C10_whole_bound_false_pinned` (`decide`, the
F26 schedule: statement 0 is written twice to a sink listed once).
-/
namespace Backend
open Backend.PA

/-- a freshly started system (`Fresh`: no context, no actor, empty history, no backtrace ring yet; loggers, sinks, sink
    fault schedules, clock and all other configuration arbitrary) that runs the repaired replay callback -/
structure StartR (s : BSt) : Prop where
  fresh : Fresh s
  rc : s.cfg.replayCatchesPerEvent = true

/-- every reachable state satisfies bundle A's invariants and the ring-potential invariant -/
theorem StartR.run {s0 : BSt} (h : StartR s0) (ops : List Op) : Inv (runOps s0 ops) ∧ InvRg (runOps s0 ops) :=
  ⟨h.fresh.inv.run ops, (h.fresh.invRg h.rc).run ops⟩

/-- **the invariant:** in every reachable state, for every sink and statement id: the `write` events of that id at that
    sink (any level) plus what the backtrace rings still hold of it (occurrences in the ring of logger `j` × multiplicity
    of the sink in `j`'s sink list, summed over the loggers) is at most what the popped `Event::Log` statements with that
    id grant (multiplicity of the sink in the statement's logger); and stored statements sit in their own logger's ring -/
theorem C10_ring_potential (s0 : BSt) (h0 : StartR s0) (ops : List Op) (sid id : Nat) :
    bwcount (runOps s0 ops).log sid id + ringPot (runOps s0 ops) sid id ≤ btBound (runOps s0 ops) sid id ∧
    (∀ i r, ((runOps s0 ops).lgOf i).bt = some r → ∀ x ∈ r.items, x.lg = i) :=
  ⟨(h0.run ops).2.bound sid id, (h0.run ops).2.ring⟩

/-- **at most once, every level, whole history:** every `Event::Log` statement accepted by any queue is handed to sink
    `sid` at most as often as `sid` occurs in its logger's sink list — dispatches and backtrace replays together -/
theorem C10_log_at_most_once_any_level (s0 : BSt) (h0 : StartR s0) (ops : List Op) (i : Nat) (st : Stmt)
    (hm : st ∈ ((runOps s0 ops).th i).accepted) (hk : st.kind = .log) (sid : Nat) :
    bwcount (runOps s0 ops).log sid st.id ≤ ((runOps s0 ops).lgOf st.lg).sinks.count sid :=
  InvRg.at_most_once (h0.run ops).1 (h0.run ops).2 i st hm (by rw [hk]; rfl) sid

/-- **a backtrace statement is handed to a sink at most once per occurrence of the sink, over the WHOLE event log and
    every schedule** (the whole-log form left open in `Props/C10Replay.lean`) -/
theorem C10_backtrace_at_most_once_per_flush (s0 : BSt) (h0 : StartR s0) (ops : List Op) (i : Nat) (st : Stmt)
    (hm : st ∈ ((runOps s0 ops).th i).accepted) (hk : st.kind = .log) (_h9 : st.lvl = 9) (sid : Nat) :
    bwcount (runOps s0 ops).log sid st.id ≤ ((runOps s0 ops).lgOf st.lg).sinks.count sid :=
  C10_log_at_most_once_any_level s0 h0 ops i st hm hk sid

/-- **nothing is handed to a sink before the pop** (any level): an `Event::Log` statement still in a queue or a transit
    buffer has no `write` event in the whole history -/
theorem C10_nothing_handed_before_pop (s0 : BSt) (h0 : StartR s0) (ops : List Op) (i : Nat) (st : Stmt)
    (hm : st ∈ ((runOps s0 ops).th i).buf ++ ((runOps s0 ops).th i).qStmts) (hk : st.kind = .log) (sid : Nat) :
    bwcount (runOps s0 ops).log sid st.id = 0 :=
  InvRg.unpopped_unwritten (h0.run ops).1 (h0.run ops).2 i st hm (by rw [hk]; rfl) sid

/-- a sink listed once gets a backtrace statement at most once, and a sink the logger does not have never gets it -/
theorem C10_backtrace_once_or_never (s0 : BSt) (h0 : StartR s0) (ops : List Op) (i : Nat) (st : Stmt)
    (hm : st ∈ ((runOps s0 ops).th i).accepted) (hk : st.kind = .log) (h9 : st.lvl = 9) (sid : Nat) :
    (((runOps s0 ops).lgOf st.lg).sinks.count sid = 1 → bwcount (runOps s0 ops).log sid st.id ≤ 1) ∧
    (sid ∉ ((runOps s0 ops).lgOf st.lg).sinks → bwcount (runOps s0 ops).log sid st.id = 0) := by
  have h := C10_backtrace_at_most_once_per_flush s0 h0 ops i st hm hk h9 sid
  refine ⟨fun h1 => by omega, fun hn => ?_⟩
  rw [List.count_eq_zero_of_not_mem hn] at h
  omega

/-! ### non-vacuity, and the pinned callback -/

theorem c10ReplayInit_start : StartR (c10ReplayInit true) :=
  ⟨⟨by decide, rfl, rfl, rfl, rfl, fun i => by
      cases i with
      | zero => rfl
      | succ j => rw [lgOf_default_of_ge _ _ (by simp [c10ReplayInit])]; rfl⟩, rfl⟩

/-- the F26 schedule under the repaired callback: three backtrace statements (ids 0, 1, 2) are accepted by context 0,
    the sink is listed once, throws on its 2nd `write_log`, two `flush_backtrace()` — statement 0 and 2 were handed to
    the sink exactly once, statement 1 (the fault) never, and the rings are empty again -/
example : (((runOps (c10ReplayInit true) c10ReplaySched).th 0).accepted.filter
      (fun st => st.kind == .log && st.lvl == 9)).map (·.id) = [0, 1, 2] ∧
    (∃ st ∈ ((runOps (c10ReplayInit true) c10ReplaySched).th 0).accepted, st.kind = .log ∧ st.lvl = 9 ∧ st.id = 0 ∧ st.lg = 0) ∧
    ((runOps (c10ReplayInit true) c10ReplaySched).lgOf 0).sinks.count 1 = 1 ∧
    bwcount (runOps (c10ReplayInit true) c10ReplaySched).log 1 0 = 1 ∧
    bwcount (runOps (c10ReplayInit true) c10ReplaySched).log 1 1 = 0 ∧
    bwcount (runOps (c10ReplayInit true) c10ReplaySched).log 1 2 = 1 ∧
    ringPot (runOps (c10ReplayInit true) c10ReplaySched) 1 0 = 0 ∧
    btBound (runOps (c10ReplayInit true) c10ReplaySched) 1 0 = 1 := by decide

/-- in the middle of the same schedule (before the flushes are processed) the statements sit in the ring and own their
    grants: no write yet, potential 1 = bound 1 -/
example : bwcount (runOps (c10ReplayInit true) (c10ReplaySched.take 11)).log 1 0 = 0 ∧
    ringPot (runOps (c10ReplayInit true) (c10ReplaySched.take 11)) 1 0 = 1 ∧
    btBound (runOps (c10ReplayInit true) (c10ReplaySched.take 11)) 1 0 = 1 := by decide

/-- **the premise `replayCatchesPerEvent = true` is necessary:** with the pinned callback the same schedule, from a
    start state that is `Fresh`, violates the bound — statement 0 (accepted, level 9, logger 0 whose sink list contains
    sink 1 once) has two `write` events at sink 1 -/
theorem C10_whole_bound_false_pinned :
    Fresh (c10ReplayInit false) ∧
    (∃ st ∈ ((runOps (c10ReplayInit false) c10ReplaySched).th 0).accepted,
      st.kind = .log ∧ st.lvl = 9 ∧
      ¬ bwcount (runOps (c10ReplayInit false) c10ReplaySched).log 1 st.id ≤
        ((runOps (c10ReplayInit false) c10ReplaySched).lgOf st.lg).sinks.count 1) := by
  refine ⟨⟨by decide, rfl, rfl, rfl, rfl, fun i => by
      cases i with
      | zero => rfl
      | succ j => rw [lgOf_default_of_ge _ _ (by simp [c10ReplayInit])]; rfl⟩, ?_⟩
  decide

end Backend
