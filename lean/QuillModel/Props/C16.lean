import QuillModel.Backend.LevelProofs
/-!
# C16 — a statement reaches a sink iff its level passes logger, sink and sink filters

Property theorems only (helpers: `Backend/PcBasic.lean`, `Backend/LevelProofs.lean`). Quantifiers: every state of
the backend model (so: every history of level changes, transit buffers, other threads), every statement level,
static (`dyn = false`) or supplied at run time (`dyn = true`), every logger level, every list of sinks with
arbitrary level thresholds, filters and fault schedules, every configuration `Cfg`.
The numeric levels are the ranks of `enum class LogLevel` (obligation `Obligations.BackendC.level_order`).
-/
namespace Backend
open PC Spsc

/-- The frontend test is the numeric comparison `statement level ≥ logger level`
    (`LoggerBase::should_log_statement`). -/
theorem C16_shouldLog_iff (stmtLvl loggerLvl : Nat) : shouldLog stmtLvl loggerLvl = true ↔ loggerLvl ≤ stmtLvl := by
  simp [shouldLog]

/-- **Below the logger's level nothing happens.** A log call (static macro or dynamic-level call) whose level is
    below the level the logger has *at the moment of the call* evaluates nothing: the observation reports `ev=0`
    (no argument was evaluated), no record is built, no thread context is created, no queue, buffer, counter or
    parked call changes — the state is the old one except for the harness' statement counter `nextId`. -/
theorem C16_below_level_nothing (s : BSt) (a g lvl len : Nat) (dyn : Bool) (lgi : Nat)
    (hl : loggerOf s g = some lgi) (hi : idleActor s a = true)
    (hlv : ¬ (s.lgOf lgi).level ≤ lvl) :
    applyFront s (.log a g lvl len dyn) =
      (({ s with nextId := s.nextId + 1 } : BSt).setActor a (fun x => { x with inCall := none }),
        if dyn then s!"id={s.nextId} skip ev=0 bytes=0" else s!"id={s.nextId} ev=0 bytes=0") := by
  have hlv' : shouldLog lvl (s.lgOf lgi).level = false := by simp [shouldLog, hlv]
  have hl' : (({ s with nextId := s.nextId + 1 } : BSt).lgOf lgi).level = (s.lgOf lgi).level := rfl
  simp only [applyFront]
  rw [withLogger_eq _ hl hi, hl', hlv']
  simp only [Bool.false_eq_true, if_false]
  rw [noteCall_idle]
  exact idle_not_parked (s := { s with nextId := s.nextId + 1 }) hi

/-- in particular no thread's queue, transit buffer or history changes -/
theorem C16_below_level_threads (s : BSt) (a g lvl len : Nat) (dyn : Bool) (lgi : Nat)
    (hl : loggerOf s g = some lgi) (hi : idleActor s a = true) (hlv : ¬ (s.lgOf lgi).level ≤ lvl) :
    (applyFront s (.log a g lvl len dyn)).1.ths = s.ths := by
  rw [C16_below_level_nothing s a g lvl len dyn lgi hl hi hlv]; rfl

/-- without a usable logger handle or from a thread that is parked inside another call, nothing happens at all -/
theorem C16_no_handle_noop (s : BSt) (a g lvl len : Nat) (dyn : Bool)
    (h : loggerOf s g = none ∨ idleActor s a = false) :
    applyFront s (.log a g lvl len dyn) = (s, "noop") := by
  simp only [applyFront, withLogger]
  rcases h with h | h
  · simp only [h]
  · rw [h]; cases loggerOf s g <;> rfl

/-- **At or above the logger's level the statement is evaluated and handed to the queue** — with exactly the
    level it was given, static or dynamic (`(mkStmt …).lvl = lvl` whatever `dyn`). With `st` the record built
    from the call and `e` the caller's thread context (created on first use):
    * a caller armed to stall parks holding `st`, nothing else changes;
    * otherwise, if the queue grants the reservation, `st` (stamped with the commit clock) is appended to the
      thread's queue and `accepted` history, and no other thread is touched;
    * if the queue refuses it, nothing is appended anywhere: a dropping queue counts one discarded statement and
      the call returns, a blocking queue parks the call with the very same record for a retry. -/
theorem C16_at_level_enqueued (s : BSt) (a g lvl len : Nat) (dyn : Bool) (lgi : Nat)
    (hl : loggerOf s g = some lgi) (hi : idleActor s a = true)
    (hwf : ∀ x i, s.actor a = some x → x.ctx = some i → i < s.ths.length)
    (hlv : (s.lgOf lgi).level ≤ lvl) :
    let s1 : BSt := { s with nextId := s.nextId + 1 }
    let cont := if dyn then 0 else 5
    let st := mkStmt s1 a lgi .log lvl len dyn s.nextId false
    let e := ensureCtx s1 a
    let r := applyFront s (.log a g lvl len dyn)
    st.lvl = lvl ∧ st.id = s.nextId ∧ st.lg = lgi ∧
    (((s.actor a).map (·.stallArmed)).getD false = true →
        r.1.ths = s.ths ∧ ∀ x, r.1.actor a = some x → x.pend = .stall st cont) ∧
    (((s.actor a).map (·.stallArmed)).getD false = false →
      ((qPrepareWrite s.cfg (e.1.th e.2).q st.size).2 = true →
          (r.1.th e.2).accepted = (e.1.th e.2).accepted ++ [{ st with enqAt := s.now }] ∧
          (r.1.th e.2).qStmts = (e.1.th e.2).qStmts ++ [{ st with enqAt := s.now }] ∧
          (∀ j, j ≠ e.2 → r.1.th j = e.1.th j)) ∧
      ((qPrepareWrite s.cfg (e.1.th e.2).q st.size).2 = false →
          (∀ j, (r.1.th j).accepted = (e.1.th j).accepted ∧ (r.1.th j).qStmts = (e.1.th j).qStmts ∧
                (r.1.th j).buf = (e.1.th j).buf) ∧
          (s.cfg.dropping = true →
              (r.1.th e.2).discarded = (e.1.th e.2).discarded + 1 ∧ ∀ x, r.1.actor a = some x → x.pend = .none) ∧
          (s.cfg.dropping = false → ∀ x, r.1.actor a = some x → x.pend = .retry st cont))) := by
  intro s1 cont st e r
  have hlv' : shouldLog lvl (s1.lgOf lgi).level = true := by simp [shouldLog]; exact hlv
  have hc : cont = 0 ∨ cont = 5 := by cases dyn <;> simp [cont]
  have hr : r = noteCall (frontCall s1 a lgi .log lvl len cont dyn s.nextId) a g := by
    show applyFront s (.log a g lvl len dyn) = _
    simp only [applyFront]
    rw [withLogger_eq _ hl hi, hlv']; rfl
  have hwf1 : ∀ x i, s1.actor a = some x → x.ctx = some i → i < s1.ths.length := hwf
  -- the pending call of `a` after `noteCall` is the one `frontCall` left
  have hpend : ∀ (X : BSt) (b : Bool) (x : Actor),
      (X.setActor a (fun x => { x with inCall := if b then some g else none })).actor a = some x →
      ∃ y, X.actor a = some y ∧ x.pend = y.pend := by
    intro X b x hx
    obtain ⟨y, hy, rfl⟩ := actor_setActor_some X a _ (by intro _; exact ⟨rfl, rfl⟩) x hx
    exact ⟨y, hy, rfl⟩
  refine ⟨rfl, rfl, rfl, ?_, ?_⟩
  · intro hst
    have hs1 : ((s1.actor a).map (·.stallArmed)).getD false = true := hst
    rw [hr, frontCall_eq]
    simp only [hs1, if_true, noteCall]
    refine ⟨rfl, ?_⟩
    intro x hx
    obtain ⟨y, hy, hxy⟩ := hpend _ _ x hx
    rw [hxy]
    obtain ⟨z, _, rfl⟩ := actor_setActor_some s1 a _ (by intro _; exact ⟨rfl, rfl⟩) y hy
    rfl
  · intro hst
    have hs1 : ((s1.actor a).map (·.stallArmed)).getD false = false := hst
    have hfc : frontCall s1 a lgi .log lvl len cont dyn s.nextId = enqFlow s1 a st cont true := by
      rw [frontCall_eq]; simp only [hs1, Bool.false_eq_true, if_false]; rfl
    rw [hr, hfc]
    simp only [noteCall, th_setActor]
    refine ⟨fun hg => ?_, fun hg => ?_⟩
    · obtain ⟨h1, h2, _, h4, _⟩ := enqFlow_granted s1 a st cont true true rfl hc hwf1 hg
      exact ⟨h1, h2, h4⟩
    · obtain ⟨h1, h2, h3⟩ := enqFlow_refused s1 a st cont true true rfl hc hwf1 hg
      refine ⟨h1, fun hd => ⟨(h2 hd).1, fun x hx => ?_⟩, fun hd x hx => ?_⟩
      · obtain ⟨y, hy, hxy⟩ := hpend _ _ x hx
        rw [hxy]; exact (h2 hd).2 y hy
      · obtain ⟨y, hy, hxy⟩ := hpend _ _ x hx
        rw [hxy]; exact h3 hd y hy

/-! ### the backend side: `_write_log_statement` -/

/-- **Written to a sink iff that sink's threshold and filters accept it.** If no `write_log` threw, the events
    a statement produces are exactly one `write` per sink of the list that accepts it (`sinkAccepts`: statement
    level ≥ the sink's level filter and every filter of *that* sink accepts), in the order of the list, each
    carrying the statement's own id, level, timestamp — and nothing for the sinks that do not accept it. The
    decision for one sink reads only that sink's threshold and filter: the other sinks of the logger do not
    enter the formula. -/
theorem C16_sinks_exact (s : BSt) (st : Stmt) (sids : List Nat) (h : (writeToSinks s st sids).2 = false) :
    (writeToSinks s st sids).1.log =
      ((sids.filter (fun sid => sinkAccepts (s.sinkOf sid) st)).map (writeEv st)).reverse ++ s.log :=
  writeToSinks_log_of_no_throw st sids s h

/-- membership form: sink `sid` is handed the statement iff it is one of the logger's sinks and accepts it -/
theorem C16_sink_iff (s : BSt) (st : Stmt) (sids : List Nat) (h : (writeToSinks s st sids).2 = false) :
    ∃ evs, (writeToSinks s st sids).1.log = evs ++ s.log ∧
      (∀ sid, writeEv st sid ∈ evs ↔ sid ∈ sids ∧ sinkAccepts (s.sinkOf sid) st = true) ∧
      (∀ e ∈ evs, ∃ sid, e = Ev.write sid st.id st.lvl st.ts st.named) := by
  refine ⟨_, C16_sinks_exact s st sids h, ?_, ?_⟩
  · intro sid
    simp only [List.mem_reverse, List.mem_map, List.mem_filter]
    constructor
    · rintro ⟨x, hx, he⟩
      have : x = sid := by simp only [writeEv] at he; injection he
      rw [← this]; exact hx
    · intro hx; exact ⟨sid, hx, rfl⟩
  · intro e he
    simp only [List.mem_reverse, List.mem_map] at he
    obtain ⟨x, _, rfl⟩ := he
    exact ⟨x, rfl⟩

/-- is this event a `write_log` call on sink `sid`? -/
def isWriteTo (sid : Nat) : Ev → Bool
  | .write k _ _ _ _ => k == sid
  | _ => false

/-- **Independence of the other sinks.** Two configurations that agree on the threshold and filter of sink `sid`
    (and differ arbitrarily in the levels and filters of the logger's other sinks) hand the statement to `sid`
    in exactly the same cases and exactly as often, as long as no sink throws. -/
theorem C16_sink_independent (s s' : BSt) (st : Stmt) (sids : List Nat) (sid : Nat)
    (h : (writeToSinks s st sids).2 = false) (h' : (writeToSinks s' st sids).2 = false)
    (hsame : sinkAccepts (s.sinkOf sid) st = sinkAccepts (s'.sinkOf sid) st) :
    ∃ evs evs', (writeToSinks s st sids).1.log = evs ++ s.log ∧ (writeToSinks s' st sids).1.log = evs' ++ s'.log ∧
      (writeEv st sid ∈ evs ↔ writeEv st sid ∈ evs') ∧
      evs.countP (isWriteTo sid) = evs'.countP (isWriteTo sid) ∧
      evs.countP (isWriteTo sid) = if sinkAccepts (s.sinkOf sid) st then sids.count sid else 0 := by
  refine ⟨_, _, C16_sinks_exact s st sids h, C16_sinks_exact s' st sids h', ?_, ?_⟩
  · have key : ∀ (t : BSt), writeEv st sid ∈ ((sids.filter (fun x => sinkAccepts (t.sinkOf x) st)).map (writeEv st)).reverse ↔
        sid ∈ sids ∧ sinkAccepts (t.sinkOf sid) st = true := by
      intro t
      simp only [List.mem_reverse, List.mem_map, List.mem_filter]
      constructor
      · rintro ⟨x, hx, he⟩
        have : x = sid := by simp only [writeEv] at he; injection he
        rw [← this]; exact hx
      · intro hx; exact ⟨sid, hx, rfl⟩
    rw [key s, key s', hsame]
  · have cnt : ∀ (t : BSt), (((sids.filter (fun x => sinkAccepts (t.sinkOf x) st)).map (writeEv st)).reverse).countP (isWriteTo sid) =
        if sinkAccepts (t.sinkOf sid) st then sids.count sid else 0 := by
      intro t
      have hcomp : (isWriteTo sid ∘ writeEv st) = (· == sid) := by funext x; rfl
      rw [List.countP_reverse, List.countP_map, hcomp]
      show List.count sid _ = _
      cases ht : sinkAccepts (t.sinkOf sid) st
      · simp only [Bool.false_eq_true, if_false]
        apply List.count_eq_zero.mpr
        intro hm; rw [List.mem_filter] at hm; rw [ht] at hm; exact absurd hm.2 (by simp)
      · simp only [if_true]
        exact List.count_filter (by simpa using ht)
    exact ⟨by rw [cnt s, cnt s', hsame], cnt s⟩

/-- **A throwing sink cuts the rest off, and only the rest.** For a sink list `pre ++ sid :: post`: if a
    `write_log` of `pre` threw, nothing at all is handed to `sid` and `post`; otherwise the sinks of `pre` were
    served exactly as in `C16_sinks_exact`, the decision for `sid` is still the one of its own threshold and
    filters (nothing `pre` did changed them), a refusing `sid` is skipped without a trace, an accepting one is
    called once — and either receives the statement or throws, which ends the loop. -/
theorem C16_sink_prefix (s : BSt) (st : Stmt) (pre post : List Nat) (sid : Nat) :
    let r := writeToSinks s st pre
    (r.2 = true → writeToSinks s st (pre ++ sid :: post) = r) ∧
    (r.2 = false →
      r.1.log = ((pre.filter (fun x => sinkAccepts (s.sinkOf x) st)).map (writeEv st)).reverse ++ s.log ∧
      sinkAccepts (r.1.sinkOf sid) st = sinkAccepts (s.sinkOf sid) st ∧
      (sinkAccepts (s.sinkOf sid) st = false →
          writeToSinks s st (pre ++ sid :: post) = writeToSinks r.1 st post) ∧
      (sinkAccepts (s.sinkOf sid) st = true →
        let k := r.1.sinkOf sid
        let r1 := r.1.setSink sid (fun _ => { k with wcalls := k.wcalls + 1 })
        (throwsAt k.wthrow (k.wcalls + 1) = true →
            writeToSinks s st (pre ++ sid :: post) = (r1.emit (.wthrow sid st.id), true)) ∧
        (throwsAt k.wthrow (k.wcalls + 1) = false →
            writeToSinks s st (pre ++ sid :: post) = writeToSinks (r1.emit (writeEv st sid)) st post))) := by
  intro r
  have happ := writeToSinks_append st pre (sid :: post) s
  have hacc : sinkAccepts (r.1.sinkOf sid) st = sinkAccepts (s.sinkOf sid) st :=
    sinkAccepts_cfgEq (writeToSinks_cfgEq st pre s sid) st
  refine ⟨fun h => ?_, fun h => ⟨C16_sinks_exact s st pre h, hacc, fun ha => ?_, fun ha => ⟨fun ht => ?_, fun ht => ?_⟩⟩⟩
  · rw [happ]; simp only [show (writeToSinks s st pre).2 = true from h, if_true]; rfl
  · rw [happ]; simp only [show (writeToSinks s st pre).2 = false from h, Bool.false_eq_true, if_false]
    rw [← hacc] at ha
    simp only [writeToSinks, show sinkAccepts ((writeToSinks s st pre).1.sinkOf sid) st = false from ha,
      Bool.false_eq_true, if_false]; rfl
  · rw [happ]; simp only [show (writeToSinks s st pre).2 = false from h, Bool.false_eq_true, if_false]
    rw [← hacc] at ha
    simp only [writeToSinks, show sinkAccepts ((writeToSinks s st pre).1.sinkOf sid) st = true from ha, if_true]
    simp only [show throwsAt ((writeToSinks s st pre).1.sinkOf sid).wthrow (((writeToSinks s st pre).1.sinkOf sid).wcalls + 1) = true from ht,
      if_true]; rfl
  · rw [happ]; simp only [show (writeToSinks s st pre).2 = false from h, Bool.false_eq_true, if_false]
    rw [← hacc] at ha
    simp only [writeToSinks, show sinkAccepts ((writeToSinks s st pre).1.sinkOf sid) st = true from ha, if_true]
    simp only [show throwsAt ((writeToSinks s st pre).1.sinkOf sid).wthrow (((writeToSinks s st pre).1.sinkOf sid).wcalls + 1) = false from ht,
      Bool.false_eq_true, if_false]; rfl

/-- **The level reported is the statement's own**, faults or not: every event `_write_log_statement` produces for
    a statement is a `write` carrying that statement's id and level (`st.lvl`: the macro's level for a static
    statement, the level passed at run time for a dynamic one — the record keeps the one it was given, see
    `C16_at_level_enqueued`), or the record of a throwing `write_log` for that statement. Nothing depends on what
    the transit buffers held before. -/
theorem C16_level_reported (st : Stmt) : ∀ (sids : List Nat) (s : BSt),
    ∃ evs, (writeToSinks s st sids).1.log = evs ++ s.log ∧
      ∀ e ∈ evs, (∃ sid, e = Ev.write sid st.id st.lvl st.ts st.named) ∨ (∃ sid, e = Ev.wthrow sid st.id)
  | [], s => ⟨[], rfl, fun _ h => by cases h⟩
  | sid :: rest, s => by
    simp only [writeToSinks]
    split
    · split
      · exact ⟨[.wthrow sid st.id], rfl, fun e he => by
          simp only [List.mem_singleton] at he; exact Or.inr ⟨sid, he⟩⟩
      · obtain ⟨evs, h1, h2⟩ := C16_level_reported st rest
          ((s.setSink sid fun _ => { s.sinkOf sid with wcalls := (s.sinkOf sid).wcalls + 1 }).emit
            (Ev.write sid st.id st.lvl st.ts st.named))
        refine ⟨evs ++ [.write sid st.id st.lvl st.ts st.named], ?_, ?_⟩
        · rw [h1]; simp
        · intro e he
          simp only [List.mem_append, List.mem_singleton] at he
          rcases he with he | he
          · exact h2 e he
          · exact Or.inl ⟨sid, he⟩
    · exact C16_level_reported st rest s

/-- an ordinary statement of a logger without backtrace storage is dispatched to the logger's sinks and nothing
    else happens to the state (`_process_transit_event`, `Log` branch) -/
theorem C16_process_is_dispatch (s : BSt) (st : Stmt) (hk : st.kind = .log) (hl : st.lvl ≠ 9)
    (hnb : ((writeToSinks s st (s.lgOf st.lg).sinks).1.lgOf st.lg).bt = none) :
    (processEvent s st).1 = (writeToSinks s st (s.lgOf st.lg).sinks).1 := by
  simp only [processEvent, hk, dispatch]
  simp only [hl, ne_eq, not_false_eq_true, if_true]
  by_cases h : (writeToSinks s st (s.lgOf st.lg).sinks).2 = true
  · simp only [h, if_true]
  · simp only [h, if_false, hnb, Option.isSome_none, Bool.false_eq_true, and_false]

/-! ### non-vacuity: a concrete life -/

def c16Cfg : Cfg :=
  { dropping := false, qcap := 256, grace := 0, soft := 100, hard := 1000, hdr := 32, strOverhead := 4,
    batchPct := 5,
    qp := { wStore := .release, wLoad := .acquire, rStore := .release, rLoad := .acquire, drainPublish := true },
    invalidBits := 32, refreshAfterSample := true, catchAllFormat := true, reportBeforeFlushCleanup := true }

/-- logger 0 at level Info(4) with two sinks: sink 0 unfiltered, sink 1 with threshold Warning(6) -/
def c16Init : BSt :=
  { cfg := c16Cfg, now := 1000, sinks := [{ sid := 0 }, { sid := 1, lvl := 6 }],
    lgs := [{ gid := 0, sinks := [0, 1] }], names := [(0, 0)] }

def c16Writes : Ev → Option (Nat × Nat × Nat)
  | .write sid id lvl _ _ => some (sid, id, lvl)
  | _ => none

/-- Debug(3) static: skipped; Info(4) dynamic: only sink 0; Error(7) static: both sinks; then the logger is
    raised to Error and a dynamic Warning(6) is skipped while a dynamic Critical(8) passes -/
example :
    (runOps c16Init [.front (.tstart 0), .front (.log 0 0 3 8 false), .front (.log 0 0 4 8 true),
        .front (.log 0 0 7 8 false), .poll [], .poll [], .front (.setLevel 0 7), .front (.log 0 0 6 8 true),
        .front (.log 0 0 8 8 true), .poll []]).log.filterMap c16Writes
      = [(1, 4, 8), (0, 4, 8), (1, 2, 7), (0, 2, 7), (0, 1, 4)] := by decide

/-- the hypotheses of `C16_below_level_nothing` / `C16_at_level_enqueued` are met by a concrete state -/
example :
    let s := runOps c16Init [.front (.tstart 0)]
    loggerOf s 0 = some 0 ∧ idleActor s 0 = true ∧ ¬ (s.lgOf 0).level ≤ 3 ∧ (s.lgOf 0).level ≤ 4 ∧
    (∀ x i, s.actor 0 = some x → x.ctx = some i → i < s.ths.length) := by
  refine ⟨by decide, by decide, by decide, by decide, ?_⟩
  intro x i hx hi
  have h : ((runOps c16Init [.front (.tstart 0)]).actor 0).bind (·.ctx) = none := by decide
  rw [hx] at h; simp only [Option.bind_some] at h; rw [hi] at h; cases h

/-- and of the sink theorems: a statement of level Info(4) goes to sink 0 only, no exception -/
example :
    let st : Stmt := { id := 7, kind := .log, lg := 0, lvl := 4, ts := 5, size := 40, actor := 0 }
    (writeToSinks c16Init st [0, 1]).2 = false ∧ sinkAccepts (c16Init.sinkOf 0) st = true ∧
      sinkAccepts (c16Init.sinkOf 1) st = false := by decide

end Backend
