import QuillModel.Props.C03
import QuillModel.Backend.ConsProofsTrace
import QuillModel.Backend.FlushTop
/-!
# C03 — exactly once, as ONE statement over the whole trace

`C03_exactly_once` is stated per processing call plus any later schedule: the acceptance decision is that of the state in
which the call starts, and that state is a hypothesis. Here the decision point is *found in the trace*: for every schedule,
every accepted ordinary statement and every sink, the number of writes in the final event history is

* `0` while the statement has not been popped, and
* once it has been popped, exactly what `_write_log_statement` decided in the state `w` in which the backend entered
  `_process_transit_event` with this statement at the front of a transit buffer — a state of **this very run** (it satisfies
  the invariants, and the history up to and including that call is a suffix of the final history): one write per
  occurrence of the sink among the sinks of the statement's logger that accepted it *then* (sink level and filters as they were
  at pop time, whatever `set_log_level` / filter changes came later), cut at the first sink whose `write_log` threw.

`C03_once_iff` reads this as "at most once, and exactly once iff reached and accepted" when the logger lists each sink once.
Property theorems only; helpers in `Backend/ConsProofsTrace.lean`.
-/
namespace Backend
open Backend.PA

/-- the number `n` of writes of `st` at sink `sid` decided by `_write_log_statement` in state `w`: every accepting sink of the
    logger when no `write_log` throws; with a throw at sink `f`, the accepting sinks listed before `f` -/
def DispatchCount (w : BSt) (st : Stmt) (sid n : Nat) : Prop :=
  ((dispatch w st).2 = false ∧ n = ((w.lgOf st.lg).sinks.filter (acc w st)).count sid) ∨
  (∃ pre f post, (w.lgOf st.lg).sinks = pre ++ f :: post ∧ (dispatch w st).2 = true ∧ acc w st f = true ∧
    n = (pre.filter (acc w st)).count sid)

/-- **Exactly once, over the whole trace.** For every schedule `ops` from a fresh state, every context `i`, every ordinary
    statement `st` in its accepted history (`isOrd`: a log statement below the backtrace level):

    * if `st` has not been popped, the final history holds **no** ordinary write of `st.id` at any sink;
    * if it has, there is a state `w` of the run — satisfying the invariants, with `st` at the front of the transit buffer of a
      context `j`, and such that the history right after the processing call `popStep w j st rest` is a **suffix of the
      final history** — and at **every** sink `sid` the number of ordinary writes of `st.id` in the final history is the
      number that call left, which is `DispatchCount w st sid`: the acceptance decision at pop time. -/
theorem C03_exactly_once_trace (s0 : BSt) (hA : Fresh s0) (hF : StartF s0) (ops : List Op) (i : Nat) (st : Stmt)
    (hm : st ∈ ((runOps s0 ops).th i).accepted) (hord : isOrd st = true) :
    (st ∉ ((runOps s0 ops).th i).popped → ∀ sid, wcount (runOps s0 ops).log sid st.id = 0) ∧
    (st ∈ ((runOps s0 ops).th i).popped → ∃ w j rest, Inv w ∧ (w.th j).buf = st :: rest ∧
      (∃ evs, (runOps s0 ops).log = evs ++ (popStep w j st rest).log) ∧
      ∀ sid, wcount (runOps s0 ops).log sid st.id = wcount (popStep w j st rest).log sid st.id ∧
        DispatchCount w st sid (wcount (runOps s0 ops).log sid st.id)) := by
  have hI : Inv (runOps s0 ops) := hA.inv.run ops
  have hP : PW (runOps s0 ops) := (PW.start hA.inv hF.start.popLog).run ops
  have hfi := (PB.start_FI hF).runOps ops
  constructor
  · intro hnp sid
    have hc := hfi.cons i
    rw [hc, List.append_assoc] at hm
    rcases List.mem_append.mp hm with h1 | h1
    · exact absurd h1 hnp
    · exact hI.unpopped_unwritten h1 hord sid
  · intro hp
    have hcnt := hI.popped_counted hp hord
    obtain ⟨w, j, st', rest, hw⟩ := hP.wit st.id hcnt
    have hst : st' = st :=
      eq_of_countP_le_one (pq st.id) _ (popLog_uniq hI st.id) st' st hw.popped (hfi.plog i st hp) hw.isit
        (by simp [pq, hord])
    subst hst
    refine ⟨w, j, rest, hw.inv, hw.front, hw.past, fun sid => ⟨hw.cnt sid, ?_⟩⟩
    rw [hw.cnt sid]
    rcases popStep_wcount hw.inv j st' rest hw.front hord sid with ⟨h1, h2⟩ | ⟨pre, f, post, h1, h2, h3, h4⟩
    · exact Or.inl ⟨h1, h2⟩
    · exact Or.inr ⟨pre, f, post, h1, h2, h3, h4⟩

/-- **At most once; exactly once iff reached and accepted.** When the logger lists each of its sinks once (in the state `w`
    of the decision), the count decided there is at most one, and it is one exactly when the sink accepted the statement at
    that moment and the dispatch reached it: it is one of the logger's sinks (no `write_log` threw), respectively one of the
    sinks listed before the sink `f` whose `write_log` threw. -/
theorem C03_once_iff (w : BSt) (st : Stmt) (sid n : Nat) (hd : DispatchCount w st sid n)
    (hnd : (w.lgOf st.lg).sinks.Nodup) :
    n ≤ 1 ∧
    (((dispatch w st).2 = false ∧ (n = 1 ↔ sid ∈ (w.lgOf st.lg).sinks ∧ acc w st sid = true)) ∨
     (∃ pre f post, (w.lgOf st.lg).sinks = pre ++ f :: post ∧ (dispatch w st).2 = true ∧ acc w st f = true ∧
       (n = 1 ↔ sid ∈ pre ∧ acc w st sid = true))) := by
  have key : ∀ l : List Nat, l.Nodup → ((l.filter (acc w st)).count sid ≤ 1 ∧
      ((l.filter (acc w st)).count sid = 1 ↔ sid ∈ l ∧ acc w st sid = true)) := by
    intro l hl
    have hf : (l.filter (acc w st)).Nodup := hl.sublist List.filter_sublist
    rw [hf.count]
    split
    · rename_i hmem
      exact ⟨Nat.le_refl _, ⟨fun _ => List.mem_filter.mp hmem, fun _ => rfl⟩⟩
    · rename_i hmem
      exact ⟨Nat.zero_le _, ⟨fun h => absurd h (by decide), fun h => absurd (List.mem_filter.mpr h) hmem⟩⟩
  rcases hd with ⟨h1, h2⟩ | ⟨pre, f, post, h1, h2, h3, h4⟩
  · obtain ⟨k1, k2⟩ := key _ hnd
    subst h2
    exact ⟨k1, Or.inl ⟨h1, k2⟩⟩
  · have hpre : pre.Nodup := by
      rw [h1] at hnd
      exact (List.nodup_append.mp hnd).1
    obtain ⟨k1, k2⟩ := key _ hpre
    subst h4
    exact ⟨k1, Or.inr ⟨pre, f, post, h1, h2, h3, k2⟩⟩

/-! ### non-vacuity -/

/-- sink 2 accepts only level ≥ 5 at the beginning -/
def c03tInit : BSt :=
  { cfg := c03Cfg, now := 1000, sinks := [{ sid := 1 }, { sid := 2, lvl := 5 }],
    lgs := [{ gid := 0, sinks := [1, 2], level := 0 }], names := [(0, 0)] }

theorem c03tInit_fresh : Fresh c03tInit :=
  ⟨by decide, rfl, rfl, rfl, rfl, fun i => by
    cases i with
    | zero => rfl
    | succ j => rw [lgOf_default_of_ge _ _ (by simp [c03tInit])]; rfl⟩

theorem c03tInit_startF : StartF c03tInit := ⟨⟨by show 0 < 32; decide, rfl, rfl, rfl, rfl, rfl⟩, rfl, rfl⟩

/-- two threads; statement 0 (level 4) is popped while sink 2 still rejects level 4; **afterwards** sink 2 is opened to every
    level, and statement 1 (level 4, other thread; it was committed inside the first poll) is popped -/
def c03tSched : List Op :=
  [.front (.tstart 0), .front (.tstart 1), .front (.log 0 0 4 10 true), .poll [(2, 1, [.log 1 0 4 10 true])],
   .front (.setSinkLevel 2 0), .poll [], .front (.log 0 0 4 10 true)]

/-- non-vacuity of `C03_exactly_once_trace`: the hypotheses hold for statements 0 and 1 (accepted, ordinary, popped) and for
    statement 2 (accepted, ordinary, not popped). In the FINAL state sink 2 accepts level 4, yet statement 0 has no write at
    sink 2 (decision of the pop-time state, where the sink's level was 5) and statement 1 has one; statement 2 has none
    anywhere. -/
example :
    let s := runOps c03tInit c03tSched
    (s.th 0).accepted.map (fun st => (st.id, isOrd st)) = [(0, true), (2, true)] ∧ (s.th 0).popped.map (·.id) = [0] ∧
    (s.th 1).accepted.map (fun st => (st.id, isOrd st)) = [(1, true)] ∧ (s.th 1).popped.map (·.id) = [1] ∧
    (s.sinkOf 2).lvl = 0 ∧
    wcount s.log 1 0 = 1 ∧ wcount s.log 2 0 = 0 ∧ wcount s.log 1 1 = 1 ∧ wcount s.log 2 1 = 1 ∧
    wcount s.log 1 2 = 0 ∧ wcount s.log 2 2 = 0 := by decide

end Backend
