import QuillModel.Backend.SinkBack
import QuillModel.Backend.FlagProofs
/-!
# C17 — removing / re-creating loggers never loses statements nor frees state in use

Property theorems only (helpers: `Backend/LoggerProofs.lean`, `LoggerBack.lean`, `SinkProofs.lean`, `SinkBack.lean`,
on top of the thread bookkeeping of `ThreadProofs.lean`). The spinlock half of the property is `Props/C17Spin.lean`.
Quantifiers: every schedule `ops` of frontend operations (log calls, parked and resumed calls, flushes,
`remove_logger`, `remove_logger_blocking`, `create_or_get_logger`, level changes, dropped sink references, thread
starts and exits), polls with arbitrary injections, and exits, from every initial state of the driver's shape
(`LoggerFresh`), every configuration. The documented contract is encoded in `applyFront` and is *not* a hypothesis
here: a removal or a re-creation of the name `g` while a call through `g` is parked (`loggerBusy`) is a no-op, and a
`create` of a name whose old object is invalid but not yet erased is a no-op ("no re-creation before the erase").
-/
namespace Backend
open PC Spsc

/-- initial states: no thread, no event yet; every name points to an existing object of that gid; sink ids are
    distinct, every sink is alive, no backtrace storage exists yet (the driver's `mkState`) -/
def LoggerFresh (s : BSt) : Prop :=
  (s.ths = [] ∧ s.registry = [] ∧ s.cache = [] ∧ s.newFlag = false ∧ s.invalidCnt = 0 ∧ s.actors = [] ∧ 0 < s.cfg.hdr) ∧
  (∀ p ∈ s.names, p.2 < s.lgs.length ∧ (s.lgOf p.2).gid = p.1) ∧
  (s.sinks.map (·.sid)).Nodup ∧ (∀ k ∈ s.sinks, k.alive = true) ∧ (∀ l ∈ s.lgs, l.bt = none) ∧ s.log = []

theorem LoggerFresh.inv {s : BSt} (h : LoggerFresh s) : FInv s := by
  obtain ⟨h1, h2, h3, h4, h5, h6⟩ := h
  have hact : s.actors = [] := h1.2.2.2.2.2.1
  have hths : s.ths = [] := h1.1
  have halive : ∀ sid, (s.sinkOf sid).alive = true := by
    intro sid
    simp only [BSt.sinkOf]
    cases hf : s.sinks.find? (·.sid = sid) with
    | none => rfl
    | some k => exact h4 k (List.mem_of_find?_eq_some hf)
  have hT : TCInv s := by
    obtain ⟨t1, t2, t3, t4, t5, t6, t7⟩ := h1
    refine ⟨CInv_fresh s t1 t2 t3 t4 t5 t6, t7, ?_, ?_, ?_⟩
    · intro i hi; rw [t1] at hi; cases hi
    · intro i hi; rw [t1] at hi; cases hi
    · intro x hx; rw [t6] at hx; cases hx
  refine ⟨⟨hT, ⟨h2, ?_, ?_, ?_, ?_⟩, ?_⟩, ⟨h3, ?_, ?_, ?_, ?_⟩⟩
  · intro x hx; rw [hact] at hx; cases hx
  · intro i hi; rw [hths] at hi; cases hi
  · intro x hx; rw [hact] at hx; cases hx
  · intro x hx; rw [hact] at hx; cases hx
  · intro x hx; rw [hact] at hx; cases hx
  · intro sid ha; rw [halive] at ha; cases ha
  · intro i hi r hbt
    have hlg : s.lgOf i = s.lgs[i] := by
      simp only [BSt.lgOf, List.getD_eq_getElem?_getD, List.getElem?_eq_getElem hi, Option.getD_some]
    rw [hlg, h5 _ (List.getElem_mem hi)] at hbt; cases hbt
  · intro sid _ d hd; rw [h6] at hd; cases hd
  · rw [h6]; exact trivial

/-- **Nothing logged through a logger is left behind when it is freed.** In every reachable state a logger object
    that has been erased (removed from the `LoggerManager`, its memory freed) has no record in any thread's queue
    nor in any transit buffer: every statement logged through it before the removal — and the removal request
    itself — has been popped and processed (`C07_conservation`: popped = written, in order); and no parked call
    can still enqueue through it (a parked call's logger is valid and not erased). Equivalently: every record the
    backend will ever pop refers to a live logger object — no use after free. -/
theorem C17_erased_logger_has_no_record (s0 : BSt) (h0 : LoggerFresh s0) (ops : List Op) :
    let s := runOps s0 ops
    (∀ i, i < s.ths.length → ∀ st, (st ∈ (s.th i).qStmts ∨ st ∈ (s.th i).buf) → (s.lgOf st.lg).erased = false) ∧
    (∀ x ∈ s.actors, x.alive = true → ∀ st, pendStmt x.pend = some st →
      (s.lgOf st.lg).valid = true ∧ (s.lgOf st.lg).erased = false) := by
  intro s
  have h := (FInv_runOps s0 h0.inv ops).1.2.1
  exact ⟨h.live, fun x hx hal st hst => ⟨(h.pendOK x hx hal st hst).1, (h.pendOK x hx hal st hst).2.1⟩⟩

/-- **A logger is freed only in a state where every queue and every transit buffer is empty**: the step of
    `_cleanup_invalidated_loggers` that erases an invalid logger follows an emptiness check that answered yes, and
    then nothing at all is waiting in any context, registered or not. -/
theorem C17_erase_only_when_drained (s0 : BSt) (h0 : LoggerFresh s0) (ops : List Op) :
    let s := runOps s0 ops
    (allEmpty s).2 = true → ∀ i, i < (allEmpty s).1.ths.length →
      ((allEmpty s).1.th i).buf = [] ∧ ((allEmpty s).1.th i).qStmts = [] :=
  fun he => allEmpty_drained _ (FInv_runOps s0 h0.inv ops).1.1 he

/-- **The erase step rests on the emptiness check of the current state.** The loop of
    `cleanup_invalidated_loggers` visits the loggers one by one, and between two of them — inside a sink's
    destructor, hook site 9 — frontend threads run. What lets the invariant survive the erase of logger `i` is that
    the check `check_queues_empty()` answered yes *on the state `x` the loop is in when it reaches `i`*
    (`(allEmpty x).2 = true`), not on the state the clean-up started from: then nothing waits in any context and,
    the logger being invalid, nobody is parked in a call through it. `FInv_runOps` (every schedule, with arbitrary
    operations injected at site 9) goes through this lemma for every erased logger; a check hoisted out of the loop
    does not provide its hypothesis — see `C17_hoisted_check_erases_queued_logger`. -/
theorem C17_erase_step_guarded (x : BSt) (hx : LInv x) (i : Nat) (hv : (x.lgOf i).valid = false)
    (he : (allEmpty x).2 = true) : LInv ((allEmpty x).1.setLg i (fun l => { l with erased := true })) :=
  LInv_erase hx i hv he

/-- **A sink is destroyed exactly when nobody holds it.** In every reachable state a sink whose destructor has run
    (`alive = false`) is referenced neither by the user (`userRef = false`: the user dropped its `shared_ptr`) nor
    by any logger object that is not erased; conversely every sink of a logger that is not erased — in particular
    of every logger a queued record refers to — is alive: shared sinks keep working. -/
theorem C17_dead_sink_unreferenced (s0 : BSt) (h0 : LoggerFresh s0) (ops : List Op) :
    let s := runOps s0 ops
    (∀ sid, (s.sinkOf sid).alive = false → (s.sinkOf sid).userRef = false ∧
      ∀ i, i < s.lgs.length → (s.lgOf i).erased = false → sid ∉ (s.lgOf i).sinks) ∧
    (∀ i, (s.lgOf i).erased = false → ∀ sid ∈ (s.lgOf i).sinks, (s.sinkOf sid).alive = true) := by
  intro s
  have h := (FInv_runOps s0 h0.inv ops).2
  exact ⟨h.dead, fun i he => h.sinks_alive i he⟩

/-- reading `NoUAD`: whatever precedes (is newer than) a destructor event of `sid` in the log does not call into
    `sid` -/
theorem NoUAD_split : ∀ (log newer older : List Ev) (sid : Nat), NoUAD log → log = newer ++ Ev.sinkDtor sid :: older →
    ∀ e ∈ newer, usesSink sid e = false
  | _, [], _, _, _, _ => fun _ h => by cases h
  | _, e :: rest, older, sid, hn, heq => by
    subst heq
    intro x hx
    rcases List.mem_cons.mp hx with rfl | hx
    · cases hu : usesSink sid x
      · rfl
      · have := hn.2 sid hu (Ev.sinkDtor sid) (by simp)
        simp [isDtor] at this
    · exact NoUAD_split (rest ++ Ev.sinkDtor sid :: older) rest older sid hn.1 rfl x hx

/-- **No use after destruction.** In the event log of every reachable state, no `write_log`, throwing write,
    `flush_sink` or throwing flush of a sink comes after that sink's destructor event. -/
theorem C17_no_use_after_dtor (s0 : BSt) (h0 : LoggerFresh s0) (ops : List Op) (newer older : List Ev) (sid : Nat)
    (hlog : (runOps s0 ops).log = newer ++ Ev.sinkDtor sid :: older) :
    ∀ e ∈ newer, usesSink sid e = false :=
  NoUAD_split _ newer older sid (FInv_runOps s0 h0.inv ops).2.nouad hlog

/-- and a live sink has no destructor event at all -/
theorem C17_alive_sink_no_dtor (s0 : BSt) (h0 : LoggerFresh s0) (ops : List Op) (sid : Nat)
    (ha : ((runOps s0 ops).sinkOf sid).alive = true) : ∀ d ∈ (runOps s0 ops).log, isDtor sid d = false :=
  (FInv_runOps s0 h0.inv ops).2.nodtor sid ha

/-- **A parked removal request owns its name.** While `remove_logger_blocking` of the name `g` is parked (its
    request not yet enqueued) the name `g` resolves to nothing, and no other thread is parked in a call through a
    logger of that name — so when the request is finally enqueued and the logger marked invalid, nobody can still
    log through it. -/
theorem C17_parked_removal_exclusive (s0 : BSt) (h0 : LoggerFresh s0) (ops : List Op) :
    let s := runOps s0 ops
    ∀ x ∈ s.actors, x.alive = true → ∀ st, pendStmt x.pend = some st → isRemoval st →
      (∀ p ∈ s.names, p.1 ≠ (s.lgOf st.lg).gid) ∧
      ∀ y ∈ s.actors, y.alive = true → ∀ st', pendStmt y.pend = some st' →
        (s.lgOf st'.lg).gid = (s.lgOf st.lg).gid → y.id = x.id := by
  intro s x hx hal st hst hr
  have h := (FInv_runOps s0 h0.inv ops).1.2.1
  exact ⟨h.noname x hx hal st hst hr, h.excl x hx hal st hst hr⟩

/- The global statement — in every reachable state, for every statement `st` of kind `.removal f` in some thread's
   `accepted` history, `f ∈ s.flags → (s.lgOf st.lg).erased = true`: "`remove_logger_blocking` returns only after
   the logger is gone" — is `C17_removal_flag_after_erase` / `C17_remove_blocking_returns_after_erase` in
   `Props/C17Removal.lean` (it needs the uniqueness of flag numbers across Flush and removal requests,
   `C06_flag_numbers_unique`, whose file imports this one). The theorem below is the per-clean-up step it was first
   stated as, kept because it holds for *any* state (no reachability): the two places that raise flags raise the
   right ones — `processLowest` raises exactly the flag of the Flush event it has just popped
   (`PC.processEvent_flag` + the `raise` leaf of the schedule skeleton), and the logger clean-up raises a recorded
   removal flag only for a name one of whose objects it has erased in that very pass: -/

/-- **The removal flag is raised only after the erase** (`…_partial`: the step form, superseded by the global
    `C17_removal_flag_after_erase` of `Props/C17Removal.lean`, see the comment above): every flag the logger
    clean-up adds was recorded (when the removal request was decoded) for a name `g` such that a logger object of
    name `g`, not erased before, is erased after the clean-up — the store to the flag follows the erase and the
    sink pruning in `cleanupLoggers`, so a caller parked in `remove_logger_blocking` (it resumes only when its flag
    is in `flags`) finds the name free and the object gone. -/
theorem C17_removal_flag_after_erase_partial (inj : BSt → Nat → BSt) (hq : Quiet9 inj) (s : BSt) :
    ∀ f ∈ (cleanupLoggers inj s).flags, f ∈ s.flags ∨
      ∃ g i, (g, f) ∈ s.removalFlags ∧ i < s.lgs.length ∧ (s.lgOf i).gid = g ∧ (s.lgOf i).erased = false ∧
        ((cleanupLoggers inj s).lgOf i).erased = true :=
  cleanupLoggers_flags inj hq s

/-- a caller waiting for a flag resumes only once the flag has been raised -/
theorem C17_flag_wait (s : BSt) (a f : Nat) (hp : (s.actor a).map (·.pend) = some (Pend.flag f))
    (hn : s.flags.contains f = false) : resume s a = (s, "parked:sleep") := by
  unfold resume
  simp only [hp, hn, Bool.false_eq_true, if_false]

/-! ### `create_or_get_logger` -/

theorem loggerOf_of_names (X : BSt) (g i : Nat) (hf : X.names.find? (·.1 = g) = some (g, i))
    (hv : (X.lgOf i).valid = true) (he : (X.lgOf i).erased = false) : loggerOf X g = some i := by
  unfold loggerOf
  simp only [hf, hv, he]
  simp

theorem find_added_name (s : BSt) (g i : Nat) :
    ((dropName s g).names ++ [(g, i)]).find? (·.1 = g) = some (g, i) := by
  rw [List.find?_append]
  have : (dropName s g).names.find? (·.1 = g) = none := by
    rw [List.find?_eq_none]
    intro p hp
    have := dropName_no_key s g p hp
    simpa using this
  rw [this]
  simp

/-- **Idempotent.** Creating a name whose logger exists and is valid returns that very object: no object is
    created or changed, the name resolves to it. -/
theorem C17_create_returns_existing (s : BSt) (a g i : Nat) (sl : List Nat)
    (hok : ¬ (!idleActor s a ∨ loggerBusy s g ∨ sl.any (fun sid => !(s.sinks.any (fun k => k.sid = sid ∧ k.alive)))))
    (hex : (List.range s.lgs.length).find? (fun i => (s.lgOf i).gid = g ∧ !(s.lgOf i).erased) = some i)
    (hv : (s.lgOf i).valid = true) :
    (applyFront s (.create a g sl)).1.lgs = s.lgs ∧ loggerOf (applyFront s (.create a g sl)).1 g = some i := by
  have hne : (s.lgOf i).erased = false := by
    have := List.find?_some hex
    simp only [Bool.and_eq_true, decide_eq_true_eq, Bool.not_eq_true'] at this
    exact this.2
  simp only [applyFront, hok, if_false, hex, hv, Bool.not_true, Bool.false_eq_true]
  refine ⟨rfl, ?_⟩
  apply loggerOf_of_names _ g i (find_added_name s g i)
  · exact hv
  · exact hne

/-- **A new object is a new object.** When no object of the name is left un-erased, `create` appends a fresh object
    (index = number of objects so far): an erased object is never handed out again, and no existing object —
    erased or not — is touched. -/
theorem C17_create_fresh_object (s : BSt) (a g : Nat) (sl : List Nat)
    (hok : ¬ (!idleActor s a ∨ loggerBusy s g ∨ sl.any (fun sid => !(s.sinks.any (fun k => k.sid = sid ∧ k.alive)))))
    (hex : (List.range s.lgs.length).find? (fun i => (s.lgOf i).gid = g ∧ !(s.lgOf i).erased) = none) :
    (applyFront s (.create a g sl)).1.lgs = s.lgs ++ [{ gid := g, sinks := sl }] ∧
    loggerOf (applyFront s (.create a g sl)).1 g = some s.lgs.length := by
  simp only [applyFront, hok, if_false, hex, true_and]
  have hnew : ∀ (X : BSt), X.lgs = s.lgs ++ [{ gid := g, sinks := sl }] → X.lgOf s.lgs.length = { gid := g, sinks := sl } := by
    intro X hX
    simp only [BSt.lgOf, hX, List.getD_eq_getElem?_getD]; simp
  apply loggerOf_of_names _ g s.lgs.length (find_added_name s g s.lgs.length)
  · rw [hnew _ rfl]
  · rw [hnew _ rfl]

/-- **No re-creation before the erase** (the contract, as the model encodes it): while the old object of the name is
    invalid but not yet erased, `create` does nothing. -/
theorem C17_create_waits_for_erase (s : BSt) (a g i : Nat) (sl : List Nat)
    (hex : (List.range s.lgs.length).find? (fun i => (s.lgOf i).gid = g ∧ !(s.lgOf i).erased) = some i)
    (hv : (s.lgOf i).valid = false) : applyFront s (.create a g sl) = (s, "noop") := by
  simp only [applyFront]
  split
  · rfl
  · simp only [hex, hv, Bool.not_false, if_true]

/-- **The contract for removals**: `remove_logger` / `remove_logger_blocking` of a name through which a call is
    parked do nothing. -/
theorem C17_remove_busy_noop (s : BSt) (a g : Nat) (hb : loggerBusy s g = true) :
    applyFront s (.remove a g) = (s, "noop") ∧ applyFront s (.removeBlocking a g) = (s, "noop") := by
  simp only [applyFront, hb, if_true, and_self]

/-! ### non-vacuity: a life with removal, re-creation and a shared sink -/

def c17Cfg : Cfg :=
  { dropping := false, qcap := 256, grace := 0, soft := 100, hard := 1000, hdr := 32, strOverhead := 4,
    batchPct := 5,
    qp := { wStore := .release, wLoad := .acquire, rStore := .release, rLoad := .acquire, drainPublish := true },
    invalidBits := 32, refreshAfterSample := true, catchAllFormat := true, reportBeforeFlushCleanup := true }

/-- logger 0 → sinks 0 and 1, logger 1 → sink 1 (shared) -/
def c17Init : BSt :=
  { cfg := c17Cfg, now := 1000, sinks := [{ sid := 0 }, { sid := 1 }],
    lgs := [{ gid := 0, sinks := [0, 1] }, { gid := 1, sinks := [1] }], names := [(0, 0), (1, 1)] }

theorem c17Init_fresh : LoggerFresh c17Init := by
  refine ⟨⟨rfl, rfl, rfl, rfl, rfl, rfl, by decide⟩, ?_, by decide, ?_, ?_, rfl⟩
  · intro p hp
    have : p = (0, 0) ∨ p = (1, 1) := by simpa [c17Init] using hp
    rcases this with rfl | rfl <;> exact ⟨by decide, rfl⟩
  · intro k hk
    have : k = { sid := 0 } ∨ k = { sid := 1 } := by simpa [c17Init] using hk
    rcases this with rfl | rfl <;> rfl
  · intro l hl
    have : l = { gid := 0, sinks := [0, 1] } ∨ l = { gid := 1, sinks := [1] } := by simpa [c17Init] using hl
    rcases this with rfl | rfl <;> rfl

def c17Ev : Ev → Option (Nat × Nat)
  | .write sid id _ _ _ => some (0, sid * 100 + id)
  | .sinkDtor sid => some (1, sid)
  | _ => none

/-- a statement through logger 0, the user drops both sinks, `remove_logger(0)`: the statement is written to both
    sinks first, then the logger is erased and sink 0 (no longer referenced) destroyed, sink 1 (still held by
    logger 1) lives on; the name is created again with a new object and logs to the shared sink -/
example :
    let ops : List Op := [.front (.tstart 0), .front (.log 0 0 4 8 false), .front (.dropSink 0), .front (.dropSink 1),
      .front (.remove 0 0), .poll [], .poll [], .front (.create 0 0 [1]), .front (.log 0 0 4 8 false), .poll []]
    let s := runOps c17Init ops
    (s.log.filterMap c17Ev).reverse = [(0, 0), (0, 100), (1, 0), (0, 101)] ∧
    (s.lgOf 0).erased = true ∧ (s.sinkOf 0).alive = false ∧ (s.sinkOf 1).alive = true ∧ loggerOf s 0 = some 2 := by
  refine ⟨by decide +kernel, by decide +kernel, by decide +kernel, by decide +kernel, by decide +kernel⟩

/-! ### the check must not be hoisted out of the loop (seeded mutant C17_m1 in miniature) -/

/-- the logger clean-up with the emptiness check evaluated once, before the loop (not the model: the mutant) -/
def cleanupLoggersHoisted (inj : BSt → Nat → BSt) (s : BSt) : BSt :=
  let s0 : BSt := { s with hasInvalidLoggers := false }
  let r0 := allEmpty s0
  (((lgOrder s0).foldl (fun (acc : BSt × List Nat) i =>
      if (acc.1.lgOf i).valid then acc else
      if r0.2 then
        (reapSinksInj inj (acc.1.setLg i (fun l => { l with erased := true })) (acc.1.lgOf i).sinks,
          acc.2 ++ [(acc.1.lgOf i).gid])
      else ({ acc.1 with hasInvalidLoggers := true }, acc.2)) (r0.1, [])).1)

/-- logger 0 is removed with everything empty; while its sink 0 is being destroyed (site 9) a thread logs through
    logger 1 and removes it -/
def c17Race : List (Nat × Nat × List FOp) := [(9, 1, [.log 0 1 4 8 false, .remove 0 1])]

def c17Before : BSt :=
  { runOps c17Init [.front (.tstart 0), .front (.dropSink 0), .front (.remove 0 0)] with siteCnt := [] }

/-- **With the check hoisted, a logger is erased while its statement is still queued**; the model's clean-up
    (check per logger, on the current state) keeps it. -/
theorem C17_hoisted_check_erases_queued_logger :
    (let s := cleanupLoggersHoisted (runInj c17Race) c17Before
     ((s.th 0).qStmts.map (fun st => (s.lgOf st.lg).erased)) = [true]) ∧
    (let s := cleanupLoggers (runInj c17Race) c17Before
     ((s.th 0).qStmts.map (fun st => (s.lgOf st.lg).erased)) = [false] ∧ (s.lgOf 0).erased = true ∧
       (s.lgOf 1).valid = false) := by
  refine ⟨by decide +kernel, by decide +kernel, by decide +kernel, by decide +kernel⟩

end Backend
