import QuillModel.Props.C17Removal
import QuillModel.Backend.ParkedInv
import QuillModel.Backend.ParkedInv2
/-!
# C17 — a caller parked by `remove_logger_blocking` has its removal request in the accepted history

`C17_remove_blocking_returns_after_erase` takes the caller's removal record as a hypothesis (`st ∈ accepted`,
`st.kind = .removal f`); DESIGN §9.1 said that the link "parked by `removeBlocking` ⇒ an accepted removal record with that
flag" was shown in an example only, because the parked state (`Pend.flag f`) does not record which public call parked it.
The link is in the ghost history: the *step* that parks a caller on a flag has just committed the record carrying that flag
(`C17_parking_call_committed_its_request`, `C17_remove_blocking_parks_on_its_record`), and accepted histories only grow
(`C17_accepted_history_grows`). Composition, with no reference to the record left:
`C17_remove_blocking_contract` — for every schedule around a `remove_logger_blocking(g)` that went to sleep on its flag: when
the caller's `resume` answers "done", the logger object the name resolved to has been erased and every record ever logged
through it, by any thread, has been popped (hence dispatched to its sinks at pop time, `C03_pop_emits_dispatch`).

Property theorems only; helpers in `Backend/ParkedInv.lean`.
-/
namespace Backend
open Backend.PC Backend.PB

/-- **Accepted histories only grow.** Along every schedule (frontend operations, polls with arbitrary injections, exit)
    a record once in the accepted history of a context stays there. -/
theorem C17_accepted_history_grows (s : BSt) (ops : List Op) (i : Nat) (r : Stmt) (h : r ∈ (s.th i).accepted) :
    r ∈ ((runOps s ops).th i).accepted :=
  accepted_mono_run s ops i r h

/-- **The call that parks on a flag has committed the request carrying that flag.** Any state in which the contexts of
    live actors exist (true of every reachable state), the body of any public call — first attempt, resumption after a
    stall, any retry after a refusal — entered with statement `st` and continuation `cont`: if it leaves the caller `a`
    parked on `Pend.flag f`, then `st` is the Flush request of `flush_log` (`cont = 1`, `Kind.flush f`) or the removal request of
    `remove_logger_blocking` (`cont = 4`, `Kind.removal f`) with exactly this flag, and a copy of it is in the accepted
    history of some context. -/
theorem C17_parking_call_committed_its_request (s : BSt) (a : Nat) (st : Stmt) (cont : Nat) (first initial : Bool)
    (hctx : ∀ x j, s.actor a = some x → x.ctx = some j → j < s.ths.length) (f : Nat)
    (hp : pendOf (enqFlow s a st cont first initial).1 a = some (.flag f)) :
    ((cont = 1 ∧ st.kind = .flush f) ∨ (cont = 4 ∧ st.kind = .removal f)) ∧
    ∃ i r, r ∈ ((enqFlow s a st cont first initial).1.th i).accepted ∧ r.kind = st.kind ∧ r.lg = st.lg ∧
      r.actor = st.actor ∧ r.id = st.id ∧ r.ts = st.ts :=
  enqFlow_flag_post s a st cont first initial hctx f hp

/-- **`remove_logger_blocking` parks on its own record.** For every schedule `pre` from a fresh state: if
    `remove_logger_blocking(g)` by `a` answers "parked:sleep" and leaves `a` waiting on `Pend.flag f`, then `g` resolved to a
    logger object `lg`, `f` is the flag number taken by this very call, and a `Kind.removal f` record naming `lg`, issued by
    `a`, has been accepted into a queue. -/
theorem C17_remove_blocking_parks_on_its_record (s0 : BSt) (h0 : Start s0) (pre : List Op) (a g f : Nat)
    (hres : (applyOp (runOps s0 pre) (.front (.removeBlocking a g))).2 = "parked:sleep")
    (hp : pendOf (applyOp (runOps s0 pre) (.front (.removeBlocking a g))).1 a = some (.flag f)) :
    ∃ lg, loggerOf (runOps s0 pre) g = some lg ∧ f = (runOps s0 pre).nextFlag ∧
      ∃ i r, r ∈ ((applyOp (runOps s0 pre) (.front (.removeBlocking a g))).1.th i).accepted ∧ r.kind = .removal f ∧
        r.lg = lg ∧ r.actor = a := by
  obtain ⟨fl, hI⟩ := (start_GI h0).runOps pre
  exact removeBlocking_parks_on_record (runOps s0 pre) a g f (fun x j hx hc => hI.ctxLt a x j hx hc) hres hp

/-- **`remove_logger_blocking` returns only after the logger is gone — composed over the whole trace.** Every fresh state,
    every schedule `pre`, then `remove_logger_blocking(g)` by thread `a` that goes to sleep on its flag `f`, then **every**
    schedule `post` (other threads logging, creating and removing loggers, polls with injections at every hook site, …)
    after which `a` is still the caller parked on `f`: if `a`'s `resume` now answers "done", then

    * the logger object `lg` the name `g` resolved to at the call **has been erased**,
    * **every record ever accepted through `lg`, in any thread's queue, has been popped** — each was handed to its sinks in the
      step that popped it (`C03_pop_emits_dispatch`) —, and
    * no live actor is parked with a statement through `lg`.

    No hypothesis mentions the request record: it is found in the ghost history (`C17_remove_blocking_parks_on_its_record`,
    `C17_accepted_history_grows`). -/
theorem C17_remove_blocking_contract (s0 : BSt) (h0 : RemovalFresh s0) (pre post : List Op) (a g f : Nat)
    (hres : (applyOp (runOps s0 pre) (.front (.removeBlocking a g))).2 = "parked:sleep")
    (hp : pendOf (applyOp (runOps s0 pre) (.front (.removeBlocking a g))).1 a = some (.flag f))
    (hp2 : pendOf (runOps s0 (pre ++ [.front (.removeBlocking a g)] ++ post)) a = some (.flag f))
    (hdone : (resume (runOps s0 (pre ++ [.front (.removeBlocking a g)] ++ post)) a).2 = "done") :
    ∃ lg, loggerOf (runOps s0 pre) g = some lg ∧
      ((runOps s0 (pre ++ [.front (.removeBlocking a g)] ++ post)).lgOf lg).erased = true ∧
      (∀ j r, r ∈ ((runOps s0 (pre ++ [.front (.removeBlocking a g)] ++ post)).th j).accepted → r.lg = lg →
        r ∈ ((runOps s0 (pre ++ [.front (.removeBlocking a g)] ++ post)).th j).popped) ∧
      (∀ x ∈ (runOps s0 (pre ++ [.front (.removeBlocking a g)] ++ post)).actors, x.alive = true →
        ∀ st', pendStmt x.pend = some st' → st'.lg ≠ lg) := by
  obtain ⟨lg, hlg, _, i, r, hr, hk, hrl, _⟩ :=
    C17_remove_blocking_parks_on_its_record s0 h0.startF.start pre a g f hres hp
  have e : runOps s0 (pre ++ [.front (.removeBlocking a g)] ++ post) =
      runOps (applyOp (runOps s0 pre) (.front (.removeBlocking a g))).1 post := by
    simp [runOps, List.foldl_append]
  have hr2 : r ∈ ((runOps s0 (pre ++ [.front (.removeBlocking a g)] ++ post)).th i).accepted := by
    rw [e]; exact accepted_mono_run _ post i r hr
  have hp2' : ((runOps s0 (pre ++ [.front (.removeBlocking a g)] ++ post)).actor a).map (·.pend) = some (Pend.flag f) := hp2
  have := C17_remove_blocking_returns_after_erase s0 h0 (pre ++ [.front (.removeBlocking a g)] ++ post) a f i r hp2' hr2 hk hdone
  rw [hrl] at this
  exact ⟨lg, hlg, this⟩

/-- **Every call parked on a flag has its request record in the accepted history — state invariant.** For every schedule
    `ops` (frontend operations, polls with arbitrary injections, exit) from a state without actors: in the state reached, for
    every live actor `a` parked on `Pend.flag f` there is a context `i` and a record `st` in its accepted history that carries
    the flag `f` (`Kind.flush f` or `Kind.removal f`) and was issued by `a`. With `C06_flag_numbers_unique` this record is the
    only one carrying `f`: the caller is parked by `remove_logger_blocking` iff that record is a `Kind.removal f`, and
    `C17_remove_blocking_returns_after_erase` applies to it. -/
theorem C17_parked_flag_has_record (s0 : BSt) (h0 : s0.actors = []) (ops : List Op) (a f : Nat)
    (hp : pendOf (runOps s0 ops) a = some (.flag f)) :
    ∃ i, ∃ st ∈ ((runOps s0 ops).th i).accepted, flagOf st = some f ∧ st.actor = a := by
  have hL := (LK.start h0).run ops
  obtain ⟨x, hx, hxp⟩ := pendOf_some hp
  exact (hL.pend a x hx).1 f hxp

/-- the invariant composed with the removal theorem: in every reachable state, a caller parked on a flag whose record is a
    removal request and whose `resume` answers "done" finds the logger erased and everything logged through it popped -/
theorem C17_parked_removal_contract (s0 : BSt) (h0 : RemovalFresh s0) (ops : List Op) (a f : Nat)
    (hp : pendOf (runOps s0 ops) a = some (.flag f)) (hdone : (resume (runOps s0 ops) a).2 = "done") :
    ∃ i, ∃ st ∈ ((runOps s0 ops).th i).accepted, flagOf st = some f ∧ st.actor = a ∧
      (st.kind = .removal f →
        ((runOps s0 ops).lgOf st.lg).erased = true ∧
        (∀ j r, r ∈ ((runOps s0 ops).th j).accepted → r.lg = st.lg → r ∈ ((runOps s0 ops).th j).popped)) := by
  obtain ⟨i, st, hst, hf, ha⟩ := C17_parked_flag_has_record s0 h0.startF.start.actors ops a f hp
  refine ⟨i, st, hst, hf, ha, fun hk => ?_⟩
  have hp' : ((runOps s0 ops).actor a).map (·.pend) = some (Pend.flag f) := hp
  have := C17_remove_blocking_returns_after_erase s0 h0 ops a f i st hp' hst hk hdone
  exact ⟨this.1, this.2.1⟩

/-! ### non-vacuity -/

/-- the run of `Props/C17Removal.lean`: thread 0 logs through logger 0 and calls `remove_logger_blocking(0)`; meanwhile thread
    1 registers and logs through logger 1 (also inside the second poll, at hook site 3); after three polls the caller's
    `resume` answers "done" — all hypotheses of `C17_remove_blocking_contract` hold, with `lg = 0`, `f = 0`; the request is the
    second record of context 0. -/
example :
    let pre : List Op := [.front (.tstart 0), .front (.tstart 1), .front (.log 0 0 4 8 false)]
    let post : List Op := [.front (.log 1 1 4 8 false), .poll [], .poll [(3, 1, [.log 1 1 4 8 false])], .poll [], .poll []]
    let s := runOps c17Init pre
    let s2 := runOps c17Init (pre ++ [.front (.removeBlocking 0 0)] ++ post)
    let parkedOn (x : BSt) (f : Nat) : Bool := match pendOf x 0 with | some (Pend.flag f') => f' == f | _ => false
    (applyOp s (.front (.removeBlocking 0 0))).2 = "parked:sleep" ∧
    parkedOn (applyOp s (.front (.removeBlocking 0 0))).1 0 = true ∧
    parkedOn s2 0 = true ∧ (resume s2 0).2 = "done" ∧ loggerOf s 0 = some 0 ∧ (s2.lgOf 0).erased = true ∧
    (s2.th 0).accepted.map (·.kind) = [.log, .removal 0] ∧ (s2.th 0).popped.length = 2 ∧
    -- `C17_parked_flag_has_record`: no actors at the start, and the record of the parked caller is there
    c17Init.actors = [] ∧ (s2.th 0).accepted.map (fun st => (flagOf st, st.actor)) = [(none, 0), (some 0, 0)] := by
  refine ⟨by decide +kernel, by decide +kernel, by decide +kernel, by decide +kernel, by decide +kernel,
    by decide +kernel, by decide +kernel, by decide +kernel, rfl, by decide +kernel⟩

end Backend
