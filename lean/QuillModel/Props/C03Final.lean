import QuillModel.Backend.LiftOnceFinal
import QuillModel.Props.C03Whole
/-!
# C03 (lift) — the decision readable in the FINAL state

`C03_whole_run_count` / `C03_exactly_once_after_drain` give, for every popped ordinary statement, the count decided in the
state `s` of its pop — a state the final state no longer records, because `setSinkLevel` may run after the pop. This file
closes that gap under the premise that the schedule changes no sink level:

* `noSinkLevelOps ops`: no `FOp.setSinkLevel` at top level nor in any poll's injection table (decidable).
* `C03_runOps_sink_lvl`: then every sink has, after the run, the level it started with (from ANY state).
* `C03_whole_run_count_cfg`: the witness of `C03_whole_run_count`, strengthened for EVERY schedule: the pop-time state has
  the same sink ids / filters / fault schedules as the final state and the same sink lists for the loggers that existed.
* `C03_final_acceptance`: no level change, no scheduled `write_log` fault ⇒ the number of ordinary writes of a popped
  ordinary statement at sink `sid` in the whole history is the number of occurrences of `sid` among the sinks of its logger
  that accept it — levels and filters read in the FINAL state; no existential left.
* `C03_final_acceptance_suffix`: the same when only the part of the schedule after a point at which `st` was not yet
  popped is free of level changes.
* `C03_exactly_once_final_decision`: composition with the quiet drain, for every ACCEPTED ordinary statement.

Premise `st.lg < s0.lgs.length` (the statement's logger exists in the start state): `Inv` does not bound the logger index
of a buffered statement, and a logger created later at a so far unused index would change `(F.lgOf st.lg).sinks`.
The non-vacuity example at the end also shows that `noSinkLevelOps` is needed.
-/
namespace Backend
open Backend.PA Backend.PB

/-- the schedule contains no `setSinkLevel`: not at top level, not in the injection table of any poll -/
def noSinkLevelOps (ops : List Op) : Bool := opsAllowed notSinkLevel ops

theorem lvAllowed_true : lvAllowed true = notSinkLevel := funext (fun _ => rfl)

theorem noSinkLevelOps_allowed {ops : List Op} (h : noSinkLevelOps ops = true) : opsAllowed (lvAllowed true) ops = true := by
  rw [lvAllowed_true]; exact h

theorem noSinkLevelOps_append (a b : List Op) : noSinkLevelOps (a ++ b) = (noSinkLevelOps a && noSinkLevelOps b) :=
  opsAllowed_append _ a b

/-- **Level stability.** A schedule without `setSinkLevel` leaves every sink's level as it was — from any state. -/
theorem C03_runOps_sink_lvl (s : BSt) (ops : List Op) (hno : noSinkLevelOps ops = true) (sid : Nat) :
    ((runOps s ops).sinkOf sid).lvl = (s.sinkOf sid).lvl :=
  (runOps_closedOn (CfgLe.closedOn true s) ops (noSinkLevelOps_allowed hno) s (CfgLe.refl true s)).lvl rfl sid

/-- the `write_log` fault schedules never change: no scheduled fault at the start, none later -/
theorem C03_noWriteFault_run (s : BSt) (hf : NoWriteFault s) (ops : List Op) : NoWriteFault (runOps s ops) := fun sid =>
  ((runOps_closedOn (CfgLe.closedOn false s) ops (opsAllowed_false ops) s (CfgLe.refl false s)).sinks sid).2.2.2.trans (hf sid)

/-- **Whole-run equality, with a witness tied to the final state** — every schedule. The pop-time state `s` of
    `C03_whole_run_count` has, sink by sink, the id, filter and `write_log` fault schedule of the final state, and the
    loggers of the start state have in `s` the sink lists they have in the final state. (Sink levels are not compared:
    `setSinkLevel` may have run since.) -/
theorem C03_whole_run_count_cfg (s0 : BSt) (h0 : Inv s0) (hp0 : ∀ i, (s0.th i).popped = []) (ops : List Op) (i : Nat)
    (st : Stmt) (hm : st ∈ ((runOps s0 ops).th i).popped) (hord : isOrd st = true) :
    ∃ s, Inv s ∧ (s.th i).buf.head? = some st ∧
      (∀ sid, ((runOps s0 ops).sinkOf sid).sid = (s.sinkOf sid).sid ∧ ((runOps s0 ops).sinkOf sid).filtM = (s.sinkOf sid).filtM ∧
        ((runOps s0 ops).sinkOf sid).filtR = (s.sinkOf sid).filtR ∧ ((runOps s0 ops).sinkOf sid).wthrow = (s.sinkOf sid).wthrow) ∧
      (∀ j, j < s0.lgs.length → ((runOps s0 ops).lgOf j).sinks = (s.lgOf j).sinks) ∧
      ∀ sid, wcount (runOps s0 ops).log sid st.id = dispatchCount s st sid := by
  obtain ⟨s, h1, hn, h2, hc, h3⟩ :=
    ((WInvS.of_start (lv := false) h0 hp0).run ops).dec i st hm hord trivial
  exact ⟨s, h1, h2, hc.sinks, fun j hj => hc.lgs j (Nat.lt_of_lt_of_le hj hn), h3⟩

/-- **The decision readable in the final state.** From every initial state satisfying `Inv` in which nothing has been
    popped and no sink is scheduled to throw on `write_log`, after every schedule without `setSinkLevel`, with
    `F := runOps s0 ops`: for every ordinary statement `st` popped in the run whose logger exists in `s0`, and every sink
    `sid`, the number of ordinary writes of `st.id` at `sid` in the whole history is the number of times `sid` occurs among
    the sinks of `st`'s logger that accept `st` — sink level and filter as they are in `F`. -/
theorem C03_final_acceptance (s0 : BSt) (h0 : Inv s0) (hp0 : ∀ i, (s0.th i).popped = []) (ops : List Op)
    (hno : noSinkLevelOps ops = true) (hf : NoWriteFault s0) (i : Nat) (st : Stmt)
    (hm : st ∈ ((runOps s0 ops).th i).popped) (hord : isOrd st = true) (hlg : st.lg < s0.lgs.length) (sid : Nat) :
    wcount (runOps s0 ops).log sid st.id =
      (((runOps s0 ops).lgOf st.lg).sinks.filter (acc (runOps s0 ops) st)).count sid :=
  ((WInvS.of_start (lv := true) h0 hp0).runL ops (noSinkLevelOps_allowed hno)).final
    (C03_noWriteFault_run s0 hf ops) i st hm hord trivial hlg sid

/-- **Suffix form.** Only the part `post` of the schedule after a point at which `st` was not yet popped has to be free of
    `setSinkLevel`; the logger has to exist at that point. -/
theorem C03_final_acceptance_suffix (s0 : BSt) (h0 : Inv s0) (pre post : List Op)
    (hno : noSinkLevelOps post = true) (hf : NoWriteFault s0) (i : Nat) (st : Stmt)
    (hnp : st ∉ ((runOps s0 pre).th i).popped)
    (hm : st ∈ ((runOps s0 (pre ++ post)).th i).popped) (hord : isOrd st = true)
    (hlg : st.lg < (runOps s0 pre).lgs.length) (sid : Nat) :
    wcount (runOps s0 (pre ++ post)).log sid st.id =
      (((runOps s0 (pre ++ post)).lgOf st.lg).sinks.filter (acc (runOps s0 (pre ++ post)) st)).count sid := by
  have e : runOps s0 (pre ++ post) = runOps (runOps s0 pre) post := by simp [runOps, List.foldl_append]
  rw [e] at hm ⊢
  exact ((WInvS.of_mid (lv := true) (h0.run pre)).runL post (noSinkLevelOps_allowed hno)).final
    (C03_noWriteFault_run _ (C03_noWriteFault_run s0 hf pre) post) i st hm hord hnp hlg sid

/-- an ordinary statement still in the transit buffer or in the queue has not been popped -/
theorem C03_unpopped_not_popped {s : BSt} (h : Inv s) (i : Nat) (st : Stmt) (hord : isOrd st = true)
    (hu : st ∈ (s.th i).buf ++ (s.th i).qStmts) : st ∉ (s.th i).popped :=
  fun hp => h.popped_ne_unpopped hp hord hu hord rfl

/-- **Exactly once after a drain, decided in the final state.** Under the premises of `C03_exactly_once_after_drain`,
    a schedule (drain included) without `setSinkLevel` and no scheduled `write_log` fault: every ordinary statement any
    context ever ACCEPTED (logger present at the start) has, at every sink, exactly one write per occurrence of the sink
    among the sinks of its logger that accept it in the FINAL state `F`, and none at any other sink. -/
theorem C03_exactly_once_final_decision (s0 : BSt) (h0 : StartF s0) (hi0 : Inv s0) (ops : List Op)
    (hrun : (runOps s0 ops).backendGone = false) (dt : Nat) (hdt : (runOps s0 ops).cfg.grace ≤ dt)
    (suffix : List Op) (hq : ∀ o ∈ suffix, quietOp o = true)
    (hn : pendingCount (runOps s0 ops) ≤ pollCount suffix)
    (hno : noSinkLevelOps (ops ++ .front (.tick dt) :: suffix) = true) (hf : NoWriteFault s0) (i : Nat) (st : Stmt)
    (hm : st ∈ ((runOps (runOps s0 ops) (.front (.tick dt) :: suffix)).th i).accepted) (hord : isOrd st = true)
    (hlg : st.lg < s0.lgs.length) (sid : Nat) :
    wcount (runOps (runOps s0 ops) (.front (.tick dt) :: suffix)).log sid st.id =
      (((runOps (runOps s0 ops) (.front (.tick dt) :: suffix)).lgOf st.lg).sinks.filter
        (acc (runOps (runOps s0 ops) (.front (.tick dt) :: suffix)) st)).count sid := by
  have hd := (C03_delivered_after_quiet_drain s0 h0 ops hrun dt hdt suffix hq hn i).1
  rw [hd] at hm
  have e : runOps (runOps s0 ops) (.front (.tick dt) :: suffix) = runOps s0 (ops ++ .front (.tick dt) :: suffix) := by
    simp [runOps, List.foldl_append]
  rw [e] at hm ⊢
  refine C03_final_acceptance s0 hi0 (fun j => ?_) _ hno hf i st hm hord hlg sid
  rw [th_default_of_ge s0 j (by rw [h0.start.ths]; exact Nat.zero_le _)]
  rfl

/-- for a logger that lists every sink once the count is 1 for a listed accepting sink, else 0 -/
theorem C03_final_count_nodup (l : List Nat) (p : Nat → Bool) (sid : Nat) (hn : l.Nodup) :
    (l.filter p).count sid = if sid ∈ l ∧ p sid = true then 1 else 0 := by
  induction l with
  | nil => simp
  | cons k rest ih =>
    have hn' := List.nodup_cons.mp hn
    by_cases hp : p k = true
    · rw [List.filter_cons_of_pos hp, List.count_cons, ih hn'.2]
      by_cases e : k = sid
      · subst e
        simp [hp, hn'.1]
      · have e' : ¬ sid = k := fun h => e h.symm
        simp [e, e']
    · rw [List.filter_cons_of_neg hp, ih hn'.2]
      by_cases e : k = sid
      · subst e
        simp [hp, hn'.1]
      · have e' : ¬ sid = k := fun h => e h.symm
        simp [e']

/-! ### non-vacuity -/

theorem c03TightInit_noWriteFault : NoWriteFault c03TightInit := by
  intro sid
  simp only [BSt.sinkOf, c03TightInit, c03Init, List.find?]
  split
  · rfl
  · split <;> rfl

/-- the premises of `C03_exactly_once_final_decision` hold on `c03TightInit` / `c03TightPre` with three quiet polls (the
    drain premises are checked in `C03Delivery.lean`): no `setSinkLevel` in the schedule, no scheduled fault, the logger
    exists at the start; and the conclusion is what the model computes for statement 0 — one write at each of the two
    sinks, which both accept it in the final state -/
example : Inv c03TightInit ∧ NoWriteFault c03TightInit ∧
    noSinkLevelOps (c03TightPre ++ [.front (.tick 0), .poll [], .poll [], .poll []]) = true ∧
    ((runOps (runOps c03TightInit c03TightPre) [.front (.tick 0), .poll [], .poll [], .poll []]).th 0).accepted.head?.map
      (fun st => (st.id, isOrd st, decide (st.lg < c03TightInit.lgs.length),
        let F := runOps (runOps c03TightInit c03TightPre) [.front (.tick 0), .poll [], .poll [], .poll []]
        [1, 2, 3].map (fun sid => (wcount F.log sid st.id, ((F.lgOf st.lg).sinks.filter (acc F st)).count sid)))) =
      some (0, true, true, [(1, 1), (1, 1), (0, 0)]) :=
  ⟨c03TightInit_fresh.inv, c03TightInit_noWriteFault, by decide, by decide⟩

/-- statement 0 (level 4) is logged and popped, then `setSinkLevel 1 5` runs -/
def c03FinalLate : List Op := [.front (.tstart 0), .front (.log 0 0 4 10 true), .poll [], .front (.setSinkLevel 1 5)]

/-- the premise `noSinkLevelOps` is needed: `setSinkLevel 1 5` AFTER the pop of statement 0 (level 4) — the whole history
    holds its one write at sink 1 (the pop-time decision), the final state's sink 1 rejects it. The schedule violates
    `noSinkLevelOps`; all the other premises of `C03_final_acceptance` hold. Level stability itself is also refuted. -/
example :
    noSinkLevelOps c03FinalLate = false ∧ noSinkLevelOps (c03FinalLate.take 3) = true ∧
    ((runOps c03TightInit c03FinalLate).th 0).popped.head?.map (fun st =>
      (st.id, isOrd st, decide (st.lg < c03TightInit.lgs.length),
      [1, 2].map (fun sid => (wcount (runOps c03TightInit c03FinalLate).log sid st.id,
        (((runOps c03TightInit c03FinalLate).lgOf st.lg).sinks.filter
          (acc (runOps c03TightInit c03FinalLate) st)).count sid)))) =
      some (0, true, true, [(1, 0), (1, 1)]) ∧
    ((runOps c03TightInit c03FinalLate).sinkOf 1).lvl = 5 ∧ (c03TightInit.sinkOf 1).lvl = 0 := by decide

/-- a `setSinkLevel` hidden in the injection table of a poll is seen by the premise -/
example : noSinkLevelOps [.poll [(4, 1, [.query, .setSinkLevel 1 5])]] = false ∧
    noSinkLevelOps [.poll [(4, 1, [.query, .setLevel 0 5])], .exit] = true := by decide

/-- the level change comes first, while statement 0 is still in the queue -/
def c03FinalEarlyPre : List Op := [.front (.tstart 0), .front (.log 0 0 4 10 true), .front (.setSinkLevel 1 5)]

/-- the suffix form: the level change happens BEFORE the point `pre` at which statement 0 is still in the queue (nothing
    popped); `post = [poll]` has no level change; the final-state decision (sink 1 at level 5 rejects, sink 2 accepts) is
    the count -/
example :
    noSinkLevelOps [.poll []] = true ∧ noSinkLevelOps (c03FinalEarlyPre ++ [.poll []]) = false ∧
    ((runOps c03TightInit c03FinalEarlyPre).th 0).popped.length = 0 ∧
    ((runOps c03TightInit (c03FinalEarlyPre ++ [.poll []])).th 0).popped.head?.map (fun st =>
      (st.id, isOrd st, decide (st.lg < (runOps c03TightInit c03FinalEarlyPre).lgs.length),
      [1, 2].map (fun sid => (wcount (runOps c03TightInit (c03FinalEarlyPre ++ [.poll []])).log sid st.id,
        (((runOps c03TightInit (c03FinalEarlyPre ++ [.poll []])).lgOf st.lg).sinks.filter
          (acc (runOps c03TightInit (c03FinalEarlyPre ++ [.poll []])) st)).count sid)))) =
      some (0, true, true, [(0, 0), (1, 1)]) := by
  decide

end Backend
