import QuillModel.Props.C15
/-!
# C14 / C15 (audit round) — no loss as an equality; separation and sharing against the rotation *schedule*

`C14_index_sequence` concludes `… <:+ …` (the empty list is a suffix of everything), completeness being per step
(`C14_index_write`); `C15_separates` / `C15_shares` are per step and speak about the sink's internal
`_next_rotation_time` (`timeDue w ts`), not about the configured grid. This file lifts them:

* `C14_index_no_loss_without_overwrite`: with overwriting off, after **any** run of writes the files read oldest →
  newest are exactly the old content followed by **all** statements written, in order (equality);
  `C14_index_write_keeps_all_within_backup`: the same for one write while the backup limit is not exceeded.
* `C15_separates_on_schedule`: if every earlier record is before the schedule point `initialRot + k·period` and the new
  record is at or after it, the new record starts a file (nothing with a positive size before it);
  `C15_not_due_on_schedule`: if no schedule point lies after all earlier records and at or before the new record, no time
  rotation happens (the statements share a file unless size rotation intervenes); `pre_nil_of_pos` turns `bytes pre = 0`
  into `pre = []` for statements of positive size.

Exceptions that remain in the statements because the code has them: `stopped` (backup limit reached with overwriting
off: rotation stops, everything goes to one file) and zero-byte records in front of the separated record.
-/
namespace Rot

/-- **nothing is lost, as an equality** (Index scheme, overwriting off, any run of writes) -/
theorem C14_index_no_loss_without_overwrite (P : Params) (z : Nat → Int) :
    ∀ (l : List (Stmt × Nat)) (w : World), IndexInv w → w.sink.cfg.overwrite = false →
      diskSeq (run P z w (writeOps l)) = diskSeq w ++ l.map (·.1)
  | [], w, _, _ => by simp [writeOps, run]
  | x :: l, w, h, ho => by
    obtain ⟨n, he, hn⟩ := write_diskSeq P z w x.1 x.2 h
    have hn0 : n = 0 := by
      rcases hn with hn | ⟨h1, _⟩
      · exact hn
      · rw [ho] at h1; cases h1
    subst hn0
    have ih := C14_index_no_loss_without_overwrite P z l (write P z w x.1 x.2) (write_inv P z w x.1 x.2 h)
      (by rw [write_cfg]; exact ho)
    simp only [writeOps, List.map_cons, run, step] at ih ⊢
    rw [ih]
    simp at he
    rw [← he]; simp

/-- within the backup limit one write loses nothing either (no deletion while `created.length ≤ maxBackup`) -/
theorem C14_index_write_keeps_all_within_backup (P : Params) (z : Nat → Int) (w : World) (st : Stmt) (ts : Nat)
    (h : IndexInv w) (hle : w.sink.created.length ≤ w.sink.cfg.maxBackup) :
    diskSeq (write P z w st ts) = diskSeq w ++ [st] := by
  obtain ⟨n, he, hn⟩ := write_diskSeq P z w st ts h
  rcases hn with hn | ⟨_, h2⟩
  · subst hn; simp at he; exact he.symm
  · omega

/-- **separation against the schedule**: every earlier record before the `k`-th schedule point, the new one at or after it -/
theorem C15_separates_on_schedule (P : Params) (hP : P.advancesFromSchedule = true) (z : Nat → Int) (fs : FS) (c : Cfg)
    (start : Nat) (hc : CfgOK c) (hf : c.freq ≠ .disabled) (l : List (Stmt × Nat)) (st : Stmt) (ts k : Nat)
    (hk : ∀ t ∈ l.map (·.2), t < initialRot z c start + k * period c)
    (hle : initialRot z c start + k * period c ≤ ts)
    (hns : stopped (run P z (restart z fs c start) (writeOps l)).sink = false) :
    ∃ pre, (write P z (run P z (restart z fs c start) (writeOps l)) st ts).fs.get curName = some (pre ++ [st]) ∧
      bytes pre = 0 := by
  have hcur : CurInv (run P z (restart z fs c start) (writeOps l)) := run_curInv P z _ _ (restart_curInv z fs c start)
  have hle' := C15_grid_least P hP z fs c start hc hf l k hk
  have hcfg : (run P z (restart z fs c start) (writeOps l)).sink.cfg = c := by
    rw [run_writes_cfg]; rfl
  exact C15_separates P z _ st ts hcur ⟨by rw [hcfg]; exact hf, Nat.le_trans hle' hle⟩ hns

/-- **sharing against the schedule**: no schedule point after all earlier records and at or before `ts` ⇒ not time-due -/
theorem C15_not_due_on_schedule (P : Params) (hP : P.advancesFromSchedule = true) (z : Nat → Int) (fs : FS) (c : Cfg)
    (start : Nat) (hc : CfgOK c) (hf : c.freq ≠ .disabled) (l : List (Stmt × Nat)) (ts : Nat)
    (hno : ∀ k, (∀ t ∈ l.map (·.2), t < initialRot z c start + k * period c) → ts < initialRot z c start + k * period c) :
    ¬ timeDue (run P z (restart z fs c start) (writeOps l)) ts := by
  intro hd
  have g := C15_grid P hP z fs c start hc hf l
  obtain ⟨k, hk⟩ := g.onGrid
  have := hno k (fun t ht => by rw [← hk]; exact g.after t ht)
  have h2 : (run P z (restart z fs c start) (writeOps l)).sink.nextRot ≤ ts := hd.2
  omega

/-- statements of positive size: `bytes pre = 0` means there is nothing before the separated record -/
theorem pre_nil_of_pos (pre : List Stmt) (hp : ∀ s ∈ pre, 0 < s.size) (hb : bytes pre = 0) : pre = [] := by
  cases pre with
  | nil => rfl
  | cons a t =>
    have := hp a List.mem_cons_self
    simp [bytes] at hb
    omega

/-- non-vacuity of `C14_index_no_loss_without_overwrite`: three 8-byte statements through a 10-byte limit, two backups,
    overwriting off — the start state satisfies the invariant and all three statements are on disk in order -/
example :
    let c : Cfg := { limit := 10, maxBackup := 2, overwrite := false, append := true }
    (restart zGmt [] c 0).sink.cfg.overwrite = false ∧
    diskSeq (run Params.repaired zGmt (restart zGmt [] c 0) (writeOps [(⟨1, 8⟩, 1), (⟨2, 8⟩, 2), (⟨3, 8⟩, 3)])) =
      [⟨1, 8⟩, ⟨2, 8⟩, ⟨3, 8⟩] := by decide

end Rot
