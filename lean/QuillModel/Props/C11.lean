import QuillModel.Codec.Alloc
/-!
# C11 — a steady-state log call neither allocates nor formats on the calling thread

Property theorems only (helpers: `QuillModel/Codec/Alloc.lean`). The object is `logCall` of `Codec/Model.lean`: one
`LoggerImpl::log_statement` on the calling thread — context look-up, size pass (with the size cache), `prepare_write`,
encode pass — emitting `Event`s for everything that allocates or runs user code. Quantifiers: every frame, every
frontend state (registered or not, any cache content/capacity, any queue occupancy/capacity/limit), every well-formed
argument list, dynamic level or not.

**partial** — what the model can see is the code of `log_statement`, `Codec<T>`, `InlinedVector` and the queue as
modelled. A temporary inside libstdc++/libfmt, or one introduced by a rewrite of the C++ (say a `std::string` built in
`log_statement`), is invisible here; only the measured correspondence (harness `h5_alloc`: interposed `operator new`,
`malloc` family and `mmap`, counted on the calling thread inside each real log call and compared with the counts these
definitions predict) can see it, and that is testing.
-/
namespace Codec

/-- the reallocations of the size cache during the size pass of a statement, as `Event`s -/
def cacheEvents (c : Cache) (args : List Arg) : List Event :=
  (growSteps c.cap (startCache c args).data.length (lensL args).length).map Event.cacheGrow

/-- **the allocation events of a log call are exactly these.** In program order: creation of the thread context on
    the thread's first call; one `cacheGrow` per doubling of the `InlinedVector` (computed by `growSteps` from the
    capacity, the live entries after the clearing rule and the number of lengths the statement caches); the queue's
    reaction to `prepare_write(total)`; and the user code the arguments themselves bring (`argEventsL`: the
    `fs::path` temporary, the copy constructor of a non trivially copyable deferred-format object, the formatter of a
    direct-format object). Nothing else. -/
theorem C11_events_exact (f : Frame) (fe : Frontend) (args : List Arg) (dyn : Bool) (h : wfL args = true) :
    (logCall f fe args dyn).1 =
      (if fe.registered then [] else [Event.ctxCreate]) ++ cacheEvents fe.cache args ++
      (fe.queue.reserve (reserved f fe.cache args dyn)).1 ++ argEventsL args := by
  have hs := sizeStatement_spec (fun _ => 0) fe.cache args 0 h
  have hg := (pushAll_grown (lensL args) (startCache fe.cache args)).1
  have hc := startCache_cap fe.cache args
  unfold logCall cacheEvents reserved
  simp only [hs, hg, hc.1, hc.2, List.drop_left]

/-- **the size cache reallocates iff the statement caches more lengths than the vector's current capacity**
    (a statement that caches anything starts from a cleared vector) -/
theorem C11_cache_growth_iff (c : Cache) (args : List Arg) :
    cacheEvents c args = [] ↔ (lensL args).length ≤ c.cap ∨ lensL args = [] := by
  unfold cacheEvents
  rw [List.map_eq_nil_iff]
  rcases startCache_len c args with h0 | h0
  · rw [h0, growSteps_eq_nil _ _ _ (Nat.zero_le _)]
    constructor
    · rintro (h | h)
      · right; exact List.eq_nil_of_length_eq_zero h
      · left; omega
    · rintro (h | h)
      · right; omega
      · left; simp [h]
  · simp [h0, growSteps]

/-- the queue allocates iff the record does not fit the free space and growing stays within the limit -/
theorem C11_queue_growth_iff (q : Queue) (n : Nat) :
    (q.reserve n).1 ≠ [] ↔ (q.fits n = false ∧ growTo 64 (2 * q.cap) n ≤ q.maxCap) := by
  unfold Queue.reserve
  cases hf : q.fits n
  · simp only [Bool.false_eq_true, if_false]
    split <;> simp_all
  · simp

/-- **steady state: no event at all.** With a registered context, no more cached lengths than the vector's capacity
    (`N` = 12 inline, or whatever an earlier statement grew it to), a record that fits the queue, and arguments of the
    listed types (arithmetic, enum, pointer, strings, C strings, char arrays, std containers / optional / pair / tuple
    of those, trivially copyable deferred-format types, `StringRef`), the call allocates nothing and runs no user
    code — for every such argument list, value and dynamic-level choice. -/
theorem C11_no_events (f : Frame) (fe : Frontend) (args : List Arg) (dyn : Bool) (h : wfL args = true)
    (hreg : fe.registered = true) (hcache : (lensL args).length ≤ fe.cache.cap)
    (hfit : fe.queue.fits (reserved f fe.cache args dyn) = true) (hl : listedL args = true) :
    (logCall f fe args dyn).1 = [] := by
  rw [C11_events_exact f fe args dyn h, hreg, (C11_cache_growth_iff fe.cache args).mpr (Or.inl hcache),
    listedL_argEvents args hl]
  unfold Queue.reserve
  simp [hfit]

/-- **the cache allocation is a one-off.** Whatever a call had to grow, the same statement (or any statement caching
    no more lengths) issued again finds the capacity in place: no `cacheGrow` event. -/
theorem C11_steady_state (f : Frame) (fe : Frontend) (args args' : List Arg) (dyn : Bool) (h : wfL args = true)
    (hc : 0 < fe.cache.cap) (hle : (lensL args').length ≤ (lensL args).length) :
    cacheEvents (logCall f fe args dyn).2.cache args' = [] := by
  rw [C11_cache_growth_iff]
  left
  have hs := sizeStatement_spec (fun _ => 0) fe.cache args 0 h
  have hcap := (pushAll_grown (lensL args) (startCache fe.cache args)).2
  have hsc := startCache_cap fe.cache args
  have hcache : (logCall f fe args dyn).2.cache = (startCache fe.cache args).pushAll (lensL args) := by
    unfold logCall; simp only [hs]
  rw [hcache, hcap, hsc.1]
  rcases startCache_len fe.cache args with h0 | h0
  · rw [h0]
    have := (capAfter_ge (lensL args).length fe.cache.cap 0 hc (Nat.zero_le _)).2
    omega
  · have : (lensL args').length = 0 := by rw [h0] at hle; simpa using hle
    omega

/-- **formatter calls on the caller.** The number of `fmt::formatter` invocations a log call makes on the calling
    thread is twice the number of direct-format arguments (once in `formatted_size` during the size pass, once in
    `format_to_n` during the encode pass — what `DirectFormatCodec` does); … -/
theorem C11_formatter_calls (f : Frame) (fe : Frontend) (args : List Arg) (dyn : Bool) (h : wfL args = true) :
    (((logCall f fe args dyn).1).filter isFormat).length = 2 * countDirectL args := by
  rw [C11_events_exact f fe args dyn h]
  simp only [count_append, format_countL]
  have h1 : ((if fe.registered then [] else [Event.ctxCreate]).filter isFormat).length = 0 := by
    split <;> simp [isFormat]
  have h2 : ((cacheEvents fe.cache args).filter isFormat).length = 0 := by
    unfold cacheEvents
    induction growSteps fe.cache.cap (startCache fe.cache args).data.length (lensL args).length with
    | nil => rfl
    | cons x xs ih => simp [isFormat, ih]
  have h3 : (((fe.queue.reserve (reserved f fe.cache args dyn)).1).filter isFormat).length = 0 := by
    unfold Queue.reserve
    split
    · rfl
    · simp only []
      split <;> simp [isFormat]
  omega

/-- … in particular a statement without direct-format arguments — deferred-format user types of either kind included —
    runs no formatter on the calling thread: its arguments are copied (`memcpy` / placement copy) and formatted by
    the backend. -/
theorem C11_deferred_no_format (f : Frame) (fe : Frontend) (args : List Arg) (dyn : Bool) (h : wfL args = true)
    (hd : countDirectL args = 0) : ∀ e ∈ (logCall f fe args dyn).1, e ≠ Event.formatCall := by
  intro e he hc
  have hcount := C11_formatter_calls f fe args dyn h
  rw [hd] at hcount
  have : e ∈ ((logCall f fe args dyn).1).filter isFormat := List.mem_filter.mpr ⟨he, by simp [isFormat, hc]⟩
  have hnil := List.eq_nil_of_length_eq_zero (by omega : (((logCall f fe args dyn).1).filter isFormat).length = 0)
  rw [hnil] at this
  exact absurd this List.not_mem_nil

/-! ### the budget of the size cache is about C strings -/

/-- **twelve C strings, next to anything that is not a string.** A statement whose arguments are variable-length C
    strings (`char const*`, `char*`, `char[N]`) and arguments that take no slot — arithmetic/enum/pointer values,
    `std::string`/`string_view`, deferred-format objects, and `std::vector`/`deque`/`list`/`set`/`map`/`array`/
    `optional`/`pair`/`tuple` of such, nested arbitrarily (`slotFree`: no C string inside, no container that caches
    its element count) — caches exactly one length per C string; so with at most as many C strings as the vector's
    capacity (twelve inline) the size cache does not reallocate, however many other arguments there are. -/
theorem C11_cstr_budget (c : Cache) (args : List Arg)
    (h : args.all (fun a => cstrLike a || slotFree a) = true) (hk : countCStr args ≤ c.cap) :
    (lensL args).length = countCStr args ∧ cacheEvents c args = [] := by
  have hl := budget_length args h
  exact ⟨hl, (C11_cache_growth_iff c args).mpr (Or.inl (by omega))⟩

/-- a container of the budget's table (`specKind`: every family but `forward_list`) whose elements take no slot takes
    no slot itself — `std::list<int>` next to twelve C strings costs nothing; `forward_list` costs one -/
theorem C11_container_slots (name : String) (ki : KindInfo) (es : Shape) (elems : List Arg)
    (he : slotFreeL elems = true) :
    slotFree (.seq (specKind name ki) es elems) = !specPushCount name ∧
    (lens (.seq (specKind name ki) es elems)).length = if specPushCount name then 1 else 0 := by
  have gen : ∀ k : KindInfo, (lens (.seq k es elems)).length = if k.pushCount then 1 else 0 := by
    intro k
    simp only [lens, slotFreeL_lens elems he, ite_self, List.append_nil]
    split <;> simp
  exact ⟨by simp [slotFree, specKind, he], gen (specKind name ki)⟩

/-! ### the queue between log calls: a drained queue grants every record up to its capacity -/

/-- after a backend pass that consumed everything, with the reader position published on drain, a record fits iff
    it does not exceed the capacity of the thread's current buffer -/
theorem C11_drained_fits_iff (q : Queue) (pct n : Nat) : (q.drain true pct).fits n = true ↔ n ≤ q.cap := by
  simp [Queue.fits, Queue.drain]

/-- **a statement that fits the thread's current queue buffer does not allocate once the backend has drained the
    queue** — after *any* history of log calls and backend passes on that thread (records of any size, any number of
    them unpublished in between) that ends with a pass consuming everything: registered context, no more cached
    lengths than the vector's capacity, listed argument types, `total_size ≤ capacity` ⇒ no event at all. -/
theorem C11_no_events_after_drain (f : Frame) (fe : Frontend) (ops : List FOp) (pct : Nat) (args : List Arg)
    (dyn : Bool) (h : wfL args = true) (hreg : fe.registered = true)
    (hcache : (lensL args).length ≤ (Frontend.run f true pct fe (ops ++ [.drain])).cache.cap)
    (hfit : reserved f (Frontend.run f true pct fe (ops ++ [.drain])).cache args dyn ≤
              (Frontend.run f true pct fe (ops ++ [.drain])).queue.cap)
    (hl : listedL args = true) :
    (logCall f (Frontend.run f true pct fe (ops ++ [.drain])) args dyn).1 = [] := by
  apply C11_no_events f _ args dyn h (run_registered f true pct _ fe hreg) hcache _ hl
  rw [run_append] at hfit ⊢
  simp only [Frontend.run, List.foldl_cons, List.foldl_nil, Frontend.step] at hfit ⊢
  rw [C11_drained_fits_iff]
  simpa [drain_cap] using hfit

/-- **Steady state, lifted to a thread's whole history** (audit round). `C11_no_events` is about one call in a state
    that satisfies three hypotheses; this theorem discharges them from the property's own premise. Take **any** thread
    history `ops` (log calls with any well-formed arguments — allocating ones included — interleaved with backend drains)
    from any frontend state whose size cache has at least the inline capacity `N` (12, extracted), such that the thread is
    past its first log call (`ops` contains a log call) or was registered by `preallocate()` (`fe0.registered`); let the
    backend drain once more. Then a statement of the listed argument types with at most `N` cached lengths (twelve C
    strings) whose record fits the capacity of the thread's *current* queue buffer allocates nothing and runs no user
    code: the context stays registered, the cache capacity never shrinks below `N`, and a drained queue grants every
    record up to its capacity. -/
theorem C11_steady_state_after_any_history (f : Frame) (fe0 : Frontend) (ops : List FOp) (pct N : Nat)
    (args : List Arg) (dyn : Bool) (h : wfL args = true) (hops : ∀ op ∈ ops, op.wf = true)
    (hN : 0 < N) (hcap0 : N ≤ fe0.cache.cap)
    (hfirst : fe0.registered = true ∨ ops.any FOp.isLog = true)
    (hl : listedL args = true) (hk : (lensL args).length ≤ N)
    (hfit : reserved f (Frontend.run f true pct fe0 (ops ++ [.drain])).cache args dyn ≤
              (Frontend.run f true pct fe0 (ops ++ [.drain])).queue.cap) :
    (logCall f (Frontend.run f true pct fe0 (ops ++ [.drain])) args dyn).1 = [] := by
  have hreg : (Frontend.run f true pct fe0 (ops ++ [.drain])).registered = true :=
    run_registered_of_log f true pct _ fe0 (hfirst.imp id (fun h => by simp [h]))
  have hcap : fe0.cache.cap ≤ (Frontend.run f true pct fe0 (ops ++ [.drain])).cache.cap :=
    run_cache_cap f true pct _ fe0 (fun op ho => by
      rcases List.mem_append.mp ho with h1 | h1
      · exact hops op h1
      · simp at h1; subst h1; rfl) (by omega)
  apply C11_no_events f _ args dyn h hreg (by omega) _ hl
  rw [run_append] at hfit ⊢
  simp only [Frontend.run, List.foldl_cons, List.foldl_nil, Frontend.step] at hfit ⊢
  rw [C11_drained_fits_iff]
  simpa [drain_cap] using hfit

/-- **the fuel of `growTo` suffices** (audit round): the model's rendering of `while (capacity < n) capacity *= 2` runs
    64 doublings from `2·cap`; for every request up to `cap · 2^65` — beyond any `size_t` for `cap ≥ 1` — the loop exits
    on its own condition, so `C11_queue_growth_iff` / `C11_oversize_allocates` never speak about a capacity that is too
    small because the fuel ran out. -/
theorem C11_growTo_fuel_suffices (cap n : Nat) (h : n ≤ cap * 2 ^ 65) : n ≤ growTo 64 (2 * cap) n :=
  growTo_ge 64 (2 * cap) n (by
    have e : 2 * cap * 2 ^ 64 = cap * 2 ^ (64 + 1) := by rw [Nat.pow_succ]; ac_rfl
    rw [e]; exact h)

/-- a record larger than the buffer's capacity cannot be granted by the current node: the queue allocates (when the
    limit allows) whatever has been consumed -/
theorem C11_oversize_allocates (q : Queue) (n : Nat) (hn : q.cap < n) (hmax : growTo 64 (2 * q.cap) n ≤ q.maxCap) :
    (q.reserve n).1 = [.queueGrow (growTo 64 (2 * q.cap) n)] := by
  have hf : q.fits n = false := by simp [Queue.fits]; omega
  simp [Queue.reserve, hf, hmax]

/-- **why `commit_read` must publish on drain** (proved negation for the batched-only rule, concrete witness on the
    default 128 KiB queue): three 36-byte records, each consumed by a complete backend pass, leave 108 consumed but
    unpublished bytes (the 5 % batch threshold is 6553); a record of `capacity − 8` bytes then does not fit what the
    producer can see and the *empty* queue allocates a 256 KiB node on the calling thread. With the publish-on-drain
    clause (obligation `alloc_drain_publishes`) the same history allocates nothing. -/
theorem C11_drain_without_publish_allocates :
    let q0 : Queue := { cap := 131072, used := 0, maxCap := 2147483648 }
    let hist (pub : Bool) : Queue :=
      ((((((q0.reserve 36).2.getD q0).drain pub 5).reserve 36).2.getD q0).drain pub 5 |>.reserve 36).2.getD q0 |>.drain pub 5
    (hist false).used = 108 ∧ ((hist false).reserve 131064).1 = [.queueGrow 262144] ∧
    (hist true).used = 0 ∧ ((hist true).reserve 131064).1 = [] ∧ ((hist true).reserve 131072).1 = [] ∧
    ((hist true).reserve 131073).1 = [.queueGrow 262144] := by decide

/-! ### finding F16: the map codecs copy their elements -/

/-- `std::map` / `std::unordered_map` as found in the pinned tree (`pairTemp`), and as repaired -/
def kiMapPinned : KindInfo :=
  { hasPrefix := true, fastSize := true, fastEncode := false, pushCount := false, mapLike := true, pairTemp := true }
def kiMapRepaired : KindInfo := { kiMapPinned with pairTemp := false }

/-- a one-element `std::map<std::string, int32_t>` -/
def mapStringInt (ki : KindInfo) : Arg :=
  .seq ki (.pair .str (.prim .arith 4)) [.pair (.str [107, 101, 121]) (.prim .arith [1, 0, 0, 0])]

/-- **C11 is false of the pinned map codecs** (proved negation, concrete witness): on a registered thread, with no
    cached length at all and a record that fits, logging a `std::map<std::string,int>` copies the element — key
    included — once per pass. The full statement "containers of the listed types never allocate" therefore carries the
    decidable hypothesis `listed` (which excludes exactly the map families with a non trivially copyable element while
    `pairTemp` holds); the harness runs the excluded point on the real code. -/
theorem C11_map_pair_temporary_allocates :
    (logCall { tsBytes := 8, ptrBytes := 8, nPtrs := 3, lvlBytes := 1 }
      { registered := true, cache := Cache.init 12, queue := { cap := 131072, used := 0, maxCap := 2147483648 } }
      [mapStringInt kiMapPinned] false).1 = [Event.pairCopy, Event.pairCopy] ∧
    listed (mapStringInt kiMapPinned) = false ∧
    (logCall { tsBytes := 8, ptrBytes := 8, nPtrs := 3, lvlBytes := 1 }
      { registered := true, cache := Cache.init 12, queue := { cap := 131072, used := 0, maxCap := 2147483648 } }
      [mapStringInt kiMapRepaired] false).1 = [] ∧
    listed (mapStringInt kiMapRepaired) = true := by decide

/-- once no container copies its elements (`pairTemp = false` everywhere: obligation `alloc_no_pair_temporaries`),
    `listed` no longer depends on the container kind: maps of strings are covered by `C11_no_events` like any other
    container -/
theorem C11_listed_of_no_pair_temporaries (ki : KindInfo) (es : Shape) (elems : List Arg) (h : ki.pairTemp = false) :
    listed (.seq ki es elems) = listedL elems := by
  simp [listed, copiesPairs, h]

/-! ### non-vacuity -/

def frame0 : Frame := { tsBytes := 8, ptrBytes := 8, nPtrs := 3, lvlBytes := 1 }
def warm : Frontend := { registered := true, cache := Cache.init 12, queue := { cap := 131072, used := 0, maxCap := 2147483648 } }
def cold : Frontend := { warm with registered := false }
def kiVec : KindInfo := { hasPrefix := true, fastSize := true, fastEncode := true, pushCount := false, mapLike := false, pairTemp := false }

/-- twelve C strings, a `std::string`, a `vector<string>` and a POD on a warm thread: nothing -/
example : (logCall frame0 warm (List.replicate 12 (.cstr (some [65, 66])) ++
    [.str [1, 2, 3], .seq kiVec .str [.str [4]], .pod [0, 0, 0, 0]]) true).1 = [] := by decide
/-- the thirteenth C string grows the vector once (12 → 24); the same statement again finds the room -/
example : (logCall frame0 warm (List.replicate 13 (.cstr none)) false).1 = [.cacheGrow 24] ∧
    (logCall frame0 (logCall frame0 warm (List.replicate 13 (.cstr none)) false).2 (List.replicate 13 (.cstr none)) false).1 = [] := by
  decide
/-- first call of a thread; a record larger than the free space of a 128 KiB queue; a direct-format argument -/
example : (logCall frame0 cold [.prim .arith [1, 0, 0, 0]] false).1 = [.ctxCreate] := by decide
example : (logCall frame0 { warm with queue := { cap := 1024, used := 1000, maxCap := 4096 } } [.str (List.replicate 100 65)] false).1 =
    [.queueGrow 2048] := by decide
example : (logCall frame0 warm [.direct [104, 105], .nonpod 8 [0, 0, 0, 0, 0, 0, 0, 0]] false).1 =
    [.formatCall, .formatCall, .userCopy] := by decide

/-- twelve C strings (a null pointer and an unterminated `char[3]` among them) next to a `std::list<int32_t>`, a
    `vector<string>`, an engaged optional and a pair: twelve cached lengths, no reallocation at the inline capacity —
    and a `forward_list<int32_t>` in place of the list is the thirteenth slot -/
def kiListSpec : KindInfo := specKind "list" { hasPrefix := true, fastSize := true, fastEncode := false, pushCount := false, mapLike := false, pairTemp := false }
def kiFwdSpec : KindInfo := specKind "forward_list" { hasPrefix := true, fastSize := false, fastEncode := false, pushCount := false, mapLike := false, pairTemp := false }
def twelveCStr : List Arg := List.replicate 10 (.cstr (some [65, 66])) ++ [.cstr none, .carr [120, 121, 122]]
example : (twelveCStr ++ [Arg.seq kiListSpec (.prim .arith 4) [.prim .arith [1, 0, 0, 0], .prim .arith [2, 0, 0, 0]],
      .seq kiVec .str [.str [4]], .optSome (.prim .arith [1]), .pair (.prim .arith [1]) (.str [2])]).all
        (fun a => cstrLike a || slotFree a) = true := by decide
example : (logCall frame0 warm (twelveCStr ++ [Arg.seq kiListSpec (.prim .arith 4) [.prim .arith [1, 0, 0, 0]]]) false).1 = [] ∧
    (logCall frame0 warm (twelveCStr ++ [Arg.seq kiFwdSpec (.prim .arith 4) [.prim .arith [1, 0, 0, 0]]]) false).1 = [.cacheGrow 24] ∧
    (logCall frame0 warm [Arg.seq kiListSpec .cstr (List.replicate 12 (.cstr (some [65])))] false).1 = [] ∧
    (logCall frame0 warm [Arg.seq kiListSpec .cstr (List.replicate 13 (.cstr (some [65])))] false).1 = [.cacheGrow 24] := by
  decide
/-- `C11_no_events_after_drain` on a history: first call, two small records each drained, an undrained one, a drain -/
example : (logCall frame0 (Frontend.run frame0 true 5 cold
      ([.log [.prim .arith [1, 0, 0, 0]] false, .drain, .log [.cstr (some [65])] true, .drain, .log [.str [1, 2]] false] ++ [.drain]))
      [.str (List.replicate 40 113)] false).1 = [] := by decide
/-- an undrained record counts: 100 bytes in a 128-byte queue, the next 50-byte record allocates; after a drain it fits -/
example : (logCall frame0 (Frontend.run frame0 true 5 { warm with queue := { cap := 128, used := 0, maxCap := 4096 } }
      [.log [.str (List.replicate 64 113)] false]) [.str (List.replicate 14 113)] false).1 = [.queueGrow 256] ∧
    (logCall frame0 (Frontend.run frame0 true 5 { warm with queue := { cap := 128, used := 0, maxCap := 4096 } }
      [.log [.str (List.replicate 64 113)] false, .drain]) [.str (List.replicate 14 113)] false).1 = [] := by decide

/-- a cold thread with a 64-byte queue; history: the first call (creates the context), a 13-C-string statement that grows
    the size cache (12 → 24) and the queue, a drain, a 96-byte record that grows the queue again, an undrained record -/
def c11Fe0 : Frontend := { registered := false, cache := Cache.init 12, queue := { cap := 64, used := 0, maxCap := 4096 } }
def c11Hist : List FOp :=
  [.log [.prim .arith [1, 0, 0, 0]] false, .log (List.replicate 13 (.cstr none)) false, .drain,
   .log [.str (List.replicate 60 65)] false, .log [.str [1, 2]] true]

/-- non-vacuity of `C11_steady_state_after_any_history`: every hypothesis holds for this history (which itself allocated
    three times) and the next twelve-C-string statement is silent -/
example :
    (∀ op ∈ c11Hist, op.wf = true) ∧ c11Hist.any FOp.isLog = true ∧ 12 ≤ c11Fe0.cache.cap ∧
    listedL twelveCStr = true ∧ (lensL twelveCStr).length ≤ 12 ∧
    (Frontend.run frame0 true 5 c11Fe0 (c11Hist ++ [.drain])).queue.cap = 256 ∧
    (Frontend.run frame0 true 5 c11Fe0 (c11Hist ++ [.drain])).cache.cap = 24 ∧
    reserved frame0 (Frontend.run frame0 true 5 c11Fe0 (c11Hist ++ [.drain])).cache twelveCStr false = 67 ∧
    (logCall frame0 (Frontend.run frame0 true 5 c11Fe0 (c11Hist ++ [.drain])) twelveCStr false).1 = [] := by
  refine ⟨by decide, by decide, by decide, by decide, by decide, by decide, by decide, by decide, by decide⟩

end Codec
