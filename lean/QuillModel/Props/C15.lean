import QuillModel.Props.C14
/-!
# C15 — time rotation separates statements at the configured points

Property theorems only (helpers in `QuillModel/Rot/*`). Quantifiers: every start instant, every valid configuration
(`CfgOK`: interval > 0, HH ≤ 23, MM ≤ 59 — what the setters enforce), every earlier content of the directory, every
sequence of records (any sizes; any timestamps — the grid theorem does not even need them non-decreasing), any zone
function for the state theorems and a constant offset for the characterisation of the first point.
The schedule of a run is `g0, g0 + p, g0 + 2p, …` with `g0 = initialRot z c start` (`_calculate_initial_rotation_tp`)
and `p = period c` (what `_calculate_rotation_tp` adds).

DST is out of scope of the theorems: the code adds 24 h for Daily, so in a zone whose offset changes the local HH:MM
drifts; the harness exercises such zones and reports the drift (finding F19).

Quirk kept by the model and visible in the statements: a time rotation that finds the current file empty does not
rotate (`_get_file_size(...) <= 0`); the point is consumed all the same and the file keeps its earlier opening
instant. Hence "never appended to the file open before the point" is stated as: no byte written before the record
is in the record's file.
-/
namespace Rot

def writeOps (l : List (Stmt × Nat)) : List Op := l.map (fun p => .write p.1 p.2)

theorem run_writes_cfg (P : Params) (z : Nat → Int) :
    ∀ (l : List (Stmt × Nat)) (w : World), (run P z w (writeOps l)).sink.cfg = w.sink.cfg
  | [], _ => rfl
  | x :: l, w => by
    simp only [writeOps, List.map_cons, run, step]
    exact (run_writes_cfg P z l _).trans (write_cfg P z w x.1 x.2)

theorem run_writes_grid (P : Params) (hP : P.advancesFromSchedule = true) (z : Nat → Int) (g0 : Nat) :
    ∀ (l : List (Stmt × Nat)) (w : World) (tss : List Nat), 0 < period w.sink.cfg → w.sink.cfg.freq ≠ .disabled →
      GridInv g0 (period w.sink.cfg) tss w.sink.nextRot →
      GridInv g0 (period w.sink.cfg) ((l.map (·.2)).reverse ++ tss)
        (run P z w (writeOps l)).sink.nextRot
  | [], _, _, _, _, h => by simpa [writeOps, run] using h
  | x :: l, w, tss, hp, hf, h => by
    have h1 := gridInv_step g0 (period w.sink.cfg) hp tss w.sink.nextRot x.2 h
    have hn : (write P z w x.1 x.2).sink.nextRot =
        if w.sink.nextRot ≤ x.2 then advance true (period w.sink.cfg) w.sink.nextRot x.2 else w.sink.nextRot := by
      rw [write_nextRot, hP]
      by_cases hd : w.sink.nextRot ≤ x.2
      · have : timeDue w x.2 := ⟨hf, hd⟩
        simp only [this, ↓reduceIte, hd]
      · have : ¬ timeDue w x.2 := fun hh => hd hh.2
        simp only [this, ↓reduceIte, hd]
    have hc := write_cfg P z w x.1 x.2
    have ih := run_writes_grid P hP z g0 l (write P z w x.1 x.2) (x.2 :: tss) (by rw [hc]; exact hp)
      (by rw [hc]; exact hf) (by rw [hc, hn]; exact h1)
    rw [hc] at ih
    simpa [writeOps, run, step, List.map_cons, List.reverse_cons, List.append_assoc] using ih

theorem restart_cfg (z : Nat → Int) (fs : FS) (c : Cfg) (start : Nat) : (restart z fs c start).sink.cfg = c := rfl

theorem restart_nextRot (z : Nat → Int) (fs : FS) (c : Cfg) (start : Nat) (hf : c.freq ≠ .disabled) :
    (restart z fs c start).sink.nextRot = initialRot z c start := by
  simp [restart, hf]

/-- **Grid theorem.** Whatever the directory held, whatever the start instant and whatever records follow (any sizes,
    any timestamps, dense or with gaps of many periods): `_next_rotation_time` is a point of the schedule, lies strictly
    after every record of the run, and is the first such point (it is `g0` or within one period of some record).
    This is what the pinned `record_ts + period` broke (F9). -/
theorem C15_grid (P : Params) (hP : P.advancesFromSchedule = true) (z : Nat → Int) (fs : FS) (c : Cfg) (start : Nat)
    (hc : CfgOK c) (hf : c.freq ≠ .disabled) (l : List (Stmt × Nat)) :
    GridInv (initialRot z c start) (period c) (l.map (·.2))
      (run P z (restart z fs c start) (writeOps l)).sink.nextRot := by
  have hp := period_pos c hc hf
  have h0 : GridInv (initialRot z c start) (period c) [] (restart z fs c start).sink.nextRot := by
    rw [restart_nextRot z fs c start hf]
    exact ⟨⟨0, by simp⟩, by simp, Or.inl rfl⟩
  have h := run_writes_grid P hP z (initialRot z c start) l (restart z fs c start) [] hp hf h0
  simp only [restart_cfg, List.append_nil] at h
  exact ⟨h.onGrid, fun t ht => h.after t (List.mem_reverse.mpr ht),
    h.first.imp id (fun ⟨t, ht, hle⟩ => ⟨t, List.mem_reverse.mp ht, hle⟩)⟩

/-- … and it is the *least* point of the schedule after the records: any `g0 + k·p` beyond every record is `≥` it. -/
theorem C15_grid_least (P : Params) (hP : P.advancesFromSchedule = true) (z : Nat → Int) (fs : FS) (c : Cfg) (start : Nat)
    (hc : CfgOK c) (hf : c.freq ≠ .disabled)
    (l : List (Stmt × Nat)) (k : Nat) (hk : ∀ t ∈ l.map (·.2), t < initialRot z c start + k * period c) :
    (run P z (restart z fs c start) (writeOps l)).sink.nextRot ≤ initialRot z c start + k * period c :=
  gridInv_least _ _ (period_pos c hc hf) _ _ (C15_grid P hP z fs c start hc hf l) k hk

/-- **First point of the schedule** (constant offset `off`; `t` = start instant in whole seconds, `s` = the point in
    whole seconds): strictly after `t`; Minutely: the next minute boundary of local time; Hourly: the next hour
    boundary; Daily: the next instant whose local time of day is HH:MM:00, at most 24 h later. -/
theorem C15_first_point (off : Int) (c : Cfg) (start : Nat) (hc : CfgOK c) (hf : c.freq ≠ .disabled) :
    let t : Int := ((start / NS : Nat) : Int)
    let s : Int := initialSecs off c t
    ((initialRot (fun _ => off) c start : Nat) : Int) = s * 1000000000 ∧ t < s ∧
      (c.freq = .minutely → s ≤ t + 60 ∧ (s + off) % 60 = 0) ∧
      (c.freq = .hourly → s ≤ t + 3600 ∧ (s + off) % 3600 = 0) ∧
      (c.freq = .daily → s ≤ t + 86400 ∧ (s + off) % 86400 = (c.dailyH : Int) * 3600 + (c.dailyM : Int) * 60) := by
  intro t s
  obtain ⟨h1, h2, h3, h4⟩ := initialSecs_spec off c t hc
  have hts : t < s := h1 hf
  have ht0 : (0 : Int) ≤ t := Int.natCast_nonneg _
  refine ⟨?_, hts, h2, h3, h4⟩
  show ((((initialSecs off c t).toNat * NS : Nat)) : Int) = s * 1000000000
  have : ((initialSecs off c t).toNat : Int) = s := Int.toNat_of_nonneg (by omega)
  rw [Int.natCast_mul, this]; rfl

/-- **Separation.** A record at or after `_next_rotation_time` (time rotation enabled, rotation not stopped at the
    backup limit) ends up in a current file in which no byte precedes it: the file that was open before the point —
    if it held anything — has been rotated away. -/
theorem C15_separates (P : Params) (z : Nat → Int) (w : World) (st : Stmt) (ts : Nat) (h : CurInv w)
    (hdue : timeDue w ts) (hns : stopped w.sink = false) :
    ∃ pre, (write P z w st ts).fs.get curName = some (pre ++ [st]) ∧ bytes pre = 0 := by
  obtain ⟨cont, hc, _⟩ := h
  have hs := prepare_due P z w st.size ts (Or.inl hdue)
  rcases rotate_cur P z w ts with h1 | ⟨h1, _, _, _, _⟩
  · have hb : bytes cont = 0 := by
      by_cases hb : bytes cont = 0
      · exact hb
      · have := rotate_eq P z w ts cont hns hc hb
        rw [h1] at this
        have h2 := congrArg (fun x => x.fs.get curName) this
        simp only [FS.get_put, ↓reduceIte, hc, Option.some.injEq] at h2
        rw [h2] at hb; exact absurd rfl hb
    exact ⟨cont, by simp [write, appendCur, FS.get_put, hs.fs, h1, hc], hb⟩
  · exact ⟨[], by simp [write, appendCur, FS.get_put, hs.fs, h1], rfl⟩

/-- **Sharing.** A record before `_next_rotation_time` (or with time rotation disabled) is appended to the current
    file and nothing else changes — unless size rotation intervenes (`sizeDue`). With `C15_grid`: records with no
    point of the schedule between them share a file. -/
theorem C15_shares (P : Params) (z : Nat → Int) (w : World) (st : Stmt) (ts : Nat) (ht : ¬ timeDue w ts)
    (hs : ¬ sizeDue w st.size ts) : write P z w st ts = appendCur w st := by
  rw [write, prepare_idle P z w st.size ts ht hs]

/-- **Suffix of the opening instant.** (1) `_open_file_timestamp` is the start instant after the constructor and the
    triggering record's timestamp after a rotation that takes place; (2) the rotation gives the file that was current
    the suffix computed from that instant (`%Y%m%d` = civil day, `%Y%m%d_%H%M%S` = civil second, none for Index) and the
    first index of the scheme; (3) later rotations never change the suffix of a dated file (only its index). -/
theorem C15_suffix_of_opening_instant (P : Params) (z : Nat → Int) :
    (∀ fs c start, (restart z fs c start).sink.openTs = start) ∧
    (∀ w ts, rotate P z w ts = w ∨ (rotate P z w ts).sink.openTs = ts) ∧
    (∀ sch openTs, entryAfter sch (newSuffix z sch openTs) curInfo =
        ⟨newSuffix z sch openTs, if sch = .index then 1 else 0⟩ ∧
      moveOf sch (newSuffix z sch openTs) curInfo =
        some (curName, .file (newSuffix z sch openTs) (if sch = .index then 1 else 0))) ∧
    (∀ sch sfx (e : FileInfo), sch ≠ .index → e.sfx ≠ none → (entryAfter sch sfx e).sfx = e.sfx) := by
  refine ⟨fun _ _ _ => rfl, ?_, ?_, ?_⟩
  · intro w ts
    rcases rotate_cur P z w ts with h | ⟨_, _, h, _⟩
    · exact Or.inl h
    · exact Or.inr h
  · intro sch openTs
    cases sch <;> simp [entryAfter, moveOf, newSuffix, curInfo, curName, FileInfo.name]
  · intro sch sfx e hs he
    unfold entryAfter
    by_cases h1 : e.sfx = sfx
    · simp [h1]
    · simp [hs, h1, he]

/-- **Composition with C14.** Time rotation goes through the same `_rotate_files`; every C14 theorem is about `write`
    whatever triggers the rotation. In particular with any frequency configured: the Index invariant holds along every
    history, the retained sequence is the written one minus a prefix of whole deleted files, and the statement that
    triggered a time rotation is appended whole to the current file. -/
theorem C15_composes_with_C14 (P : Params) (z : Nat → Int) (fs0 : FS) (hd : DirOK fs0) (c0 : Cfg) (start0 : Nat)
    (hc0 : RestartOK c0) (ops : List Op) (hops : ∀ op ∈ ops, OpAppend op) :
    IndexInv (run P z (restart z fs0 c0 start0) ops) ∧
      diskSeq (run P z (restart z fs0 c0 start0) ops) <:+ diskSeq (restart z fs0 c0 start0) ++ written ops :=
  ⟨C14_index_invariant P z fs0 hd c0 start0 hc0 ops (fun op ho => (hops op ho).ok),
   C14_index_sequence P z fs0 hd c0 start0 hc0 ops hops⟩

/-! ### the pinned advance rule breaks the grid (F9) -/

def f9Cfg : Cfg := { freq := .daily, dailyH := 2, dailyM := 0, append := false }
/-- 2023-11-14 22:13:20 GMT -/
def f9Start : Nat := 1700000000 * NS
def f9Run (adv : Bool) : World :=
  run { advancesFromSchedule := adv } zGmt (restart zGmt [] f9Cfg f9Start)
    [.write ⟨1, 8⟩ (f9Start + 9 * 3600 * NS), .write ⟨2, 8⟩ (f9Start + 29 * 3600 * NS)]

/-- **F9.** Start 22:13, daily at 02:00 GMT, records at +9 h (07:13 next day) and +29 h (03:13 the day after). With the
    pinned rule `_next_rotation_time = record_ts + 24 h` the second record is appended to the file of the first although
    the 02:00 point of the second day lies between them, and `_next_rotation_time` is off the grid; with the repaired
    rule it is on the grid and the records are in different files. -/
theorem C15_F9_record_anchored_breaks_grid :
    let g0 := initialRot zGmt f9Cfg f9Start
    let p := period f9Cfg
    g0 = 1700013600 * NS ∧
    f9Start + 9 * 3600 * NS < g0 + p ∧ g0 + p ≤ f9Start + 29 * 3600 * NS ∧
    (f9Run false).fs.get curName = some [⟨1, 8⟩, ⟨2, 8⟩] ∧ ((f9Run false).sink.nextRot - g0) % p ≠ 0 ∧
    (f9Run true).fs.get curName = some [⟨2, 8⟩] ∧ (f9Run true).fs.get (.file none 1) = some [⟨1, 8⟩] ∧
    (f9Run true).sink.nextRot = g0 + 2 * p := by
  decide

/-! ### non-vacuity -/

/-- `C15_grid` / `C15_separates` / `C15_shares`: a valid daily configuration, a state in which a record is due, one in
    which it is not -/
example : CfgOK f9Cfg ∧ f9Cfg.freq ≠ .disabled ∧
    timeDue (restart zGmt [] f9Cfg f9Start) (f9Start + 9 * 3600 * NS) ∧
    ¬ timeDue (restart zGmt [] f9Cfg f9Start) (f9Start + 3600 * NS) ∧
    stopped (restart zGmt [] f9Cfg f9Start).sink = false ∧
    ¬ sizeDue (restart zGmt [] f9Cfg f9Start) 8 (f9Start + 3600 * NS) := by
  decide

end Rot
