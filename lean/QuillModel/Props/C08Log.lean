import QuillModel.Props.C08
import QuillModel.Backend.LiftNote
/-!
# C08 (lift round) — the reported drop count, read off the OBSERVABLE event log

`Props/C08.lean` accounts with the ghost counter `BSt.reported`. Nothing there ties that counter to what the error notifier
is actually told — the count printed inside the `.notify` string (`n:dropped:<k>:a<t>` on a dropping queue,
`n:blocked:<k>:a<t>` on a blocking one; `_check_failure_counter`, model `checkFailures` / `PC.reportStr`). Here:

* `parseCount` (Backend/LiftNote.lean) reads `<k>` back from a notification text (0 for any other notification) and
  `parseCount_reportStr` proves it recovers the count for every `k`, every thread id and both queue kinds;
* `C08_reported_is_notified`: over every run, `reported` = the sum of the parsed counts over all `notify` events of the
  whole event log;
* `C08_accounting_on_log`, `C08_dropped_equals_notified_plus_pending`: the accounting identity of `C08_accounting` with the
  ghost counter eliminated — Σ refused calls = Σ counts printed in the log + Σ pending failure counters.

**partial — not done in this round** (said here, not hidden): trace-level forms of `C08_log_call_outcome` ("the call
printed `ret=0` ⇔ it was discarded") and of "attempted = delivered + discarded + pending" over `runOps`. `runOps` drops the
observation strings of top-level operations, and the results of injected operations are only inside `Ev.inj … res` texts;
a trace-level form needs (1) an observation-collecting `runObs : BSt → List Op → BSt × List String` with
`(runObs s ops).1 = runOps s ops`, (2) a classifier of observation texts (`ret=0` / `ev=1 bytes=0` infix) with a
disjointness lemma over all formats `obsLog`/`enqFlow` print, (3) the `PC.Closed`-style walk with the observation list as
extra state for `Σ discarded = #drop observations (top level) + #drop results in Ev.inj events`. Steps (1) and (3) are
routine with `LiftBal`'s skeleton (weight on `Ev.inj` texts); step (2) is string-infix reasoning that did not fit.
-/
namespace Backend
open Backend.PA Backend.PC

/-- the count an event tells the error notifier: the parsed `<k>` of a failure-counter notification, 0 otherwise -/
def noteCount : Ev → Nat
  | .notify w => parseCount w
  | _ => 0

/-- the sum of the counts printed in the notifications of a history -/
def notifiedSum (log : List Ev) : Nat := (log.map noteCount).sum

/-- `+k` for a notification that prints `k`, `-1` per unit of `reported` -/
def reportWt : Wt := { d := fun e => (noteCount e : Int), b := -1 }

theorem reportWt_sum (l : List Ev) : reportWt.sum l = (notifiedSum l : Int) := by
  induction l with
  | nil => simp [Wt.sum, notifiedSum]
  | cons e l ih =>
    have hd : reportWt.d e = (noteCount e : Int) := rfl
    rw [Wt.sum, ih, hd]
    simp only [notifiedSum, List.map_cons, List.sum_cons]
    omega

theorem reportWt_ok : WtOK reportWt where
  inj := fun _ _ _ _ => rfl
  dtor := fun _ => rfl
  write := fun _ _ _ _ _ => rfl
  flushed := fun _ => rfl
  ffail := fun _ => by
    show ((0 : Nat) : Int) + ((parseCount "n:ffail" : Nat) : Int) = 0
    rw [parseCount_ffail]; rfl
  wfail := fun _ _ => by
    show ((0 : Nat) : Int) + ((parseCount "n:wfail" : Nat) : Int) = 0
    rw [parseCount_wfail]; rfl
  nobt := by
    show ((parseCount "n:nobt" : Nat) : Int) = 0
    rw [parseCount_nobt]; rfl
  fmterr := by
    show ((parseCount "n:fmterr" : Nat) : Int) = 0
    have : parseCount "n:fmterr" = 0 := by decide
    rw [this]; rfl
  report := fun dr n a _ => by
    show ((parseCount (reportStr dr n a) : Nat) : Int) + (-1) * (n : Int) = 0
    rw [parseCount_reportStr]; omega

/-- from any state: `reported` and the notified sum grow by the same amount along every schedule -/
theorem C08_reported_is_notified_from (s : BSt) (ops : List Op) :
    ((runOps s ops).reported : Int) - (notifiedSum (runOps s ops).log : Int) = (s.reported : Int) - (notifiedSum s.log : Int) := by
  have h := bal_runOps reportWt_ok s ops
  simp only [bal, reportWt_sum] at h
  have hb : reportWt.b = -1 := rfl
  rw [hb] at h
  omega

/-- **`reported` = Σ of the counts printed in the notifications.** From a state with an empty history in which nothing was
    reported yet, after every schedule (frontend operations injected at every hook site, notifier re-entered at site 8,
    both queue kinds, every repair flag) the ghost counter `reported` equals the sum, over all `notify` events of the whole
    event log, of the count parsed from the notification text. -/
theorem C08_reported_is_notified (s0 : BSt) (hl : s0.log = []) (hr : s0.reported = 0) (ops : List Op) :
    (runOps s0 ops).reported = notifiedSum (runOps s0 ops).log := by
  have h := C08_reported_is_notified_from s0 ops
  rw [hl, hr] at h
  simp only [notifiedSum, List.map_nil, List.sum_nil] at h
  simp only [notifiedSum]
  omega

/-- **The accounting identity on the observable log.** Summed over all contexts ever created: refused ordinary log calls
    (`discarded` + `blockedCalls`) = the counts printed in the notifications of the event log + what is still in the failure
    counters. -/
theorem C08_accounting_on_log (s0 : BSt) (h0 : Started s0) (hl : s0.log = []) (ops : List Op) :
    ((ctrs (runOps s0 ops)).map (fun c => c.2.1 + c.2.2)).sum =
      notifiedSum (runOps s0 ops).log + ((ctrs (runOps s0 ops)).map (·.1)).sum := by
  rw [← C08_reported_is_notified s0 hl h0.reported ops]
  exact C08_accounting s0 (C08_started_inv s0 h0) ops

/-- **Dropping queue**: Σ discarded = Σ counts printed in `n:dropped:` notifications + Σ pending failure counters. -/
theorem C08_dropped_equals_notified_plus_pending (s0 : BSt) (h0 : Started s0) (hl : s0.log = [])
    (hd : s0.cfg.dropping = true) (ops : List Op) :
    ((ctrs (runOps s0 ops)).map (fun c => c.2.1)).sum =
      notifiedSum (runOps s0 ops).log + ((ctrs (runOps s0 ops)).map (·.1)).sum := by
  rw [← C08_reported_is_notified s0 hl h0.reported ops]
  exact (C08_dropped_equals_reported_plus_pending s0 (C08_started_inv s0 h0) hd ops).2

/-- non-vacuity: F17's schedule under the repaired flags starts from an empty history, one statement is discarded, and the
    log holds exactly one notification, whose text parses to 1 = `reported` -/
example : Started (c08Init true true) ∧ (c08Init true true).log = [] ∧
    (runOps (c08Init true true) f17Sched).reported = 1 ∧
    (runOps (c08Init true true) f17Sched).log.filterMap (fun e => match e with | .notify w => some w | _ => none) =
      ["n:dropped:1:a1"] ∧
    notifiedSum (runOps (c08Init true true) f17Sched).log = 1 ∧ parseCount "n:dropped:1:a1" = 1 ∧
    parseCount "n:blocked:1234:a7" = 1234 := by
  refine ⟨c08Init_started true true, rfl, by decide, by decide, by decide, by decide, by decide⟩

end Backend
