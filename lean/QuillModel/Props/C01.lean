import QuillModel.Spsc.Wrap
/-!
# C01 — bounded SPSC queue: each committed record exactly once, in order, intact; no overwrite

Property theorems only (helper lemmas live in `QuillModel/Spsc/*`). Quantifiers: every capacity `> 0`
(the C++ rounds to a power of two, which the wrap-around layer needs; safety does not), every batch
threshold, every record-size sequence, every schedule of producer/consumer micro-steps, every legal
(possibly stale) atomic-load result — provided the four cross-thread accesses carry release/acquire
orders (`OrdersOK`, discharged for the extracted orders in `Obligations/Queue.lean`).
-/
namespace Spsc

/-- **No torn / early / overwritten data, no overwrite of unreleased bytes, contiguity.**
    In every state reachable by any schedule, every enabled step is safe:
    * a granted write stays inside the `2·cap` storage (contiguous record) and every cell it overwrites
      held a byte whose consumer read *happens-before* the write (`x < pHb`);
    * a read touches only bytes that *happen-after* their commit (`rpos + n ≤ cHb`) and every byte of the
      record is still in place (`mem (phys x) = some x`). -/
theorem C01_reachable_safe (o : Params) (ho : OrdersOK o) (cap batch : Nat) (hc : 0 < cap)
    (ops : List Op) (hr : Run o (init cap batch) ops) (op : Op)
    (he : Enabled (run o (init cap batch) ops) op) : Safe (run o (init cap batch) ops) op :=
  step_safe _ op (reachable_inv o ho ops _ (init_inv cap batch hc) hr) he

theorem fifo_of_inv (o : Params) (s : St) (h : QInv s) (n : Nat) (he : Enabled s (.read n)) :
    ∃ hk : s.nread < s.recs.length,
      s.rpos = startK s.recs s.nread ∧ n = s.recs[s.nread] ∧
      (step o s (.read n)).nread = s.nread + 1 ∧
      (step o s (.read n)).rpos = startK s.recs (s.nread + 1) := by
  obtain ⟨hlt, hn⟩ := he
  have hxw : s.rpos < s.wpos := by
    have := h.wcLe; have := h.cHbLe; have := h.wNew; omega
  obtain ⟨hk, _, hen⟩ := h.read_is_next hxw
  refine ⟨hk, h.rSum, by omega, rfl, ?_⟩
  simp only [step]
  rw [startK_succ _ _ hk, ← h.rSum]; omega

/-- **Exactly once, in order.** In every reachable state the record the consumer reads next is the
    `nread`-th record the producer wrote: same start (sum of the earlier lengths), same length; after the
    step `nread` advances by one — so the sequence of records consumed is a prefix of the sequence
    produced: none lost, duplicated or reordered. -/
theorem C01_fifo (o : Params) (ho : OrdersOK o) (cap batch : Nat) (hc : 0 < cap)
    (ops : List Op) (hr : Run o (init cap batch) ops) (n : Nat)
    (he : Enabled (run o (init cap batch) ops) (.read n)) :
    ∃ hk : (run o (init cap batch) ops).nread < (run o (init cap batch) ops).recs.length,
      (run o (init cap batch) ops).rpos = startK (run o (init cap batch) ops).recs (run o (init cap batch) ops).nread ∧
      n = (run o (init cap batch) ops).recs[(run o (init cap batch) ops).nread] ∧
      (step o (run o (init cap batch) ops) (.read n)).nread = (run o (init cap batch) ops).nread + 1 ∧
      (step o (run o (init cap batch) ops) (.read n)).rpos =
        startK (run o (init cap batch) ops).recs ((run o (init cap batch) ops).nread + 1) :=
  fifo_of_inv o _ (reachable_inv o ho ops _ (init_inv cap batch hc) hr) n he

/-- the record lengths the producer wrote / the consumer read during a schedule, in schedule order -/
def writesOf : List Op → List Nat
  | [] => []
  | .write n :: ops => n :: writesOf ops
  | _ :: ops => writesOf ops

def readsOf : List Op → List Nat
  | [] => []
  | .read n :: ops => n :: readsOf ops
  | _ :: ops => readsOf ops

theorem trace_fifo_of_inv (o : Params) (ho : OrdersOK o) :
    ∀ (ops : List Op) (s : St), QInv s → Run o s ops →
      (run o s ops).recs = s.recs ++ writesOf ops ∧
      (run o s ops).nread = s.nread + (readsOf ops).length ∧
      readsOf ops = ((s.recs ++ writesOf ops).drop s.nread).take (readsOf ops).length
  | [], s, _, _ => by simp [run, writesOf, readsOf]
  | op :: ops, s, h, hr => by
    have hinv := step_inv o ho s op h hr.1
    obtain ⟨ih1, ih2, ih3⟩ := trace_fifo_of_inv o ho ops (step o s op) hinv hr.2
    cases op with
    | write n =>
      have e1 : (step o s (.write n)).recs = s.recs ++ [n] := rfl
      have e2 : (step o s (.write n)).nread = s.nread := rfl
      rw [e1] at ih1 ih3; rw [e2] at ih2 ih3
      simp only [run, writesOf, readsOf]
      refine ⟨by rw [ih1]; simp, ih2, ?_⟩
      rw [show s.recs ++ n :: writesOf ops = s.recs ++ [n] ++ writesOf ops by simp]; exact ih3
    | read n =>
      obtain ⟨hk, _, hn, _, _⟩ := fifo_of_inv o s h n hr.1
      have e1 : (step o s (.read n)).recs = s.recs := rfl
      have e2 : (step o s (.read n)).nread = s.nread + 1 := rfl
      rw [e1] at ih1 ih3; rw [e2] at ih2 ih3
      simp only [run, writesOf, readsOf, List.length_cons]
      refine ⟨ih1, by rw [ih2]; omega, ?_⟩
      have hlt : s.nread < (s.recs ++ writesOf ops).length := by simp; omega
      rw [List.drop_eq_getElem_cons hlt, List.take_succ_cons, ← ih3]
      congr 1
      rw [List.getElem_append_left hk]; exact hn
    | reloadR v => exact ⟨ih1, ih2, ih3⟩
    | commitW => exact ⟨ih1, ih2, ih3⟩
    | loadW v => exact ⟨ih1, ih2, ih3⟩
    | commitR b =>
      have e1 : (step o s (.commitR b)).recs = s.recs := by simp only [step]; split <;> rfl
      have e2 : (step o s (.commitR b)).nread = s.nread := by simp only [step]; split <;> rfl
      rw [e1] at ih1 ih3; rw [e2] at ih2 ih3
      exact ⟨ih1, ih2, ih3⟩

/-- **Exactly once, in order — over the whole schedule** (audit round: `C01_fifo` is a statement about the next read
    in every reachable state; this is its lifting to the trace). For every legal schedule from the initial state, the
    sequence of record lengths the consumer read (`readsOf ops`, in schedule order) is a **prefix** of the sequence the
    producer wrote (`writesOf ops`): no record lost in the middle, none duplicated, none reordered, none invented; and the
    ghost fields the other theorems speak about are exactly these traces (`recs` = everything written, `nread` = number
    of reads). With `C01_reachable_safe` (every byte of a read record is the byte written, and happens-after its commit)
    this is "the consumer observes exactly the records the producer committed". -/
theorem C01_trace_fifo (o : Params) (ho : OrdersOK o) (cap batch : Nat) (hc : 0 < cap)
    (ops : List Op) (hr : Run o (init cap batch) ops) :
    readsOf ops <+: writesOf ops ∧
    (run o (init cap batch) ops).recs = writesOf ops ∧
    (run o (init cap batch) ops).nread = (readsOf ops).length := by
  obtain ⟨h1, h2, h3⟩ := trace_fifo_of_inv o ho ops _ (init_inv cap batch hc) hr
  have e1 : (init cap batch).recs = [] := rfl
  have e2 : (init cap batch).nread = 0 := rfl
  rw [e1] at h1 h3; rw [e2] at h2 h3
  simp only [List.nil_append, List.drop_zero, Nat.zero_add] at h1 h2 h3
  exact ⟨by rw [h3]; exact List.take_prefix _ _, h1, h2⟩

/-- non-vacuity: on the wrapping schedule of the example below the consumer has read `[5, 8]`, all that was written -/
example : readsOf [.write 5, .commitW, .loadW 5, .read 5, .commitR true, .reloadR 5, .write 8, .commitW, .loadW 13, .read 8]
      = [5, 8] ∧
    writesOf [.write 5, .commitW, .loadW 5, .read 5, .commitR true, .reloadR 5, .write 8, .commitW, .loadW 13, .read 8]
      = [5, 8] ∧ readsOf [.write 5, .commitW, .write 3, .loadW 5, .read 5] = [5] := by decide

theorem grant_of_inv (s : St) (h : QInv s) (n : Nat) (he : Enabled s (.write n)) :
    n ≤ s.cap ∧ s.wpos + n ≤ s.cap + s.rHist.headD 0 ∧ s.rHist.headD 0 ≤ s.rpos := by
  obtain ⟨_, hn⟩ := he
  have := h.rcIn; have := h.pHbLe; have := h.rc_le_wpos; have := h.room
  refine ⟨by omega, by omega, h.rNew⟩

/-- **A reservation is granted only when the record fits in released space, never more than the
    capacity.** `rHist.headD 0` is the newest position the consumer has published. -/
theorem C01_grant_fits (o : Params) (ho : OrdersOK o) (cap batch : Nat) (hc : 0 < cap)
    (ops : List Op) (hr : Run o (init cap batch) ops) (n : Nat)
    (he : Enabled (run o (init cap batch) ops) (.write n)) :
    n ≤ (run o (init cap batch) ops).cap ∧
    (run o (init cap batch) ops).wpos + n ≤
      (run o (init cap batch) ops).cap + (run o (init cap batch) ops).rHist.headD 0 ∧
    (run o (init cap batch) ops).rHist.headD 0 ≤ (run o (init cap batch) ops).rpos :=
  grant_of_inv _ (reachable_inv o ho ops _ (init_inv cap batch hc) hr) n he

/-! ### API level and integer wrap-around -/

/-- a sequence of API calls, each within its contract -/
def ApiRun (o : Params) : St → List Api → Prop
  | _, [] => True
  | s, a :: as => ApiOK s a ∧ ApiRun o (absApi o s a).1 as

def apiRun (o : Params) : St → List Api → St × List Obs
  | s, [] => (s, [])
  | s, a :: as => let r := absApi o s a; let t := apiRun o r.1 as; (t.1, r.2 :: t.2)

def modRun (M : Nat) (o : Params) : MSt → List Api → MSt × List Obs
  | m, [] => (m, [])
  | m, a :: as => let r := modApi M o m a; let t := modRun M o r.1 as; (t.1, r.2 :: t.2)

theorem absApi_cap (o : Params) (s : St) (a : Api) : (absApi o s a).1.cap = s.cap := by
  cases a <;> simp only [absApi, apiOps] <;> (try split) <;> simp [run, step] <;> (try split) <;> rfl

theorem apiRun_inv (o : Params) (ho : OrdersOK o) :
    ∀ (as : List Api) (s : St), QInv s → ApiRun o s as → QInv (apiRun o s as).1
  | [], _, h, _ => h
  | a :: as, s, h, hr => apiRun_inv o ho as _ (api_inv o ho s a h hr.1) hr.2

/-- **Wrap-around.** For every sequence of API calls made within their contract on a queue whose
    capacity divides `M = 2^w` and is smaller than it, the machine that computes with `w`-bit unsigned
    values (the C++) ends in the image of the free-running machine's state and made exactly the same
    observations (positions published modulo `M`) — through any number of integer wrap-arounds. -/
theorem C01_wrap (M : Nat) (o : Params) (ho : OrdersOK o) :
    ∀ (as : List Api) (s : St), QInv s → s.cap ∣ M → s.cap < M → ApiRun o s as →
      modRun M o (absM M s) (as.map (Api.modM M)) =
        (absM M (apiRun o s as).1, (apiRun o s as).2.map (Obs.modM M))
  | [], _, _, _, _, _ => rfl
  | a :: as, s, h, hd, hlt, hr => by
    have h1 := wrap_refines M o ho s a h hd hlt hr.1
    have hcap := absApi_cap o s a
    have ih := C01_wrap M o ho as (absApi o s a).1 (api_inv o ho s a h hr.1)
      (by rw [hcap]; exact hd) (by rw [hcap]; exact hlt) hr.2
    simp only [List.map_cons, modRun, apiRun, h1, ih]

/-- the C++ mask is the remainder used above -/
theorem mask_eq_mod (x j : Nat) : x &&& (2 ^ j - 1) = x % 2 ^ j := Nat.and_two_pow_sub_one_eq_mod x j

/-- a power-of-two capacity below the integer range divides it -/
theorem pow_cap_ok (j w : Nat) (h : j < w) : 2 ^ j ∣ 2 ^ w ∧ 2 ^ j < 2 ^ w :=
  ⟨Nat.pow_dvd_pow 2 (Nat.le_of_lt h), Nat.pow_lt_pow_right (by decide) h⟩

/-! ### The orders matter: weakening any one of the four lets a schedule reach an unsafe step -/

def quillOrders : Params :=
  { wStore := .release, wLoad := .acquire, rStore := .release, rLoad := .acquire, drainPublish := false }
theorem quillOrders_ok : OrdersOK quillOrders := by decide

/-- consumer load relaxed: the byte is read without happening-after its write -/
theorem weak_wLoad_unsafe :
    let o := { quillOrders with wLoad := .relaxed }
    let sched : List Op := [.write 1, .commitW, .loadW 1]
    Run o (init 8 0) sched ∧ Enabled (run o (init 8 0) sched) (.read 1) ∧
      ¬ Safe (run o (init 8 0) sched) (.read 1) := by
  refine ⟨by decide, by decide, ?_⟩
  rw [← safeB_iff]; decide

/-- producer reload relaxed: a cell is overwritten whose read does not happen-before -/
theorem weak_rLoad_unsafe :
    let o := { quillOrders with rLoad := .relaxed }
    let sched : List Op := [.write 2, .commitW, .loadW 2, .read 2, .commitR true, .reloadR 2]
    Run o (init 2 0) sched ∧ Enabled (run o (init 2 0) sched) (.write 2) ∧
      ¬ Safe (run o (init 2 0) sched) (.write 2) := by
  refine ⟨by decide, by decide, ?_⟩
  rw [← safeB_iff]; decide

/-- non-vacuity: a legal schedule that fills, drains, publishes and then grants a full-capacity record,
    wrapping the physical offset -/
example : Run quillOrders (init 8 0)
    [.write 5, .commitW, .loadW 5, .read 5, .commitR true, .reloadR 5, .write 8, .commitW, .loadW 13, .read 8] := by
  decide

end Spsc
