import QuillModel.Backend.LiftFuelFront
import QuillModel.Props.C03
/-!
# C03 (lift) — the loop fuel of `readQueue` is sufficient, and its exhaustion is observable

`Sched.lean` runs `_read_and_decode_frontend_queue` as `readQueue inj tsNow i fuel total s` with
`fuel = qStmts.length + 64` (`populate`). The C++ loop has no such bound; the model's `fuel = 0` exit commits and returns
silently, so a statement of the model about a read pass is a statement about the C++ only when the fuel was not the
reason the loop stopped. This file closes that gap without touching `Sched.lean`:

* `readExits` (in `Backend/LiftFuel.lean`) mirrors the recursion and tells whether the loop left through one of the exits
  the C++ has; `readQueueObs` pairs it with the result.
* `C03_read_fuel_mono`: once a real exit is reached, the fuel is irrelevant.
* `C03_read_fuel_quiet`, `C03_read_fuel_no_site3`: without frontend activity on context `i`'s queue at hook site 3,
  `qStmts.length + 1` iterations suffice.
* `C03_read_fuel_budget`, `C03_read_fuel_sufficient`: for every injection table — every iteration consumes one record and
  every injected frontend operation commits at most one — `qStmts.length + 64` suffices when the table schedules at most
  63 operations at site 3 (all visits together; a decidable premise on the table).
* `populateObs`, `C03_fuel_never_exhausted`: every `readQueue` call of a read pass (`populate`) then leaves through a
  real exit, from every state.
* `C03_read_fuel_exhaustible`: the premise is needed — a concrete read whose fuel runs out with a committed, eligible
  record left in the queue.
-/
namespace Backend
open Backend.PA

/-- the result of the read loop together with the exit observer: `.2 = false` iff the model's fuel ran out before the
    loop reached one of the exits of the C++ -/
def readQueueObs (inj : BSt → Nat → BSt) (tsNow : Option Nat) (i fuel total : Nat) (s : BSt) : BSt × Bool :=
  (readQueue inj tsNow i fuel total s, readExits inj tsNow i fuel total s)

/-- **B1 — fuel independence.** If the read loop of context `i` leaves through a real exit with fuel `f`, then with every
    larger fuel it computes the same state and also leaves through a real exit. Every injection runner, every state. -/
theorem C03_read_fuel_mono (inj : BSt → Nat → BSt) (tsNow : Option Nat) (i f total : Nat) (s : BSt)
    (h : (readQueueObs inj tsNow i f total s).2 = true) (f' : Nat) (hf : f ≤ f') :
    readQueueObs inj tsNow i f' total s = readQueueObs inj tsNow i f total s := by
  obtain ⟨h1, h2⟩ := readQueue_fuel_mono inj tsNow i f total s h f' hf
  unfold readQueueObs at h ⊢
  dsimp only at h
  rw [h1, h2, h]

/-- **B2, quiet runner.** If nothing run at hook site 3 makes context `i`'s queue longer, `qStmts.length + 1` iterations
    reach a real exit (each iteration consumes one record). -/
theorem C03_read_fuel_quiet (inj : BSt → Nat → BSt) (i : Nat)
    (hq : ∀ s, ((inj s 3).th i).qStmts.length ≤ (s.th i).qStmts.length) (tsNow : Option Nat) (total : Nat) (s : BSt)
    (f : Nat) (hf : (s.th i).qStmts.length < f) :
    readExits inj tsNow i f total s = true := by
  refine readExits_of_measure inj tsNow i (fun x => (x.th i).qStmts.length) ?_ f total s hf
  intro x st rest hx
  have h1 := hq (readOneF x i st rest)
  have hF : (readOneF x i st rest).th i = (readOne x i st rest).th i := by
    simp only [BSt.th, (readOneF_eq x i st rest).2.1]
  rw [hF, readOne_qStmts x i st rest (lt_of_qStmts_cons hx)] at h1
  show ((inj (readOneF x i st rest) 3).th i).qStmts.length < (x.th i).qStmts.length
  rw [hx, List.length_cons]
  omega

/-- **B2, general.** Under `runInj table`: any fuel above the queue length plus the operations the table still schedules
    at the coming visits of site 3 (`budget table k`, `k` = number of the next visit) reaches a real exit. -/
theorem C03_read_fuel_budget (table : List (Nat × Nat × List FOp)) (tsNow : Option Nat) (i f total : Nat) (s : BSt)
    (h : (s.th i).qStmts.length + budget table (PC.siteK s 3) < f) :
    readExits (runInj table) tsNow i f total s = true :=
  readExits_runInj table tsNow i f total s h

/-- **B2, no injection at site 3.** `qStmts.length + 1` suffices. -/
theorem C03_read_fuel_no_site3 (table : List (Nat × Nat × List FOp)) (h3 : ∀ e ∈ table, e.1 ≠ 3)
    (tsNow : Option Nat) (i total : Nat) (s : BSt) :
    readExits (runInj table) tsNow i ((s.th i).qStmts.length + 1) total s = true := by
  apply C03_read_fuel_budget
  rw [budget_eq_zero_of_no3 table h3]
  omega

/-- **B2 — the fuel of `populate` is sufficient.** For every table that schedules at most 63 frontend operations at hook
    site 3 (sum over all its site-3 entries), every state, every context, every sampled `ts_now`: the read loop started
    with `populate`'s fuel leaves through a real exit. -/
theorem C03_read_fuel_sufficient (table : List (Nat × Nat × List FOp)) (h : site3Ops table ≤ 63)
    (tsNow : Option Nat) (i : Nat) (s : BSt) :
    readExits (runInj table) tsNow i ((s.th i).qStmts.length + 64) 0 s = true := by
  apply C03_read_fuel_budget
  have := budget_le_site3Ops table (PC.siteK s 3)
  omega

/-! ### the read pass with the exit flags -/

/-- `populate`, and the conjunction of the exit flags of every `readQueue` call it makes -/
def populateObs (inj : BSt → Nat → BSt) (s : BSt) : (BSt × Nat) × Bool :=
  (PC.popS2 inj s).cache.foldl (fun (a : (BSt × Nat) × Bool) i =>
    (PC.popStep inj (tsNowOf (PC.popS1 inj s)) a.1 i,
     a.2 && readExits inj (tsNowOf (PC.popS1 inj s)) i (((inj a.1.1 2).th i).qStmts.length + 64) 0 (inj a.1.1 2)))
    ((PC.popS2 inj s, 0), true)

theorem foldl_obs {σ α} (g : σ → α → σ) (p : σ → α → Bool) : ∀ (l : List α) (a : σ) (b : Bool),
    (l.foldl (fun (x : σ × Bool) i => (g x.1 i, x.2 && p x.1 i)) (a, b)).1 = l.foldl g a ∧
    ((∀ x i, p x i = true) → (l.foldl (fun (x : σ × Bool) i => (g x.1 i, x.2 && p x.1 i)) (a, b)).2 = b)
  | [], _, _ => ⟨rfl, fun _ => rfl⟩
  | i :: l, a, b => by
    simp only [List.foldl_cons]
    obtain ⟨h1, h2⟩ := foldl_obs g p l (g a i) (b && p a i)
    refine ⟨h1, fun hp => ?_⟩
    rw [h2 hp, hp, Bool.and_true]

/-- the observer does not change the read pass -/
theorem populateObs_fst (inj : BSt → Nat → BSt) (s : BSt) : (populateObs inj s).1 = populate inj s := by
  rw [PC.populate_eq]
  exact (foldl_obs (PC.popStep inj (tsNowOf (PC.popS1 inj s)))
    (fun (a : BSt × Nat) i =>
      readExits inj (tsNowOf (PC.popS1 inj s)) i (((inj a.1 2).th i).qStmts.length + 64) 0 (inj a.1 2)) _ _ _).1

/-- **B3 — the fuel is never exhausted.** For every table with at most 63 operations at site 3 and every state, every
    `readQueue` call of `populate (runInj table) s` leaves through a real exit. -/
theorem C03_fuel_never_exhausted (table : List (Nat × Nat × List FOp)) (h : site3Ops table ≤ 63) (s : BSt) :
    (populateObs (runInj table) s).2 = true :=
  (foldl_obs (PC.popStep (runInj table) (tsNowOf (PC.popS1 (runInj table) s)))
    (fun (a : BSt × Nat) i =>
      readExits (runInj table) (tsNowOf (PC.popS1 (runInj table) s)) i
        ((((runInj table) a.1 2).th i).qStmts.length + 64) 0 ((runInj table) a.1 2)) _ _ _).2
    (fun _ i => C03_read_fuel_sufficient table h _ i _)

/-- decidable form of the premise, for a concrete poll operation -/
def pollFuelOK : Op → Bool
  | .poll table => decide (site3Ops table ≤ 63)
  | _ => true

theorem C03_pollFuelOK (table : List (Nat × Nat × List FOp)) (h : pollFuelOK (.poll table) = true) (s : BSt) :
    (populateObs (runInj table) s).2 = true :=
  C03_fuel_never_exhausted table (by simpa [pollFuelOK] using h) s

/-! ### the premise is needed; non-vacuity -/

/-- one thread, one committed statement -/
def c03FuelState : BSt := runOps c03Init [.front (.tstart 0), .front (.log 0 0 4 10 true)]

/-- one more statement of the same thread at each of the first two visits of site 3 -/
def c03FuelTable : List (Nat × Nat × List FOp) :=
  [(3, 1, [.log 0 0 4 10 true]), (3, 2, [.log 0 0 4 10 true])]

/-- **Exhaustion is real (generic fuel).** A read with fuel 2 against a table that injects one statement at each of two
    visits of site 3: the fuel runs out (`readExits = false`) with one committed record left in the queue that the sampled
    `ts_now` (`none`: ordering disabled) allows and neither the byte nor the transit limit forbids — with fuel 4 the loop
    reads it and then leaves through a real exit (`prepare_read` offers nothing). (Witness on the generic-fuel instance; the instance with `populate`'s
    `+ 64` is the example below.) -/
theorem C03_read_fuel_exhaustible :
    (c03FuelState.th 0).qStmts.length = 1 ∧ site3Ops c03FuelTable = 2 ∧
    (readQueueObs (runInj c03FuelTable) none 0 2 0 c03FuelState).2 = false ∧
    (((readQueueObs (runInj c03FuelTable) none 0 2 0 c03FuelState).1.th 0).qStmts.map (·.id)) = [2] ∧
    (((readQueueObs (runInj c03FuelTable) none 0 2 0 c03FuelState).1.th 0).buf.map (·.id)) = [0, 1] ∧
    (readQueueObs (runInj c03FuelTable) none 0 4 0 c03FuelState).2 = true ∧
    (((readQueueObs (runInj c03FuelTable) none 0 4 0 c03FuelState).1.th 0).qStmts.map (·.id)) = [] ∧
    (((readQueueObs (runInj c03FuelTable) none 0 4 0 c03FuelState).1.th 0).buf.map (·.id)) = [0, 1, 2] := by decide

/-- non-vacuity of the sufficiency theorems on the same state: the table is within the bound, `populate`'s fuel reaches a
    real exit, all three statements end up in the transit buffer, and the observer agrees with `populate` -/
example : pollFuelOK (.poll c03FuelTable) = true ∧
    (readQueueObs (runInj c03FuelTable) none 0 ((c03FuelState.th 0).qStmts.length + 64) 0 c03FuelState).2 = true ∧
    (populateObs (runInj c03FuelTable) c03FuelState).2 = true ∧
    (populateObs (runInj c03FuelTable) c03FuelState).1.2 = 3 ∧
    (((populate (runInj c03FuelTable) c03FuelState).1.th 0).buf.map (·.id)) = [0, 1, 2] := by decide

/-- as `c03FuelState`, with a queue large enough for 66 records -/
def c03FuelBigState : BSt :=
  runOps { c03Init with cfg := { c03Cfg with qcap := 4096 } } [.front (.tstart 0), .front (.log 0 0 4 10 true)]

/-- `n` statements of the same thread at the first visit of site 3 -/
def c03FuelBigTable (n : Nat) : List (Nat × Nat × List FOp) := [(3, 1, List.replicate n (.log 0 0 4 10 true))]

set_option maxRecDepth 20000 in
/-- **Exhaustion is real (the fuel of `populate`).** One committed record, 65 statements injected while it is being read:
    the read pass `populate` stops with the fuel (`populateObs … .2 = false`) after 65 records, the 66th — committed,
    eligible (`ts_now = none`), within the byte limit (65·48 < 4096) and the transit limit — stays in the queue. With 63
    injected statements the flag is `true` (the theorem); with 64 the observer already says `false` although nothing is
    left (the loop never got to see the empty queue), so the bound 63 is tight for `readExits`. -/
theorem C03_read_fuel_exhaustible_populate :
    site3Ops (c03FuelBigTable 65) = 65 ∧ (c03FuelBigState.th 0).qStmts.length = 1 ∧
    (populateObs (runInj (c03FuelBigTable 65)) c03FuelBigState).2 = false ∧
    ((populate (runInj (c03FuelBigTable 65)) c03FuelBigState).1.th 0).qStmts.map (·.id) = [65] ∧
    ((populate (runInj (c03FuelBigTable 65)) c03FuelBigState).1.th 0).buf.length = 65 ∧
    (populateObs (runInj (c03FuelBigTable 63)) c03FuelBigState).2 = true ∧
    ((populate (runInj (c03FuelBigTable 63)) c03FuelBigState).1.th 0).qStmts = [] ∧
    (populateObs (runInj (c03FuelBigTable 64)) c03FuelBigState).2 = false ∧
    ((populate (runInj (c03FuelBigTable 64)) c03FuelBigState).1.th 0).qStmts = [] := by decide

end Backend
