import QuillModel.Props.C06
import QuillModel.Props.C03
/-!
# C03 (audit round) — delivery: every accepted statement IS processed

Every theorem of `Props/C03.lean` is a safety statement (conservation, at most once, exact writes at the pop, frozen
afterwards, order): a backend that never pops satisfies all of them. "Every accepted statement is written exactly once"
also needs that every accepted statement is eventually popped. That half is proved here for the backend that keeps
polling (the exit path is `C07_exit_drains_everything`): after **any** schedule `ops` — any number of threads, exits,
injections at every hook site, any soft/hard limit — a continuation that lets the grace period pass and then polls at
least `pendingCount` times without further frontend operations leaves, for every context, `accepted = popped`, the
transit buffer empty and the queue empty. With `C03_pop_writes_exactly` / `C03_writes_frozen_after_pop` (each pop writes
once per accepting sink, nothing changes afterwards) and `C03_at_most_once` this is "exactly once".

**partial** (said here, not hidden): the continuation is *quiet* (`quietOp`: polls without injected operations and clock
ticks). Full statement, not proved: for a continuation with arbitrary frontend operations, every statement accepted
before the continuation is popped after `older` polls, where `older` counts the records with a timestamp `≤` its own —
needs per-queue timestamp monotonicity (`GI.sorted`) lifted to a measure and a non-quiet version of `poll_quiet`.
-/
namespace Backend
open Backend.PA Backend.PB

/-- **Delivery after a quiet drain (backend still running).** -/
theorem C03_delivered_after_quiet_drain (s0 : BSt) (h0 : StartF s0) (ops : List Op)
    (hrun : (runOps s0 ops).backendGone = false) (dt : Nat) (hdt : (runOps s0 ops).cfg.grace ≤ dt)
    (suffix : List Op) (hq : ∀ o ∈ suffix, quietOp o = true)
    (hn : pendingCount (runOps s0 ops) ≤ pollCount suffix) (i : Nat) :
    ((runOps (runOps s0 ops) (.front (.tick dt) :: suffix)).th i).accepted =
      ((runOps (runOps s0 ops) (.front (.tick dt) :: suffix)).th i).popped ∧
    ((runOps (runOps s0 ops) (.front (.tick dt) :: suffix)).th i).buf = [] ∧
    ((runOps (runOps s0 ops) (.front (.tick dt) :: suffix)).th i).qStmts = [] := by
  have hgi := (start_GI h0.start).runOps ops
  have hfi := (start_FI h0).runOps ops
  have hpg : PG (applyOp (runOps s0 ops) (.front (.tick dt))).1 :=
    ⟨hgi.applyOp _, hfi.applyOp _, ripe_after_tick hgi dt hdt, hrun⟩
  have e : runOps (runOps s0 ops) (.front (.tick dt) :: suffix) =
      runOps (applyOp (runOps s0 ops) (.front (.tick dt))).1 suffix := by simp [runOps]
  obtain ⟨b1, b2, b3⟩ := quiet_run suffix _ hpg hq
  have hpc : pendingCount (applyOp (runOps s0 ops) (.front (.tick dt))).1 = pendingCount (runOps s0 ops) := rfl
  rw [e]
  have hall : chain ((runOps (applyOp (runOps s0 ops) (.front (.tick dt))).1 suffix).th i) = [] := by
    apply Classical.byContradiction; intro hne
    have h1 := b3 ⟨i, hne⟩
    have h0' : pendingCount (runOps (applyOp (runOps s0 ops) (.front (.tick dt))).1 suffix) = 0 := by omega
    exact hne (pending_zero h0' i)
  have hc := b1.fi.cons i
  unfold chain at hall
  have hb := (List.append_eq_nil_iff.mp hall).1
  have hqq := (List.append_eq_nil_iff.mp hall).2
  exact ⟨by rw [hc, hb, hqq]; simp, hb, hqq⟩

/-- soft limit 1 and hard limit 1 (batch mode on every poll, every queue read is cut after one record), two sinks -/
def c03TightInit : BSt :=
  { c03Init with cfg := { c03Cfg with soft := 1, hard := 1 }, sinks := [{ sid := 1 }, { sid := 2 }] }

/-- two threads, three statements, thread 0 exits before anything is processed -/
def c03TightPre : List Op :=
  [.front (.tstart 0), .front (.tstart 1), .front (.log 0 0 4 10 true), .front (.log 0 0 4 10 true),
   .front (.log 1 0 4 10 true), .front (.texit 0)]

/-- non-vacuity: the hypotheses hold on `c03TightPre` (three pending statements, so three quiet polls are enough), and the
    conclusion is what the model computes — with the hard limit at 1 and a thread that exited before its statements were
    processed: every accepted statement popped, in issue order -/
example :
    StartF c03TightInit ∧ (runOps c03TightInit c03TightPre).backendGone = false ∧
    (runOps c03TightInit c03TightPre).cfg.grace ≤ 0 ∧ pendingCount (runOps c03TightInit c03TightPre) = 3 ∧
    pollCount [.poll [], .poll [], .poll []] = 3 ∧
    (runOps (runOps c03TightInit c03TightPre) [.front (.tick 0), .poll [], .poll [], .poll []]).ths.map
      (fun t => (t.accepted.map (·.id), t.popped.map (·.id), t.buf.length, t.qStmts.length)) =
      [([0, 1], [0, 1], 0, 0), ([2], [2], 0, 0)] := by
  refine ⟨⟨⟨by decide, rfl, rfl, rfl, rfl, rfl⟩, rfl, rfl⟩, by decide, by decide, by decide, by decide, by decide⟩

end Backend
