import QuillModel.Backtrace.Refine
/-!
# C18 — backtrace statements are held back, then replayed: most recent N, in order, once

"Statements logged with LOG_BACKTRACE are not written when logged. When the backtrace is flushed — by
flush_backtrace() or by a statement at or above the configured flush level — exactly the most recent
min(capacity, number stored since the previous flush) of them are written, once each, oldest first,
immediately after the triggering statement, and are then forgotten; this holds for every capacity and every
history of store and flush cycles, including after the ring has wrapped."

Two layers, both for **every** history (any length, any capacities incl. 0 and 1, any number of wraps):

* ring (`BacktraceStorage`): `C18_ring_refines` — the sequence of callback invocations of every `process` of
  every history of `store` / `process` / `set_capacity` equals that of the specification `Spec` (remember
  everything since the last flush-or-resize; hand out `lastN cap` of it; forget), and no out-of-range vector
  access is evaluated. `C18_flush_emits_lastN`, `C18_cycle_after_flush`, `C18_cycle_after_resize` restate it
  without the specification machine; `C18_lastN_is_most_recent` says what `lastN` is.
* backend (`_process_transit_event`): `C18_backend_refines` — for every sequence of events of any number of
  loggers the `write_log` sequence equals that of `specStepEv`; `C18_trigger_iff`, `C18_stored_iff`,
  `C18_written_iff` are the decision as a pure function; `C18_backtrace_statement_not_written`,
  `C18_replay_follows_trigger` read the consequences off.

The theorems need the structural facts `Params.OK` (re-proved for the extracted values in
`Obligations/Backtrace.lean`). For the unrepaired variants the statement is false: `C18_F1_index_not_reset`,
`C18_F2_capacity_zero_ub` and the other `C18_neg_*` witnesses.
-/
namespace Backtrace
variable {α : Type}

/-! ### what "the most recent min(cap, n), oldest first, once each" means -/

/-- `lastN cap l` has `min cap n` elements, is the *end* of `l` (so: the most recent ones, in their original
    order), and contains no element twice if `l` does not -/
theorem C18_lastN_is_most_recent (cap : Nat) (l : List α) :
    (lastN cap l).length = min cap l.length ∧ lastN cap l <:+ l ∧ (l.Nodup → (lastN cap l).Nodup) :=
  ⟨lastN_length cap l, lastN_suffix cap l, fun h => (lastN_suffix cap l).sublist.nodup h⟩

example : lastN 3 [1, 2, 3, 4, 5] = [3, 4, 5] ∧ lastN 3 [1, 2] = [1, 2] ∧ lastN 0 [1, 2] = [] := by decide

/-! ### the ring -/

/-- **C18, ring level.** For every history, what the callback receives during every call equals the
    specification's output, no out-of-range element is touched, and the final state represents the
    specification's final state. -/
theorem C18_ring_refines (p : Params) (hp : p.RingOK) (ops : List (Op α)) :
    trace p {} ops = Spec.trace {} ops ∧ (run p {} ops).ub = false ∧
    Rel (run p {} ops) (Spec.run {} ops) := by
  have h := Rel.run hp ops (Rel.init (α := α))
  exact ⟨h.1, h.2.ub, h.2⟩

/-- non-vacuity: a history with capacity changes, capacity 0 and 1, a triple wrap, an empty flush -/
example : trace Params.good {}
    [.store 1, .setCapacity 3, .store 2, .store 3, .store 4, .store 5, .process, .process, .store 6, .store 7,
     .process, .setCapacity 1, .store 8, .store 9, .process, .setCapacity 2, .store 10, .store 11, .store 12,
     .store 13, .store 14, .store 15, .store 16, .setCapacity 2, .process, .setCapacity 0, .store 17, .process] =
    [[], [], [], [], [], [], [3, 4, 5], [], [], [], [6, 7], [], [], [], [9], [], [], [], [], [], [], [], [], [],
     [15, 16], [], [], []] := by decide

/-- the events stored since the previous flush or (effective) resize, and the capacity in force -/
def pending (ops : List (Op α)) : List α := (Spec.run {} ops).pend
def capacity (ops : List (Op α)) : Nat := (Spec.run {} ops).cap

/-- the capacity in force is the argument of the last `set_capacity` (0 before the first) -/
theorem capacity_eq (ops : List (Op α)) : capacity ops = capFrom 0 ops := Spec.run_cap ops {}

/-- **C18, ring level, flush form.** After every history, `process` hands the callback exactly
    `lastN capacity pending` — the most recent `min(capacity, n)` of the `n` events stored since the previous
    flush-or-resize, oldest first — evaluates nothing out of range, leaves the vector empty, and a second
    `process` hands out nothing. -/
theorem C18_flush_emits_lastN (p : Params) (hp : p.RingOK) (ops : List (Op α)) :
    (process p (run p {} ops)).2 = lastN (capacity ops) (pending ops) ∧
    (process p (run p {} ops)).1.ub = false ∧
    (process p (run p {} ops)).1.ev = [] ∧
    (process p (process p (run p {} ops)).1).2 = [] := by
  have h := (C18_ring_refines p hp ops).2.2
  obtain ⟨_, _, h3, h4, _⟩ := hp
  exact ⟨h.process_out h3, h.process_ub h3, (process_twice h4 _).1, (process_twice h4 _).2⟩

/-- **once each, oldest first — across all cycles.** For every history, the concatenation of everything the
    callback ever received is a subsequence of the sequence of stored events: no event is replayed by two
    flushes or twice by one, none out of its original order, none that was not stored
    (with distinct ids: the concatenation has no duplicates). -/
theorem C18_replays_form_a_subsequence (p : Params) (hp : p.RingOK) (ops : List (Op α)) :
    (trace p {} ops).flatten.Sublist (storedOf ops) ∧
    ((storedOf ops).Nodup → (trace p {} ops).flatten.Nodup) := by
  have h : (trace p {} ops).flatten.Sublist (storedOf ops) := by
    rw [(C18_ring_refines p hp ops).1]
    simpa using Spec.trace_sublist ops ({} : Spec α)
  exact ⟨h, fun hn => h.nodup hn⟩

example : (trace Params.good {} ([.setCapacity 2, .store 1, .store 2, .store 3, .process, .store 4, .process,
    .process, .store 5, .setCapacity 1, .store 6, .store 7, .process] : List (Op Nat))).flatten = [2, 3, 4, 7] := by decide

/-- **one cycle, spelled out**: whatever happened before, after a flush followed by storing `xs`, the next
    flush replays the last `min(cap, |xs|)` of `xs` -/
theorem C18_cycle_after_flush (p : Params) (hp : p.RingOK) (pre : List (Op α)) (xs : List α) :
    (process p (run p {} (pre ++ [.process] ++ xs.map .store))).2 = lastN (capFrom 0 pre) xs := by
  rw [(C18_flush_emits_lastN p hp _).1]
  simp only [pending, capacity, Spec.run_append, Spec.run_stores, Spec.run, Spec.step, List.nil_append]
  rw [Spec.run_cap]

/-- … and after a re-initialisation with a *different* capacity `c` followed by storing `xs`, the next flush
    replays the last `min(c, |xs|)` of `xs` (what was stored before is dropped) -/
theorem C18_cycle_after_resize (p : Params) (hp : p.RingOK) (pre : List (Op α)) (c : Nat)
    (hc : capFrom 0 pre ≠ c) (xs : List α) :
    (process p (run p {} (pre ++ [.setCapacity c] ++ xs.map .store))).2 = lastN c xs := by
  rw [(C18_flush_emits_lastN p hp _).1]
  have hc' : ¬ (Spec.run {} pre).cap = c := by rw [Spec.run_cap]; exact hc
  simp only [pending, capacity, Spec.run_append, Spec.run_stores, Spec.run, Spec.step, hc', if_false,
    List.nil_append]

/-- non-vacuity of `C18_cycle_after_resize` (capacity 2 → 3 in the middle of a wrapped cycle) and of the
    hypothesis `RingOK` (`good_ok`: the repaired structure satisfies it) -/
example : capFrom 0 ([.setCapacity 2, .store 1, .store 2, .store 3] : List (Op Nat)) ≠ 3 ∧
    (process Params.good (run Params.good {}
      ([.setCapacity 2, .store 1, .store 2, .store 3] ++ [.setCapacity 3] ++ [4, 5, 6, 7].map .store))).2 = [5, 6, 7] ∧
    Params.good.RingOK := by decide

/-- re-initialising with the capacity already in force changes nothing -/
theorem C18_same_capacity_noop (r : Ring α) : setCapacity r r.cap = r := by simp [setCapacity]

example : (process Params.good (run Params.good {}
    ([.setCapacity 2, .store 1, .store 2, .store 3] ++ [.process] ++ [4, 5, 6, 7, 8].map .store))).2 = [7, 8] := by
  decide

/-! ### the unrepaired variants are wrong (findings F1, F2) and so are the other structural deviations -/

/-- **F1** (`process` keeps `_index` across the flush): cap 3, store 1..4, flush, store 5, 6, flush → `6 5` -/
theorem C18_F1_index_not_reset :
    let p := { Params.good with resetsIndexOnFlush := false }
    let h : List (Op Nat) := [.setCapacity 3, .store 1, .store 2, .store 3, .store 4, .process, .store 5, .store 6, .process]
    trace p {} h ≠ Spec.trace {} h ∧ (trace p {} h).getLast? = some [6, 5] ∧
    (Spec.trace {} h).getLast? = some [5, 6] := by decide

/-- **F1**, second shape: the stale index is out of range in the next cycle (an element beyond `size()` is read) -/
theorem C18_F1_index_out_of_range :
    let p := { Params.good with resetsIndexOnFlush := false }
    (run p {} [.setCapacity 3, .store 1, .store 2, .store 3, .store 4, .store 5, .process, .store 6, .process]).ub
      = true := by decide

/-- **F2** (no guard): with capacity 0 — the constructor's value, or after `set_capacity(0)` — `store` indexes
    the empty vector -/
theorem C18_F2_capacity_zero_ub :
    let p := { Params.good with guardsZeroCapacity := false }
    (run p {} [.store (1 : Nat)]).ub = true ∧ (run p {} [.setCapacity 3, .setCapacity 0, .store (1 : Nat)]).ub = true := by
  decide

/-- **F1 and F2 are the only defect classes of the pinned ring.** Without the index reset and without the
    capacity-0 guard (`BacktraceStorage` as of the pinned tree) the refinement still holds on every history in
    which no `store` happens with capacity 0 and no `process` happens on a wrapped ring (more than `cap` events
    pending). (The full statement — every history — is `C18_ring_refines`, for the repaired ring; for this ring
    it is false by `C18_F1_index_not_reset` / `C18_F2_capacity_zero_ub`.) -/
theorem C18_pinned_ring_partial (p : Params) (h3 : p.startsAtIndex = true) (h4 : p.clearsOnFlush = true)
    (h5 : p.wrapSlack = 1) (ops : List (Op α))
    (hF2 : p.guardsZeroCapacity = true ∨ storesAvoidCapZero {} ops = true)
    (hF1 : p.resetsIndexOnFlush = true ∨ flushesUnwrapped {} ops = true) :
    trace p {} ops = Spec.trace {} ops ∧ (run p {} ops).ub = false := by
  have h := Rel.run_partial h3 h4 h5 ops (Rel.init (α := α)) hF2 hF1
  exact ⟨h.1, h.2.ub⟩

/-- non-vacuity: a history of the pinned ring with wraps, flushes of unwrapped rings and resizes -/
example : let p := { Params.good with resetsIndexOnFlush := false, guardsZeroCapacity := false }
    let h : List (Op Nat) := [.setCapacity 2, .store 1, .store 2, .process, .store 3, .process, .setCapacity 3,
      .store 4, .store 5, .store 6, .store 7, .setCapacity 1, .store 8, .process, .process]
    storesAvoidCapZero {} h = true ∧ flushesUnwrapped {} h = true ∧
    trace p {} h = [[], [], [], [1, 2], [], [3], [], [], [], [], [], [], [], [8], []] := by decide

/-- the F1 witness is excluded by `flushesUnwrapped` only, the F2 witness by `storesAvoidCapZero` only -/
example : flushesUnwrapped {} ([.setCapacity 3, .store 1, .store 2, .store 3, .store 4, .process] : List (Op Nat)) = false ∧
    storesAvoidCapZero {} ([.setCapacity 3, .store 1, .store 2, .store 3, .store 4, .process] : List (Op Nat)) = true ∧
    storesAvoidCapZero {} ([.store 1] : List (Op Nat)) = false ∧ flushesUnwrapped {} ([.store 1] : List (Op Nat)) = true := by
  decide

/-- walking from slot 0 instead of `_index` replays a wrapped ring in the wrong order -/
theorem C18_neg_walk_from_zero :
    let p := { Params.good with startsAtIndex := false }
    let h : List (Op Nat) := [.setCapacity 3, .store 1, .store 2, .store 3, .store 4, .process]
    (trace p {} h).getLast? = some [4, 2, 3] ∧ (Spec.trace {} h).getLast? = some [2, 3, 4] := by decide

/-- without `clear()` the events are replayed again by the next flush -/
theorem C18_neg_no_clear :
    let p := { Params.good with clearsOnFlush := false }
    let h : List (Op Nat) := [.setCapacity 3, .store 1, .process, .process]
    (trace p {} h).getLast? = some [1] ∧ (Spec.trace {} h).getLast? = some [] := by decide

/-- advancing the index one slot too far (`_index < _capacity`) indexes past the end -/
theorem C18_neg_wrap_late :
    let p := { Params.good with wrapSlack := 0 }
    (run p {} [.setCapacity 2, .store (1 : Nat), .store 2, .store 3, .store 4, .store 5]).ub = true := by decide

/-- wrapping one slot too early (`_index < _capacity - 2`) never overwrites the last slot -/
theorem C18_neg_wrap_early :
    let p := { Params.good with wrapSlack := 2 }
    let h : List (Op Nat) := [.setCapacity 3, .store 1, .store 2, .store 3, .store 4, .store 5, .store 6, .process]
    (trace p {} h).getLast? = some [5, 3, 6] ∧ (Spec.trace {} h).getLast? = some [4, 5, 6] := by decide

/-! ### `_process_transit_event`: the decision as a pure function -/

/-- **trigger ⇔ explicit flush ∨ level ≥ flush level** (for a statement that is not itself a backtrace
    statement) -/
theorem C18_trigger_iff (bt fl : Nat) (e : Ev) :
    (action .ge bt fl e).flush = true ↔
      (∃ lg, e = .flushBt lg) ∨ (∃ lg lvl id, e = .log lg lvl id ∧ lvl ≠ bt ∧ lvl ≥ fl) := by
  cases e with
  | log lg lvl id =>
    by_cases hb : lvl = bt
    · simp [action, hb]
    · simp only [action, ne_eq, hb, not_false_eq_true, if_true, Cmp.holds, decide_eq_true_eq, reduceCtorEq,
        exists_false, false_or, Ev.log.injEq]
      constructor
      · intro h; exact ⟨lg, lvl, id, ⟨rfl, rfl, rfl⟩, hb, h⟩
      · rintro ⟨_, _, _, ⟨_, rfl, _⟩, _, h⟩; exact h
  | initBt lg cap => simp [action]
  | flushBt lg => simp [action]
  | setFlushLvl lg lvl => simp [action]

/-- **stored ⇔ backtrace statement**, for every comparison operator and flush level -/
theorem C18_stored_iff (cmp : Cmp) (bt fl : Nat) (e : Ev) :
    (action cmp bt fl e).store = true ↔ ∃ lg id, e = .log lg bt id := by
  cases e with
  | log lg lvl id =>
    by_cases hb : lvl = bt
    · simp [action, hb]
    · simp only [action, ne_eq, hb, not_false_eq_true, if_true, Bool.false_eq_true, false_iff]
      rintro ⟨_, _, h⟩
      injection h with _ h2 _
      exact hb h2
  | initBt lg cap => simp [action]
  | flushBt lg => simp [action]
  | setFlushLvl lg lvl => simp [action]

/-- **written when logged ⇔ a statement that is not a backtrace statement**; never both written and stored,
    and a stored statement never triggers -/
theorem C18_written_iff (cmp : Cmp) (bt fl : Nat) (e : Ev) :
    ((action cmp bt fl e).write = true ↔ ∃ lg lvl id, e = .log lg lvl id ∧ lvl ≠ bt) ∧
    ¬ ((action cmp bt fl e).write = true ∧ (action cmp bt fl e).store = true) ∧
    ¬ ((action cmp bt fl e).flush = true ∧ (action cmp bt fl e).store = true) := by
  cases e with
  | log lg lvl id =>
    by_cases hb : lvl = bt
    · simp [action, hb]
    · simp only [action, ne_eq, hb, not_false_eq_true, if_true, Ev.log.injEq, true_iff, Bool.false_eq_true,
        and_false, not_false_eq_true, and_true]
      exact ⟨lg, lvl, id, ⟨rfl, rfl, rfl⟩, hb⟩
  | initBt lg cap => simp [action]
  | flushBt lg => simp [action]
  | setFlushLvl lg lvl => simp [action]

example : (action .ge 9 7 (.log 0 7 1)).flush = true ∧ (action .ge 9 7 (.log 0 6 1)).flush = false ∧
    (action .ge 9 10 (.log 0 8 1)).flush = false ∧ (action .ge 9 7 (.log 0 9 1)) = ⟨false, true, false⟩ := by decide

/-- the comparison `>` misses the statement *at* the flush level -/
theorem C18_neg_strict_comparison : (action .gt 9 7 (.log 0 7 1)).flush = false ∧
    (action .ge 9 7 (.log 0 7 1)).flush = true := by decide

/-! ### the backend, every event sequence -/

/-- **C18, backend level.** For every sequence of events (statements of every level, backtrace statements,
    `init_backtrace` with any capacity, `flush_backtrace`, flush-level changes, any number of loggers) the
    sequence of `write_log` calls and notifier errors produced by `_process_transit_event` equals the
    specification's: a backtrace statement writes nothing; a statement below the flush level writes itself;
    a statement at or above it writes itself, then — immediately — the last `min(cap, n)` stored events oldest
    first, which are then forgotten; `flush_backtrace()` writes just those. -/
theorem C18_backend_refines (p : Params) (hp : p.OK) (bt noneRank : Nat) (es : List Ev) :
    runEv p bt (BSt.init noneRank) es = specRunEv bt (SSt.init noneRank) es :=
  BRel.run hp bt es (BRel.init noneRank)

/-- a backtrace statement is never written when logged — in any state, for any parameters -/
theorem C18_backtrace_statement_not_written (p : Params) (bt : Nat) (s : BSt) (lg id : Nat) :
    (stepEv p bt s (.log lg bt id)).2.writes = [] := by
  simp only [stepEv, action, applyAction, ne_eq, not_true_eq_false, if_false, Bool.false_eq_true]
  cases s.ring lg <;> rfl

/-- the statement itself is written first and the replay follows it immediately: the writes of a
    non-backtrace statement are `[statement] ++ replay`, and the replay is non-empty only if the statement
    triggers -/
theorem C18_replay_follows_trigger (p : Params) (bt : Nat) (s : BSt) (lg lvl id : Nat) (hb : lvl ≠ bt) :
    ∃ replay : List Nat,
      (stepEv p bt s (.log lg lvl id)).2.writes = ⟨lg, lvl, id⟩ :: replay.map (fun i => ⟨lg, bt, i⟩) ∧
      ((action p.flushCmp bt (s.flushLvl lg) (.log lg lvl id)).flush = false → replay = []) := by
  simp only [stepEv, action, applyAction, ne_eq, hb, not_false_eq_true, if_true, Bool.false_eq_true, if_false]
  cases s.ring lg with
  | none => exact ⟨[], rfl, fun _ => rfl⟩
  | some r =>
    by_cases hf : p.flushCmp.holds lvl (s.flushLvl lg) = true
    · simp only [hf, if_true]
      exact ⟨_, rfl, fun h => by simp at h⟩
    · simp only [hf, if_false, Bool.false_eq_true]
      exact ⟨[], rfl, fun _ => rfl⟩

/-- **loggers do not interfere**: an event changes the storage of its own logger only, and everything it
    writes is written for that logger -/
theorem C18_other_loggers_untouched (p : Params) (bt : Nat) (s : BSt) (e : Ev) (lg' : Nat) (h : lg' ≠ e.logger) :
    (stepEv p bt s e).1.ring lg' = s.ring lg' ∧ ∀ x ∈ (stepEv p bt s e).2.writes, x.lg = e.logger := by
  cases e with
  | setFlushLvl lg lvl => exact ⟨rfl, by simp [stepEv]⟩
  | initBt lg cap =>
    simp only [Ev.logger] at h
    simp [stepEv, upd, h]
  | flushBt lg =>
    simp only [Ev.logger] at h
    have := applyAction_frame p bt lg (action p.flushCmp bt (s.flushLvl lg) (.flushBt lg)) ⟨lg, 0, 0⟩ s lg' h rfl
    exact ⟨this.1, this.2.2⟩
  | log lg lvl id =>
    simp only [Ev.logger] at h
    have := applyAction_frame p bt lg (action p.flushCmp bt (s.flushLvl lg) (.log lg lvl id)) ⟨lg, lvl, id⟩ s lg' h rfl
    exact ⟨this.1, this.2.2⟩

/-- non-vacuity of the backend theorem: two loggers, automatic and explicit flushes, a wrapped ring, a
    backtrace statement before `init_backtrace` (error), levels 7 = Error, 4 = Info, 9 = Backtrace, 10 = None -/
example : (runEv Params.good 9 (BSt.init 10)
    [.log 0 9 1, .initBt 0 2, .setFlushLvl 0 7, .log 0 9 2, .log 0 9 3, .log 0 9 4, .log 1 7 5, .log 0 4 6,
     .log 0 7 7, .log 0 7 8, .initBt 1 1, .log 1 9 9, .log 1 9 10, .log 1 8 11, .flushBt 1, .log 0 9 12,
     .flushBt 0]).map (fun o => (o.writes.map (fun w => (w.lg, w.lvl, w.id)), o.err)) =
    [([], true), ([], false), ([], false), ([], false), ([], false), ([], false), ([(1, 7, 5)], false),
     ([(0, 4, 6)], false), ([(0, 7, 7), (0, 9, 3), (0, 9, 4)], false), ([(0, 7, 8)], false), ([], false),
     ([], false), ([], false), ([(1, 8, 11)], false), ([(1, 9, 10)], false), ([], false), ([(0, 9, 12)], false)] := by
  decide

end Backtrace
