import QuillModel.Reg.Proofs
/-!
# C08 (part) — the failure counter: what the backend reports adds up to what the frontend counted

"the discard counts reported through the error notifier add up to the number of discarded statements": a refused
statement bumps `ThreadContext::_failure_counter` (`increment_failure_counter`, `fetch_add`); the backend's
`_check_failure_counter` calls `get_and_reset_failure_counter` (`load`; zero → 0; else `exchange(0)`) and passes a non-zero
result to the notifier. The end-to-end model (`Backend/`) treats both as atomic; this file justifies that for every
interleaving of the individual atomic accesses and every legal stale load of the backend's test.

Premise (`CfgOK`, decidable, discharged for the extraction in `Obligations/Reg.lean`): the increment is one
read-modify-write and the reset is an `exchange(0)` whose result is what is returned. No memory-order premise: a
read-modify-write reads the newest store whatever its order. The relaxed test load may be stale — it can only delay a
report (return 0 although the counter is non-zero), never lose or duplicate a count.
-/
namespace Ctr

/-- **Conservation.** For every interleaving of any number of incrementing threads with the backend, and every stale
    load: (sum of the values returned by `get_and_reset_failure_counter` so far) + (newest value of the counter)
    = (number of completed increments). -/
theorem C08_counter_conservation (c : Cfg) (hc : CfgOK c) (ops : List Op) :
    (run c {} ops).returns.sum + newest (run c {} ops).hist = (run c {} ops).incs :=
  reachable_inv c hc ops _ init_inv

/-- **Nothing is left behind.** From any reachable state in which the backend is between two calls: one more whole call
    whose test load returns the newest store returns everything that is pending — afterwards the values returned add up
    to the number of increments, and the counter is zero. -/
theorem C08_counter_final_pass (c : Cfg) (hc : CfgOK c) (ops : List Op) (hb : (run c {} ops).bpend = none) :
    (getSolo c (run c {} ops)).returns.sum = (run c {} ops).incs ∧ newest (getSolo c (run c {} ops)).hist = 0 ∧
      (getSolo c (run c {} ops)).incs = (run c {} ops).incs := by
  have h := C08_counter_conservation c hc ops
  generalize run c {} ops = s at *
  unfold getSolo
  simp only [step, hb]
  by_cases hp : c.preLoad = true
  · simp only [hp, if_true]
    by_cases hz : valAt s.hist (s.hist.length - 1) = 0
    · simp only [hz, if_true, Option.isSome_none, Bool.false_eq_true, if_false]
      rw [valAt_last] at hz
      simp only [List.sum_append, List.sum_cons, List.sum_nil]
      refine ⟨by omega, hz, trivial⟩
    · simp only [hz, if_false, Option.isSome_some, if_true, reset, hc.2, newest_append, List.sum_append,
        List.sum_cons, List.sum_nil]
      refine ⟨by omega, trivial, trivial⟩
  · simp only [hp, Bool.false_eq_true, if_false, reset, hc.2, if_true, Option.isSome_none, newest_append,
      List.sum_append, List.sum_cons, List.sum_nil]
    refine ⟨by omega, trivial, trivial⟩

/-! ### negative witnesses -/

/-- the seeded change "load; `store(0)`; return the loaded value": an increment that lands between the load and the
    store is lost (2 increments, 1 reported, counter 0) -/
theorem C08_load_store_loses_increment :
    let c : Cfg := { incRmw := true, preLoad := true, resetXchg := false }
    let sched : List Op := [.inc 0 0, .get 1, .inc 0 0, .get 0]
    let s := run c {} sched
    ¬ CfgOK c ∧ Run c {} sched ∧ s.incs = 2 ∧ s.returns = [1] ∧ newest s.hist = 0 ∧ s.bpend = none := by decide

/-- an increment by load + store races with the backend's `exchange`: one increment is reported twice
    (2 increments, 1 reported, counter 2) -/
theorem C08_nonatomic_increment_duplicates :
    let c : Cfg := { incRmw := false, preLoad := true, resetXchg := true }
    let sched : List Op := [.inc 0 0, .inc 0 0, .inc 0 1, .get 1, .get 0, .inc 0 0]
    let s := run c {} sched
    ¬ CfgOK c ∧ Run c {} sched ∧ s.incs = 2 ∧ s.returns = [1] ∧ newest s.hist = 2 := by decide

/-! ### non-vacuity -/

example : CfgOK code ∧ CfgOK { incRmw := true, preLoad := false, resetXchg := true } := by decide

/-- two incrementing threads, a stale test load (reads the initial 0 while the counter is 2: returns 0), a report of 3, an
    increment between the test load and the `exchange`, a residue of 1 -/
example :
    let sched : List Op := [.inc 0 0, .inc 1 0, .get 0, .get 2, .inc 0 0, .get 0, .inc 1 0, .get 4]
    let s := run code {} sched
    Run code {} sched ∧ s.returns = [0, 3, 0] ∧ s.incs = 4 ∧ newest s.hist = 1 ∧ (getSolo code s).returns.sum = 4 := by
  decide

end Ctr
