import QuillModel.Backend.OrdTop
/-!
# C05 — output is in global timestamp order when enqueues respect the grace period

Property theorems only (the invariant and its preservation are in `Backend/Ord*.lean`).

Quantifiers: every initial state without threads (`Start`: any sinks, loggers, clock value), every
configuration with a non-zero grace period (`Cfg`: dropping or blocking queue, capacity, soft/hard limit,
batch percentage, …) whose context cache is refreshed after `ts_now` is sampled (`refreshAfterSample`, extracted
from `_populate_transit_events_from_frontend_queues`), **every schedule** `ops : List Op` of frontend
operations (thread start/exit, log calls of every kind, stalls between the clock read and the enqueue, blocked
and retried calls, flush / backtrace / removal requests, logger and sink management, clock ticks), backend polls
with arbitrary frontend operations injected at every hook site inside the poll, and the exit drain.

The property's own premise — *every statement is enqueued no later than the grace period after its timestamp
was taken* — is `GracePremise`: a decidable predicate on the final state's ghost history (`Th.accepted`, each
record carrying `ts` and the clock at its commit `enqAt`). Calls that are stalled or blocked for longer than the
grace period break the premise and are thereby excluded by the property itself (see `C05_premise_needed`).
-/
namespace Backend
open Backend.PB

/-- **Global order of processing.** For every schedule whose accepted records all respect the grace period, the
    backend pops transit events (ordinary statements *and* control events such as flush requests) in
    non-decreasing timestamp order across all threads and loggers. `popLog` is the chronological record of
    `_process_lowest_timestamp_transit_event` (newest first, hence the `reverse`). -/
theorem C05_pop_order (s0 : BSt) (h0 : Start s0) (hg : s0.cfg.grace ≠ 0) (hr : s0.cfg.refreshAfterSample = true)
    (ops : List Op) (hp : GracePremise (runOps s0 ops)) :
    ((runOps s0 ops).popLog.reverse.map (·.ts)).Pairwise (· ≤ ·) := by
  have hc := (start_GI h0).cfg_runOps ops
  have h := ((start_GI h0).runOps ops).popSorted (by rw [hc]; exact hg) (by rw [hc]; exact hr) hp
  rw [List.pairwise_map, List.pairwise_reverse]
  exact h

/-- **C05.** The ordinary (non-backtrace) log statements are written in non-decreasing timestamp order: the
    chronological sequence of processed events restricted to `Kind.log` statements that are not
    `LOG_BACKTRACE` (level 9; their replay is the documented exception) is sorted by timestamp. Each such
    statement is handed to its sinks at the moment it is popped (`processEvent`), so this is the order of the
    `write_log` calls. -/
theorem C05_statement_order (s0 : BSt) (h0 : Start s0) (hg : s0.cfg.grace ≠ 0) (hr : s0.cfg.refreshAfterSample = true)
    (ops : List Op) (hp : GracePremise (runOps s0 ops)) :
    (((runOps s0 ops).popLog.reverse.filter (fun st => st.kind = .log ∧ st.lvl ≠ 9)).map (·.ts)).Pairwise (· ≤ ·) := by
  have h := C05_pop_order s0 h0 hg hr ops hp
  rw [List.pairwise_map] at h ⊢
  exact h.sublist List.filter_sublist

/-- The same from any state that satisfies the ordering invariant (e.g. any reachable state): the order is
    maintained by every continuation of the schedule. -/
theorem C05_order_continues (s : BSt) (h : GI s) (hg : s.cfg.grace ≠ 0) (hr : s.cfg.refreshAfterSample = true)
    (ops : List Op) (hp : GracePremise (runOps s ops)) :
    ((runOps s ops).popLog.reverse.map (·.ts)).Pairwise (· ≤ ·) := by
  have hc := h.cfg_runOps ops
  have h := (h.runOps ops).popSorted (by rw [hc]; exact hg) (by rw [hc]; exact hr) hp
  rw [List.pairwise_map, List.pairwise_reverse]
  exact h

/-! ### concrete configurations for the witnesses -/

def c05Params : Spsc.Params :=
  { wStore := .release, wLoad := .acquire, rStore := .release, rLoad := .acquire, drainPublish := true }

/-- blocking queue of 1024 bytes, grace period 10, soft limit 4, hard limit 8 -/
def c05Cfg (refreshAfterSample : Bool) : Cfg :=
  { dropping := false, qcap := 1024, grace := 10, soft := 4, hard := 8, hdr := 32,
    strOverhead := 4, batchPct := 5, qp := c05Params, invalidBits := 32, refreshAfterSample := refreshAfterSample,
    catchAllFormat := true, reportBeforeFlushCleanup := true }

/-- one sink, one logger, clock at 1000 -/
def c05Init (refreshAfterSample : Bool) : BSt :=
  { cfg := c05Cfg refreshAfterSample, now := 1000, sinks := [{ sid := 0 }],
    lgs := [{ gid := 0, sinks := [0], level := 0 }], names := [(0, 0)] }

theorem c05Init_start (b : Bool) : Start (c05Init b) := ⟨by show 0 < 32; decide, rfl, rfl, rfl, rfl, rfl⟩

/-- F5 window: thread 1 is known to the backend. *Inside the backend's clock read* of the next poll (hook site 7)
    thread 2 registers and logs at 1100, then thread 1 logs at 1101, and time passes beyond the grace period —
    both records are committed at their timestamp instant, so the premise holds. -/
def c05Window : List Op :=
  [ .front (.tstart 1), .front (.tstart 2), .front (.log 1 0 4 10 true), .front (.tick 100), .poll [],
    .poll [(7, 1, [.log 2 0 4 10 true, .tick 1, .log 1 0 4 10 true, .tick 99])], .poll [] ]

/-- **The pinned order is wrong (F5).** With the context cache refreshed *before* `ts_now` is sampled
    (`refreshAfterSample = false`, the order of statements in the pinned `_poll`) the window schedule meets the
    premise and yet 1101 is written before 1100. -/
theorem C05_pinned_order_violates :
    Start (c05Init false) ∧ (c05Init false).cfg.grace ≠ 0 ∧ GracePremise (runOps (c05Init false) c05Window) ∧
    (runOps (c05Init false) c05Window).popLog.reverse.map (·.ts) = [1000, 1101, 1100] ∧
    ¬ (((runOps (c05Init false) c05Window).popLog.reverse.filter (fun st => st.kind = .log ∧ st.lvl ≠ 9)).map
        (·.ts)).Pairwise (· ≤ ·) := by
  refine ⟨c05Init_start false, by decide, by decide, by decide, by decide⟩

/-- non-vacuity of `C05_statement_order`: the same window under the repaired order satisfies every hypothesis
    and three statements of two threads are written, in timestamp order. -/
example : Start (c05Init true) ∧ (c05Init true).cfg.grace ≠ 0 ∧ (c05Init true).cfg.refreshAfterSample = true ∧
    GracePremise (runOps (c05Init true) c05Window) ∧
    ((runOps (c05Init true) c05Window).popLog.reverse.filter (fun st => st.kind = .log ∧ st.lvl ≠ 9)).map (·.ts)
      = [1000, 1100, 1101] := by
  refine ⟨c05Init_start true, by decide, by decide, by decide, by decide⟩

/-- a call stalled between its clock read (1000) and its enqueue (1300) for longer than the grace period -/
def c05Stall : List Op :=
  [ .front (.tstart 1), .front (.tstart 2), .front (.armStall 1), .front (.log 1 0 4 10 true),
    .front (.tick 200), .front (.log 2 0 4 10 true), .front (.tick 100), .poll [],
    .front (.resume 1), .front (.tick 100), .poll [] ]

/-- **The premise is needed** (and is exactly what excludes late enqueues): the stalled call breaks the premise,
    and the output is indeed out of order (1200 before 1000) although the repaired order is in force. -/
theorem C05_premise_needed :
    ¬ GracePremise (runOps (c05Init true) c05Stall) ∧
    (runOps (c05Init true) c05Stall).popLog.reverse.map (·.ts) = [1200, 1000] := by
  refine ⟨by decide, by decide⟩

end Backend
