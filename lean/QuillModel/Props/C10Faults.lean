import QuillModel.Props.C10Replay
import QuillModel.Backend.LiftNote
/-!
# C10 (lift round) — every sink fault is reported exactly once, over whole runs

`C10_write_fault_reported` / `C10_flush_fault_reported` (Props/C10.lean) are statements about one processing step. Here the
same is tied to the OBSERVABLE event log of every run: in the whole history of `runOps s0 ops` — every schedule, frontend
operations injected at every hook site, backtrace replays under both values of `replayCatchesPerEvent`, the exit drain —

* the number of `write_log` faults (`Ev.wthrow`) equals the number of `n:wfail` notifications (`C10_write_faults_reported_once`),
* the number of `flush_sink` faults (`Ev.fthrow`) equals the number of `n:ffail` notifications (`C10_flush_faults_reported_once`),

from any state with an empty history (`…_from`: from any state the *difference* is constant). Method: the balance skeleton
`Backend/LiftBal.lean` (`PC.bal_runOps`: a signed weight on events that cancels on each group of events the machine emits
together is constant along every schedule).

**Format failures.** The backend model has no representation of a formatter exception at all: `Stmt` is an abstract
record, `processEvent` has no format step, and `Cfg.catchAllFormat` is read by no function of `Backend/Sched.lean` (it is
carried for the driver's parameter line and for the obligation `C10_extracted` only). So no backend-level theorem can
speak about an unformattable statement; what exists is the codec bundle's `catch (...)` obligation (F4). Minimal model
extension that would make one possible (NOT made here — `Model.lean`/`Sched.lean` are frozen for this round): a field
`Stmt.badFmt : Bool := false` (set by a new `FOp.logBad`), and in `processEvent`'s `.log` branch, before `dispatch`:
`if st.badFmt then (if s.cfg.catchAllFormat then (s, some "n:fmtfail", none) else <abort: backendGone := true>)`; the
balance lemma `processEvent_bal` then needs one more cancelling pair (`fmtfail` event / notification) and
`C10_pop_on_every_path` covers the pop unchanged.
-/
namespace Backend
open Backend.PC

def isWthrow : Ev → Bool
  | .wthrow .. => true
  | _ => false

def isFthrow : Ev → Bool
  | .fthrow _ => true
  | _ => false

/-- the notification with text `w` -/
def isNote (w : String) : Ev → Bool
  | .notify m => m == w
  | _ => false

/-- `+1` for a fault event, `-1` for its notification -/
def faultWt (p q : Ev → Bool) : Wt :=
  { d := fun e => (if p e then 1 else 0) - (if q e then 1 else 0), b := 0 }

theorem faultWt_sum (p q : Ev → Bool) (l : List Ev) :
    (faultWt p q).sum l = (l.countP p : Int) - (l.countP q : Int) := by
  induction l with
  | nil => simp [Wt.sum]
  | cons e l ih =>
    have hd : (faultWt p q).d e = (if p e then 1 else 0) - (if q e then 1 else 0) := rfl
    rw [Wt.sum, ih, hd, List.countP_cons, List.countP_cons]
    cases p e <;> cases q e <;> simp <;> omega

theorem wfaultWt_ok : WtOK (faultWt isWthrow (isNote "n:wfail")) where
  inj := fun _ _ _ _ => by simp [faultWt, isWthrow, isNote]
  dtor := fun _ => by simp [faultWt, isWthrow, isNote]
  write := fun _ _ _ _ _ => by simp [faultWt, isWthrow, isNote]
  flushed := fun _ => by simp [faultWt, isWthrow, isNote]
  ffail := fun _ => by
    have : ("n:ffail" == "n:wfail") = false := by decide
    simp [faultWt, isWthrow, isNote, this]
  wfail := fun _ _ => by simp [faultWt, isWthrow, isNote]
  nobt := by
    have : ("n:nobt" == "n:wfail") = false := by decide
    simp [faultWt, isWthrow, isNote, this]
  fmterr := by
    have : ("n:fmterr" == "n:wfail") = false := by decide
    simp [faultWt, isWthrow, isNote, this]
  report := fun dr n a _ => by
    have : (reportStr dr n a == "n:wfail") = false := by simpa using (reportStr_ne dr n a).1
    simp [faultWt, isWthrow, isNote, this]

theorem ffaultWt_ok : WtOK (faultWt isFthrow (isNote "n:ffail")) where
  inj := fun _ _ _ _ => by simp [faultWt, isFthrow, isNote]
  dtor := fun _ => by simp [faultWt, isFthrow, isNote]
  write := fun _ _ _ _ _ => by simp [faultWt, isFthrow, isNote]
  flushed := fun _ => by simp [faultWt, isFthrow, isNote]
  ffail := fun _ => by simp [faultWt, isFthrow, isNote]
  wfail := fun _ _ => by
    have : ("n:wfail" == "n:ffail") = false := by decide
    simp [faultWt, isFthrow, isNote, this]
  nobt := by
    have : ("n:nobt" == "n:ffail") = false := by decide
    simp [faultWt, isFthrow, isNote, this]
  fmterr := by
    have : ("n:fmterr" == "n:ffail") = false := by decide
    simp [faultWt, isFthrow, isNote, this]
  report := fun dr n a _ => by
    have : (reportStr dr n a == "n:ffail") = false := by simpa using (reportStr_ne dr n a).2
    simp [faultWt, isFthrow, isNote, this]

/-- **Write faults and their reports, from any state.** Along every schedule the difference between the number of
    `write_log` faults and the number of `n:wfail` notifications in the whole event log does not change. -/
theorem C10_write_faults_reported_once_from (s : BSt) (ops : List Op) :
    (((runOps s ops).log.countP isWthrow : Nat) : Int) - ((runOps s ops).log.countP (isNote "n:wfail") : Nat) =
      ((s.log.countP isWthrow : Nat) : Int) - (s.log.countP (isNote "n:wfail") : Nat) := by
  have h := bal_runOps wfaultWt_ok s ops
  simp only [bal, faultWt_sum] at h
  simp only [faultWt] at h
  omega

/-- **Every write fault is reported exactly once.** From an empty history, after every schedule, the event log holds
    exactly as many `n:wfail` notifications as `write_log` faults (`Ev.wthrow`), whichever path the fault took: an ordinary
    dispatch, a backtrace replay triggered by a flush-level statement or by `flush_backtrace()`, with or without the
    per-event catch of the replay, inside a batch or the exit drain. -/
theorem C10_write_faults_reported_once (s0 : BSt) (hl : s0.log = []) (ops : List Op) :
    (runOps s0 ops).log.countP isWthrow = (runOps s0 ops).log.countP (isNote "n:wfail") := by
  have h := C10_write_faults_reported_once_from s0 ops
  rw [hl] at h
  simp only [List.countP_nil] at h
  omega

theorem C10_flush_faults_reported_once_from (s : BSt) (ops : List Op) :
    (((runOps s ops).log.countP isFthrow : Nat) : Int) - ((runOps s ops).log.countP (isNote "n:ffail") : Nat) =
      ((s.log.countP isFthrow : Nat) : Int) - (s.log.countP (isNote "n:ffail") : Nat) := by
  have h := bal_runOps ffaultWt_ok s ops
  simp only [bal, faultWt_sum] at h
  simp only [faultWt] at h
  omega

/-- **Every flush fault is reported exactly once**: as many `n:ffail` notifications as `flush_sink` faults (`Ev.fthrow`)
    in the whole event log of every run (idle-pass flushes, `flush_log` events, the final flush of the exit drain). -/
theorem C10_flush_faults_reported_once (s0 : BSt) (hl : s0.log = []) (ops : List Op) :
    (runOps s0 ops).log.countP isFthrow = (runOps s0 ops).log.countP (isNote "n:ffail") := by
  have h := C10_flush_faults_reported_once_from s0 ops
  rw [hl] at h
  simp only [List.countP_nil] at h
  omega

/-- non-vacuity: the fault schedule of `Props/C10.lean` (sink 1 throws on its 2nd write and 1st flush, sink 2 on its 1st
    write) starts from an empty history and leaves two write faults and one flush fault in the log, each reported -/
example : c10Init.log = [] ∧ (runOps c10Init c10Sched).log.countP isWthrow = 2 ∧
    (runOps c10Init c10Sched).log.countP (isNote "n:wfail") = 2 ∧
    (runOps c10Init c10Sched).log.countP isFthrow = 1 ∧ (runOps c10Init c10Sched).log.countP (isNote "n:ffail") = 1 := by
  refine ⟨rfl, by decide, by decide, by decide, by decide⟩

/-- non-vacuity on a backtrace replay (both values of the repair flag): the sink throws on the 2nd replayed statement -/
example : (runOps (c10ReplayInit true) c10ReplaySched).log.countP isWthrow = 1 ∧
    (runOps (c10ReplayInit true) c10ReplaySched).log.countP (isNote "n:wfail") = 1 ∧
    (runOps (c10ReplayInit false) c10ReplaySched).log.countP isWthrow =
      (runOps (c10ReplayInit false) c10ReplaySched).log.countP (isNote "n:wfail") ∧
    0 < (runOps (c10ReplayInit false) c10ReplaySched).log.countP isWthrow := by
  refine ⟨by decide, by decide, by decide, by decide⟩

end Backend
