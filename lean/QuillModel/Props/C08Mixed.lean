import QuillModel.Backend.MixedProofs
import QuillModel.Props.C08
/-!
# C08 in a process with several frontends of different queue types

Property theorems only (machine: `Backend/Mixed.lean`, skeleton: `Backend/MixedProofs.lean`). The queue type is a field
of the thread context, not of the process: threads of the default frontend (unbounded queue) and threads of a bounded
dropping frontend share one backend, one context registry and one context cache. C08's claim "the discard counts
reported through the error notifier add up to the number of discarded ordinary log statements" must hold whatever other
kinds of contexts exist and wherever they sit in the cache.

Quantifiers: every set `m.uActors` of threads that use the unbounded frontend (none, some, all), every schedule
`ops : List Op` (frontend calls of any number of threads in any order — so every registration order —, polls carrying
injected operations at every hook site, the exit drain), every configuration, both values of the extracted repair flags.
`ctrs s` lists `(fail, discarded, blockedCalls)` per context ever created, `reported` is what the notifier was told.

Scope of the approximation (see `Backend/Mixed.lean`): a context of the unbounded frontend is one bounded node that the
counter check never looks at; it is exact while no such context is refused a reservation (`uRefused m s = false`, the
moment the real queue would grow). The accounting identity holds without that hypothesis; the statement about the bounded
contexts alone carries it explicitly.
-/
namespace Backend
open Backend.PA

/-- **The counts add up in a mixed process, in every reachable state, for every schedule** — for every set of
    unbounded-frontend threads, every registration/cache order, and also for the seeded early-return variant (there the
    identity still holds: what is not reported stays in the counters — for ever, see below). -/
theorem C08Mixed_accounting (m : Mix) (s0 : BSt) (h0 : InvD s0) (ops : List Op) :
    ((ctrs (runOpsM m s0 ops)).map (fun c => c.2.1 + c.2.2)).sum =
      (runOpsM m s0 ops).reported + ((ctrs (runOpsM m s0 ops)).map (·.1)).sum :=
  (runOpsM_closed (InvD.closedM m) ops s0 h0).sum

/-- the three counters of the contexts with a *bounded* queue -/
def ctrsB (m : Mix) (s : BSt) : List (Nat × Nat × Nat) :=
  (s.ths.filter (fun t => !isU m t)).map (fun t => (t.fail, t.discarded, t.blockedCalls))

theorem sum_ctrs_split (m : Mix) (f : Nat × Nat × Nat → Nat) (hf : f (0, 0, 0) = 0) :
    ∀ (l : List Th), (∀ t ∈ l, isU m t = true → t.fail = 0 ∧ t.discarded = 0 ∧ t.blockedCalls = 0) →
      ((l.map (fun t => (t.fail, t.discarded, t.blockedCalls))).map f).sum =
        (((l.filter (fun t => !isU m t)).map (fun t => (t.fail, t.discarded, t.blockedCalls))).map f).sum
  | [], _ => rfl
  | t :: l, h => by
    have ih := sum_ctrs_split m f hf l (fun t ht => h t (List.mem_cons_of_mem _ ht))
    by_cases hu : isU m t = true
    · obtain ⟨a, b, c⟩ := h t (List.mem_cons_self ..) hu
      simp only [List.map_cons, List.sum_cons, List.filter_cons, hu, Bool.not_true, Bool.false_eq_true, if_false]
      rw [a, b, c, hf, ih]; simp
    · simp only [List.map_cons, List.sum_cons, List.filter_cons, hu, Bool.not_false, if_true]
      simp only [Bool.not_eq_true] at hu
      simp only [ih]

/-- **Bounded dropping contexts in a mixed process**: inside the scope of the approximation (no unbounded context was ever
    refused), summed over the contexts with a bounded queue only — wherever they sit in the registry and the cache, and
    however many unbounded contexts sit between them —: no call ever blocked, and
    `Σ discarded = reported + Σ pending counters`. -/
theorem C08Mixed_bounded_dropped_equals_reported_plus_pending (m : Mix) (s0 : BSt) (h0 : InvD s0)
    (hd : s0.cfg.dropping = true) (ops : List Op) (hscope : uRefused m (runOpsM m s0 ops) = false) :
    (∀ c ∈ ctrsB m (runOpsM m s0 ops), c.2.2 = 0) ∧
    ((ctrsB m (runOpsM m s0 ops)).map (fun c => c.2.1)).sum =
      (runOpsM m s0 ops).reported + ((ctrsB m (runOpsM m s0 ops)).map (·.1)).sum := by
  have h := runOpsM_closed (InvD.closedM m) ops s0 h0
  have hcfg : (runOpsM m s0 ops).cfg.dropping = true := by
    have hc : ClosedM m (fun s : BSt => s.cfg = s0.cfg) :=
      { h := { frame := fun _ _ h f => f.cfg.trans h
               refresh := fun s h => by unfold refreshCache; split <;> exact h
               ctxEmpty := fun _ _ h => h
               dropCtx := fun _ _ h _ _ _ => h }
        q := { prepRead := fun _ _ h => h
               commitRead := fun _ _ h => h
               readOne := fun s i st rest h _ _ => by unfold PA.readOne; dsimp only; split <;> exact h }
        pop := fun s i st rest h _ => by
          have c := processEvent_core s st
          unfold popStep; dsimp only; split <;> exact c.cfg.trans h
        failResetB := fun _ _ h _ _ => h
        dropAny := fun _ _ h _ _ => h
        front := fun s f h => (applyFront_ffr s f).cfg.trans h }
    rw [runOpsM_closed hc ops s0 rfl]; exact hd
  generalize runOpsM m s0 ops = s at h hcfg hscope ⊢
  have hz : ∀ t ∈ s.ths, isU m t = true → t.fail = 0 ∧ t.discarded = 0 ∧ t.blockedCalls = 0 := by
    intro t ht hu
    have := hscope
    simp only [uRefused, Bool.or_eq_false_iff, List.any_eq_false] at this
    have h1 := this.1 t ht
    simp only [hu, Bool.true_and, Bool.or_eq_true, bne_iff_ne, ne_eq, not_or, Decidable.not_not] at h1
    exact ⟨h1.1.1, h1.1.2, h1.2⟩
  have hb : ∀ c ∈ ctrsB m s, c.2.2 = 0 := by
    intro c hc
    simp only [ctrsB, List.mem_map, List.mem_filter] at hc
    obtain ⟨t, ⟨ht, _⟩, rfl⟩ := hc
    have := h.excl (t.fail, t.discarded, t.blockedCalls) (by simp only [ctrs, List.mem_map]; exact ⟨t, ht, rfl⟩)
    rw [if_pos hcfg] at this; exact this
  refine ⟨hb, ?_⟩
  have e1 := sum_ctrs_split m (fun c => c.2.1 + c.2.2) rfl s.ths hz
  have e2 := sum_ctrs_split m (fun c => c.1) rfl s.ths hz
  have hs := h.sum
  simp only [ctrs] at hs
  rw [e1, e2] at hs
  have e3 : ((ctrsB m s).map (fun c => c.2.1 + c.2.2)).sum = ((ctrsB m s).map (fun c => c.2.1)).sum := by
    congr 1
    apply List.map_congr_left
    intro c hc; rw [hb c hc]; rfl
  unfold ctrsB at e3 hb ⊢
  rw [← e3]; exact hs

/-- **The seeded variant never reports**: with the early return, as long as the first cached context belongs to the
    unbounded frontend, a counter check — on the idle path, the Flush path or at exit, with anything injected — changes
    nothing at all: no counter is reset, nothing is reported. -/
theorem C08Mixed_early_return_check_is_noop (m : Mix) (he : m.early = true) (inj : BSt → Nat → BSt) (s : BSt) (i : Nat)
    (rest : List Nat) (hc : s.cache = i :: rest) (hu : isU m (s.th i) = true) : checkFailuresM m inj s = s :=
  checkFailuresM_early_noop m he inj s i rest hc hu

/-- the check as the header has it, without interference: every cached bounded context with a non-zero counter is reset
    and reported, in cache order; unbounded contexts are skipped, not an end of the loop -/
theorem C08Mixed_check_visits_every_bounded_context (m : Mix) (hne : m.early = false) (s : BSt) :
    checkFailuresM m (fun x _ => x) s =
      s.cache.foldl (fun s i => if !isU m (s.th i) && (s.th i).fail > 0 then failReset s i else s) s :=
  checkFailuresM_quiet_spec m hne s

/-! ### witnesses (`decide` on the full machine) -/

def mixInit : BSt :=
  { cfg := c08Cfg true true, now := 1000, sinks := [{ sid := 0 }],
    lgs := [{ gid := 0, sinks := [0] }, { gid := 5, sinks := [0] }], names := [(0, 0), (5, 1)] }

/-- the demo of the seeded change: thread 2 (unbounded frontend) logs one statement and stays alive, so its context is
    first in the cache; thread 1 (bounded dropping) then overruns its 512-byte queue (2 accepted, 2 dropped); the backend
    drains, is idle twice, a second burst (1 more dropped), idle passes, and finally the exit drain -/
def m1Demo : List Op :=
  [.front (.tstart 1), .front (.tstart 2), .front (.log 2 5 4 20 true),
   .front (.log 1 0 4 200 true), .front (.log 1 0 4 200 true), .front (.log 1 0 4 200 true), .front (.log 1 0 4 200 true),
   .poll [], .poll [], .poll [], .poll [], .poll [],
   .front (.log 1 0 4 200 true), .front (.log 1 0 4 200 true), .front (.log 1 0 4 200 true),
   .poll [], .poll [], .poll [], .poll [], .exit]

/-- the same with the registration order swapped: the bounded thread registers first -/
def m1DemoBoundedFirst : List Op :=
  [.front (.tstart 1), .front (.tstart 2), .front (.log 1 0 4 200 true), .front (.log 2 5 4 20 true),
   .front (.log 1 0 4 200 true), .front (.log 1 0 4 200 true), .front (.log 1 0 4 200 true),
   .poll [], .poll [], .poll [], .poll [], .poll [], .exit]

/-- the unbounded thread registers first, then exits; once its context is reclaimed the bounded one is first -/
def m1DemoUnboundedExits : List Op :=
  [.front (.tstart 1), .front (.tstart 2), .front (.log 2 5 4 20 true), .front (.texit 2),
   .front (.log 1 0 4 200 true), .front (.log 1 0 4 200 true), .front (.log 1 0 4 200 true), .front (.log 1 0 4 200 true),
   .poll [], .poll [], .poll [], .poll [], .poll [], .poll [], .exit]

/-- **As the header has it** (per-context test): 3 statements discarded by the bounded dropping thread, 3 reported, nothing
    pending; the unbounded context (index 0, first in registry and cache) is untouched and still registered. -/
theorem C08Mixed_demo_all_reported :
    let s := runOpsM { uActors := [2] } mixInit m1Demo
    s.cache = [0, 1] ∧ ((ctrsB { uActors := [2] } s).map (fun c => c.2.1)).sum = 3 ∧ s.reported = 3 ∧
      ((ctrs s).map (·.1)).sum = 0 ∧ uRefused { uActors := [2] } s = false := by decide

/-- **The seeded early return leaves the drops unreported for ever**: same schedule, first cached context unbounded and
    alive: 3 discarded, 0 reported — after five idle passes, a second burst, more idle passes and the exit drain; the
    counts sit in thread 1's counter. -/
theorem C08Mixed_early_return_never_reports :
    let s := runOpsM { uActors := [2], early := true } mixInit m1Demo
    s.cache = [0, 1] ∧ ((ctrsB { uActors := [2], early := true } s).map (fun c => c.2.1)).sum = 3 ∧ s.reported = 0 ∧
      (s.th 1).fail = 3 ∧ s.backendGone = true := by decide

/-- the seeded variant is invisible with the opposite registration order (why a single-frontend suite cannot see it) -/
theorem C08Mixed_early_return_invisible_bounded_first :
    (runOpsM { uActors := [2], early := true } mixInit m1DemoBoundedFirst).reported = 2 ∧
    (runOpsM { uActors := [2] } mixInit m1DemoBoundedFirst).reported = 2 := by decide

/-- … and reports late, in one go, once the unbounded thread has exited and its context was reclaimed: in the first idle
    pass (operation 12) the check still sees the unbounded context first and returns, the clean-up of that same pass then
    reclaims it, and the next idle pass reports both drops at once -/
theorem C08Mixed_early_return_late_after_unbounded_exit :
    (runOpsM { uActors := [2], early := true } mixInit (m1DemoUnboundedExits.take 12)).reported = 0 ∧
    (runOpsM { uActors := [2] } mixInit (m1DemoUnboundedExits.take 12)).reported = 2 ∧
    (runOpsM { uActors := [2], early := true } mixInit m1DemoUnboundedExits).reported = 2 := by decide

/-- non-vacuity: the start state satisfies the invariant, and the scope hypothesis holds on the demo -/
example : InvD mixInit ∧ mixInit.cfg.dropping = true ∧ uRefused { uActors := [2] } (runOpsM { uActors := [2] } mixInit m1Demo) = false :=
  ⟨C08_started_inv _ ⟨rfl, rfl⟩, rfl, by decide⟩

/-- with no thread on the unbounded frontend the machine is the single-frontend one on these schedules -/
example : (runOpsM {} mixInit m1Demo).reported = (runOps mixInit m1Demo).reported ∧
    (runOpsM {} mixInit m1Demo).registry = (runOps mixInit m1Demo).registry := by decide

end Backend
