import QuillModel.Backend.ConsProofsReclaim
import QuillModel.Backend.ConsProofsQuiesce
import QuillModel.Backend.ConsProofsUnplaced
import QuillModel.Props.C03
/-!
# C08 — dropping queue: a statement is delivered intact or reported dropped; the counts add up

Property theorems only (helper lemmas: `QuillModel/Backend/ConsProofsDrop*.lean`). Object: the end-to-end model
`Backend/{Model,Sched,Ops}.lean` with `cfg.dropping = true` (the bounded dropping queue; byte-exact bounded SPSC
model inside). Ghost counters: per context `discarded` (ordinary log calls refused, the call returned `false`),
`fail` is the real `_failure_counter`; globally `reported` (sum of the counts handed to the error notifier).
Quantifiers: every schedule `ops : List Op` incl. injections inside polls, every capacity and message-size
sequence (also sizes that can never fit), every configuration, every initial state satisfying the invariant
(`Started`: no context yet, nothing reported). Delivered statements keep C03 (conservation, order, at most once per
sink): those theorems do not depend on the queue type.

**The repair the property needs.** "A reclaimed context has no unreported drops" was false of the code as found:
`_cleanup_invalidated_thread_contexts` never looked at the failure counter. F17 (the Flush path did not even check the
counters before cleaning up) was repaired first (`reportBeforeFlushCleanup`), but a drop made between
`_check_failure_counter` and the clean-up of the same poll — while the notifier runs for another thread (hook site 8),
or by a thread that registers after the poll's cache refresh — was still lost when that thread had exited (finding F24,
confirmed on the real code, `findings/F24_pinned_tree.txt`). Repair: the clean-up keeps a context whose counter is
non-zero (`Cfg.cleanupKeepsUnreported`, extracted from the header). With it `removed → fail = 0` is an invariant of
every schedule (`C08_removed_context_reported`), whatever the value of the older flag; without it both schedules lose
a count (`C08_flush_cleanup_loses_count_unrepaired`, `C08_count_lost_between_check_and_cleanup`). The accounting
identity holds in all cases and pins the loss down exactly: it is `Σ fail` over the removed contexts.
-/
namespace Backend
open Backend.PA

/-- a system in which no context exists yet and nothing was reported -/
structure Started (s : BSt) : Prop where
  ths : s.ths = []
  reported : s.reported = 0

theorem C08_started_inv (s0 : BSt) (h : Started s0) : InvD s0 := by
  refine ⟨?_, ?_⟩
  · simp [ctrs, h.ths, h.reported]
  · intro c hc; simp [ctrs, h.ths] at hc

/-- the configuration (in particular the queue type) never changes -/
theorem C08_cfg_constant (s0 : BSt) (ops : List Op) : (runOps s0 ops).cfg = s0.cfg := by
  have hc : Closed (fun s : BSt => s.cfg = s0.cfg) :=
    { frame := fun _ _ h f => f.cfg.trans h
      refresh := fun s h => by unfold refreshCache; split <;> exact h
      ctxEmpty := fun _ _ h => h
      dropCtx := fun _ _ h _ _ _ => h
      prepRead := fun _ _ h => h
      commitRead := fun _ _ h => h
      readOne := fun s i st rest h _ _ => by unfold PA.readOne; dsimp only; split <;> exact h
      pop := fun s i st rest h _ => by
        have c := processEvent_core s st
        unfold popStep; dsimp only; split <;> exact c.cfg.trans h
      failReset := fun _ _ h _ => h
      front := fun s f h => (applyFront_ffr s f).cfg.trans h }
  exact runOps_closed hc ops s0 rfl

/-- **The counts add up, in every reachable state, for every schedule.** Summed over all contexts ever created
    (live, exited, reclaimed): refused ordinary log calls (`discarded` on a dropping queue, `blockedCalls` on a
    blocking one) = what the notifier has been told so far + what is still in the failure counters. -/
theorem C08_accounting (s0 : BSt) (h0 : InvD s0) (ops : List Op) :
    ((ctrs (runOps s0 ops)).map (fun c => c.2.1 + c.2.2)).sum =
      (runOps s0 ops).reported + ((ctrs (runOps s0 ops)).map (·.1)).sum :=
  (runOps_closed InvD.closed ops s0 h0).sum

/-- **Dropping queue**: no call ever blocks, and `Σ discarded = reported + Σ fail` over all contexts ever created.
    (`ctrs s` lists `(fail, discarded, blockedCalls)` per context.) -/
theorem C08_dropped_equals_reported_plus_pending (s0 : BSt) (h0 : InvD s0) (hd : s0.cfg.dropping = true) (ops : List Op) :
    (∀ c ∈ ctrs (runOps s0 ops), c.2.2 = 0) ∧
    ((ctrs (runOps s0 ops)).map (fun c => c.2.1)).sum =
      (runOps s0 ops).reported + ((ctrs (runOps s0 ops)).map (·.1)).sum := by
  have h := runOps_closed InvD.closed ops s0 h0
  have hcfg : (runOps s0 ops).cfg.dropping = true := by rw [C08_cfg_constant]; exact hd
  have hz : ∀ c ∈ ctrs (runOps s0 ops), c.2.2 = 0 := fun c hc => by
    have := h.excl c hc; rw [if_pos hcfg] at this; exact this
  refine ⟨hz, ?_⟩
  rw [← h.sum]
  congr 1
  apply List.map_congr_left
  intro c hc
  rw [hz c hc]; rfl

/-- **A log call returns `false` exactly when the statement is discarded.** An ordinary log call on a dropping
    queue (the body of `log_statement` after the timestamp was taken; `cont = 0` is the call whose return value is
    observed), in ANY state, has exactly two outcomes, decided by the reservation `tryEnq`:
    * granted: the observation is `ret=1`, the statement is appended to the accepted history of the caller's
      context (so by C03 it will be popped and dispatched exactly once), no counter moves;
    * refused: the observation is `ret=0`, nothing is appended to any accepted history (the statement never
      reaches the backend), `fail` and `discarded` of the caller's context each grow by exactly one.
    (`accs` = the accepted histories of all contexts, `ctrs` = their `(fail, discarded, blockedCalls)`; the state
    they are compared with is the one after the context look-up `ensureCtx`, which only appends a fresh context.) -/
theorem C08_log_call_outcome (s : BSt) (hd : s.cfg.dropping = true) (a : Nat) (st : Stmt) (hk : st.kind = .log) :
    (if (tryEnq (ensureCtx s a).1 (ensureCtx s a).2 st).2 = true then
       (enqFlow s a st 0 true).2 = obsLog st 0 (some true) st.size ∧
       accs (enqFlow s a st 0 true).1 =
         updAt (accs (ensureCtx s a).1) (ensureCtx s a).2 (· ++ [{ st with enqAt := (ensureCtx s a).1.now }]) ∧
       ctrs (enqFlow s a st 0 true).1 = ctrs (ensureCtx s a).1
     else
       (enqFlow s a st 0 true).2 = s!"id={st.id} ret=0 ev=1 bytes=0" ∧
       accs (enqFlow s a st 0 true).1 = accs (ensureCtx s a).1 ∧
       ctrs (enqFlow s a st 0 true).1 =
         updAt (ctrs (ensureCtx s a).1) (ensureCtx s a).2 (fun c => (c.1 + 1, c.2.1 + 1, c.2.2))) :=
  enqFlow_log_outcome s hd a st hk

/-! ### never both: a discarded statement is never written -/

/-- **A refused log call leaves its id carried by nothing.** An ordinary log call (`LOG_DYNAMIC`, the call that
    returns the bool) by an idle live actor through a valid logger, whose level passes, not parked by a stall, on a
    dropping queue: if the reservation fails (the `ret=0` outcome of `C08_log_call_outcome`), then after the call its id
    `s.nextId` is *unplaced* — below the new `nextId`, and no statement with that id is in any accepted history or
    parked call (`tot … = 0`). -/
theorem C08_dropped_call_id_unplaced (s : BSt) (hb : InvB s) (hd : s.cfg.dropping = true) (a g lvl len lgi : Nat)
    (hlg : loggerOf s g = some lgi) (hidle : idleActor s a = true) (hlvl : shouldLog lvl (s.lgOf lgi).level = true)
    (hns : ((s.actor a).map (·.stallArmed)).getD false = false)
    (hf : ∀ st : Stmt, st.kind = .log → st.id = s.nextId → st.size = stmtSize s.cfg .log s.nextId len true (s.lgOf lgi).gid →
      (tryEnq (ensureCtx { s with nextId := s.nextId + 1 } a).1 (ensureCtx { s with nextId := s.nextId + 1 } a).2 st).2 = false) :
    Unplaced (applyFront s (.log a g lvl len true)).1 s.nextId := by
  have e1 : applyFront s (.log a g lvl len true) =
      noteCall (frontCall { s with nextId := s.nextId + 1 } a lgi .log lvl len 0 true s.nextId) a g := by
    simp only [applyFront]
    rw [withLogger_eq s a g lgi _ hlg hidle]
    have : shouldLog lvl (({ s with nextId := s.nextId + 1 } : BSt).lgOf lgi).level = true := hlvl
    rw [if_pos this]; rfl
  rw [e1]
  apply Unplaced.noteCall
  rw [frontCall_eq_enqFlow ({ s with nextId := s.nextId + 1 } : BSt) a lgi .log lvl len 0 true s.nextId false hns]
  exact enqFlow_dropped_unplaced (hb.toφ.room_fresh a _ rfl) hd rfl 0 (Or.inl rfl) true true (hf _ rfl rfl rfl)

/-- the same for a call that was stalled after reading its timestamp and is resumed: if the reservation then fails,
    the id it was given is unplaced afterwards -/
theorem C08_dropped_stalled_call_id_unplaced (s : BSt) (hb : InvB s) (hd : s.cfg.dropping = true) (a : Nat) (x : Actor)
    (st : Stmt) (cont : Nat) (hx : s.actor a = some x) (hp : x.pend = .stall st cont) (hk : isLogKind st.kind = true)
    (hc : cont = 0 ∨ cont = 5) (hf : (tryEnq (ensureCtx s a).1 (ensureCtx s a).2 st).2 = false) :
    Unplaced (resume s a).1 st.id := by
  have e : resume s a = enqFlow s a st cont true false := by
    unfold Backend.resume; simp [hx, hp]
  rw [e]
  exact enqFlow_dropped_unplaced (hb.toφ.room_parked a x hx st st (by simp [hp, pendL]) (fun _ => rfl)) hd hk cont hc
    true false hf

/-- **An unplaced id stays unplaced**: ids are allocated once (`nextId` only grows) and a statement object only ever
    moves from a parked call into one accepted history — so an id that nothing carries is never carried again,
    whatever the schedule. -/
theorem C08_unplaced_forever (s : BSt) (hb : InvB s) (id : Nat) (u : Unplaced s id) (ops : List Op) :
    Unplaced (runOps s ops) id := Unplaced.run hb u ops

/-- **Delivered XOR reported dropped.** From any state satisfying the invariants (every reachable state), an id that
    is unplaced — in particular the id of a call that returned `false` (two theorems above), whose drop is counted in
    `discarded` and reported (`C08_dropped_equals_reported_plus_pending`) — has no ordinary `write` event at any sink in
    the whole history, now and after every further schedule. Conversely a call that returned `true` put its statement
    into an accepted history (`C08_log_call_outcome`), from where C03 delivers it at most once per sink and never
    counts it as dropped (`ctrs` unchanged). -/
theorem C08_discarded_never_written (s : BSt) (h : Inv s) (id : Nat) (u : Unplaced s id) (ops : List Op) (sid : Nat) :
    wcount (runOps s ops).log sid id = 0 :=
  h.unplaced_never_written id u ops sid

/-- **Control requests are never discarded and never counted.** A flush / backtrace-init / backtrace-flush /
    logger-removal request (not an `Event::Log`; `cont ∈ {1,2,3,4}`) on a dropping queue touches no counter at all,
    and when the reservation fails nothing is appended and the caller is parked with `Pend.retry st cont`: it will
    attempt the same request again (`C08_retry_reattempts`), it does not give up. -/
theorem C08_control_request_retried (s : BSt) (hd : s.cfg.dropping = true) (a : Nat) (st : Stmt) (cont : Nat)
    (first initial : Bool) (hk : isLogKind st.kind = false) (hc : cont ≠ 0 ∧ cont ≠ 5) :
    ctrs (enqFlow s a st cont first initial).1 = ctrs (ensureCtx s a).1 ∧
    ((tryEnq (ensureCtx s a).1 (ensureCtx s a).2 st).2 = false →
      (enqFlow s a st cont first initial).2 = "parked:sleep" ∧
      accs (enqFlow s a st cont first initial).1 = accs (ensureCtx s a).1 ∧
      ∀ x ∈ (enqFlow s a st cont first initial).1.actors, x.id = a → x.alive = true → x.pend = .retry st cont) :=
  enqFlow_control s hd a st cont first initial hk hc

/-- resuming a caller parked in a retry makes the very same request again (a fresh `log_statement` call with a new
    timestamp), so a control request is repeated until it is accepted -/
theorem C08_retry_reattempts (s : BSt) (hd : s.cfg.dropping = true) (a : Nat) (x : Actor) (st : Stmt) (cont : Nat)
    (hx : s.actor a = some x) (hp : x.pend = .retry st cont) :
    resume s a = enqFlow s a { st with ts := s.now } cont true false := by
  unfold Backend.resume
  simp [hx, hp, hd]

/-- the four control requests of the public API are made with a non-log kind and `cont ∈ {1,2,3,4}` -/
theorem C08_control_kinds :
    isLogKind (.flush 0) = false ∧ isLogKind (.initBt 0 0) = false ∧ isLogKind .flushBt = false ∧
    isLogKind (.removal 0) = false := ⟨rfl, rfl, rfl, rfl⟩

/-- **A reclaimed context has no unreported drops** (repaired clean-up, `cfg.cleanupKeepsUnreported = true`): in every
    reachable state of every schedule — whatever is injected while the notifier runs, whenever threads register, drop
    and exit — a context that has left the registry has a zero failure counter: every call it refused was reported.
    With `C08_dropped_equals_reported_plus_pending`: the drops not yet reported are exactly the counters of the
    contexts still registered, which the next idle pass reports. -/
theorem C08_removed_context_reported (s0 : BSt) (h0 : InvK s0) (ops : List Op) (i : Nat)
    (hr : ((runOps s0 ops).th i).removed = true) : ((runOps s0 ops).th i).fail = 0 :=
  (runOps_closed InvK.closed ops s0 h0).r.zero i hr

/-- every freshly started system whose configuration carries the repair satisfies the hypothesis -/
theorem C08_fresh_reclaim_inv (s0 : BSt) (h : Fresh s0) (hk : s0.cfg.cleanupKeepsUnreported = true) : InvK s0 :=
  ⟨hk, h.inv.a, ⟨fun i hr => by
    rw [th_default_of_ge s0 i (by rw [h.ths]; exact Nat.zero_le _)] at hr; cases hr⟩⟩

/-- clean-up directly after the counter check (no frontend step in between) removes only contexts whose counter is
    zero — the situation of an idle poll without interference, true of the unrepaired clean-up as well -/
theorem C08_cleanup_after_check (s : BSt) (j : Nat)
    (hr : ((cleanupContexts (checkFailures (fun x _ => x) s)).th j).removed = true) :
    (s.th j).removed = true ∨ ((cleanupContexts (checkFailures (fun x _ => x) s)).th j).fail = 0 :=
  cleanup_after_check s j hr

/-- **The cache covers the registry unless a thread registered since the last refresh** — in every reachable state
    of every schedule (`CovK s`: `newFlag = false → registry ⊆ cache`). -/
theorem C08_cache_covers_registry (s0 : BSt) (h0 : CovK s0) (ops : List Op) : CovK (runOps s0 ops) :=
  runOps_closed CovK.closed ops s0 h0

/-- **The idle pass drains the failure counters.** From any state satisfying the cache invariant (every reachable
    state), a `_poll` whose read pass finds no event (`(populate inj s).2 = 0`), run with an injection runner that takes
    no frontend step (`QuietInj`, e.g. the empty table), ends with `fail = 0` for every context still registered: the
    read pass refreshed the cache, so `_check_failure_counter` visited every registered context, and nothing that
    follows in the pass (emptiness check, context and logger clean-up) raises a counter. -/
theorem C08_idle_pass_drains_counters (inj : BSt → Nat → BSt) (hq : QuietInj inj) (s : BSt) (hk : CovK s)
    (hidle : (populate inj s).2 = 0) (i : Nat) (hi : i ∈ (poll inj s).registry) : ((poll inj s).th i).fail = 0 :=
  poll_idle_clears hq s hk hidle i hi

/-- the empty injection table takes no frontend step -/
theorem C08_empty_table_quiet : QuietInj (runInj []) := runInj_nil_quiet

/-- without interference `_check_failure_counter` empties the counter of every cached context -/
theorem C08_check_clears_counters (s : BSt) (i : Nat) (hi : i ∈ s.cache) :
    ((checkFailures (fun x _ => x) s).th i).fail = 0 := by
  rw [checkFailures_quiet]
  exact (cfFold_clears s.cache s).2.1 i hi

/-- **At quiescence everything discarded has been reported** (dropping queue, repaired clean-up). Take any schedule
    `ops` from a freshly started system and let the backend then make one poll with no frontend step inside it
    (`Op.poll []`) that finds nothing to read (an idle pass). Afterwards every failure counter of every context ever
    created is zero — registered ones were just reported, reclaimed ones had been reported before they were reclaimed —
    and therefore `Σ discarded = reported`: every refused log call has been reported through the notifier, none twice,
    none lost. -/
theorem C08_quiescent_all_reported (s0 : BSt) (hf : Fresh s0) (hs : Started s0) (hreg : s0.registry = [])
    (hd : s0.cfg.dropping = true) (hk : s0.cfg.cleanupKeepsUnreported = true) (ops : List Op)
    (hgone : (runOps s0 ops).backendGone = false)
    (hidle : (populate (runInj []) { runOps s0 ops with siteCnt := [] }).2 = 0) :
    (∀ c ∈ ctrs (runOps s0 (ops ++ [.poll []])), c.1 = 0) ∧
    ((ctrs (runOps s0 (ops ++ [.poll []]))).map (fun c => c.2.1)).sum = (runOps s0 (ops ++ [.poll []])).reported := by
  have hcov0 : CovK s0 := fun _ i hi => by rw [hreg] at hi; cases hi
  have hstep : runOps s0 (ops ++ [.poll []]) = poll (runInj []) { runOps s0 ops with siteCnt := [] } := by
    have e1 : runOps s0 (ops ++ [.poll []]) = (applyOp (runOps s0 ops) (.poll [])).1 := by
      unfold runOps; rw [List.foldl_append]; rfl
    rw [e1]
    show (if (runOps s0 ops).backendGone = true then ((runOps s0 ops), "noop")
      else (poll (runInj []) { runOps s0 ops with siteCnt := [] }, "ev")).1 = _
    rw [hgone]; rfl
  have hK := runOps_closed InvK.closed (ops ++ [.poll []]) s0 (C08_fresh_reclaim_inv s0 hf hk)
  have hcov : CovK ({ runOps s0 ops with siteCnt := [] } : BSt) :=
    (C08_cache_covers_registry s0 hcov0 ops).of_same rfl rfl rfl
  have hzero : ∀ c ∈ ctrs (runOps s0 (ops ++ [.poll []])), c.1 = 0 := by
    intro c hc
    simp only [ctrs, List.mem_map] at hc
    obtain ⟨t, ht, rfl⟩ := hc
    obtain ⟨i, hi, e⟩ := List.mem_iff_getElem.mp ht
    have hth : t = (runOps s0 (ops ++ [.poll []])).th i := by rw [th_eq_getElem _ i hi, e]
    rw [hth]
    rcases hK.a.reg i hi with hr | hr
    · rw [hstep] at hr ⊢
      exact C08_idle_pass_drains_counters (runInj []) runInj_nil_quiet _ hcov hidle i hr
    · exact hK.r.zero i hr
  refine ⟨hzero, ?_⟩
  have hsum := (C08_dropped_equals_reported_plus_pending s0 (C08_started_inv s0 hs) hd (ops ++ [.poll []])).2
  rw [hsum, sum_map_const _ _ 0 hzero]; simp

/-! ### witnesses: the two ways a drop count is lost with a reclaimed context -/

def c08Cfg (rep keep : Bool) : Cfg :=
  { dropping := true, qcap := 512, grace := 0, soft := 4, hard := 8, hdr := 32, strOverhead := 5, batchPct := 5,
    qp := { wStore := .release, wLoad := .acquire, rStore := .release, rLoad := .acquire, drainPublish := true },
    invalidBits := 32, refreshAfterSample := true, catchAllFormat := true, reportBeforeFlushCleanup := rep,
    cleanupKeepsUnreported := keep }

def c08Init (rep keep : Bool) : BSt :=
  { cfg := c08Cfg rep keep, now := 1000, sinks := [{ sid := 0 }], lgs := [{ gid := 0, sinks := [0] }], names := [(0, 0)] }

theorem c08Init_started (rep keep : Bool) : Started (c08Init rep keep) := ⟨rfl, rfl⟩

/-- F17's schedule: thread 1 logs (accepted), logs again (dropped: the queue is full), exits; thread 2's `flush_log`
    is processed before any idle poll -/
def f17Sched : List Op :=
  [.front (.tstart 1), .front (.tstart 2), .front (.log 1 0 4 300 true), .front (.log 1 0 4 300 true),
   .front (.texit 1), .front (.flush 2 0), .poll [], .poll []]

/-- **F17 (both repairs off)**: the Flush path reclaims thread 1's context while its failure counter still holds the
    drop: one statement discarded, nothing reported, and the counter is gone with the context. -/
theorem C08_flush_cleanup_loses_count_unrepaired :
    ((runOps (c08Init false false) f17Sched).th 0).removed = true ∧ ((runOps (c08Init false false) f17Sched).th 0).fail = 1 ∧
    ((runOps (c08Init false false) f17Sched).th 0).discarded = 1 ∧ (runOps (c08Init false false) f17Sched).reported = 0 := by
  decide

/-- the same schedule with the first repair (report before the Flush path cleans up): reported, then reclaimed -/
theorem C08_flush_cleanup_reports_repaired :
    ((runOps (c08Init true false) f17Sched).th 0).removed = true ∧ ((runOps (c08Init true false) f17Sched).th 0).fail = 0 ∧
    ((runOps (c08Init true false) f17Sched).th 0).discarded = 1 ∧ (runOps (c08Init true false) f17Sched).reported = 1 := by
  decide

/-- the same schedule with only the second repair: the context is kept until its counter has been reported -/
theorem C08_flush_cleanup_keeps_unreported :
    ((runOps (c08Init false true) f17Sched).th 0).removed = false ∧ ((runOps (c08Init false true) f17Sched).th 0).fail = 1 := by
  decide

/-- thread 1's context is first in the cache; thread 2 drops a statement; in the idle poll, while the notifier
    reports thread 2's drop (hook site 8), thread 1 logs a record that can never fit (dropped) and exits -/
def f23Sched : List Op :=
  [.front (.tstart 1), .front (.tstart 2), .front (.log 1 0 4 10 true), .front (.log 2 0 4 300 true),
   .front (.log 2 0 4 300 true), .poll [], .poll [], .poll [(8, 1, [.log 1 0 4 5000 true, .texit 1])]]

/-- **F24 (first repair on, second off)**: even with `reportBeforeFlushCleanup = true` a drop made between the counter
    check and the clean-up of the same idle poll is lost with the exited thread's context: two statements discarded, one
    reported, the other count is in a removed context. So `removed → fail = 0` needs `cleanupKeepsUnreported`. -/
theorem C08_count_lost_between_check_and_cleanup :
    ((runOps (c08Init true false) f23Sched).th 0).removed = true ∧ ((runOps (c08Init true false) f23Sched).th 0).fail = 1 ∧
    ((ctrs (runOps (c08Init true false) f23Sched)).map (fun c => c.2.1)).sum = 2 ∧
    (runOps (c08Init true false) f23Sched).reported = 1 := by
  decide

/-- with the repair the context stays registered until the next idle pass has reported its counter, then it goes -/
theorem C08_count_kept_until_reported :
    ((runOps (c08Init true true) f23Sched).th 0).removed = false ∧ ((runOps (c08Init true true) f23Sched).th 0).fail = 1 ∧
    ((runOps (c08Init true true) (f23Sched ++ [.poll []])).th 0).removed = true ∧
    ((runOps (c08Init true true) (f23Sched ++ [.poll []])).th 0).fail = 0 ∧
    (runOps (c08Init true true) (f23Sched ++ [.poll []])).reported = 2 := by
  decide

/-- non-vacuity of the outcome theorem: on this schedule one call is granted (`ret=1`), the next refused (`ret=0`) -/
example :
    (applyOp (runOps (c08Init true true) (f17Sched.take 2)) (.front (.log 1 0 4 300 true))).2 = "id=0 ret=1 ev=1 bytes=338" ∧
    (applyOp (runOps (c08Init true true) (f17Sched.take 3)) (.front (.log 1 0 4 300 true))).2 = "id=1 ret=0 ev=1 bytes=0" := by
  decide

/-- non-vacuity of the quiescence theorem: after the F24 schedule the next poll is idle (its read pass finds nothing),
    and after it the two discarded statements are both reported -/
example : (runOps (c08Init true true) f23Sched).backendGone = false ∧
    (populate (runInj []) { runOps (c08Init true true) f23Sched with siteCnt := [] }).2 = 0 ∧
    ((ctrs (runOps (c08Init true true) (f23Sched ++ [.poll []]))).map (fun c => c.2.1)).sum = 2 ∧
    (runOps (c08Init true true) (f23Sched ++ [.poll []])).reported = 2 := by decide

/-- non-vacuity of the never-both theorems: in the F17 schedule the second call (id 1) was refused; its id is unplaced
    and unwritten at the end, while id 0 was accepted and written once -/
example : tot (runOps (c08Init true true) f17Sched) 1 = 0 ∧ 1 < (runOps (c08Init true true) f17Sched).nextId ∧
    wcount (runOps (c08Init true true) f17Sched).log 0 1 = 0 ∧ tot (runOps (c08Init true true) f17Sched) 0 = 1 ∧
    wcount (runOps (c08Init true true) f17Sched).log 0 0 = 1 := by decide

end Backend
