import QuillModel.Props.C05
import QuillModel.Backend.LiftOrder
/-!
# C05 (lift round) — the order of the `write_log` calls in the OBSERVABLE event log

`Props/C05.lean` orders the ghost pop history `popLog`. Here the order is stated on the event log `log` itself (what the
harness compares line by line: one `Ev.write sink id lvl ts named` per `write_log` call) and tied to `popLog` for every
schedule:

* `C05_writes_follow_pops` (no premise, every configuration): the ordinary (`lvl ≠ 9`) `write` events of the whole log,
  in log order, are an *expansion* of the pop history — every popped statement is replaced by zero or more writes that
  carry its id and its timestamp (`PA.Blow`); nothing else ever writes an ordinary statement;
* `C05_write_order`: under C05's own premise the timestamps of successive ordinary `write` events — over all sinks, hence
  also across the sinks of one statement — are non-decreasing in the whole log of every run;
* `C05_write_order_at_sink`: the same at every single sink;
* `C05_write_order_pairs`: positional form — of any two ordinary writes in the log, the earlier one has the smaller or
  equal timestamp.

Backtrace replays (level 9) are the documented exception and are excluded by `ordKey`, exactly as in `C05_statement_order`.
-/
namespace Backend
open Backend.PA Backend.PB

/-- no logger of the state has a backtrace ring yet (decidable sufficient condition for `RingOK`) -/
theorem ringOK_of_no_rings {s : BSt} (h : ∀ l ∈ s.lgs, l.bt = none) : RingOK s := by
  intro i r hr
  by_cases hi : i < s.lgs.length
  · have hm : s.lgOf i ∈ s.lgs := by
      simp only [BSt.lgOf, List.getD_eq_getElem?_getD, List.getElem?_eq_getElem hi, Option.getD_some]
      exact List.getElem_mem hi
    rw [h _ hm] at hr; cases hr
  · rw [lgOf_default_of_ge s i (by omega)] at hr; cases hr

/-- **The ordinary writes of the log are the pops, expanded.** For every configuration and every schedule, from a state
    with an empty history: the `(sink, id, ts)` triples of the ordinary `write` events of the whole event log (newest
    first, like `log`) arise from the pop history `popLog` (newest first) by replacing each popped statement by zero or
    more writes carrying that statement's id and timestamp. -/
theorem C05_writes_follow_pops (s0 : BSt) (hr : RingOK s0) (hl : s0.log = []) (hp : s0.popLog = []) (ops : List Op) :
    Blow (wkeys (runOps s0 ops).log) (runOps s0 ops).popLog :=
  ((InvO.start hr hl hp).run ops).blow

/-- every ordinary write in the log is a write of a popped statement, with that statement's id and timestamp -/
theorem C05_write_is_of_popped (s0 : BSt) (hr : RingOK s0) (hl : s0.log = []) (hp : s0.popLog = []) (ops : List Op)
    (sid id lvl ts : Nat) (named : Bool) (hm : Ev.write sid id lvl ts named ∈ (runOps s0 ops).log) (h9 : lvl ≠ 9) :
    ∃ st ∈ (runOps s0 ops).popLog, st.id = id ∧ st.ts = ts ∧ st.lvl ≠ 9 := by
  have hk : (sid, id, ts) ∈ wkeys (runOps s0 ops).log := by
    unfold wkeys
    rw [List.mem_filterMap]
    exact ⟨_, hm, by simp [ordKey, h9]⟩
  obtain ⟨st, hst, h1, h2, h3⟩ := (C05_writes_follow_pops s0 hr hl hp ops).mem _ hk
  exact ⟨st, hst, h1.symm, h2.symm, h3⟩

/-- **C05 on the event log.** Under the hypotheses of `C05_statement_order` (non-zero grace period, cache refreshed after
    `ts_now`, the property's own premise on the run) and from an empty history, the timestamps of the ordinary
    (non-backtrace) `write` events of the whole event log, in chronological order and over **all** sinks, are
    non-decreasing. -/
theorem C05_write_order (s0 : BSt) (h0 : Start s0) (hr0 : RingOK s0) (hl : s0.log = []) (hg : s0.cfg.grace ≠ 0)
    (hr : s0.cfg.refreshAfterSample = true) (ops : List Op) (hp : GracePremise (runOps s0 ops)) :
    ((wkeys (runOps s0 ops).log).reverse.map (·.2.2)).Pairwise (· ≤ ·) := by
  have hc := (start_GI h0).cfg_runOps ops
  have h := ((start_GI h0).runOps ops).popSorted (by rw [hc]; exact hg) (by rw [hc]; exact hr) hp
  have hb := (C05_writes_follow_pops s0 hr0 hl h0.popLog ops).sorted h
  rw [List.pairwise_map, List.pairwise_reverse]
  exact hb

/-- **… at every sink.** The ordinary writes that reach sink `sid`, in chronological order, have non-decreasing
    timestamps. -/
theorem C05_write_order_at_sink (s0 : BSt) (h0 : Start s0) (hr0 : RingOK s0) (hl : s0.log = []) (hg : s0.cfg.grace ≠ 0)
    (hr : s0.cfg.refreshAfterSample = true) (ops : List Op) (hp : GracePremise (runOps s0 ops)) (sid : Nat) :
    ((((wkeys (runOps s0 ops).log).reverse).filter (fun k => k.1 = sid)).map (·.2.2)).Pairwise (· ≤ ·) := by
  have h := C05_write_order s0 h0 hr0 hl hg hr ops hp
  rw [List.pairwise_map] at h ⊢
  exact h.sublist List.filter_sublist

/-- **… positional form.** If the log (newest first) is `a ++ e2 :: b ++ e1 :: c` with two ordinary writes `e1` (earlier)
    and `e2` (later) — at the same sink or at different ones, of the same statement or of different ones — then
    `ts e1 ≤ ts e2`. -/
theorem C05_write_order_pairs (s0 : BSt) (h0 : Start s0) (hr0 : RingOK s0) (hl : s0.log = []) (hg : s0.cfg.grace ≠ 0)
    (hr : s0.cfg.refreshAfterSample = true) (ops : List Op) (hp : GracePremise (runOps s0 ops))
    (a b c : List Ev) (sid1 id1 lvl1 ts1 sid2 id2 lvl2 ts2 : Nat) (n1 n2 : Bool)
    (hlog : (runOps s0 ops).log = a ++ Ev.write sid2 id2 lvl2 ts2 n2 :: b ++ Ev.write sid1 id1 lvl1 ts1 n1 :: c)
    (h1 : lvl1 ≠ 9) (h2 : lvl2 ≠ 9) : ts1 ≤ ts2 := by
  have hc := (start_GI h0).cfg_runOps ops
  have h := ((start_GI h0).runOps ops).popSorted (by rw [hc]; exact hg) (by rw [hc]; exact hr) hp
  have hb := (C05_writes_follow_pops s0 hr0 hl h0.popLog ops).sorted h
  rw [hlog] at hb
  have e : wkeys (a ++ Ev.write sid2 id2 lvl2 ts2 n2 :: b ++ Ev.write sid1 id1 lvl1 ts1 n1 :: c) =
      wkeys a ++ (sid2, id2, ts2) :: (wkeys b ++ (sid1, id1, ts1) :: wkeys c) := by
    simp [wkeys, List.filterMap_append, ordKey, h1, h2]
  rw [e] at hb
  have h3 := (List.pairwise_append.mp hb).2.1
  exact (List.pairwise_cons.mp h3).1 (sid1, id1, ts1) (by simp)

/-! ### non-vacuity -/

/-- the configuration of `Props/C05.lean` with two sinks on the logger -/
def c05Init2 : BSt :=
  { c05Init true with sinks := [{ sid := 0 }, { sid := 1 }], lgs := [{ gid := 0, sinks := [0, 1], level := 0 }] }

/-- the F5 window of `Props/C05.lean` (statements injected inside the backend's clock read) meets every hypothesis of
    `C05_write_order` on the two-sink configuration, and the log holds six ordinary writes: three statements of two
    threads, each at both sinks, in timestamp order -/
example : Start c05Init2 ∧ (∀ l ∈ c05Init2.lgs, l.bt = none) ∧ c05Init2.log = [] ∧ c05Init2.cfg.grace ≠ 0 ∧
    c05Init2.cfg.refreshAfterSample = true ∧ GracePremise (runOps c05Init2 c05Window) ∧
    (wkeys (runOps c05Init2 c05Window).log).reverse =
      [(0, 0, 1000), (1, 0, 1000), (0, 1, 1100), (1, 1, 1100), (0, 2, 1101), (1, 2, 1101)] ∧
    (runOps c05Init2 c05Window).popLog.reverse.map (fun st => (st.id, st.ts)) = [(0, 1000), (1, 1100), (2, 1101)] := by
  refine ⟨⟨by show 0 < 32; decide, rfl, rfl, rfl, rfl, rfl⟩, by decide, rfl, by decide, rfl, by decide, by decide, by decide⟩

end Backend
