import QuillModel.Props.C07Drain
import QuillModel.Backend.ExitUnbounded
/-!
# C07 (drain part) — the exit loop read as the unbounded loop it is, for every clock tick

`Op.exit` runs `exitLoop (runInj []) 1000 100000`: the loop of `_exit()` with an explicit fuel of 100000 iterations and the
clock advancing by 1000 per iteration, and `C07_exit_terminates` / `C07_exit_drains_everything` carry the numeric premise
`pendingTotal s + grace / 1000 + 1 ≤ 100000`. The real loop has no bound. Here the two constants are removed:

* for **every tick > 0** and every reachable state the loop reaches its final branch within the explicit number
  `exitBound tick s = pendingTotal s + grace / tick + 1` of iterations, and **every** two fuels `≥ exitBound` give the same
  final state (`C07_exit_terminates_unbounded`) — so the unbounded loop has a well-defined result, `exitLimit`, and the
  model's constant 100000 is just one of the sufficiently large fuels whenever it is one (`C07_exit_fuel_immaterial`);
* every conclusion of `C07_exit_drains_everything` and of `C07_exit_flushes_last` holds for the limit loop
  `exitOp tick s` with **no numeric premise** (`C07_exit_drains_everything_unbounded`, `C07_exit_flushes_last_unbounded`).

Property theorems only; helpers in `Backend/ExitUnbounded.lean`, `Backend/DrainTerminate.lean`.
-/
namespace Backend
open PC Spsc

/-- `Op.exit` with the loop of `_exit()` read as unbounded (its value is that of every sufficiently large fuel,
    `exitLimit`), the clock advancing by `tick` per iteration -/
def exitOp (tick : Nat) (s : BSt) : BSt :=
  { exitLimit (runInj []) tick { s with siteCnt := [] } with backendGone := true }

/-- **The exit loop terminates, for every tick and with an explicit bound; fuel beyond the bound is immaterial.**
    For every schedule `ops` from a fresh state, every `tick > 0`: from `s = runOps s0 ops` the loop reaches its
    "all queues and transit buffers are empty" branch within `exitBound tick s = pendingTotal s + grace / tick + 1`
    iterations, and for **all** `fuel, fuel' ≥ exitBound tick s` the loop ends in the same state
    (`exitLoop … fuel = exitLoop … fuel'`). -/
theorem C07_exit_terminates_unbounded (s0 : BSt) (h0 : DrainFresh s0) (hpl : s0.popLog = []) (ops : List Op)
    (tick : Nat) (ht : 0 < tick) :
    let s := runOps s0 ops
    exitEnds (runInj []) tick (exitBound tick s) { s with siteCnt := [] } ∧
    ∀ fuel fuel', exitBound tick s ≤ fuel → exitBound tick s ≤ fuel' →
      exitLoop (runInj []) tick fuel { s with siteCnt := [] } = exitLoop (runInj []) tick fuel' { s with siteCnt := [] } := by
  intro s
  have hstart : Start s0 := ⟨h0.2.2.2.2.2.2, h0.1, h0.2.2.2.2.2.1, h0.2.1, h0.2.2.1, hpl⟩
  obtain ⟨fl, hI⟩ := (PB.start_GI hstart).runOps ops
  have hI' : PB.PIo s.cfg fl { s with siteCnt := [] } := hI.frame rfl
  have he : exitEnds (runInj []) tick (exitBound tick s) { s with siteCnt := [] } :=
    exit_terminates_tick PB.quiet_runInj_nil tick ht hI' rfl (fun j r hr => hI.leNow j r hr)
  exact ⟨he, fun fuel fuel' h1 h2 => exitLoop_stable _ tick _ fuel fuel' _ he h1 h2⟩

/-- the unbounded loop ends in `exitFinal` of a reachable state in which the emptiness check answered yes -/
theorem C07_exit_limit_form (s0 : BSt) (h0 : DrainFresh s0) (hpl : s0.popLog = []) (ops : List Op)
    (tick : Nat) (ht : 0 < tick) :
    ∃ sK, TCInv sK ∧ (allEmpty sK).2 = true ∧
      exitLimit (runInj []) tick { runOps s0 ops with siteCnt := [] } = exitFinal (runInj []) sK := by
  obtain ⟨he, _⟩ := C07_exit_terminates_unbounded s0 h0 hpl ops tick ht
  have hs : TCInv (runOps s0 ops) := TCInv_runOps s0 h0.inv ops
  have hsp : TCInv { runOps s0 ops with siteCnt := [] } := TCInv_closed.siteCnt _ [] hs
  exact exitLoop_ends_form (runInj_ok TCInv_closed []) tick _ _ hsp he

/-- **The model's constants are immaterial.** Whenever the fuel 100000 of `Op.exit` is at least the bound, the state
    `Op.exit` produces is the value of the unbounded loop (tick 1000). -/
theorem C07_exit_fuel_immaterial (s0 : BSt) (h0 : DrainFresh s0) (hpl : s0.popLog = []) (ops : List Op) :
    let s := runOps s0 ops
    s.backendGone = false → exitBound 1000 s ≤ 100000 → (applyOp s .exit).1 = exitOp 1000 s := by
  intro s hg hb
  have hap : applyOp s .exit = if s.backendGone then (s, "noop") else
      ({ exitLoop (runInj []) 1000 100000 { s with siteCnt := [] } with backendGone := true }, "ev") := rfl
  rw [hap, if_neg (by rw [hg]; simp)]
  obtain ⟨_, hst⟩ := C07_exit_terminates_unbounded s0 h0 hpl ops 1000 (by omega)
  show ({ exitLoop (runInj []) 1000 100000 { s with siteCnt := [] } with backendGone := true } : BSt) = exitOp 1000 s
  unfold exitOp exitLimit
  rw [hst 100000 (exitBound 1000 { s with siteCnt := [] }) hb (Nat.le_refl _)]

/-- **Stop loses nothing — unbounded loop, every tick, no numeric premise.** For every schedule `ops` from a fresh state
    with the backend still running and every `tick > 0`: in the state the unbounded exit loop stops in, no context — of
    a live thread, of an exited thread, registered or reclaimed — has anything left in its transit buffer or queue,
    every record ever committed to a queue has been popped and processed (`accepted = popped`), and the backend is gone. -/
theorem C07_exit_drains_everything_unbounded (s0 : BSt) (h0 : DrainFresh s0) (hpl : s0.popLog = []) (ops : List Op)
    (tick : Nat) (ht : 0 < tick) :
    let s := runOps s0 ops
    let s' := exitOp tick s
    s.backendGone = false →
    (∀ i, i < s'.ths.length → (s'.th i).buf = [] ∧ (s'.th i).qStmts = [] ∧ (s'.th i).accepted = (s'.th i).popped) ∧
    s'.backendGone = true := by
  intro s s' _
  obtain ⟨sK, hK, heK, hform⟩ := C07_exit_limit_form s0 h0 hpl ops tick ht
  have hs : TCInv s := TCInv_runOps s0 h0.inv ops
  have hsp : TCInv { s with siteCnt := [] } := TCInv_closed.siteCnt s [] hs
  have hinj := runInj_ok TCInv_closed []
  have hs' : s' = { exitLimit (runInj []) tick { s with siteCnt := [] } with backendGone := true } := rfl
  have hdr : AllDrained (exitLimit (runInj []) tick { s with siteCnt := [] }) := by
    rw [hform]; exact exitFinal_drained sK hK heK
  have hT : TCInv s' := by
    rw [hs']
    exact TCInv_closed.gone _ (exitLoop_ok TCInv_closed.toClosedB hinj _ _ _ hsp)
  refine ⟨?_, by rw [hs']⟩
  intro i hi
  have hd : (s'.th i).buf = [] ∧ (s'.th i).qStmts = [] := by
    rw [hs'] at hi ⊢
    exact hdr i hi
  refine ⟨hd.1, hd.2, ?_⟩
  rw [(hT.2.ths i hi).cons, hd.1, hd.2]; simp

/-- **Flushed last — unbounded loop, every tick.** The final state of the unbounded exit loop is `exitFinal` of a state
    `sK` in which the emptiness check answered yes: failure counters reported, every active sink flushed, contexts and
    loggers reclaimed — and after that flush the log gains nothing but sink-destructor events and, when loggers are
    erased, the events of one more flush of every sink (the head of `_cleanup_invalidated_loggers`, F33 repair). -/
theorem C07_exit_flushes_last_unbounded (s0 : BSt) (h0 : DrainFresh s0) (hpl : s0.popLog = []) (ops : List Op)
    (tick : Nat) (ht : 0 < tick) :
    let s := runOps s0 ops
    ∃ sK, (allEmpty sK).2 = true ∧ exitOp tick s = { exitFinal (runInj []) sK with backendGone := true } ∧
      ∃ d, (exitOp tick s).log = d ++ (flushSinks (checkFailures (runInj []) (allEmpty sK).1)).log ∧
        ∀ e ∈ d, (∃ k, e = Ev.sinkDtor k) ∨ (∃ k, e = Ev.flushed k ∨ e = Ev.fthrow k) ∨ e = Ev.notify "n:ffail" := by
  intro s
  obtain ⟨sK, _, heK, hform⟩ := C07_exit_limit_form s0 h0 hpl ops tick ht
  have hs' : exitOp tick s = { exitFinal (runInj []) sK with backendGone := true } := by
    unfold exitOp
    rw [hform]
  refine ⟨sK, heK, hs', ?_⟩
  rw [hs']
  obtain ⟨d, hd, hall⟩ := cleanupLoggers_dtors (runInj []) runInj_nil_quiet9
    (preEraseFlush (cleanupContexts (flushSinks (checkFailures (runInj []) (allEmpty sK).1))))
  have hpre : ∃ blk, (preEraseFlush (cleanupContexts (flushSinks (checkFailures (runInj []) (allEmpty sK).1)))).log =
      blk ++ (cleanupContexts (flushSinks (checkFailures (runInj []) (allEmpty sK).1))).log ∧
      ∀ e ∈ blk, (∃ sid, e = Ev.flushed sid ∨ e = Ev.fthrow sid) ∨ e = Ev.notify "n:ffail" := by
    unfold preEraseFlush
    split
    · obtain ⟨blk, e1, _, e3⟩ := PB.flushSinks_log (cleanupContexts (flushSinks (checkFailures (runInj []) (allEmpty sK).1)))
      exact ⟨blk, e1, e3⟩
    · exact ⟨[], rfl, fun _ h => by cases h⟩
  obtain ⟨blk, hb, hblk⟩ := hpre
  refine ⟨d ++ blk, ?_, ?_⟩
  · show (exitFinal (runInj []) sK).log = _
    unfold exitFinal
    rw [hd, hb, cleanupContexts_log, List.append_assoc]
  · intro e he
    rcases List.mem_append.mp he with h | h
    · exact Or.inl (hall e h)
    · exact Or.inr (hblk e h)

/-! ### non-vacuity -/

/-- ordering enabled with a grace period that is not a multiple of the tick used below -/
def c07GraceInit : BSt := { c07Init with cfg := { c07Cfg with grace := 10 } }

theorem c07GraceInit_fresh : DrainFresh c07GraceInit := ⟨rfl, rfl, rfl, rfl, rfl, rfl, by decide⟩

def c07Ops : List Op :=
  [.front (.tstart 0), .front (.tstart 1), .front (.log 0 0 4 8 false), .front (.tick 5),
   .front (.log 1 0 4 8 false), .front (.tick 5), .front (.log 0 0 5 8 true), .front (.texit 1)]

/-- tick 7, grace 10, three pending statements of two threads (one already exited), nothing polled: the bound is
    `3 + 10/7 + 1 = 5`; the loop ends within 5 iterations and not within 2 (the first iterations only advance the clock past
    the grace period of the youngest statement), fuels 5, 6 and 100000 give the same state, and the unbounded exit delivers
    ids 0 1 2 and leaves every context with `accepted = popped` (3 records over the two contexts). -/
example :
    let s := runOps c07GraceInit c07Ops
    s.backendGone = false ∧ exitBound 7 s = 5 ∧
    exitEnds (runInj []) 7 5 { s with siteCnt := [] } ∧ ¬ exitEnds (runInj []) 7 2 { s with siteCnt := [] } ∧
    ((exitOp 7 s).log.filterMap c07Writes).reverse = [0, 1, 2] ∧
    (exitOp 7 s).ths.map (fun t => (t.accepted.length, t.popped.length, t.buf.length, t.qStmts.length)) =
      [(2, 2, 0, 0), (1, 1, 0, 0)] ∧
    ((exitLoop (runInj []) 7 6 { s with siteCnt := [] }).log.filterMap c07Writes).reverse = [0, 1, 2] ∧
    ((applyOp s .exit).1.log.filterMap c07Writes).reverse = [0, 1, 2] := by
  refine ⟨by decide +kernel, by decide +kernel, by decide +kernel, by decide +kernel, by decide +kernel,
    by decide +kernel, by decide +kernel, by decide +kernel⟩

/-- non-vacuity of `C07_exit_fuel_immaterial`: the hypotheses hold on that run -/
example : (runOps c07GraceInit c07Ops).backendGone = false ∧ exitBound 1000 (runOps c07GraceInit c07Ops) ≤ 100000 ∧
    c07GraceInit.popLog = [] := by
  refine ⟨by decide +kernel, by decide +kernel, rfl⟩

end Backend
