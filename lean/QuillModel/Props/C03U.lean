import QuillModel.Backend.UInvClosed
import QuillModel.Uspsc.Capacity
/-!
# C03 / C20 / C07 / C09 for the unbounded-queue machine (`Backend/UQueue.lean`, `USched.lean`, `UOps.lean`)

The per-thread queue of the two unbounded builds is a chain of bounded nodes run sequentially consistently; it is the
machine `driver backend trace` executes for the UnboundedBlocking / UnboundedDropping builds of H2.

Proved here **for every operation list** `ops : List UOp` (frontend calls of any number of threads incl.
`shrink_thread_local_queue`, polls carrying arbitrary injected frontend operations at every hook site, the exit drain), every
`Cfg` with a non-empty header, every maximum capacity and both values of the F25 flag, from any state satisfying the
invariant (a fresh one does): C03 conservation `accepted = popped ++ buf ++ qStmts` per context, the byte-exact coherence of
`qStmts` with the chain of buffers, and the soundness of the emptiness test that the clean-up (C20) and the exit drain (C07)
rest on. The proof is the skeleton `Backend/USkel.lean` (`runOpsU_closed`) instantiated with `US.UI`
(`Backend/UInv.lean`, `UInvClosed.lean`). The per-operation theorems further down say what each queue operation does to a
context. C09: a reservation refused at the maximum capacity is granted at the next attempt after the drain.
-/
namespace Backend
open Backend.UQ Backend.PA Spsc

/-- a freshly started system (no context, no actor) satisfies the invariant -/
theorem C03U_fresh_state (s0 : BSt) (hh : 0 < s0.cfg.hdr) (ht : s0.ths = []) (ha : s0.actors = []) : US.UI s0 :=
  ⟨hh, fun i => by rw [show s0.th i = default from by simp [BSt.th, ht]]; exact TI.default,
   fun x hx => by rw [ha] at hx; cases hx⟩

/-- **C03 (unbounded queue), conservation, every schedule.** In every state reachable by any operation list, every
    context's accepted statements are exactly: those popped, then those in its transit buffer, then those still in
    its chain of queue buffers — in issue order; nothing is lost or duplicated across growth, shrink requests, buffer
    switches, refusals at the maximum capacity and rejected over-size records. -/
theorem C03U_conservation (u : UP) (s0 : BSt) (h0 : US.UI s0) (ops : List UOp) (i : Nat) :
    ((runOpsU u s0 ops).th i).accepted =
      ((runOpsU u s0 ops).th i).popped ++ ((runOpsU u s0 ops).th i).buf ++ ((runOpsU u s0 ops).th i).qStmts :=
  ((US.runOpsU_closed (US.UI.closed u) ops s0 h0).th i).cons

/-- **The abstract record list is the byte-exact chain, every schedule.** The pending statements are, buffer by buffer
    from the consumer's to the producer's, exactly the unread records of each bounded buffer (positions, published
    writer position and record lengths as in `QCoh` of the bounded bundle). -/
theorem C03U_queue_coherent (u : UP) (s0 : BSt) (h0 : US.UI s0) (ops : List UOp) (i : Nat) :
    CCoh ((runOpsU u s0 ops).th i).q ((runOpsU u s0 ops).th i).more ((runOpsU u s0 ops).th i).qStmts :=
  ((US.runOpsU_closed (US.UI.closed u) ops s0 h0).th i).coh

/-- **C20 / C07 (unbounded queue): the emptiness test is sound in every reachable state.** -/
theorem C20U_empty_test_sound_run (u : UP) (s0 : BSt) (h0 : US.UI s0) (ops : List UOp) (i : Nat)
    (he : (ctxEmptyU (runOpsU u s0 ops) i).2 = true) :
    ((runOpsU u s0 ops).th i).buf = [] ∧ ((runOpsU u s0 ops).th i).qStmts = [] ∧
    ((runOpsU u s0 ops).th i).accepted = ((runOpsU u s0 ops).th i).popped := by
  have h := (US.runOpsU_closed (US.UI.closed u) ops s0 h0).th i
  simp only [ctxEmptyU, Bool.and_eq_true, List.isEmpty_iff] at he
  have hq := h.empty_sound _ he.1
  refine ⟨he.2, hq, ?_⟩
  rw [h.cons, he.2, hq]; simp

/-- **C03 (unbounded), primitives of the frontend.** A reservation attempt of the U machine (`tryEnqU`: granted in place,
    granted after growth, refused at the maximum, rejected over the maximum) keeps conservation and chain coherence of
    every context. -/
theorem C03U_enqueue_keeps (u : UP) (s : BSt) (h : ∀ i, TI (s.th i)) (ci : Nat) (st : Stmt) (hp : 0 < st.size) :
    ∀ i, TI ((tryEnqU u s ci st).1.th i) := by
  unfold tryEnqU
  dsimp only
  split
  · exact forall_th_setTh s ci _ h (fun ht => TI.enq ht s.cfg u.qmax { st with enqAt := s.now } hp)
  · exact forall_th_setTh s ci _ h (fun ht => ht.prepareWrite s.cfg u.qmax st.size)

/-- the answer of `tryEnqU` is the chain's answer -/
theorem tryEnqU_answer (u : UP) (s : BSt) (ci : Nat) (st : Stmt) :
    (tryEnqU u s ci st).2 = (uPrepareWrite s.cfg u.qmax (s.th ci) st.size).2 := by
  unfold tryEnqU
  dsimp only
  split <;> simp_all

/-- **C03 (unbounded), `shrink_thread_local_queue`.** -/
theorem C03U_shrink_keeps (s : BSt) (h : ∀ i, TI (s.th i)) (ci want : Nat) :
    ∀ i, TI ((s.setTh ci (fun t => uShrink s.cfg t want)).th i) :=
  forall_th_setTh s ci _ h (fun ht => ht.shrink s.cfg want)

/-- **C03 (unbounded), the read pass.** `_read_unbounded_frontend_queue` (any number of buffer switches, with or
    without the F25 retry) keeps the invariant; when it offers a record, the first pending statement is the record at
    the consumer's read position, and reading it (`readOneU`) moves exactly that statement from the queue to the
    transit buffer, invariant kept. -/
theorem C03U_read_keeps (c : Cfg) (follow : Bool) (t : Th) (h : TI t) :
    TI (uRead c follow (t.more.length + 1) t).1 ∧
    ((uRead c follow (t.more.length + 1) t).2.1 = true → ∀ st rest, t.qStmts = st :: rest →
      TI { uFinishRead c (uRead c follow (t.more.length + 1) t).1 st.size with
             qStmts := rest, buf := (uRead c follow (t.more.length + 1) t).1.buf ++ [st] }) := by
  have r := uRead_spec c follow (t.more.length + 1) t h (by omega)
  refine ⟨r.ti h, fun ho st rest hq => ?_⟩
  rw [ho] at r
  exact h.readOne c r st rest hq

/-- an offered record is never invented: the read offers only when a statement is pending -/
theorem C03U_offer_means_pending (c : Cfg) (follow : Bool) (t : Th) (h : TI t)
    (ho : (uRead c follow (t.more.length + 1) t).2.1 = true) : t.qStmts ≠ [] := by
  have r := uRead_spec c follow (t.more.length + 1) t h (by omega)
  rw [ho] at r
  obtain ⟨a, b, e, hq⟩ := r.coh.head
  have := hq.ne_of_ahead (r.ahead rfl)
  intro hn; rw [hn] at e
  exact this (List.append_eq_nil_iff.mp e.symm).1

theorem C03U_commit_pop_keep (c : Cfg) (t : Th) (h : TI t) :
    TI (uCommitRead c t) ∧ TI (uEmpty c t).1 ∧
    ∀ st rest, t.buf = st :: rest → TI { t with buf := rest, popped := t.popped ++ [st] } :=
  ⟨h.commitRead c, h.emptyTest c, fun st rest hb => h.pop st rest hb⟩

/-- **C20 / C07 (unbounded): the emptiness test is sound.** When `ctxEmptyU` (= `queue.empty()` — bounded part empty and
    no next buffer — and transit buffer empty, as the context clean-up and the exit drain evaluate it) answers true, the
    context has nothing pending anywhere in its chain: everything it accepted has been popped. -/
theorem C20U_empty_test_sound (s : BSt) (i : Nat) (h : TI (s.th i)) (he : (ctxEmptyU s i).2 = true) :
    (s.th i).buf = [] ∧ (s.th i).qStmts = [] ∧ (s.th i).accepted = (s.th i).popped := by
  simp only [ctxEmptyU, Bool.and_eq_true, List.isEmpty_iff] at he
  have hq := h.empty_sound s.cfg he.1
  refine ⟨he.2, hq, ?_⟩
  rw [h.cons, he.2, hq]; simp

/-! ### C09 for the unbounded queue -/

theorem qPrepareWrite_cap (c : Cfg) (q : St) (n : Nat) : (qPrepareWrite c q n).1.cap = q.cap := by
  simp only [qPrepareWrite, absApi, apiOps]
  split <;> rfl

/-- a node whose reader position is published up to the writer position grants every request up to its capacity -/
theorem qPrepareWrite_drained (c : Cfg) (q : St) (n : Nat) (h : q.rHist.headD 0 = q.wpos) (hn : n ≤ q.cap) :
    (qPrepareWrite c q n).2 = true := by
  simp only [qPrepareWrite, absApi, apiOps, apiObs]
  have hlt : ¬ (q.cap < n) := by omega
  have h' : q.rHist.head?.getD 0 = q.wpos := by simpa using h
  by_cases hf : q.cap - (q.wpos - q.rcache) < n
  · simp [hf, run, step, St.free, h', hlt]
  · simp [hf, run, St.free]

/-- a read that finds the node empty, followed by `commit_read` under the drain rule, publishes the reader position:
    the producer's next reload sees the whole capacity free -/
theorem C09U_drain_publishes (c : Cfg) (hdp : c.qp.drainPublish = true) (q : St) (h : NI q [])
    (hw : q.wcache = q.rpos) : (qCommitRead c q).rHist.headD 0 = (qCommitRead c q).wpos := by
  have hd : q.wpos = q.rpos := by simpa using h.coh.dist
  simp [qCommitRead, absApi, apiOps, run, step, publishes, hdp, hw, hd]

/-- **C09 (unbounded), a blocked call resumes.** Power-of-two capacities (what `next_power_of_two` in the node's
    constructor produces) and a power-of-two maximum. If a reservation of `n ≤ max` bytes is refused (`nullptr`: the
    call blocks, or drops), the producer's buffer already has the maximum capacity; once the backend has drained the
    chain down to that buffer (`more = []`) and its last `commit_read` published the reader position, the very next
    attempt is granted. -/
theorem C09U_blocked_call_granted_after_drain (c : Cfg) (a b n : Nat) (hab : a ≤ b) (hn : n ≤ 2 ^ b)
    (t : Th) (hcap : t.prod.cap = 2 ^ a) (hnull : (uPrepareWrite c (2 ^ b) t n).2 = .null)
    (t' : Th) (h1 : t'.more = []) (h2 : t'.q.cap = t.prod.cap) (h3 : t'.q.rHist.headD 0 = t'.q.wpos) :
    (uPrepareWrite c (2 ^ b) t' n).2 = .grant := by
  have hmax : a = b := by
    unfold uPrepareWrite at hnull
    dsimp only at hnull
    split at hnull
    · cases hnull
    · split at hnull
      · cases hnull
      · next heq =>
        rw [qPrepareWrite_cap, hcap] at heq
        exact Uspsc.grow_null_pow2 hab hn heq
      · cases hnull
  have hp : t'.prod = t'.q := by simp [Th.prod, h1, lastOf]
  have hg : (qPrepareWrite c t'.prod n).2 = true := by
    rw [hp]; exact qPrepareWrite_drained c t'.q n h3 (by rw [h2, hcap, hmax]; exact hn)
  unfold uPrepareWrite
  dsimp only
  rw [if_pos hg]

/-! ### non-vacuity: a 512-byte first buffer, 4 KiB maximum -/

def exCfg : Cfg :=
  { dropping := false, qcap := 512, grace := 0, soft := 4, hard := 8, hdr := 32, strOverhead := 4, batchPct := 5,
    qp := { wStore := .release, wLoad := .acquire, rStore := .release, rLoad := .acquire, drainPublish := true },
    invalidBits := 32, refreshAfterSample := true, catchAllFormat := true, reportBeforeFlushCleanup := true }

def exStmt (id size : Nat) : Stmt := { id := id, kind := .log, lg := 0, lvl := 4, ts := 0, size := size, actor := 1 }

/-- a fresh context satisfies the invariant; a 700-byte record makes the chain grow to 1024, a 5000-byte one throws,
    a 4000-byte one is granted after growth to 4096 and a second one is refused there -/
example : TI (mkTh exCfg 1) := TI.mkTh _ _
example : (uPrepareWrite exCfg 4096 (mkTh exCfg 1) 700).2 = .grant ∧
    (uPrepareWrite exCfg 4096 (mkTh exCfg 1) 700).1.more.map (·.cap) = [1024] ∧
    (uPrepareWrite exCfg 4096 (mkTh exCfg 1) 5000).2 = .throw := by decide
example : let t1 := uFinishCommit exCfg (uPrepareWrite exCfg 4096 (mkTh exCfg 1) 4000).1 4000
    t1.prod.cap = 2 ^ 12 ∧ (uPrepareWrite exCfg (2 ^ 12) t1 4000).2 = .null := by decide
example : (uShrink exCfg (uPrepareWrite exCfg 4096 (mkTh exCfg 1) 700).1 256).more.map (·.cap) = [1024, 256] := by decide


/-- non-vacuity of the run theorems: a fresh 512-byte / 4 KiB system; a thread logs 700 bytes (growth), shrinks, logs
    again, the backend polls twice: the hypotheses hold and the context has popped what it accepted -/
def exS0 : BSt := { cfg := exCfg, now := 1000, sinks := [{ sid := 0 }], lgs := [{ gid := 0, sinks := [0], level := 0 }], names := [(0, 0)] }
def exOps : List UOp :=
  [.front (.base (.tstart 1)), .front (.base (.log 1 0 4 700 true)), .front (.shrink 1 256),
   .front (.base (.log 1 0 4 20 true)), .poll [], .poll [], .poll []]
example : US.UI exS0 := C03U_fresh_state exS0 (by decide) rfl rfl
example : ((runOpsU { qmax := 4096 } exS0 exOps).th 0).accepted.length = 2 ∧
    ((runOpsU { qmax := 4096 } exS0 exOps).th 0).popped.length = 2 := by decide

end Backend
