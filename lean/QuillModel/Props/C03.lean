import QuillModel.Backend.ConsProofsStep
/-!
# C03 — every accepted statement reaches each sink of its logger once, in thread order

Property theorems only (helper lemmas: `QuillModel/Backend/ConsProofs*.lean`). Object: the executable
end-to-end model `Backend/{Model,Sched,Ops}.lean` that the differential harness `h2_backend.cpp` ties to the
real `Logger` / `ThreadContextManager` / `BackendWorker`. Quantifiers: **every schedule** `ops : List Op` —
any interleaving of frontend calls of any number of threads (start, exit, log, backtrace, flush, logger
creation/removal, level changes, stalls after the clock read, resumed blocked calls), backend polls with
arbitrary frontend operations injected at the hook sites inside a poll, and the exit drain — from **every
initial state** satisfying `Inv` (in particular every freshly started system, `Fresh`), for **every
configuration** `Cfg` (blocking or dropping queue, any capacity, grace period, soft / hard limit, batch
percentage, counter width, either value of the repair flags) with a non-empty record header (`0 < cfg.hdr`).
No fairness or timing assumption is needed for these safety statements.
-/
namespace Backend
open Backend.PA

/-- **Nothing is lost, duplicated or reordered between the log call and the pop.** For every context, in every
    reachable state: the records its thread committed to the queue (`accepted`, in commit order) are exactly
    the events already popped by the backend, followed by the transit buffer, followed by the records still in
    the queue. Hence statements of one thread are processed in the order the thread issued them, each at most
    once, and none disappears — across queue wrap-arounds, the soft and hard limits, the batch loop, thread
    exit before processing, exceptions on the dispatch path (the event is popped all the same). -/
theorem C03_conservation (s0 : BSt) (h0 : Inv s0) (ops : List Op) (i : Nat) :
    ((runOps s0 ops).th i).accepted =
      ((runOps s0 ops).th i).popped ++ ((runOps s0 ops).th i).buf ++ ((runOps s0 ops).th i).qStmts :=
  (((h0.run ops).a).th i).cons

/-- **The abstract record list is the byte-exact queue.** In every reachable state the bounded queue of C01
    (`q`, with its reader/writer positions, the published writer position and the record-length ghost `recs`)
    agrees with the list of pending statements: everything written is published, writer − reader position is
    the total size of the pending records, the records written and not yet finished by the reader are exactly
    the pending ones, no record is empty. (So `finish_read` is always called with the length of the record at
    the reader position, and `empty()` tells the truth — next theorem.) -/
theorem C03_queue_coherent (s0 : BSt) (h0 : Inv s0) (ops : List Op) (i : Nat) :
    QCoh ((runOps s0 ops).th i).q ((runOps s0 ops).th i).qStmts :=
  (((h0.run ops).a).th i).coh

/-- **The clean-up condition is sound.** Whenever, in a reachable state, the backend's emptiness test of a
    context (`ctxEmpty` = `queue.empty() ∧ transit buffer empty`, as `_cleanup_invalidated_thread_contexts` and
    `_check_frontend_queues_and_cached_transit_events_empty` evaluate it) answers `true`, that context really
    has nothing pending: every accepted record has been popped. -/
theorem C03_empty_test_sound (s0 : BSt) (h0 : Inv s0) (ops : List Op) (i : Nat)
    (he : (ctxEmpty (runOps s0 ops) i).2 = true) :
    ((runOps s0 ops).th i).buf = [] ∧ ((runOps s0 ops).th i).qStmts = [] ∧
    ((runOps s0 ops).th i).accepted = ((runOps s0 ops).th i).popped := by
  obtain ⟨hb, hq⟩ := ((h0.run ops).a).empty_of_ctxEmpty i he
  refine ⟨hb, hq, ?_⟩
  rw [C03_conservation s0 h0 ops i, hb, hq]; simp

/-- **A context leaves the registry only when invalid, with empty queue and empty buffer.** A removed context
    belongs to an exited thread and everything it ever accepted has been popped; nothing can be added to it
    afterwards (the statement holds in every later state too). -/
theorem C03_removed_drained (s0 : BSt) (h0 : Inv s0) (ops : List Op) (i : Nat)
    (hr : ((runOps s0 ops).th i).removed = true) :
    ((runOps s0 ops).th i).valid = false ∧ ((runOps s0 ops).th i).buf = [] ∧ ((runOps s0 ops).th i).qStmts = [] ∧
    ((runOps s0 ops).th i).accepted = ((runOps s0 ops).th i).popped := by
  obtain ⟨hv, hb, hq⟩ := (((h0.run ops).a).th i).rem hr
  refine ⟨hv, hb, hq, ?_⟩
  rw [C03_conservation s0 h0 ops i, hb, hq]; simp

/-- every context ever created is still registered or was removed by the clean-up (under the condition above) -/
theorem C03_registered_or_removed (s0 : BSt) (h0 : Inv s0) (ops : List Op) (i : Nat)
    (hi : i < (runOps s0 ops).ths.length) :
    i ∈ (runOps s0 ops).registry ∨ ((runOps s0 ops).th i).removed = true :=
  ((h0.run ops).a).reg i hi

/-- a live thread's context is valid (never reclaimed under it) -/
theorem C03_live_context_valid (s0 : BSt) (h0 : Inv s0) (ops : List Op) (x : Actor)
    (hx : x ∈ (runOps s0 ops).actors) (ha : x.alive = true) (i : Nat) (hc : x.ctx = some i) :
    ((runOps s0 ops).th i).valid = true ∧ ((runOps s0 ops).th i).removed = false := by
  obtain ⟨_, hv, _⟩ := ((h0.run ops).a).act x hx ha i hc
  refine ⟨hv, ?_⟩
  cases hr : ((runOps s0 ops).th i).removed with
  | false => rfl
  | true => have := ((((h0.run ops).a).th i).rem hr).1; rw [hv] at this; cases this

/-- **`_write_log_statement`, for every sink list and every state** (any levels, filters, fault schedules):
    either no exception escapes and the history grows by exactly one `write` event per sink of the list that
    accepts the statement (`sinkAccepts`: sink level and filters, C16), in list order; or the list splits at
    the first accepting sink whose `write_log` throws — the accepting sinks before it were written once each,
    it left a `wthrow`, the sinks after it were not visited. (`log` is newest-first, hence `reverse`.) -/
theorem C03_dispatch_exact (s : BSt) (st : Stmt) :
    ((dispatch s st).2 = false ∧
      (dispatch s st).1.log = (((s.lgOf st.lg).sinks.filter (acc s st)).map (W st)).reverse ++ s.log) ∨
    (∃ pre sid post, (s.lgOf st.lg).sinks = pre ++ sid :: post ∧ (dispatch s st).2 = true ∧ acc s st sid = true ∧
      (dispatch s st).1.log = Ev.wthrow sid st.id :: ((pre.filter (acc s st)).map (W st)).reverse ++ s.log) :=
  writeToSinks_spec st _ s

/-- without a scheduled `write_log` fault no exception escapes, so every accepting sink gets the statement -/
theorem C03_dispatch_no_fault (s : BSt) (st : Stmt) (hf : NoWriteFault s) :
    (dispatch s st).2 = false ∧
    (dispatch s st).1.log = (((s.lgOf st.lg).sinks.filter (acc s st)).map (W st)).reverse ++ s.log := by
  have h := writeToSinks_nofault st (s.lgOf st.lg).sinks s hf
  rcases C03_dispatch_exact s st with h1 | ⟨_, _, _, _, h2, _⟩
  · exact h1
  · rw [dispatch, h] at h2; cases h2

/-- **Popping an ordinary statement** (`Event::Log`, below the backtrace level) in any reachable state appends
    to the history exactly the events of its dispatch (previous two theorems) and after them only events that
    are not ordinary writes (the replay of a backtrace ring it triggers, the notification of an escaped
    exception). `popStep` is the part of `_process_lowest_timestamp_transit_event` up to and including the pop. -/
theorem C03_pop_emits_dispatch (s0 : BSt) (h0 : Inv s0) (ops : List Op) (i : Nat) (st : Stmt) (rest : List Stmt)
    (hord : isOrd st = true) :
    ∃ evs, (popStep (runOps s0 ops) i st rest).log = evs ++ (dispatch (runOps s0 ops) st).1.log ∧
      ∀ sid id, wcount evs sid id = 0 :=
  popStep_ord_log (h0.run ops).w.ring i st rest hord

/-- **Statement ids identify statements.** In every reachable state, over all contexts and all parked calls
    together, at most one `Event::Log` statement carries a given id, and every id in use is below `nextId`.
    (`tot s id` = occurrences in all `accepted` histories + occurrences in the parked calls.) -/
theorem C03_ids_unique (s0 : BSt) (h0 : Inv s0) (ops : List Op) (id : Nat) :
    tot (runOps s0 ops) id ≤ 1 ∧ ((runOps s0 ops).nextId ≤ id → tot (runOps s0 ops) id = 0) :=
  ⟨(h0.run ops).b.uniq id, (h0.run ops).b.lt id⟩

/-- **At most once per sink, over the whole history.** For every ordinary statement accepted by any queue, in
    every reachable state, the number of ordinary `write` events carrying its id at sink `sid` in the entire
    event history `log` is at most the multiplicity of `sid` in its logger's sink list — in particular at most
    one when the logger lists the sink once, and none at a sink the logger does not have. No step of the
    machine other than the pop of that very statement produces such an event. -/
theorem C03_at_most_once (s0 : BSt) (h0 : Inv s0) (ops : List Op) (i : Nat) (st : Stmt)
    (hm : st ∈ ((runOps s0 ops).th i).accepted) (hord : isOrd st = true) (sid : Nat) :
    wcount (runOps s0 ops).log sid st.id ≤ ((runOps s0 ops).lgOf st.lg).sinks.count sid :=
  (h0.run ops).at_most_once i st hm hord sid

/-- the number of ordinary writes of any id at any sink is bounded by what has been popped: nothing is written
    that was not popped (in particular nothing that is still in a queue or a transit buffer) -/
theorem C03_writes_only_of_popped (s0 : BSt) (h0 : Inv s0) (ops : List Op) (sid id : Nat) :
    wcount (runOps s0 ops).log sid id ≤ popBound (runOps s0 ops) sid id :=
  (h0.run ops).w.bound sid id

/-- the global pop history is a merge of the per-context ones -/
theorem C03_popLog_merge (s0 : BSt) (h0 : Inv s0) (ops : List Op) (p : Stmt → Bool) :
    (runOps s0 ops).popLog.countP p = cntP (runOps s0 ops) p :=
  (h0.run ops).p p

/-- every freshly started system satisfies the invariant the theorems assume -/
theorem C03_fresh_inv (s0 : BSt) (h : Fresh s0) : Inv s0 := h.inv

/-! ### non-vacuity: a concrete system and schedule -/

def c03Cfg : Cfg :=
  { dropping := false, qcap := 256, grace := 0, soft := 800, hard := 100000, hdr := 32, strOverhead := 5, batchPct := 5,
    qp := { wStore := .release, wLoad := .acquire, rStore := .release, rLoad := .acquire, drainPublish := true },
    invalidBits := 32, refreshAfterSample := true, catchAllFormat := true, reportBeforeFlushCleanup := true }

/-- the shape of the driver's `mkState`: two sinks, one logger writing to both, nothing logged yet -/
def c03Init : BSt :=
  { cfg := c03Cfg, now := 1000, sinks := [{ sid := 1 }, { sid := 2, wthrow := [2] }],
    lgs := [{ gid := 0, sinks := [1, 2] }], names := [(0, 0)] }

theorem c03Init_fresh : Fresh c03Init :=
  ⟨by decide, rfl, rfl, rfl, rfl, fun i => by
    cases i with
    | zero => rfl
    | succ j => rw [lgOf_default_of_ge _ _ (by simp [c03Init])]; rfl⟩

/-- two threads, three statements, one of them committed while the other thread's statement is in transit
    (injected at hook site 2 inside the poll), a throwing sink on the second write -/
def c03Sched : List Op :=
  [.front (.tstart 0), .front (.tstart 1), .front (.log 0 0 4 10 true), .front (.log 1 0 4 10 true),
   .poll [(2, 2, [.log 0 0 5 12 false])], .poll [], .poll []]


example : ((runOps c03Init c03Sched).th 0).accepted.map (·.id) = [0, 2] ∧
    ((runOps c03Init c03Sched).th 0).popped.map (·.id) = [0, 2] ∧
    ((runOps c03Init c03Sched).th 1).popped.map (·.id) = [1] ∧
    (((runOps c03Init c03Sched).th 0).accepted.filter isOrd).length = 2 ∧
    wcount (runOps c03Init c03Sched).log 1 0 = 1 ∧ wcount (runOps c03Init c03Sched).log 2 0 = 1 ∧
    wcount (runOps c03Init c03Sched).log 1 2 = 1 ∧ wcount (runOps c03Init c03Sched).log 2 2 = 0 ∧
    wcount (runOps c03Init c03Sched).log 1 1 = 1 ∧ wcount (runOps c03Init c03Sched).log 2 1 = 1 := by decide

end Backend
