import QuillModel.Backend.ConsProofsStep
import QuillModel.Backend.ConsProofsExact
import QuillModel.Backend.ConsProofsOrder
/-!
# C03 — every accepted statement reaches each sink of its logger once, in thread order

Property theorems only (helper lemmas: `QuillModel/Backend/ConsProofs*.lean`). Object: the executable
end-to-end model `Backend/{Model,Sched,Ops}.lean` that the differential harness `h2_backend.cpp` ties to the
real `Logger` / `ThreadContextManager` / `BackendWorker`. Quantifiers: **every schedule** `ops : List Op` —
any interleaving of frontend calls of any number of threads (start, exit, log, backtrace, flush, logger
creation/removal, level changes, stalls after the clock read, resumed blocked calls), backend polls with
arbitrary frontend operations injected at the hook sites inside a poll, and the exit drain — from **every
initial state** satisfying `Inv` (in particular every freshly started system, `Fresh`), for **every
configuration** `Cfg` (blocking or dropping queue, any capacity, grace period, soft / hard limit, batch
percentage, counter width, either value of the repair flags) with a non-empty record header (`0 < cfg.hdr`).
No fairness or timing assumption is needed for these safety statements.
-/
namespace Backend
open Backend.PA

/-- **Nothing is lost, duplicated or reordered between the log call and the pop.** For every context, in every
    reachable state: the records its thread committed to the queue (`accepted`, in commit order) are exactly
    the events already popped by the backend, followed by the transit buffer, followed by the records still in
    the queue. Hence statements of one thread are processed in the order the thread issued them, each at most
    once, and none disappears — across queue wrap-arounds, the soft and hard limits, the batch loop, thread
    exit before processing, exceptions on the dispatch path (the event is popped all the same). -/
theorem C03_conservation (s0 : BSt) (h0 : Inv s0) (ops : List Op) (i : Nat) :
    ((runOps s0 ops).th i).accepted =
      ((runOps s0 ops).th i).popped ++ ((runOps s0 ops).th i).buf ++ ((runOps s0 ops).th i).qStmts :=
  (((h0.run ops).a).th i).cons

/-- **The abstract record list is the byte-exact queue.** In every reachable state the bounded queue of C01
    (`q`, with its reader/writer positions, the published writer position and the record-length ghost `recs`)
    agrees with the list of pending statements: everything written is published, writer − reader position is
    the total size of the pending records, the records written and not yet finished by the reader are exactly
    the pending ones, no record is empty. (So `finish_read` is always called with the length of the record at
    the reader position, and `empty()` tells the truth — next theorem.) -/
theorem C03_queue_coherent (s0 : BSt) (h0 : Inv s0) (ops : List Op) (i : Nat) :
    QCoh ((runOps s0 ops).th i).q ((runOps s0 ops).th i).qStmts :=
  (((h0.run ops).a).th i).coh

/-- **The clean-up condition is sound.** Whenever, in a reachable state, the backend's emptiness test of a
    context (`ctxEmpty` = `queue.empty() ∧ transit buffer empty`, as `_cleanup_invalidated_thread_contexts` and
    `_check_frontend_queues_and_cached_transit_events_empty` evaluate it) answers `true`, that context really
    has nothing pending: every accepted record has been popped. -/
theorem C03_empty_test_sound (s0 : BSt) (h0 : Inv s0) (ops : List Op) (i : Nat)
    (he : (ctxEmpty (runOps s0 ops) i).2 = true) :
    ((runOps s0 ops).th i).buf = [] ∧ ((runOps s0 ops).th i).qStmts = [] ∧
    ((runOps s0 ops).th i).accepted = ((runOps s0 ops).th i).popped := by
  obtain ⟨hb, hq⟩ := ((h0.run ops).a).empty_of_ctxEmpty i he
  refine ⟨hb, hq, ?_⟩
  rw [C03_conservation s0 h0 ops i, hb, hq]; simp

/-- **A context leaves the registry only when invalid, with empty queue and empty buffer.** A removed context
    belongs to an exited thread and everything it ever accepted has been popped; nothing can be added to it
    afterwards (the statement holds in every later state too). -/
theorem C03_removed_drained (s0 : BSt) (h0 : Inv s0) (ops : List Op) (i : Nat)
    (hr : ((runOps s0 ops).th i).removed = true) :
    ((runOps s0 ops).th i).valid = false ∧ ((runOps s0 ops).th i).buf = [] ∧ ((runOps s0 ops).th i).qStmts = [] ∧
    ((runOps s0 ops).th i).accepted = ((runOps s0 ops).th i).popped := by
  obtain ⟨hv, hb, hq⟩ := (((h0.run ops).a).th i).rem hr
  refine ⟨hv, hb, hq, ?_⟩
  rw [C03_conservation s0 h0 ops i, hb, hq]; simp

/-- every context ever created is still registered or was removed by the clean-up (under the condition above) -/
theorem C03_registered_or_removed (s0 : BSt) (h0 : Inv s0) (ops : List Op) (i : Nat)
    (hi : i < (runOps s0 ops).ths.length) :
    i ∈ (runOps s0 ops).registry ∨ ((runOps s0 ops).th i).removed = true :=
  ((h0.run ops).a).reg i hi

/-- a live thread's context is valid (never reclaimed under it) -/
theorem C03_live_context_valid (s0 : BSt) (h0 : Inv s0) (ops : List Op) (x : Actor)
    (hx : x ∈ (runOps s0 ops).actors) (ha : x.alive = true) (i : Nat) (hc : x.ctx = some i) :
    ((runOps s0 ops).th i).valid = true ∧ ((runOps s0 ops).th i).removed = false := by
  obtain ⟨_, hv, _⟩ := ((h0.run ops).a).act x hx ha i hc
  refine ⟨hv, ?_⟩
  cases hr : ((runOps s0 ops).th i).removed with
  | false => rfl
  | true => have := ((((h0.run ops).a).th i).rem hr).1; rw [hv] at this; cases this

/-- **`_write_log_statement`, for every sink list and every state** (any levels, filters, fault schedules):
    either no exception escapes and the history grows by exactly one `write` event per sink of the list that
    accepts the statement (`sinkAccepts`: sink level and filters, C16), in list order; or the list splits at
    the first accepting sink whose `write_log` throws — the accepting sinks before it were written once each,
    it left a `wthrow`, the sinks after it were not visited. (`log` is newest-first, hence `reverse`.) -/
theorem C03_dispatch_exact (s : BSt) (st : Stmt) :
    ((dispatch s st).2 = false ∧
      (dispatch s st).1.log = (((s.lgOf st.lg).sinks.filter (acc s st)).map (W st)).reverse ++ s.log) ∨
    (∃ pre sid post, (s.lgOf st.lg).sinks = pre ++ sid :: post ∧ (dispatch s st).2 = true ∧ acc s st sid = true ∧
      (dispatch s st).1.log = Ev.wthrow sid st.id :: ((pre.filter (acc s st)).map (W st)).reverse ++ s.log) :=
  writeToSinks_spec st _ s

/-- without a scheduled `write_log` fault no exception escapes, so every accepting sink gets the statement -/
theorem C03_dispatch_no_fault (s : BSt) (st : Stmt) (hf : NoWriteFault s) :
    (dispatch s st).2 = false ∧
    (dispatch s st).1.log = (((s.lgOf st.lg).sinks.filter (acc s st)).map (W st)).reverse ++ s.log := by
  have h := writeToSinks_nofault st (s.lgOf st.lg).sinks s hf
  rcases C03_dispatch_exact s st with h1 | ⟨_, _, _, _, h2, _⟩
  · exact h1
  · rw [dispatch, h] at h2; cases h2

/-- **Popping an ordinary statement** (`Event::Log`, below the backtrace level) in any reachable state appends
    to the history exactly the events of its dispatch (previous two theorems) and after them only events that
    are not ordinary writes (the replay of a backtrace ring it triggers, the notification of an escaped
    exception). `popStep` is the part of `_process_lowest_timestamp_transit_event` up to and including the pop. -/
theorem C03_pop_emits_dispatch (s0 : BSt) (h0 : Inv s0) (ops : List Op) (i : Nat) (st : Stmt) (rest : List Stmt)
    (hord : isOrd st = true) :
    ∃ evs, (popStep (runOps s0 ops) i st rest).log = evs ++ (dispatch (runOps s0 ops) st).1.log ∧
      ∀ sid id, wcount evs sid id = 0 :=
  popStep_ord_log (h0.run ops).w.ring i st rest hord

/-- **Statement ids identify statements.** In every reachable state, over all contexts and all parked calls
    together, at most one `Event::Log` statement carries a given id, and every id in use is below `nextId`.
    (`tot s id` = occurrences in all `accepted` histories + occurrences in the parked calls.) -/
theorem C03_ids_unique (s0 : BSt) (h0 : Inv s0) (ops : List Op) (id : Nat) :
    tot (runOps s0 ops) id ≤ 1 ∧ ((runOps s0 ops).nextId ≤ id → tot (runOps s0 ops) id = 0) :=
  ⟨(h0.run ops).b.uniq id, (h0.run ops).b.lt id⟩

/-- **At most once per sink, over the whole history.** For every ordinary statement accepted by any queue, in
    every reachable state, the number of ordinary `write` events carrying its id at sink `sid` in the entire
    event history `log` is at most the multiplicity of `sid` in its logger's sink list — in particular at most
    one when the logger lists the sink once, and none at a sink the logger does not have. No step of the
    machine other than the pop of that very statement produces such an event. -/
theorem C03_at_most_once (s0 : BSt) (h0 : Inv s0) (ops : List Op) (i : Nat) (st : Stmt)
    (hm : st ∈ ((runOps s0 ops).th i).accepted) (hord : isOrd st = true) (sid : Nat) :
    wcount (runOps s0 ops).log sid st.id ≤ ((runOps s0 ops).lgOf st.lg).sinks.count sid :=
  (h0.run ops).at_most_once i st hm hord sid

/-- the number of ordinary writes of any id at any sink is bounded by what has been popped: nothing is written
    that was not popped (in particular nothing that is still in a queue or a transit buffer) -/
theorem C03_writes_only_of_popped (s0 : BSt) (h0 : Inv s0) (ops : List Op) (sid id : Nat) :
    wcount (runOps s0 ops).log sid id ≤ popBound (runOps s0 ops) sid id :=
  (h0.run ops).w.bound sid id

/-- the global pop history is a merge of the per-context ones -/
theorem C03_popLog_merge (s0 : BSt) (h0 : Inv s0) (ops : List Op) (p : Stmt → Bool) :
    (runOps s0 ops).popLog.countP p = cntP (runOps s0 ops) p :=
  (h0.run ops).p p

/-! ### exactly once over the whole history

Stated relative to the history itself, no record of the dispatch-time decision is needed: an accepted ordinary statement
has no write before its pop; its pop appends exactly one write per occurrence of each sink that accepts it at that
moment; afterwards the number of its writes at every sink never changes again. -/

/-- **Nothing is written before the pop.** In every reachable state, an ordinary statement that is still in a transit
    buffer or in a queue has no ordinary `write` event at any sink in the whole history. -/
theorem C03_nothing_written_before_pop (s0 : BSt) (h0 : Inv s0) (ops : List Op) (i : Nat) (st : Stmt)
    (hm : st ∈ ((runOps s0 ops).th i).buf ++ ((runOps s0 ops).th i).qStmts) (hord : isOrd st = true) (sid : Nat) :
    wcount (runOps s0 ops).log sid st.id = 0 :=
  (h0.run ops).unpopped_unwritten hm hord sid

/-- **The pop writes it exactly once per accepting sink.** In any state satisfying the invariants (every reachable
    state, and every state inside a poll), popping the front event `st` (ordinary) of context `i` leaves, in the WHOLE
    history, at every sink `sid`: exactly as many ordinary writes of `st.id` as `sid` occurs among the sinks of its
    logger that accept it at this moment (`acc s st`: sink level and filters) when no `write_log` fault hits — i.e.
    exactly one per accepting sink listed once, none at a rejecting or foreign sink; and with a fault at sink `f`,
    exactly the accepting sinks before `f`. -/
theorem C03_pop_writes_exactly (s : BSt) (h : Inv s) (i : Nat) (st : Stmt) (rest : List Stmt)
    (hb : (s.th i).buf = st :: rest) (hord : isOrd st = true) (sid : Nat) :
    ((dispatch s st).2 = false ∧
      wcount (popStep s i st rest).log sid st.id = ((s.lgOf st.lg).sinks.filter (acc s st)).count sid) ∨
    (∃ pre f post, (s.lgOf st.lg).sinks = pre ++ f :: post ∧ (dispatch s st).2 = true ∧ acc s st f = true ∧
      wcount (popStep s i st rest).log sid st.id = (pre.filter (acc s st)).count sid) :=
  popStep_wcount h i st rest hb hord sid

/-- **After the pop nothing is ever added.** From any state satisfying the invariants in which an ordinary statement
    `st` is in a `popped` history, every further schedule leaves the number of ordinary writes of `st.id` at every sink
    unchanged — no retry, no re-read, no replay writes it again. -/
theorem C03_writes_frozen_after_pop (s : BSt) (h : Inv s) (i : Nat) (st : Stmt) (hm : st ∈ (s.th i).popped)
    (hord : isOrd st = true) (ops : List Op) (sid : Nat) :
    wcount (runOps s ops).log sid st.id = wcount s.log sid st.id :=
  (Frozen.run ⟨h, h.popped_counted hm hord, rfl⟩ ops).cnt

/-- **Exactly once, end to end.** When the backend's `_process_lowest_timestamp_transit_event` (with any frontend
    operations injected at its hook sites) processes the ordinary statement `st` and no `write_log` fault hits it, then
    at the end of that call and after EVERY further schedule the whole history contains, at every sink `sid`, exactly
    as many ordinary writes of `st.id` as `sid` occurs among the sinks of `st`'s logger that accepted it at dispatch
    time: exactly one for an accepting sink listed once, none otherwise. -/
theorem C03_exactly_once (s : BSt) (h : Inv s) (table : List (Nat × Nat × List FOp)) (i : Nat) (st : Stmt) (rest : List Stmt)
    (hl : lowest s = some i) (hb : (s.th i).buf = st :: rest) (hord : isOrd st = true)
    (hnf : (dispatch s st).2 = false) (ops : List Op) (sid : Nat) :
    wcount (runOps (processLowest (runInj table) s).1 ops).log sid st.id =
      ((s.lgOf st.lg).sinks.filter (acc s st)).count sid := by
  have hF := Frozen.of_pop h i st rest hb hord sid
  have hc := Frozen.closed sid st.id (wcount (popStep s i st rest).log sid st.id)
  have hT := processLowest_tail_closed hc (runInj table) (fun s' site hs => runInj_closed hc table s' site hs)
    s i st rest hl hb hF
  rw [(hT.run ops).cnt]
  rcases popStep_wcount h i st rest hb hord sid with ⟨_, e⟩ | ⟨_, _, _, _, e, _⟩
  · exact e
  · rw [hnf] at e; cases e

/-! ### in thread order, at every sink -/

/-- every freshly started system satisfies the order invariant (for every sink) -/
theorem C03_fresh_ordInv (s0 : BSt) (h : Fresh s0) (sid : Nat) : OrdInv sid s0 := h.ordInv sid

/-- **Thread order at every sink** (block form). For every schedule, every context `i` and any two ordinary statements
    `st1`, `st2` that `i`'s thread issued in this order (`accepted_i = l1 ++ st1 :: l2 ++ st2 :: l3`; backtrace-level
    statements are excluded, as in C05), and every sink `sid`: cut the whole history `log` (newest first) anywhere into
    a newer part `pre` and an older part `suf`; if the older part already contains an ordinary write of `st2` at `sid`,
    the newer part contains no ordinary write of `st1` at `sid`. Holds with any fault schedule, any limits, any
    interleaving of other threads, statements written from different polls or the same batch. -/
theorem C03_thread_order_blocks (s0 : BSt) (sid : Nat) (h0 : OrdInv sid s0) (ops : List Op) (i : Nat)
    (l1 l2 l3 : List Stmt) (st1 st2 : Stmt)
    (ha : ((runOps s0 ops).th i).accepted = l1 ++ st1 :: (l2 ++ st2 :: l3))
    (ho1 : isOrd st1 = true) (ho2 : isOrd st2 = true) (pre suf : List Ev)
    (hlog : (runOps s0 ops).log = pre ++ suf) (hsuf : 0 < wcount suf sid st2.id) : wcount pre sid st1.id = 0 :=
  (h0.run ops).accepted_order i l1 l2 l3 st1 st2 ha ho1 ho2 pre suf hlog hsuf

/-- **Thread order at every sink** (event form): no ordinary write of the earlier statement `st1` at sink `sid` is
    newer in the history than an ordinary write of the later statement `st2` at `sid` — every write of `st1` at a sink
    precedes every write of `st2` at that sink. (`log` is newest first: `e1` is newer than `e2`.) -/
theorem C03_thread_order_at_sink (s0 : BSt) (sid : Nat) (h0 : OrdInv sid s0) (ops : List Op) (i : Nat)
    (l1 l2 l3 : List Stmt) (st1 st2 : Stmt)
    (ha : ((runOps s0 ops).th i).accepted = l1 ++ st1 :: (l2 ++ st2 :: l3))
    (ho1 : isOrd st1 = true) (ho2 : isOrd st2 = true) (a b c : List Ev) (e1 e2 : Ev)
    (hlog : (runOps s0 ops).log = a ++ e1 :: (b ++ e2 :: c)) :
    ¬ (ordWrite sid st1.id e1 = true ∧ ordWrite sid st2.id e2 = true) := by
  intro ⟨h1, h2⟩
  have hz := C03_thread_order_blocks s0 sid h0 ops i l1 l2 l3 st1 st2 ha ho1 ho2 (a ++ [e1]) (b ++ e2 :: c)
    (by rw [hlog]; simp) (by simp only [wcount, List.countP_append, List.countP_cons, h2, if_true]; omega)
  simp [wcount, List.countP_append, h1] at hz

/-- every freshly started system satisfies the invariant the theorems assume -/
theorem C03_fresh_inv (s0 : BSt) (h : Fresh s0) : Inv s0 := h.inv

/-! ### non-vacuity: a concrete system and schedule -/

def c03Cfg : Cfg :=
  { dropping := false, qcap := 256, grace := 0, soft := 800, hard := 100000, hdr := 32, strOverhead := 5, batchPct := 5,
    qp := { wStore := .release, wLoad := .acquire, rStore := .release, rLoad := .acquire, drainPublish := true },
    invalidBits := 32, refreshAfterSample := true, catchAllFormat := true, reportBeforeFlushCleanup := true }

/-- the shape of the driver's `mkState`: two sinks, one logger writing to both, nothing logged yet -/
def c03Init : BSt :=
  { cfg := c03Cfg, now := 1000, sinks := [{ sid := 1 }, { sid := 2, wthrow := [2] }],
    lgs := [{ gid := 0, sinks := [1, 2] }], names := [(0, 0)] }

theorem c03Init_fresh : Fresh c03Init :=
  ⟨by decide, rfl, rfl, rfl, rfl, fun i => by
    cases i with
    | zero => rfl
    | succ j => rw [lgOf_default_of_ge _ _ (by simp [c03Init])]; rfl⟩

/-- two threads, three statements, one of them committed while the other thread's statement is in transit
    (injected at hook site 2 inside the poll), a throwing sink on the second write -/
def c03Sched : List Op :=
  [.front (.tstart 0), .front (.tstart 1), .front (.log 0 0 4 10 true), .front (.log 1 0 4 10 true),
   .poll [(2, 2, [.log 0 0 5 12 false])], .poll [], .poll []]


example : ((runOps c03Init c03Sched).th 0).accepted.map (·.id) = [0, 2] ∧
    ((runOps c03Init c03Sched).th 0).popped.map (·.id) = [0, 2] ∧
    ((runOps c03Init c03Sched).th 1).popped.map (·.id) = [1] ∧
    (((runOps c03Init c03Sched).th 0).accepted.filter isOrd).length = 2 ∧
    wcount (runOps c03Init c03Sched).log 1 0 = 1 ∧ wcount (runOps c03Init c03Sched).log 2 0 = 1 ∧
    wcount (runOps c03Init c03Sched).log 1 2 = 1 ∧ wcount (runOps c03Init c03Sched).log 2 2 = 0 ∧
    wcount (runOps c03Init c03Sched).log 1 1 = 1 ∧ wcount (runOps c03Init c03Sched).log 2 1 = 1 := by decide

/-- non-vacuity of the order theorems: thread 0 issued statements 0 and 2; at sink 1 the ordinary writes appear, oldest
    first, as 0, 2, 1 (thread 1's statement last), at sink 2 as 0, 1 (statement 2 faulted there) -/
example : ((runOps c03Init c03Sched).log.reverse.filterMap
      (fun e => match e with | .write 1 id _ _ _ => some id | _ => none)) = [0, 2, 1] ∧
    ((runOps c03Init c03Sched).log.reverse.filterMap
      (fun e => match e with | .write 2 id _ _ _ => some id | _ => none)) = [0, 1] := by decide

/-- non-vacuity of the exactly-once theorems: in the final state of the schedule statement 1 (thread 1) is popped,
    ordinary, and was written once to each of the two sinks; a further poll changes nothing -/
example : (((runOps c03Init c03Sched).th 1).popped.filter isOrd).map (·.id) = [1] ∧
    wcount (runOps c03Init (c03Sched ++ [.poll [], .poll []])).log 1 1 = 1 ∧
    wcount (runOps c03Init (c03Sched ++ [.poll [], .poll []])).log 2 1 = 1 := by decide

end Backend
