import QuillModel.Reg.Model
import QuillModel.Spin.Proofs
/-! Invariants of the registration protocol (P1) and of the failure counter (P2), for every schedule. -/
namespace Reg
open Spin (upd)

/-! ### what one step of the lock model does to `inCS` / `nthreads` -/

theorem spin_nthreads (o : Spin.Orders) (s : Spin.St) (op : Spin.Op) : (Spin.step o s op).nthreads = s.nthreads := by
  cases op <;> simp only [Spin.step] <;> (try split) <;> rfl

theorem attempt_locked (o : Spin.Orders) (s : Spin.St) (t : Nat) (h : s.locked = true) :
    Spin.step o s (.attempt t) = s := by simp [Spin.step, h]

theorem attempt_free_inCS (o : Spin.Orders) (s : Spin.St) (t : Nat) (h : s.locked = false) :
    (Spin.step o s (.attempt t)).inCS = upd s.inCS t true := by simp [Spin.step, h]

theorem unlock_inCS (o : Spin.Orders) (s : Spin.St) (t : Nat) :
    (Spin.step o s (.unlock t)).inCS = upd s.inCS t false := by simp [Spin.step]

theorem access_inCS (o : Spin.Orders) (s : Spin.St) (t : Nat) :
    (Spin.step o s (.access t)).inCS = s.inCS := by simp [Spin.step]

theorem attempt_locked_after (o : Spin.Orders) (s : Spin.St) (t : Nat) : (Spin.step o s (.attempt t)).locked = true := by
  by_cases h : s.locked = true <;> simp [Spin.step, h]

theorem unlock_locked (o : Spin.Orders) (s : Spin.St) (t : Nat) : (Spin.step o s (.unlock t)).locked = false := by
  simp [Spin.step]

theorem access_locked (o : Spin.Orders) (s : Spin.St) (t : Nat) : (Spin.step o s (.access t)).locked = s.locked := by
  simp [Spin.step]

theorem upd_same {β} (f : Nat → β) (i : Nat) (v : β) : upd f i v i = v := by simp [upd]
theorem upd_other {β} (f : Nat → β) (i k : Nat) (v : β) (h : k ≠ i) : upd f i v k = f k := by simp [upd, h]

theorem newest_append (h : List Bool) (v : Bool) : newest (h ++ [v]) = v := by simp [newest]

structure RInv (c : Cfg) (s : St) : Prop where
  spin : Spin.SInv s.lk
  nth : s.lk.nthreads = c.n + 1
  wff : ∀ t, t < c.n → wfF (s.lk.inCS t) (s.fr t).acq (s.fr t).rest = true
  wfb : wfB (s.lk.inCS c.n) s.brest = true
  flAcq : ∀ t, (s.fr t).flagged = true → (s.fr t).acq = true
  flagAhead : ∀ t, t < c.n → (s.fr t).flagged = true ∨ FInstr.setFlag ∈ (s.fr t).rest
  pushAhead : ∀ t, t < c.n → t ∈ s.list ∨ FInstr.push ∈ (s.fr t).rest
  key : ∀ t, t < c.n → (s.fr t).flagged = true → (t ∈ s.list ∨ s.lk.inCS t = true) → t ∉ s.cache →
          newest s.flagHist = true ∨ BInstr.copy ∈ s.brest
  noRace : s.raced = false
  lockTop : newest s.lockHist = s.lk.locked
  batXLock : s.batX = true → s.brest.head? = some BInstr.lock
  csBound : ∀ t, c.n < t → s.lk.inCS t = false

theorem init_inv (c : Cfg) (hc : CfgOK c) : RInv c (init c) := by
  obtain ⟨h1, h2, h3, _, _, _⟩ := hc
  refine { spin := Spin.init_inv _, nth := rfl, wff := ?_, wfb := ?_, flAcq := ?_, flagAhead := ?_, pushAhead := ?_,
           key := ?_, noRace := rfl,
           lockTop := rfl, batXLock := ?_, csBound := ?_ }
  · intro t _; exact h1
  · simp [init, wfB]
  · intro t h; simp [init] at h
  · intro t _; right; simpa [init] using h2
  · intro t _; right; simpa [init] using h3
  · intro t _ h; simp [init] at h
  · intro hbx; simp [init] at hbx
  · intro t _; rfl

theorem fin_inv (c : Cfg) (s : St) (h : RInv c s) : RInv c (fin s) := by
  unfold fin
  split
  · exact { spin := h.spin, nth := h.nth, wff := h.wff, wfb := h.wfb, flAcq := h.flAcq, flagAhead := h.flagAhead,
            pushAhead := h.pushAhead, key := h.key, noRace := h.noRace,
            lockTop := h.lockTop, batXLock := h.batXLock, csBound := h.csBound }
  · exact h


/-! ### registering threads, one lemma per instruction -/

theorem mem_append_single_ne {t u : Nat} {l : List Nat} (h : t ∈ l ++ [u]) (hne : t ≠ u) : t ∈ l := by
  simp only [List.mem_append, List.mem_singleton] at h
  rcases h with h | h
  · exact h
  · exact absurd h hne

theorem fPush_inv (c : Cfg) (ho : Spin.OrdersOK c.ord) (s : St) (t : Nat) (r : List FInstr) (h : RInv c s)
    (ht : t < c.n) (hrest : (s.fr t).rest = .push :: r) : RInv c (fPush c s t r) := by
  have hw := h.wff t ht
  have htn : t < s.lk.nthreads := by rw [h.nth]; omega
  rw [hrest] at hw
  simp only [wfF, Bool.and_eq_true] at hw
  obtain ⟨hheld, hwr⟩ := hw
  have hen : Spin.Enabled s.lk (.access t) := ⟨htn, hheld⟩
  have hsp := Spin.step_inv c.ord ho s.lk (.access t) h.spin hen
  refine { spin := hsp, nth := ?_, wff := ?_, wfb := ?_, flAcq := ?_, flagAhead := ?_, pushAhead := ?_,
           key := ?_, noRace := ?_,
           lockTop := ?_, batXLock := h.batXLock, csBound := ?_ }
  · simp only [fPush, listAccess, spin_nthreads]; exact h.nth
  · intro u hu
    simp only [fPush, listAccess, access_inCS]
    by_cases hut : u = t
    · subst hut; simp only [upd_same]; exact hwr
    · simp only [upd_other _ _ _ _ hut]; exact h.wff u hu
  · simp only [fPush, listAccess, access_inCS]; exact h.wfb
  · intro u
    simp only [fPush]
    by_cases hut : u = t
    · subst hut; simp only [upd_same]; exact h.flAcq u
    · simp only [upd_other _ _ _ _ hut]; exact h.flAcq u
  · intro u hu
    simp only [fPush]
    by_cases hut : u = t
    · subst hut; simp only [upd_same]
      rcases h.flagAhead u hu with hf | hf
      · exact Or.inl hf
      · rw [hrest] at hf; simp at hf; exact Or.inr hf
    · simp only [upd_other _ _ _ _ hut]; exact h.flagAhead u hu
  · intro u hu
    simp only [fPush]
    by_cases hut : u = t
    · subst hut; left; simp
    · simp only [upd_other _ _ _ _ hut]
      rcases h.pushAhead u hu with hf | hf
      · left; simp [hf]
      · exact Or.inr hf
  · intro u hu
    simp only [fPush, listAccess, access_inCS]
    by_cases hut : u = t
    · subst hut; simp only [upd_same]
      intro hfl _ hnc
      exact h.key u hu hfl (Or.inr hheld) hnc
    · simp only [upd_other _ _ _ _ hut]
      intro hfl hin hnc
      refine h.key u hu hfl ?_ hnc
      rcases hin with hin | hin
      · exact Or.inl (mem_append_single_ne hin hut)
      · exact Or.inr hin
  · simp only [fPush, listAccess]
    have := h.spin.holderSees t hheld
    simp [h.noRace, this]
  · show newest s.lockHist = (Spin.step c.ord s.lk (.access t)).locked
    rw [access_locked]; exact h.lockTop
  · simp only [fPush, listAccess, access_inCS]; exact h.csBound

theorem fLockTest_inv (c : Cfg) (s : St) (t i : Nat) (h : RInv c s) : RInv c (fLockTest s t i) := by
  refine { spin := h.spin, nth := h.nth, wff := ?_, wfb := h.wfb, flAcq := ?_, flagAhead := ?_, pushAhead := ?_,
           key := ?_, noRace := h.noRace,
           lockTop := h.lockTop, batXLock := h.batXLock, csBound := h.csBound }
  · intro u hu
    simp only [fLockTest]
    by_cases hut : u = t
    · subst hut; simp only [upd_same]; exact h.wff u hu
    · simp only [upd_other _ _ _ _ hut]; exact h.wff u hu
  · intro u
    simp only [fLockTest]
    by_cases hut : u = t
    · subst hut; simp only [upd_same]; exact h.flAcq u
    · simp only [upd_other _ _ _ _ hut]; exact h.flAcq u
  · intro u hu
    simp only [fLockTest]
    by_cases hut : u = t
    · subst hut; simp only [upd_same]; exact h.flagAhead u hu
    · simp only [upd_other _ _ _ _ hut]; exact h.flagAhead u hu
  · intro u hu
    simp only [fLockTest]
    by_cases hut : u = t
    · subst hut; simp only [upd_same]; exact h.pushAhead u hu
    · simp only [upd_other _ _ _ _ hut]; exact h.pushAhead u hu
  · intro u hu
    simp only [fLockTest]
    by_cases hut : u = t
    · subst hut; simp only [upd_same]; exact h.key u hu
    · simp only [upd_other _ _ _ _ hut]; exact h.key u hu

theorem fLockFail_inv (c : Cfg) (s : St) (t : Nat) (h : RInv c s) (hl : s.lk.locked = true) :
    RInv c (fLockFail c s t) := by
  have hlk : (lockXchg c s t).lk = s.lk := by simp only [lockXchg]; exact attempt_locked _ _ _ hl
  refine { spin := ?_, nth := ?_, wff := ?_, wfb := ?_, flAcq := ?_, flagAhead := ?_, pushAhead := ?_,
           key := ?_, noRace := h.noRace,
           lockTop := ?_, batXLock := h.batXLock, csBound := ?_ }
  · simp only [fLockFail, hlk]; exact h.spin
  · simp only [fLockFail, hlk]; exact h.nth
  · intro u hu
    simp only [fLockFail, hlk]
    by_cases hut : u = t
    · subst hut; simp only [upd_same]; exact h.wff u hu
    · simp only [upd_other _ _ _ _ hut]; exact h.wff u hu
  · simp only [fLockFail, hlk]; exact h.wfb
  · intro u
    simp only [fLockFail]
    by_cases hut : u = t
    · subst hut; simp only [upd_same]; exact h.flAcq u
    · simp only [upd_other _ _ _ _ hut]; exact h.flAcq u
  · intro u hu
    simp only [fLockFail]
    by_cases hut : u = t
    · subst hut; simp only [upd_same]; exact h.flagAhead u hu
    · simp only [upd_other _ _ _ _ hut]; exact h.flagAhead u hu
  · intro u hu
    simp only [fLockFail]
    by_cases hut : u = t
    · subst hut; simp only [upd_same]; exact h.pushAhead u hu
    · simp only [upd_other _ _ _ _ hut]; exact h.pushAhead u hu
  · intro u hu
    simp only [fLockFail, hlk]
    by_cases hut : u = t
    · subst hut; simp only [upd_same]; exact h.key u hu
    · simp only [upd_other _ _ _ _ hut]; exact h.key u hu
  · show newest (s.lockHist ++ [true]) = (Spin.step c.ord s.lk (.attempt t)).locked
    rw [newest_append, attempt_locked_after]
  · simp only [fLockFail, hlk]; exact h.csBound

theorem fLockGot_inv (c : Cfg) (ho : Spin.OrdersOK c.ord) (s : St) (t : Nat) (r : List FInstr) (h : RInv c s)
    (ht : t < c.n) (hrest : (s.fr t).rest = .lock :: r) (hl : s.lk.locked = false) : RInv c (fLockGot c s t r) := by
  have hw := h.wff t ht
  have htn : t < s.lk.nthreads := by rw [h.nth]; omega
  rw [hrest] at hw
  simp only [wfF, Bool.and_eq_true, Bool.not_eq_true'] at hw
  obtain ⟨⟨hheld, hacq⟩, hwr⟩ := hw
  have hnf : (s.fr t).flagged = false := by
    cases hf : (s.fr t).flagged with
    | false => rfl
    | true => have := h.flAcq t hf; rw [hacq] at this; cases this
  have hen : Spin.Enabled s.lk (.attempt t) := ⟨htn, hheld⟩
  have hsp := Spin.step_inv c.ord ho s.lk (.attempt t) h.spin hen
  have hcs : (Spin.step c.ord s.lk (.attempt t)).inCS = upd s.lk.inCS t true := attempt_free_inCS _ _ _ hl
  have hnt : c.n ≠ t := by omega
  refine { spin := hsp, nth := ?_, wff := ?_, wfb := ?_, flAcq := ?_, flagAhead := ?_, pushAhead := ?_,
           key := ?_, noRace := h.noRace,
           lockTop := ?_, batXLock := h.batXLock, csBound := ?_ }
  · simp only [fLockGot, lockXchg, spin_nthreads]; exact h.nth
  · intro u hu
    simp only [fLockGot, lockXchg, hcs]
    by_cases hut : u = t
    · subst hut; simp only [upd_same]; exact hwr
    · simp only [upd_other _ _ _ _ hut]; exact h.wff u hu
  · simp only [fLockGot, lockXchg, hcs, upd_other _ _ _ _ hnt]; exact h.wfb
  · intro u
    simp only [fLockGot]
    by_cases hut : u = t
    · subst hut; simp only [upd_same]; intro _; trivial
    · simp only [upd_other _ _ _ _ hut]; exact h.flAcq u
  · intro u hu
    simp only [fLockGot]
    by_cases hut : u = t
    · subst hut; simp only [upd_same]
      rcases h.flagAhead u hu with hf | hf
      · exact Or.inl hf
      · rw [hrest] at hf; simp at hf; exact Or.inr hf
    · simp only [upd_other _ _ _ _ hut]; exact h.flagAhead u hu
  · intro u hu
    simp only [fLockGot, lockXchg]
    by_cases hut : u = t
    · subst hut; simp only [upd_same]
      rcases h.pushAhead u hu with hf | hf
      · exact Or.inl hf
      · rw [hrest] at hf; simp at hf; exact Or.inr hf
    · simp only [upd_other _ _ _ _ hut]; exact h.pushAhead u hu
  · intro u hu
    simp only [fLockGot, lockXchg, hcs]
    by_cases hut : u = t
    · subst hut; simp only [upd_same]
      intro hfl; rw [hnf] at hfl; cases hfl
    · simp only [upd_other _ _ _ _ hut]; exact h.key u hu
  · show newest (s.lockHist ++ [true]) = (Spin.step c.ord s.lk (.attempt t)).locked
    rw [newest_append, attempt_locked_after]
  · intro u hu
    have hut : u ≠ t := by omega
    simp only [fLockGot, lockXchg, hcs, upd_other _ _ _ _ hut]; exact h.csBound u hu

theorem fUnlock_inv (c : Cfg) (ho : Spin.OrdersOK c.ord) (s : St) (t : Nat) (r : List FInstr) (h : RInv c s)
    (ht : t < c.n) (hrest : (s.fr t).rest = .unlock :: r) : RInv c (fUnlock c s t r) := by
  have hw := h.wff t ht
  have htn : t < s.lk.nthreads := by rw [h.nth]; omega
  rw [hrest] at hw
  simp only [wfF, Bool.and_eq_true] at hw
  obtain ⟨hheld, hwr⟩ := hw
  have hen : Spin.Enabled s.lk (.unlock t) := ⟨htn, hheld⟩
  have hsp := Spin.step_inv c.ord ho s.lk (.unlock t) h.spin hen
  have hcs : (Spin.step c.ord s.lk (.unlock t)).inCS = upd s.lk.inCS t false := unlock_inCS _ _ _
  have hnt : c.n ≠ t := by omega
  refine { spin := hsp, nth := ?_, wff := ?_, wfb := ?_, flAcq := ?_, flagAhead := ?_, pushAhead := ?_,
           key := ?_, noRace := h.noRace,
           lockTop := ?_, batXLock := h.batXLock, csBound := ?_ }
  · simp only [fUnlock, lockRel, spin_nthreads]; exact h.nth
  · intro u hu
    simp only [fUnlock, lockRel, hcs]
    by_cases hut : u = t
    · subst hut; simp only [upd_same]; exact hwr
    · simp only [upd_other _ _ _ _ hut]; exact h.wff u hu
  · simp only [fUnlock, lockRel, hcs, upd_other _ _ _ _ hnt]; exact h.wfb
  · intro u
    simp only [fUnlock]
    by_cases hut : u = t
    · subst hut; simp only [upd_same]; exact h.flAcq u
    · simp only [upd_other _ _ _ _ hut]; exact h.flAcq u
  · intro u hu
    simp only [fUnlock]
    by_cases hut : u = t
    · subst hut; simp only [upd_same]
      rcases h.flagAhead u hu with hf | hf
      · exact Or.inl hf
      · rw [hrest] at hf; simp at hf; exact Or.inr hf
    · simp only [upd_other _ _ _ _ hut]; exact h.flagAhead u hu
  · intro u hu
    simp only [fUnlock, lockRel]
    by_cases hut : u = t
    · subst hut; simp only [upd_same]
      rcases h.pushAhead u hu with hf | hf
      · exact Or.inl hf
      · rw [hrest] at hf; simp at hf; exact Or.inr hf
    · simp only [upd_other _ _ _ _ hut]; exact h.pushAhead u hu
  · intro u hu
    simp only [fUnlock, lockRel, hcs]
    by_cases hut : u = t
    · subst hut; simp only [upd_same]
      intro hfl hin hnc
      refine h.key u hu hfl ?_ hnc
      rcases hin with hin | hin
      · exact Or.inl hin
      · cases hin
    · simp only [upd_other _ _ _ _ hut]; exact h.key u hu
  · show newest (s.lockHist ++ [false]) = (Spin.step c.ord s.lk (.unlock t)).locked
    rw [newest_append, unlock_locked]
  · intro u hu
    have hut : u ≠ t := by omega
    simp only [fUnlock, lockRel, hcs, upd_other _ _ _ _ hut]; exact h.csBound u hu

theorem fSetFlag_inv (c : Cfg) (s : St) (t : Nat) (r : List FInstr) (h : RInv c s)
    (ht : t < c.n) (hrest : (s.fr t).rest = .setFlag :: r) : RInv c (fSetFlag s t r) := by
  have hw := h.wff t ht
  rw [hrest] at hw
  simp only [wfF, Bool.and_eq_true] at hw
  obtain ⟨hacq, hwr⟩ := hw
  refine { spin := h.spin, nth := h.nth, wff := ?_, wfb := h.wfb, flAcq := ?_, flagAhead := ?_, pushAhead := ?_,
           key := ?_, noRace := h.noRace,
           lockTop := h.lockTop, batXLock := h.batXLock, csBound := h.csBound }
  · intro u hu
    simp only [fSetFlag]
    by_cases hut : u = t
    · subst hut; simp only [upd_same]; exact hwr
    · simp only [upd_other _ _ _ _ hut]; exact h.wff u hu
  · intro u
    simp only [fSetFlag]
    by_cases hut : u = t
    · subst hut; simp only [upd_same]; intro _; exact hacq
    · simp only [upd_other _ _ _ _ hut]; exact h.flAcq u
  · intro u hu
    simp only [fSetFlag]
    by_cases hut : u = t
    · subst hut; simp only [upd_same]; left; trivial
    · simp only [upd_other _ _ _ _ hut]; exact h.flagAhead u hu
  · intro u hu
    simp only [fSetFlag]
    by_cases hut : u = t
    · subst hut; simp only [upd_same]
      rcases h.pushAhead u hu with hf | hf
      · exact Or.inl hf
      · rw [hrest] at hf; simp at hf; exact Or.inr hf
    · simp only [upd_other _ _ _ _ hut]; exact h.pushAhead u hu
  · intro u hu _ _ _
    left
    simp only [fSetFlag]
    exact newest_append _ _

/-! ### the backend, one lemma per instruction -/

theorem contains_copy {r : List BInstr} (h : r.contains BInstr.copy = true) : BInstr.copy ∈ r := by
  simpa using h

theorem bLoadTrue_inv (c : Cfg) (hc : CfgOK c) (s : St) (i : Nat) (h : RInv c s) (hb : s.brest = []) :
    RInv c (bLoadTrue c s i) := by
  have hwb := h.wfb
  rw [hb] at hwb
  simp only [wfB, Bool.not_eq_true'] at hwb
  apply fin_inv
  refine { spin := h.spin, nth := h.nth, wff := h.wff, wfb := ?_, flAcq := h.flAcq, flagAhead := h.flagAhead,
           pushAhead := h.pushAhead, key := ?_, noRace := h.noRace,
           lockTop := h.lockTop, batXLock := ?_, csBound := h.csBound }
  · show wfB (s.lk.inCS c.n) c.bprog = true
    rw [hwb]; exact hc.2.2.2.1
  · intro u hu hfl hin hnc
    rcases h.key u hu hfl hin hnc with hk | hk
    · exact Or.inl hk
    · rw [hb] at hk; cases hk
  · intro hbx
    have := h.batXLock hbx
    rw [hb] at this; simp at this

theorem bLoadFalse_inv (c : Cfg) (s : St) (i : Nat) (h : RInv c s) : RInv c (bLoadFalse s i) :=
  { spin := h.spin, nth := h.nth, wff := h.wff, wfb := h.wfb, flAcq := h.flAcq, flagAhead := h.flagAhead,
    pushAhead := h.pushAhead, key := h.key, noRace := h.noRace,
           lockTop := h.lockTop, batXLock := h.batXLock, csBound := h.csBound }

theorem bReset_inv (c : Cfg) (s : St) (r : List BInstr) (h : RInv c s) (hb : s.brest = .reset :: r) :
    RInv c (bReset s r) := by
  have hwb := h.wfb
  rw [hb] at hwb
  simp only [wfB, Bool.and_eq_true] at hwb
  apply fin_inv
  refine { spin := h.spin, nth := h.nth, wff := h.wff, wfb := hwb.2, flAcq := h.flAcq, flagAhead := h.flagAhead,
           pushAhead := h.pushAhead, key := fun _ _ _ _ _ => Or.inr (contains_copy hwb.1), noRace := h.noRace,
           lockTop := h.lockTop, batXLock := ?_, csBound := h.csBound }
  intro hbx
  have := h.batXLock hbx
  rw [hb] at this; simp at this

theorem bClear_inv (c : Cfg) (s : St) (r : List BInstr) (h : RInv c s) (hb : s.brest = .clear :: r) :
    RInv c (bClear s r) := by
  have hwb := h.wfb
  rw [hb] at hwb
  simp only [wfB, Bool.and_eq_true] at hwb
  apply fin_inv
  refine { spin := h.spin, nth := h.nth, wff := h.wff, wfb := hwb.2, flAcq := h.flAcq, flagAhead := h.flagAhead,
           pushAhead := h.pushAhead, key := fun _ _ _ _ _ => Or.inr (contains_copy hwb.1), noRace := h.noRace,
           lockTop := h.lockTop, batXLock := ?_, csBound := h.csBound }
  intro hbx
  have := h.batXLock hbx
  rw [hb] at this; simp at this

theorem bLockTest_inv (c : Cfg) (s : St) (i : Nat) (r : List BInstr) (h : RInv c s) (hb : s.brest = .lock :: r) :
    RInv c (bLockTest c s i) := by
  refine { spin := h.spin, nth := h.nth, wff := h.wff, wfb := h.wfb, flAcq := h.flAcq, flagAhead := h.flagAhead,
           pushAhead := h.pushAhead, key := h.key, noRace := h.noRace,
           lockTop := h.lockTop, batXLock := ?_, csBound := h.csBound }
  intro _
  show s.brest.head? = some BInstr.lock
  rw [hb]; rfl

theorem bLockFail_inv (c : Cfg) (s : St) (h : RInv c s) (hl : s.lk.locked = true) : RInv c (bLockFail c s) := by
  have hlk : (lockXchg c s c.n).lk = s.lk := by simp only [lockXchg]; exact attempt_locked _ _ _ hl
  refine { spin := ?_, nth := ?_, wff := ?_, wfb := ?_, flAcq := h.flAcq, flagAhead := h.flagAhead,
           pushAhead := h.pushAhead, key := ?_, noRace := h.noRace,
           lockTop := ?_, batXLock := ?_, csBound := ?_ }
  · simp only [bLockFail, hlk]; exact h.spin
  · simp only [bLockFail, hlk]; exact h.nth
  · simp only [bLockFail, hlk]; exact h.wff
  · simp only [bLockFail, hlk]; exact h.wfb
  · simp only [bLockFail, hlk]; exact h.key
  · show newest (s.lockHist ++ [true]) = (Spin.step c.ord s.lk (.attempt c.n)).locked
    rw [newest_append, attempt_locked_after]
  · intro hbx; simp only [bLockFail] at hbx; cases hbx
  · simp only [bLockFail, hlk]; exact h.csBound

theorem bLockGot_inv (c : Cfg) (ho : Spin.OrdersOK c.ord) (s : St) (r : List BInstr) (h : RInv c s)
    (hb : s.brest = .lock :: r) (hl : s.lk.locked = false) : RInv c (bLockGot c s r) := by
  have hwb := h.wfb
  rw [hb] at hwb
  simp only [wfB, Bool.and_eq_true, Bool.not_eq_true'] at hwb
  obtain ⟨hheld, hwr⟩ := hwb
  have htn : c.n < s.lk.nthreads := by rw [h.nth]; omega
  have hen : Spin.Enabled s.lk (.attempt c.n) := ⟨htn, hheld⟩
  have hsp := Spin.step_inv c.ord ho s.lk (.attempt c.n) h.spin hen
  have hcs : (Spin.step c.ord s.lk (.attempt c.n)).inCS = upd s.lk.inCS c.n true := attempt_free_inCS _ _ _ hl
  apply fin_inv
  refine { spin := hsp, nth := ?_, wff := ?_, wfb := ?_, flAcq := h.flAcq, flagAhead := h.flagAhead,
           pushAhead := h.pushAhead, key := ?_, noRace := h.noRace,
           lockTop := ?_, batXLock := ?_, csBound := ?_ }
  · simp only [lockXchg, spin_nthreads]; exact h.nth
  · intro u hu
    have hun : u ≠ c.n := by omega
    simp only [lockXchg, hcs, upd_other _ _ _ _ hun]; exact h.wff u hu
  · simp only [lockXchg, hcs, upd_same]; exact hwr
  · intro u hu
    have hun : u ≠ c.n := by omega
    simp only [lockXchg, hcs, upd_other _ _ _ _ hun]
    intro hfl hin hnc
    rcases h.key u hu hfl hin hnc with hk | hk
    · exact Or.inl hk
    · rw [hb] at hk; simp at hk; exact Or.inr hk
  · show newest (s.lockHist ++ [true]) = (Spin.step c.ord s.lk (.attempt c.n)).locked
    rw [newest_append, attempt_locked_after]
  · intro hbx; cases hbx
  · intro u hu
    have hun : u ≠ c.n := by omega
    simp only [lockXchg, hcs, upd_other _ _ _ _ hun]; exact h.csBound u hu

theorem bCopy_inv (c : Cfg) (ho : Spin.OrdersOK c.ord) (s : St) (r : List BInstr) (h : RInv c s)
    (hb : s.brest = .copy :: r) : RInv c (bCopy c s r) := by
  have hwb := h.wfb
  rw [hb] at hwb
  simp only [wfB, Bool.and_eq_true] at hwb
  obtain ⟨hheld, hwr⟩ := hwb
  have htn : c.n < s.lk.nthreads := by rw [h.nth]; omega
  have hen : Spin.Enabled s.lk (.access c.n) := ⟨htn, hheld⟩
  have hsp := Spin.step_inv c.ord ho s.lk (.access c.n) h.spin hen
  apply fin_inv
  refine { spin := hsp, nth := ?_, wff := ?_, wfb := ?_, flAcq := h.flAcq, flagAhead := h.flagAhead,
           pushAhead := h.pushAhead, key := ?_, noRace := ?_,
           lockTop := ?_, batXLock := ?_, csBound := ?_ }
  · simp only [listAccess, spin_nthreads]; exact h.nth
  · simp only [listAccess, access_inCS]; exact h.wff
  · simp only [listAccess, access_inCS]; exact hwr
  · intro u hu hfl hin hnc
    simp only [listAccess, access_inCS] at hin hnc
    rcases hin with hin | hin
    · exact absurd hin hnc
    · have := h.spin.excl u c.n hin hheld
      omega
  · simp only [listAccess]
    have := h.spin.holderSees c.n hheld
    simp [h.noRace, this]
  · show newest s.lockHist = (Spin.step c.ord s.lk (.access c.n)).locked
    rw [access_locked]; exact h.lockTop
  · intro hbx
    have := h.batXLock hbx
    rw [hb] at this; simp at this
  · simp only [listAccess, access_inCS]; exact h.csBound

theorem bUnlock_inv (c : Cfg) (ho : Spin.OrdersOK c.ord) (s : St) (r : List BInstr) (h : RInv c s)
    (hb : s.brest = .unlock :: r) : RInv c (bUnlock c s r) := by
  have hwb := h.wfb
  rw [hb] at hwb
  simp only [wfB, Bool.and_eq_true] at hwb
  obtain ⟨hheld, hwr⟩ := hwb
  have htn : c.n < s.lk.nthreads := by rw [h.nth]; omega
  have hen : Spin.Enabled s.lk (.unlock c.n) := ⟨htn, hheld⟩
  have hsp := Spin.step_inv c.ord ho s.lk (.unlock c.n) h.spin hen
  have hcs : (Spin.step c.ord s.lk (.unlock c.n)).inCS = upd s.lk.inCS c.n false := unlock_inCS _ _ _
  apply fin_inv
  refine { spin := hsp, nth := ?_, wff := ?_, wfb := ?_, flAcq := h.flAcq, flagAhead := h.flagAhead,
           pushAhead := h.pushAhead, key := ?_, noRace := h.noRace,
           lockTop := ?_, batXLock := ?_, csBound := ?_ }
  · simp only [lockRel, spin_nthreads]; exact h.nth
  · intro u hu
    have hun : u ≠ c.n := by omega
    simp only [lockRel, hcs, upd_other _ _ _ _ hun]; exact h.wff u hu
  · simp only [lockRel, hcs, upd_same]; exact hwr
  · intro u hu
    have hun : u ≠ c.n := by omega
    simp only [lockRel, hcs, upd_other _ _ _ _ hun]
    intro hfl hin hnc
    rcases h.key u hu hfl hin hnc with hk | hk
    · exact Or.inl hk
    · rw [hb] at hk; simp at hk; exact Or.inr hk
  · show newest (s.lockHist ++ [false]) = (Spin.step c.ord s.lk (.unlock c.n)).locked
    rw [newest_append, unlock_locked]
  · intro hbx
    have := h.batXLock hbx
    rw [hb] at this; simp at this
  · intro u hu
    have hun : u ≠ c.n := by omega
    simp only [lockRel, hcs, upd_other _ _ _ _ hun]; exact h.csBound u hu

/-! ### every step, every schedule -/

theorem fstep_inv (c : Cfg) (hc : CfgOK c) (s : St) (t i : Nat) (h : RInv c s) (ht : t < c.n) :
    RInv c (fstep c s t i) := by
  have ho := hc.2.2.2.2.2
  unfold fstep
  cases hrest : (s.fr t).rest with
  | nil => exact h
  | cons ins r =>
    cases ins with
    | lock =>
      simp only []
      by_cases hx : (s.fr t).atX = true
      · by_cases hl : s.lk.locked = true
        · simp only [hx, hl, if_true]; exact fLockFail_inv c s t h hl
        · have hl' : s.lk.locked = false := by simpa using hl
          simp only [hx, hl', if_true, Bool.false_eq_true, if_false]
          exact fLockGot_inv c ho s t r h ht hrest hl'
      · simp only [hx]; exact fLockTest_inv c s t i h
    | push => exact fPush_inv c ho s t r h ht hrest
    | unlock => exact fUnlock_inv c ho s t r h ht hrest
    | setFlag => exact fSetFlag_inv c s t r h ht hrest

theorem bstep_inv (c : Cfg) (hc : CfgOK c) (s : St) (i : Nat) (h : RInv c s) : RInv c (bstep c s i) := by
  have ho := hc.2.2.2.2.2
  unfold bstep
  cases hb : s.brest with
  | nil =>
    simp only []
    by_cases hv : valAt s.flagHist i = true
    · simp only [hv, if_true]; exact bLoadTrue_inv c hc s i h hb
    · simp only [hv]; exact bLoadFalse_inv c s i h
  | cons ins r =>
    cases ins with
    | reset => exact bReset_inv c s r h hb
    | clear => exact bClear_inv c s r h hb
    | lock =>
      simp only []
      by_cases hx : s.batX = true
      · by_cases hl : s.lk.locked = true
        · simp only [hx, hl, if_true]; exact bLockFail_inv c s h hl
        · have hl' : s.lk.locked = false := by simpa using hl
          simp only [hx, hl', if_true, Bool.false_eq_true, if_false]
          exact bLockGot_inv c ho s r h hb hl'
      · simp only [hx]; exact bLockTest_inv c s i r h hb
    | copy => exact bCopy_inv c ho s r h hb
    | unlock => exact bUnlock_inv c ho s r h hb

theorem step_inv (c : Cfg) (hc : CfgOK c) (s : St) (op : Op) (h : RInv c s) (he : Enabled c s op) :
    RInv c (step c s op) := by
  cases op with
  | f t i => exact fstep_inv c hc s t i h he.1
  | b i => exact bstep_inv c hc s i h

theorem reachable_inv (c : Cfg) (hc : CfgOK c) :
    ∀ (ops : List Op) (s : St), RInv c s → Run c s ops → RInv c (run c s ops)
  | [], _, h, _ => h
  | op :: ops, s, h, hr => reachable_inv c hc ops _ (step_inv c hc s op h hr.1) hr.2

/-! ### the backend running alone -/

def needSteps (s : St) : Nat := 2 * s.brest.length - (if s.batX then 1 else 0)

theorem valAt_last (h : List Bool) : valAt h (h.length - 1) = newest h := by
  simp [valAt, newest, List.getLast?_eq_getElem?]

theorem fin_lk (s : St) : (fin s).lk = s.lk := by unfold fin; split <;> rfl
theorem fin_fr (s : St) : (fin s).fr = s.fr := by unfold fin; split <;> rfl
theorem fin_list (s : St) : (fin s).list = s.list := by unfold fin; split <;> rfl
theorem fin_cache (s : St) : (fin s).cache = s.cache := by unfold fin; split <;> rfl
theorem fin_brest (s : St) : (fin s).brest = s.brest := by unfold fin; split <;> rfl
theorem fin_batX (s : St) : (fin s).batX = s.batX := by unfold fin; split <;> rfl
theorem fin_flagHist (s : St) : (fin s).flagHist = s.flagHist := by unfold fin; split <;> rfl

/-- what one step of the backend does while no registering thread holds the lock and an update is in progress -/
structure SoloStep (c : Cfg) (s s1 : St) : Prop where
  fr : s1.fr = s.fr
  list : s1.list = s.list
  free : ∀ u, u < c.n → s1.lk.inCS u = false
  dec : needSteps s1 + 1 ≤ needSteps s
  copyIn : BInstr.copy ∈ s.brest → BInstr.copy ∈ s1.brest ∨ s1.cache = s.list
  copyOut : BInstr.copy ∉ s.brest → BInstr.copy ∉ s1.brest ∧ s1.cache = s.cache

theorem solo_step (c : Cfg) (s : St) (h : RInv c s) (hfree : ∀ u, u < c.n → s.lk.inCS u = false)
    (hne : s.brest ≠ []) : SoloStep c s (bstep c s (s.lockHist.length - 1)) := by
  unfold bstep
  cases hb : s.brest with
  | nil => exact absurd hb hne
  | cons ins r =>
    have hwb := h.wfb
    rw [hb] at hwb
    have hbx : ins ≠ BInstr.lock → s.batX = false := by
      intro hi
      cases hx : s.batX with
      | false => rfl
      | true => have := h.batXLock hx; rw [hb] at this; simp at this; exact absurd this hi
    cases ins with
    | reset =>
      have hx := hbx (by decide)
      simp only [wfB, Bool.and_eq_true] at hwb
      refine { fr := ?_, list := ?_, free := ?_, dec := ?_, copyIn := ?_, copyOut := ?_ }
      · simp only [bReset, fin_fr]
      · simp only [bReset, fin_list]
      · simp only [bReset, fin_lk]; exact hfree
      · simp only [needSteps, bReset, fin_brest, fin_batX, hx, hb, List.length_cons]; simp; omega
      · intro _; left; simp only [bReset, fin_brest]; exact contains_copy hwb.1
      · intro hn; rw [hb] at hn; simp at hn; exact absurd (contains_copy hwb.1) hn
    | clear =>
      have hx := hbx (by decide)
      simp only [wfB, Bool.and_eq_true] at hwb
      refine { fr := ?_, list := ?_, free := ?_, dec := ?_, copyIn := ?_, copyOut := ?_ }
      · simp only [bClear, fin_fr]
      · simp only [bClear, fin_list]
      · simp only [bClear, fin_lk]; exact hfree
      · simp only [needSteps, bClear, fin_brest, fin_batX, hx, hb, List.length_cons]; simp; omega
      · intro _; left; simp only [bClear, fin_brest]; exact contains_copy hwb.1
      · intro hn; rw [hb] at hn; simp at hn; exact absurd (contains_copy hwb.1) hn
    | lock =>
      simp only [wfB, Bool.and_eq_true, Bool.not_eq_true'] at hwb
      obtain ⟨hheld, _⟩ := hwb
      have hl : s.lk.locked = false := by
        cases hlk : s.lk.locked with
        | false => rfl
        | true =>
          obtain ⟨u, hu⟩ := h.spin.lockedIff.mp hlk
          rcases Nat.lt_trichotomy u c.n with h1 | h1 | h1
          · rw [hfree u h1] at hu; cases hu
          · subst h1; rw [hheld] at hu; cases hu
          · rw [h.csBound u h1] at hu; cases hu
      simp only []
      cases hx : s.batX with
      | true =>
        simp only [hl, if_true, Bool.false_eq_true, if_false]
        have hcs : (Spin.step c.ord s.lk (.attempt c.n)).inCS = upd s.lk.inCS c.n true := attempt_free_inCS _ _ _ hl
        refine { fr := ?_, list := ?_, free := ?_, dec := ?_, copyIn := ?_, copyOut := ?_ }
        · simp only [bLockGot, fin_fr, lockXchg]
        · simp only [bLockGot, fin_list, lockXchg]
        · intro u hu
          have hun : u ≠ c.n := by omega
          simp only [bLockGot, fin_lk, lockXchg, hcs, upd_other _ _ _ _ hun]; exact hfree u hu
        · simp only [needSteps, bLockGot, fin_brest, fin_batX, hx, hb, List.length_cons]; simp; omega
        · intro hc; rw [hb] at hc; left; simp only [bLockGot, fin_brest]; simpa using hc
        · intro hn
          rw [hb] at hn
          simp only [bLockGot, fin_brest, fin_cache, lockXchg]
          simp at hn; exact ⟨hn, trivial⟩
      | false =>
        simp only [Bool.false_eq_true, if_false]
        have hv : valAt s.lockHist (s.lockHist.length - 1) = false := by rw [valAt_last, h.lockTop, hl]
        refine { fr := rfl, list := rfl, free := hfree, dec := ?_, copyIn := ?_, copyOut := ?_ }
        · simp only [needSteps, bLockTest, hx, hb, hv, List.length_cons]; simp; omega
        · intro hc; left; exact hc
        · intro hn; exact ⟨hn, rfl⟩
    | copy =>
      have hx := hbx (by decide)
      refine { fr := ?_, list := ?_, free := ?_, dec := ?_, copyIn := ?_, copyOut := ?_ }
      · simp only [bCopy, fin_fr, listAccess]
      · simp only [bCopy, fin_list, listAccess]
      · simp only [bCopy, fin_lk, listAccess, access_inCS]; exact hfree
      · simp only [needSteps, bCopy, fin_brest, fin_batX, listAccess, hx, hb, List.length_cons]; simp; omega
      · intro _; right; simp only [bCopy, fin_cache]
      · intro hn; rw [hb] at hn; simp at hn
    | unlock =>
      have hx := hbx (by decide)
      have hcs : (Spin.step c.ord s.lk (.unlock c.n)).inCS = upd s.lk.inCS c.n false := unlock_inCS _ _ _
      refine { fr := ?_, list := ?_, free := ?_, dec := ?_, copyIn := ?_, copyOut := ?_ }
      · simp only [bUnlock, fin_fr, lockRel]
      · simp only [bUnlock, fin_list, lockRel]
      · intro u hu
        have hun : u ≠ c.n := by omega
        simp only [bUnlock, fin_lk, lockRel, hcs, upd_other _ _ _ _ hun]; exact hfree u hu
      · simp only [needSteps, bUnlock, fin_brest, fin_batX, lockRel, hx, hb, List.length_cons]; simp; omega
      · intro hc; rw [hb] at hc; left; simp only [bUnlock, fin_brest]; simpa using hc
      · intro hn
        rw [hb] at hn
        simp only [bUnlock, fin_brest, fin_cache, lockRel]
        simp at hn; exact ⟨hn, trivial⟩

theorem finishUpdate_spec (c : Cfg) (hc : CfgOK c) :
    ∀ (fuel : Nat) (s : St), RInv c s → (∀ u, u < c.n → s.lk.inCS u = false) → needSteps s ≤ fuel →
      RInv c (finishUpdate c fuel s) ∧ (finishUpdate c fuel s).brest = [] ∧ (finishUpdate c fuel s).fr = s.fr ∧
      (finishUpdate c fuel s).list = s.list ∧ (∀ u, u < c.n → (finishUpdate c fuel s).lk.inCS u = false) ∧
      (BInstr.copy ∈ s.brest → (finishUpdate c fuel s).cache = s.list) ∧
      (BInstr.copy ∉ s.brest → (finishUpdate c fuel s).cache = s.cache)
  | 0, s, h, hfree, hn => by
    have hb : s.brest = [] := by
      cases hb : s.brest with
      | nil => rfl
      | cons a r => simp only [needSteps, hb, List.length_cons] at hn; split at hn <;> omega
    have e : finishUpdate c 0 s = s := rfl
    rw [e]
    refine ⟨h, hb, rfl, rfl, hfree, ?_, fun _ => rfl⟩
    rw [hb]; intro hx; cases hx
  | fuel + 1, s, h, hfree, hn => by
    by_cases hb : s.brest = []
    · have e : finishUpdate c (fuel + 1) s = s := by simp only [finishUpdate, hb, if_true]
      rw [e]
      refine ⟨h, hb, rfl, rfl, hfree, ?_, fun _ => rfl⟩
      rw [hb]; intro hx; cases hx
    · have e : finishUpdate c (fuel + 1) s = finishUpdate c fuel (bstep c s (s.lockHist.length - 1)) := by
        simp only [finishUpdate, hb, if_false]
      rw [e]
      have hs := solo_step c s h hfree hb
      have hi := bstep_inv c hc s (s.lockHist.length - 1) h
      have ih := finishUpdate_spec c hc fuel _ hi hs.free (by have := hs.dec; omega)
      obtain ⟨i1, i2, i3, i4, i5, i6, i7⟩ := ih
      refine ⟨i1, i2, by rw [i3, hs.fr], by rw [i4, hs.list], i5, ?_, ?_⟩
      · intro hc
        by_cases hc1 : BInstr.copy ∈ (bstep c s (s.lockHist.length - 1)).brest
        · rw [i6 hc1, hs.list]
        · rw [i7 hc1]
          rcases hs.copyIn hc with h1 | h1
          · exact absurd h1 hc1
          · exact h1
      · intro hc
        obtain ⟨h1, h2⟩ := hs.copyOut hc
        rw [i7 h1, h2]

end Reg

/-! ## P2 — the failure counter -/
namespace Ctr

def CfgOK (c : Cfg) : Prop := c.incRmw = true ∧ c.resetXchg = true
instance (c : Cfg) : Decidable (CfgOK c) := by unfold CfgOK; infer_instance

theorem newest_append (h : List Nat) (v : Nat) : newest (h ++ [v]) = v := by simp [newest]

theorem valAt_last (h : List Nat) : valAt h (h.length - 1) = newest h := by
  simp [valAt, newest, List.getLast?_eq_getElem?]

/-- conservation: what was handed out plus what is still in the counter is what was counted -/
def CInv (s : St) : Prop := s.returns.sum + newest s.hist = s.incs

theorem init_inv : CInv ({} : St) := by simp [CInv, newest]

theorem reset_inv (c : Cfg) (hc : CfgOK c) (s : St) (v : Nat) (h : CInv s) : CInv (reset c s v) := by
  unfold CInv at *
  simp only [reset, hc.2, if_true, newest_append, List.sum_append, List.sum_cons, List.sum_nil]
  omega

theorem step_inv (c : Cfg) (hc : CfgOK c) (s : St) (op : Op) (h : CInv s) : CInv (step c s op) := by
  cases op with
  | inc t i =>
    simp only [step, hc.1, if_true]
    unfold CInv at *
    simp only [newest_append]
    omega
  | get i =>
    simp only [step]
    cases hb : s.bpend with
    | some v => exact reset_inv c hc s v h
    | none =>
      simp only []
      by_cases hp : c.preLoad = true
      · simp only [hp, if_true]
        by_cases hz : valAt s.hist i = 0
        · simp only [hz, if_true]
          unfold CInv at *
          simp only [List.sum_append, List.sum_cons, List.sum_nil]
          omega
        · simp only [hz, if_false]; exact h
      · simp only [hp, Bool.false_eq_true, if_false]; exact reset_inv c hc s 0 h

theorem reachable_inv (c : Cfg) (hc : CfgOK c) :
    ∀ (ops : List Op) (s : St), CInv s → CInv (run c s ops)
  | [], _, h => h
  | op :: ops, s, h => reachable_inv c hc ops _ (step_inv c hc s op h)

/-- the backend alone: one whole call of `get_and_reset_failure_counter` whose load returns the newest store -/
def getSolo (c : Cfg) (s : St) : St :=
  let s1 := step c s (.get (s.hist.length - 1))
  if s1.bpend.isSome then step c s1 (.get 0) else s1

end Ctr
