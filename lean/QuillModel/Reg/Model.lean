import QuillModel.Spin.Model
/-!
# Registration of a thread context and the failure counter (`core/ThreadContextManager.h`)

Two small protocols between frontend threads and the backend thread, over the same view semantics as `Spin/Model.lean`
(every atomic location keeps its store history, modification order = execution order; a plain load may return any store
not older than the newest one the thread has already observed — the schedule picks the index; a read-modify-write reads the
newest store).

**P1 — registration** (`namespace Reg`). `ThreadContextManager::register_thread_context` is a straight-line program over
`lock()` / `push_back` / `unlock()` / `_new_thread_context_flag.store(true)`; the backend's
`_update_active_thread_contexts_cache` loads the flag (`new_thread_context_flag()`), and when it reads `true` runs a
straight-line program over `store(false)` / `cache.clear()` / `lock()` / copy / `unlock()`. Both programs are *extracted*
from the headers (`Extracted.regProg`, `Extracted.updProg`); the model interprets them one atomic access (or one plain
access of the guarded list) per step. The manager's spinlock is the proved model `Spin.St` (`lk`): `lock()` is the relaxed
test loop plus `Spin.Op.attempt`, `unlock()` is `Spin.Op.unlock`, every access of the list is `Spin.Op.access` and is checked
against `Spin.Safe` (`raced`). The flag accesses transfer no view in the model, whatever their memory order: the invariant
does not rest on them (the code loads the flag relaxed).

**P2 — failure counter** (`namespace Ctr`). `increment_failure_counter` (`fetch_add`) against
`get_and_reset_failure_counter` (`load`; zero → return 0; `exchange(0)`), with the variants "plain store of zero, return the
loaded value" and "increment by load + store" for the negative witnesses.
-/
namespace Reg
open Spin (upd)

inductive FInstr | lock | push | unlock | setFlag
  deriving DecidableEq, Repr, Inhabited

inductive BInstr | reset | clear | lock | copy | unlock
  deriving DecidableEq, Repr, Inhabited

structure Cfg where
  fprog : List FInstr     -- body of `register_thread_context`
  bprog : List BInstr     -- what the backend does after the flag load returned `true`
  ord : Spin.Orders       -- memory orders of the manager's spinlock
  n : Nat                 -- registering threads `0 … n-1`; the backend is thread `n`

/-- one registering thread -/
structure FTh where
  rest : List FInstr          -- instructions still to execute (`[]` = `register_thread_context` returned)
  atX : Bool := false         -- inside `lock()`: the test loop read `Free`, the next access is the `exchange`
  acq : Bool := false         -- ghost: `lock()` has returned
  flagged : Bool := false     -- ghost: the flag store has been executed

structure St where
  lk : Spin.St                          -- the spinlock; `lk.data` = version of the guarded list `_thread_contexts`
  lockHist : List Bool := [false]       -- store history of the lock flag (for the relaxed test loop)
  lockSeen : Nat → Nat := fun _ => 0    -- per thread: newest index of `lockHist` observed
  flagHist : List Bool := [false]       -- store history of `_new_thread_context_flag`
  flagSeen : Nat := 0                   -- newest index of `flagHist` the backend has observed (only the backend loads it)
  fr : Nat → FTh
  brest : List BInstr := []             -- rest of the update in progress (`[]` = at the flag load)
  batX : Bool := false
  list : List Nat := []                 -- `_thread_contexts` (a context is named by its thread)
  cache : List Nat := []                -- `_active_thread_contexts_cache`
  raced : Bool := false                 -- some access of the list was not `Spin.Safe`
  updates : Nat := 0                    -- completed calls of `_update_active_thread_contexts_cache`

def init (c : Cfg) : St := { lk := { nthreads := c.n + 1 }, fr := fun _ => { rest := c.fprog } }

def newest (h : List Bool) : Bool := h.getLast?.getD false
def valAt (h : List Bool) (i : Nat) : Bool := h[i]?.getD false

/-- `exchange(Locked, …)` by thread `t` -/
def lockXchg (c : Cfg) (s : St) (t : Nat) : St :=
  { s with lk := Spin.step c.ord s.lk (.attempt t), lockHist := s.lockHist ++ [true],
           lockSeen := upd s.lockSeen t s.lockHist.length }

/-- `store(Free, …)` by thread `t` -/
def lockRel (c : Cfg) (s : St) (t : Nat) : St :=
  { s with lk := Spin.step c.ord s.lk (.unlock t), lockHist := s.lockHist ++ [false],
           lockSeen := upd s.lockSeen t s.lockHist.length }

/-- plain access of `_thread_contexts` by thread `t` -/
def listAccess (c : Cfg) (s : St) (t : Nat) : St :=
  { s with lk := Spin.step c.ord s.lk (.access t), raced := s.raced || !(s.lk.seen t == s.lk.data) }

/-! one function per instruction (the step functions below only dispatch) -/

/-- relaxed test load of `lock()`: reads `lockHist[i]` -/
def fLockTest (s : St) (t i : Nat) : St :=
  { s with lockSeen := upd s.lockSeen t i, fr := upd s.fr t { s.fr t with atX := !(valAt s.lockHist i) } }
/-- the `exchange` read `Locked`: back to the test loop -/
def fLockFail (c : Cfg) (s : St) (t : Nat) : St :=
  { lockXchg c s t with fr := upd s.fr t { s.fr t with atX := false } }
/-- the `exchange` read `Free`: `lock()` returns -/
def fLockGot (c : Cfg) (s : St) (t : Nat) (r : List FInstr) : St :=
  { lockXchg c s t with fr := upd s.fr t { s.fr t with rest := r, atX := false, acq := true } }
def fPush (c : Cfg) (s : St) (t : Nat) (r : List FInstr) : St :=
  { listAccess c s t with list := s.list ++ [t], fr := upd s.fr t { s.fr t with rest := r } }
def fUnlock (c : Cfg) (s : St) (t : Nat) (r : List FInstr) : St :=
  { lockRel c s t with fr := upd s.fr t { s.fr t with rest := r } }
def fSetFlag (s : St) (t : Nat) (r : List FInstr) : St :=
  { s with flagHist := s.flagHist ++ [true], fr := upd s.fr t { s.fr t with rest := r, flagged := true } }

/-- one step of registering thread `t`; `i` = index of `lockHist` read if the step is the test load -/
def fstep (c : Cfg) (s : St) (t i : Nat) : St :=
  match (s.fr t).rest with
  | [] => s
  | .lock :: r =>
    if (s.fr t).atX then (if s.lk.locked then fLockFail c s t else fLockGot c s t r) else fLockTest s t i
  | .push :: r => fPush c s t r
  | .unlock :: r => fUnlock c s t r
  | .setFlag :: r => fSetFlag s t r

/-- the update call returns when its program is exhausted -/
def fin (s : St) : St := if s.brest = [] then { s with updates := s.updates + 1 } else s

/-- the flag load of `new_thread_context_flag()` read `true` / `false` -/
def bLoadTrue (c : Cfg) (s : St) (i : Nat) : St := fin { s with flagSeen := i, brest := c.bprog }
def bLoadFalse (s : St) (i : Nat) : St := { s with flagSeen := i, updates := s.updates + 1 }
def bReset (s : St) (r : List BInstr) : St :=
  fin { s with flagHist := s.flagHist ++ [false], flagSeen := s.flagHist.length, brest := r }
def bClear (s : St) (r : List BInstr) : St := fin { s with cache := [], brest := r }
def bLockTest (c : Cfg) (s : St) (i : Nat) : St :=
  { s with lockSeen := upd s.lockSeen c.n i, batX := !(valAt s.lockHist i) }
def bLockFail (c : Cfg) (s : St) : St := { lockXchg c s c.n with batX := false }
def bLockGot (c : Cfg) (s : St) (r : List BInstr) : St := fin { lockXchg c s c.n with batX := false, brest := r }
def bCopy (c : Cfg) (s : St) (r : List BInstr) : St := fin { listAccess c s c.n with cache := s.list, brest := r }
def bUnlock (c : Cfg) (s : St) (r : List BInstr) : St := fin { lockRel c s c.n with brest := r }

/-- one step of the backend; `i` = index read if the step is a load (flag load at the start of an update, or the lock's
    test load) -/
def bstep (c : Cfg) (s : St) (i : Nat) : St :=
  match s.brest with
  | [] => if valAt s.flagHist i then bLoadTrue c s i else bLoadFalse s i
  | .reset :: r => bReset s r
  | .clear :: r => bClear s r
  | .lock :: r => if s.batX then (if s.lk.locked then bLockFail c s else bLockGot c s r) else bLockTest c s i
  | .copy :: r => bCopy c s r
  | .unlock :: r => bUnlock c s r

inductive Op
  | f (t i : Nat)
  | b (i : Nat)
  deriving Repr

def step (c : Cfg) (s : St) : Op → St
  | .f t i => fstep c s t i
  | .b i => bstep c s i

/-- a load may only return a store that exists and is not older than what the thread has observed -/
def Enabled (c : Cfg) (s : St) : Op → Prop
  | .f t i => t < c.n ∧ (s.fr t).rest ≠ [] ∧
      ((s.fr t).rest.head? = some .lock ∧ (s.fr t).atX = false → s.lockSeen t ≤ i ∧ i < s.lockHist.length)
  | .b i => (s.brest = [] → s.flagSeen ≤ i ∧ i < s.flagHist.length) ∧
      (s.brest.head? = some .lock ∧ s.batX = false → s.lockSeen c.n ≤ i ∧ i < s.lockHist.length)

instance (c : Cfg) (s : St) (op : Op) : Decidable (Enabled c s op) := by cases op <;> unfold Enabled <;> infer_instance

def Run (c : Cfg) : St → List Op → Prop
  | _, [] => True
  | s, op :: ops => Enabled c s op ∧ Run c (step c s op) ops

def run (c : Cfg) : St → List Op → St
  | s, [] => s
  | s, op :: ops => run c (step c s op) ops

def decRun (c : Cfg) : (s : St) → (ops : List Op) → Decidable (Run c s ops)
  | _, [] => isTrue trivial
  | s, op :: ops =>
      match (inferInstance : Decidable (Enabled c s op)), decRun c (step c s op) ops with
      | isTrue h1, isTrue h2 => isTrue ⟨h1, h2⟩
      | isFalse h1, _ => isFalse (fun h => h1 h.1)
      | _, isFalse h2 => isFalse (fun h => h2 h.2)
instance (c : Cfg) (s : St) (ops : List Op) : Decidable (Run c s ops) := decRun c s ops

/-! ### well-formed programs (decidable; discharged for the extracted programs in `Obligations/Reg.lean`) -/

/-- `register_thread_context`: `lock()` once; the list is touched and the lock released only while it is held; the flag
    store comes after `lock()` returned (anywhere after it: inside the critical section or after `unlock()`) -/
def wfF : (held acq : Bool) → List FInstr → Bool
  | held, _, [] => !held
  | held, acq, .lock :: r => !held && !acq && wfF true true r
  | held, acq, .push :: r => held && wfF held acq r
  | held, acq, .unlock :: r => held && wfF false acq r
  | held, acq, .setFlag :: r => acq && wfF held acq r

/-- the backend after reading `true`: the reset and the clearing of the cache come before the copy; the copy is made, and
    the lock released, only while the lock is held -/
def wfB : (held : Bool) → List BInstr → Bool
  | held, [] => !held
  | held, .reset :: r => r.contains .copy && wfB held r
  | held, .clear :: r => r.contains .copy && wfB held r
  | held, .lock :: r => !held && wfB true r
  | held, .copy :: r => held && wfB held r
  | held, .unlock :: r => held && wfB false r

def CfgOK (c : Cfg) : Prop :=
  wfF false false c.fprog = true ∧ c.fprog.contains .setFlag = true ∧ c.fprog.contains .push = true ∧
  wfB false c.bprog = true ∧ c.bprog.contains .reset = true ∧ Spin.OrdersOK c.ord
instance (c : Cfg) : Decidable (CfgOK c) := by unfold CfgOK; infer_instance

/-- the code as it stands -/
def codeF : List FInstr := [.lock, .push, .unlock, .setFlag]
def codeB : List BInstr := [.reset, .clear, .lock, .copy, .unlock]

/-- the backend alone, newest-value loads: run the update in progress to its end (`fuel` ≥ twice the number of remaining
    instructions suffices when no registering thread holds the lock) -/
def finishUpdate (c : Cfg) : Nat → St → St
  | 0, s => s
  | fuel + 1, s =>
    if s.brest = [] then s else finishUpdate c fuel (bstep c s (s.lockHist.length - 1))

/-- the backend alone: one whole call of the update function whose flag load returns the newest store -/
def soloUpdate (c : Cfg) (s : St) : St :=
  let s1 := bstep c s (s.flagHist.length - 1)
  finishUpdate c (2 * s1.brest.length) s1

end Reg

/-! ## P2 — the failure counter -/
namespace Ctr

structure Cfg where
  incRmw : Bool      -- `increment_failure_counter` is one read-modify-write (`fetch_add`)
  preLoad : Bool     -- `get_and_reset_failure_counter` tests a plain load first and returns 0 on zero
  resetXchg : Bool   -- the reset is `exchange(0)` and its result is returned (otherwise: `store(0)`, return the loaded value)
  deriving DecidableEq, Repr

structure St where
  hist : List Nat := [0]                     -- store history of `_failure_counter`
  seenB : Nat := 0                           -- newest index the backend has observed
  seenF : Nat → Nat := fun _ => 0            -- (only used when the increment is not a read-modify-write)
  fpend : Nat → Option Nat := fun _ => none  -- increment by load + store: the loaded value, store pending
  bpend : Option Nat := none                 -- backend: the non-zero value loaded, reset pending
  incs : Nat := 0                            -- ghost: completed calls of `increment_failure_counter`
  returns : List Nat := []                   -- ghost: values returned by `get_and_reset_failure_counter`, oldest first

def newest (h : List Nat) : Nat := h.getLast?.getD 0
def valAt (h : List Nat) (i : Nat) : Nat := h[i]?.getD 0

inductive Op
  | inc (t i : Nat)    -- one atomic access of thread `t` inside `increment_failure_counter`
  | get (i : Nat)      -- one atomic access of the backend inside `get_and_reset_failure_counter`
  deriving Repr

def upd {β} (f : Nat → β) (i : Nat) (v : β) : Nat → β := fun k => if k = i then v else f k

def reset (c : Cfg) (s : St) (loaded : Nat) : St :=
  if c.resetXchg then
    { s with hist := s.hist ++ [0], seenB := s.hist.length, bpend := none, returns := s.returns ++ [newest s.hist] }
  else
    { s with hist := s.hist ++ [0], seenB := s.hist.length, bpend := none, returns := s.returns ++ [loaded] }

def step (c : Cfg) (s : St) : Op → St
  | .inc t i =>
    if c.incRmw then { s with hist := s.hist ++ [newest s.hist + 1], incs := s.incs + 1 }
    else match s.fpend t with
      | none => { s with fpend := upd s.fpend t (some (valAt s.hist i)), seenF := upd s.seenF t i }
      | some v => { s with hist := s.hist ++ [v + 1], seenF := upd s.seenF t s.hist.length, fpend := upd s.fpend t none,
                           incs := s.incs + 1 }
  | .get i =>
    match s.bpend with
    | some v => reset c s v
    | none =>
      if c.preLoad then
        if valAt s.hist i = 0 then { s with seenB := i, returns := s.returns ++ [0] }
        else { s with seenB := i, bpend := some (valAt s.hist i) }
      else reset c s 0

def Enabled (c : Cfg) (s : St) : Op → Prop
  | .inc t i => c.incRmw = false ∧ s.fpend t = none → s.seenF t ≤ i ∧ i < s.hist.length
  | .get i => c.preLoad = true ∧ s.bpend = none → s.seenB ≤ i ∧ i < s.hist.length

instance (c : Cfg) (s : St) (op : Op) : Decidable (Enabled c s op) := by cases op <;> unfold Enabled <;> infer_instance

def Run (c : Cfg) : St → List Op → Prop
  | _, [] => True
  | s, op :: ops => Enabled c s op ∧ Run c (step c s op) ops

def run (c : Cfg) : St → List Op → St
  | s, [] => s
  | s, op :: ops => run c (step c s op) ops

def decRun (c : Cfg) : (s : St) → (ops : List Op) → Decidable (Run c s ops)
  | _, [] => isTrue trivial
  | s, op :: ops =>
      match (inferInstance : Decidable (Enabled c s op)), decRun c (step c s op) ops with
      | isTrue h1, isTrue h2 => isTrue ⟨h1, h2⟩
      | isFalse h1, _ => isFalse (fun h => h1 h.1)
      | _, isFalse h2 => isFalse (fun h => h2 h.2)
instance (c : Cfg) (s : St) (ops : List Op) : Decidable (Run c s ops) := decRun c s ops

/-- the code as it stands -/
def code : Cfg := { incRmw := true, preLoad := true, resetXchg := true }

end Ctr
