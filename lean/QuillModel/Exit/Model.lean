/-!
# Signal handler, start/stop life-cycle and exit paths of quill (C07) — executable model, no proofs

Anchors: `backend/SignalHandler.h` (`detail::on_signal`, `detail::on_alarm`, `detail::init_signal_handler`,
`SignalHandlerContext`, `SignalHandlerOptions`), `Backend.h` (`start`, `start<TFrontendOptions>(BackendOptions,
SignalHandlerOptions)`, `stop`, the `std::atexit` registration), `backend/BackendManager.h`
(`start_backend_thread`, `stop_backend_thread`, the once-flag), `backend/BackendWorker.h` (`run`, `stop`; `_exit`
itself is `Backend.exitLoop` of the end-to-end model), `backend/ManualBackendWorker.h` (`~ManualBackendWorker`).

Three layers:

* `onSignal` — the handler as a pure decision function: context ↦ the calls it makes, in order. `Prog` is the
  control-flow skeleton of the C++ body as *extracted* from the header; `Prog.actions` interprets it and
  `Obligations/Exit.lean` proves that it agrees with `onSignal` on every context.
* `exec` — what those calls do to the calling thread's queue and to the process: a notice is appended to the
  *caller's own* queue (behind everything that thread enqueued before: per-thread FIFO, C03); `flush` has the
  contract of `flush_log` (C06: returns only after everything the caller enqueued earlier is written and the
  sinks flushed) when a backend thread runs and never returns otherwise; `exit` runs the `atexit` handler
  (`stop` → `_exit` drain → join); re-raising with the default action restored ends the process by that signal.
* `Life` — the start/stop state machine: once-flag, running flag, worker thread id, the id cached in the
  `SignalHandlerContext`, the registered `atexit` handlers.

What is *not* here (run-time behaviour, enumerated by harness H4 only): wait statuses, the order in which
`atexit` handlers and static destructors run, the signal mask inherited by the backend thread, the `alarm`
time-out, `pause()`.
-/
namespace Exit

/-! ## signals -/

/-- the signals the model distinguishes; `usr1` stands for any other signal a user may list in
    `catchable_signals` whose default action terminates the process -/
inductive Sig
  | segv | abrt | fpe | ill | int | term | alrm | usr1
  deriving DecidableEq, Repr, Inhabited

def Sig.all : List Sig := [.segv, .abrt, .fpe, .ill, .int, .term, .alrm, .usr1]

def Sig.name : Sig → String
  | .segv => "SIGSEGV" | .abrt => "SIGABRT" | .fpe => "SIGFPE" | .ill => "SIGILL"
  | .int => "SIGINT" | .term => "SIGTERM" | .alrm => "SIGALRM" | .usr1 => "SIGUSR1"

def Sig.ofName (s : String) : Option Sig := Sig.all.find? (fun x => x.name == s)

/-- Linux numbering (what `WTERMSIG` reports in the harness) -/
def Sig.num : Sig → Nat
  | .segv => 11 | .abrt => 6 | .fpe => 8 | .ill => 4 | .int => 2 | .term => 15 | .alrm => 14 | .usr1 => 10

/-- the signals property C07 speaks about -/
def handled : List Sig := [.segv, .abrt, .fpe, .ill, .int, .term]

/-- `signal_number == SIGINT || signal_number == SIGTERM` -/
def Sig.graceful (s : Sig) : Bool := s == .int || s == .term

/-! ## the handler as a decision function -/

/-- the calls `on_signal` can make -/
inductive Action
  | park            -- `pause()` (a later entrant)
  | storeSignal     -- `signal_number.store(signal_number)`
  | setAlarm        -- `alarm(timeout)`
  | logNotice       -- `QUILL_SIGNAL_HANDLER_LOG(logger, LogLevel::Info, "Received signal: …")`
  | logCritical     -- `QUILL_SIGNAL_HANDLER_LOG(logger, LogLevel::Critical, "Program terminated unexpectedly …")`
  | flush           -- `logger->flush_log(0)`
  | exitSuccess     -- `std::exit(EXIT_SUCCESS)` (does not return)
  | restoreDefault  -- `std::signal(signal_number, SIG_DFL)`
  | reraise         -- `std::raise(signal_number)`
  | ret             -- control reaches the end of the handler
  deriving DecidableEq, Repr, Inhabited

def Action.name : Action → String
  | .park => "park" | .storeSignal => "storeSignal" | .setAlarm => "setAlarm" | .logNotice => "logNotice"
  | .logCritical => "logCritical" | .flush => "flush" | .exitSuccess => "exitSuccess"
  | .restoreDefault => "restoreDefault" | .reraise => "reraise" | .ret => "return"

/-- what the handler can see -/
structure Ctx where
  sig : Sig
  first : Bool          -- `lock.fetch_add(1)` returned 0
  parkReturns : Bool    -- environment: `pause()` came back (a handler ran on the parked thread and returned)
  backendIdSet : Bool   -- `SignalHandlerContext::backend_thread_id != 0`
  onBackend : Bool      -- `get_thread_id() == backend_thread_id`
  hasLogger : Bool      -- `SignalHandlerContext::get_logger() != nullptr`
  reraise : Bool        -- `should_reraise_signal`
  deriving DecidableEq, Repr, Inhabited

/-- `detail::on_signal`, branch by branch -/
def onSignal (x : Ctx) : List Action :=
  if !x.first && !x.parkReturns then [.park]
  else
    (if x.first then [] else [.park]) ++ [.storeSignal, .setAlarm] ++
    (if !x.backendIdSet || x.onBackend then
      -- "backend worker thread is not running or the signal handler is called in the backend worker thread"
      if x.sig.graceful then [.exitSuccess]
      else if x.reraise then [.restoreDefault, .reraise, .ret]
      else [.ret]
    else if !x.hasLogger then [.ret]
    else if x.sig.graceful then [.logNotice, .flush, .exitSuccess]
    else if x.reraise then [.logNotice, .logCritical, .flush, .restoreDefault, .reraise, .ret]
    else [.logNotice, .flush, .ret])

/-- the frontend branch: first entrant, backend id published, not the backend thread, a logger exists, re-raise on -/
def Ctx.frontend (s : Sig) (parkReturns : Bool) : Ctx :=
  { sig := s, first := true, parkReturns := parkReturns, backendIdSet := true, onBackend := false,
    hasLogger := true, reraise := true }

/-! ### the extracted control-flow skeleton and its interpreter -/

/-- the conditions `on_signal` tests -/
inductive Cond
  | notFirst              -- `lock != 0`
  | backendIdZero         -- `backend_thread_id == 0`
  | onBackendThread       -- `current_thread_id == backend_thread_id`
  | sigIn (l : List Sig)  -- `signal_number == A || signal_number == B …`
  | shouldReraise         -- `should_reraise_signal`
  | hasLogger             -- `logger_base`
  | or (a b : Cond)
  deriving Repr, Inhabited

/-- statement list with structured `if`: `act a k` = call `a`, then `k`; `ite c t e k` = `if (c) {t} else {e}`, then `k` -/
inductive Prog
  | done
  | act (a : Action) (k : Prog)
  | ite (c : Cond) (t e k : Prog)
  deriving Repr, Inhabited

def Cond.eval (x : Ctx) : Cond → Bool
  | .notFirst => !x.first
  | .backendIdZero => !x.backendIdSet
  | .onBackendThread => x.onBackend
  | .sigIn l => l.contains x.sig
  | .shouldReraise => x.reraise
  | .hasLogger => x.hasLogger
  | .or a b => a.eval x || b.eval x

/-- a call after which control does not come back to the handler -/
def stopsFlow (x : Ctx) (a : Action) : Bool :=
  a == .exitSuccess || (a == .park && !x.parkReturns)

/-- (calls made, control flow ended inside) -/
def Prog.run (x : Ctx) : Prog → List Action × Bool
  | .done => ([], false)
  | .act a k =>
    if stopsFlow x a then ([a], true)
    else let r := k.run x; (a :: r.1, r.2)
  | .ite c t e k =>
    let r := if c.eval x then t.run x else e.run x
    if r.2 then r
    else let r2 := k.run x; (r.1 ++ r2.1, r2.2)

def Prog.actions (p : Prog) (x : Ctx) : List Action :=
  let r := p.run x
  if r.2 then r.1 else r.1 ++ [.ret]

/-- every context (for the `decide`d agreement obligation) -/
def allCtx : List Ctx :=
  Sig.all.flatMap fun s =>
  [true, false].flatMap fun a => [true, false].flatMap fun b => [true, false].flatMap fun c =>
  [true, false].flatMap fun d => [true, false].flatMap fun e => [true, false].map fun f =>
    { sig := s, first := a, parkReturns := b, backendIdSet := c, onBackend := d, hasLogger := e, reraise := f }

/-- `detail::on_alarm`: (stored signal number or none) ↦ the signal it restores the default action of and raises -/
def onAlarm (stored : Option Sig) : Sig := stored.getD .alrm

/-! ## effect of the calls on the calling thread's queue and on the process -/

inductive Item
  | stmt (id : Nat) | notice | critical
  deriving DecidableEq, Repr, Inhabited

/-- one frontend thread as the destination sees it -/
structure Fe where
  queue : List Item := []     -- enqueued by this thread, not yet written (oldest first)
  written : List Item := []   -- this thread's lines in the destination, in file order
  deriving DecidableEq, Repr, Inhabited

inductive Outcome
  | exit0                -- `exit(EXIT_SUCCESS)`: `WIFEXITED`, status 0
  | diedBy (s : Sig)     -- default action of `s`: `WIFSIGNALED`, `WTERMSIG = s`
  | continues            -- the handler returned and the program goes on
  | hangs                -- blocked for ever (until something else ends the process)
  deriving DecidableEq, Repr, Inhabited

structure Env where
  backendRunning : Bool        -- a backend thread is serving the queues
  infoOn : Bool := true        -- the logger's level lets `Info` through
  critOn : Bool := true        -- … `Critical`
  waitOnExit : Bool := true    -- `wait_for_queues_to_empty_before_exit`
  /-- the handler's wait for its flush request ends when the backend thread is gone (candidate repair of F27,
      `findings/F27_candidate_repair.diff`; extracted: `flushEndsWhenBackendGone`; the current code waits for ever) -/
  flushGivesUp : Bool := false
  deriving DecidableEq, Repr, Inhabited

def Fe.log (f : Fe) (x : Item) : Fe := { f with queue := f.queue ++ [x] }

/-- contract of `flush_log` (C06) / of the exit drain (`exitLoop`): everything enqueued is written, in queue order -/
def Fe.drain (f : Fe) : Fe := { queue := [], written := f.written ++ f.queue }

/-- run the handler's calls. `restored`: the default action is in force; `pending`: the signal was raised while
    blocked (glibc `std::signal` installs the handler with the signal itself masked) and fires on return. -/
def exec (e : Env) (sig : Sig) : List Action → (restored pending : Bool) → Fe → Fe × Outcome
  | [], _, _, f => (f, .continues)
  | .park :: rest, r, p, f => if rest.isEmpty then (f, .hangs) else exec e sig rest r p f
  | .storeSignal :: rest, r, p, f => exec e sig rest r p f
  | .setAlarm :: rest, r, p, f => exec e sig rest r p f
  | .logNotice :: rest, r, p, f => exec e sig rest r p (if e.infoOn then f.log .notice else f)
  | .logCritical :: rest, r, p, f => exec e sig rest r p (if e.critOn then f.log .critical else f)
  | .flush :: rest, r, p, f =>
    if e.backendRunning then exec e sig rest r p f.drain
    else if e.flushGivesUp then exec e sig rest r p f   -- nobody serves it: the request stays queued, the handler goes on
    else (f, .hangs)
  | .exitSuccess :: _, _, _, f =>
    -- `exit` → the `atexit` handler → `stop_backend_thread` → `_exit` drain (if enabled) → join
    (if e.backendRunning && e.waitOnExit then f.drain else f, .exit0)
  | .restoreDefault :: rest, _, p, f => exec e sig rest true p f
  | .reraise :: rest, r, _, f => exec e sig rest r true f
  | .ret :: _, r, p, f =>
    if p then
      -- the pending signal is delivered: default action, or the handler again (now a later entrant: parks)
      (f, if r then .diedBy sig else .hangs)
    else (f, .continues)

/-- the handler's notices, as far as the logger's level lets them through -/
def notices (e : Env) (s : Sig) : List Item :=
  (if e.infoOn then [.notice] else []) ++ (if s.graceful || !e.critOn then [] else [.critical])

/-! ## a process-directed signal (`kill(pid, sig)`) with several threads

The kernel hands a process-directed signal to *one* thread that does not block it (Linux tries the main thread
first; any other choice is allowed). The handler distinguishes the receiving thread only by
`get_thread_id() == backend_thread_id`; whether that thread has a thread context (has logged or preallocated) is
invisible to it — its first log call creates the context inside the handler. -/

/-- class of the thread the handler runs on -/
inductive Receiver
  | logged        -- a frontend thread that has logged before (the premise of the property)
  | neverLogged   -- a frontend thread without a thread context: nothing of it is queued or written
  | backend       -- the backend thread
  deriving DecidableEq, Repr, Inhabited

structure Thr where
  cls : Receiver
  blocked : Bool      -- the signal is blocked in this thread's mask
  deriving DecidableEq, Repr, Inhabited

/-- the threads the kernel may choose -/
def candidates (ts : List Thr) : List Receiver := (ts.filter fun t => !t.blocked).map (·.cls)

/-- what the handler sees on a thread of class `r` while a backend started with the handler runs (first entrant,
    a logger exists, re-raise on) -/
def Receiver.ctx (r : Receiver) (s : Sig) (pr : Bool) : Ctx :=
  { sig := s, first := true, parkReturns := pr, backendIdSet := true, onBackend := r == .backend, hasLogger := true, reraise := true }

/-- the handler on the receiving thread; `own`: that thread's queue and lines -/
def killOutcome (e : Env) (s : Sig) (pr : Bool) (r : Receiver) (own : Fe) : Fe × Outcome :=
  exec e s (onSignal (r.ctx s pr)) false false own

/-! ## start / stop life-cycle -/

/-- structural facts read from the headers -/
structure LParams where
  renewOnce : Bool         -- `stop_backend_thread` installs a fresh `std::once_flag`
  stopClearsId : Bool      -- `Backend::stop()` resets `SignalHandlerContext::backend_thread_id` (repair of F23)
  atexitClearsId : Bool    -- so does the `atexit` handler registered by the signal-handler overload of `start`
  /-- not a fact of the headers but the run-time option `BackendOptions::wait_for_queues_to_empty_before_exit` the
      backend is started with (its default is extracted: `waitForQueuesDefault`). With it off `BackendWorker::_exit`
      leaves at its first test: no queue is read any more, the failure counter is reported and the sinks are flushed -/
  waitOnExit : Bool := true
  deriving DecidableEq, Repr, Inhabited

/-- the code as repaired -/
def LParams.repaired : LParams := { renewOnce := true, stopClearsId := true, atexitClearsId := true }

inductive LOp
  | start      -- `Backend::start(options)`
  | startSH    -- `Backend::start<TFrontendOptions>(options, signal_handler_options)`
  | stop       -- `Backend::stop()`
  | exit       -- normal process exit: `atexit` handlers (newest first), then static destructors
  deriving DecidableEq, Repr, Inhabited

structure Life where
  onceDone : Bool := false      -- the current once-flag has fired
  running : Bool := false       -- `_is_worker_running`
  workerTid : Nat := 0          -- `BackendWorker::_worker_thread_id`
  ctxTid : Nat := 0             -- `SignalHandlerContext::backend_thread_id`
  handlers : Bool := false      -- `on_signal` / `on_alarm` installed
  atexits : List Bool := []     -- registered `atexit` handlers, newest first (`true`: registered by `startSH`)
  nextTid : Nat := 1            -- thread ids are fresh and non-zero
  spawned : Nat := 0            -- backend threads created
  joined : Nat := 0             -- backend threads that ran `_exit` and were joined
  exited : Bool := false
  finalDrains : Nat := 0        -- `~ManualBackendWorker` → `_exit()` during static destruction
  deriving DecidableEq, Repr, Inhabited

/-- `BackendWorker::stop`: nothing when not running; else clear the flag, wake, join (after `_exit`), forget the id -/
def Life.stopWorker (s : Life) : Life :=
  if s.running then { s with running := false, workerTid := 0, joined := s.joined + 1 } else s

/-- `BackendManager::stop_backend_thread` -/
def Life.stopBackendThread (P : LParams) (s : Life) : Life :=
  let s1 := s.stopWorker
  if P.renewOnce then { s1 with onceDone := false } else s1

/-- `BackendWorker::run`: spawn, wait until the thread has set the running flag -/
def Life.spawn (s : Life) : Life :=
  { s with running := true, workerTid := s.nextTid, nextTid := s.nextTid + 1, spawned := s.spawned + 1 }

/-- one registered `atexit` handler -/
def Life.runAtexit (P : LParams) (s : Life) (fromSH : Bool) : Life :=
  let s1 := s.stopBackendThread P
  if fromSH && P.atexitClearsId then { s1 with ctxTid := 0 } else s1

def Life.step (P : LParams) (s : Life) : LOp → Life
  | .start =>
    if s.exited || s.onceDone then s
    else
      let s1 := ({ s with onceDone := true } : Life).spawn
      { s1 with atexits := false :: s1.atexits }
  | .startSH =>
    if s.exited || s.onceDone then s
    else
      -- block every signal; install the handlers; spawn (the thread inherits the mask); publish its id;
      -- restore the mask; register the exit handler
      let s1 := ({ s with onceDone := true, handlers := true } : Life).spawn
      { s1 with ctxTid := s1.workerTid, atexits := true :: s1.atexits }
  | .stop =>
    if s.exited then s
    else
      let s1 := s.stopBackendThread P
      if P.stopClearsId then { s1 with ctxTid := 0 } else s1
  | .exit =>
    if s.exited then s
    else
      let s1 := s.atexits.foldl (Life.runAtexit P) s
      { s1 with exited := true, finalDrains := s1.finalDrains + 1 }

def Life.run (P : LParams) (s : Life) (ops : List LOp) : Life := ops.foldl (Life.step P) s

/-- one start/stop cycle as a program may write it: a start of either kind, `a` redundant starts, a stop,
    `b` redundant stops -/
structure Cycle where
  sh : Bool
  extraStarts : Nat
  extraStops : Nat
  deriving DecidableEq, Repr, Inhabited

def Cycle.ops (c : Cycle) : List LOp :=
  (if c.sh then LOp.startSH else LOp.start) :: List.replicate c.extraStarts LOp.start ++
    LOp.stop :: List.replicate c.extraStops LOp.stop

/-- what the handler sees when `sig` hits thread `thread` in life-cycle state `s` -/
def Life.ctx (s : Life) (thread : Nat) (sig : Sig) (first parkReturns hasLogger reraise : Bool) : Ctx :=
  { sig := sig, first := first, parkReturns := parkReturns, backendIdSet := s.ctxTid != 0,
    onBackend := thread == s.ctxTid, hasLogger := hasLogger, reraise := reraise }

def Life.env (s : Life) (infoOn critOn : Bool) : Env :=
  { backendRunning := s.running, infoOn := infoOn, critOn := critOn }

/-! ## a whole program: one logging thread, the life-cycle, the backend working in the background -/

/-- what the program's main thread (and the backend, in the background) can do -/
inductive POp
  | log (id : Nat)            -- a log statement (its call completes)
  | bg (k : Nat)              -- the running backend thread writes the `k` oldest queued items (any time, any amount)
  | life (op : LOp)           -- start / start with handler / stop / normal exit
  deriving DecidableEq, Repr, Inhabited

structure Sys where
  life : Life := {}
  fe : Fe := {}
  deriving DecidableEq, Repr, Inhabited

/-- the backend writes the `k` oldest queued items, in queue order -/
def Fe.write (f : Fe) (k : Nat) : Fe := { queue := f.queue.drop k, written := f.written ++ f.queue.take k }

def Sys.step (P : LParams) (s : Sys) : POp → Sys
  | .log id => if s.life.exited then s else { s with fe := s.fe.log (.stmt id) }
  | .bg k => if s.life.running then { s with fe := s.fe.write k } else s
  | .life .stop =>
    -- `_exit` runs on the backend thread before the join: the drain (contract of `exitLoop`)
    -- with the option off `_exit` reads nothing more: what is still queued stays queued (a later `start` serves it)
    { life := s.life.step P .stop, fe := if s.life.running && !s.life.exited && P.waitOnExit then s.fe.drain else s.fe }
  | .life .exit =>
    -- `atexit` handlers stop a running backend (drain + join); then `~ManualBackendWorker` runs `_exit()` once more
    -- (`_options` of the worker are those of the last `start`; a worker that was never started has the defaults: drains)
    { life := s.life.step P .exit, fe := if s.life.exited then s.fe else if P.waitOnExit || s.life.spawned == 0 then s.fe.drain else s.fe }
  | .life op => { s with life := s.life.step P op }

def Sys.run (P : LParams) (s : Sys) (ops : List POp) : Sys := ops.foldl (Sys.step P) s

/-- the statements whose log call completed, in program order -/
def logged : List POp → List Item
  | [] => []
  | .log id :: rest => .stmt id :: logged rest
  | _ :: rest => logged rest

/-- no operation after the process has exited -/
def noExit (ops : List POp) : Bool := ops.all (fun o => o != .life .exit)

end Exit
