import QuillModel.Exit.Proofs
/-! Program-level lemmas for C07: a logging thread, the life-cycle and the backend working in the background. -/
namespace Exit

/-- the life-cycle operations of a program, in order -/
def lifeOps : List POp → List LOp
  | [] => []
  | .life op :: rest => op :: lifeOps rest
  | _ :: rest => lifeOps rest

theorem Sys.step_life (P : LParams) (s : Sys) (op : POp) :
    (s.step P op).life = match op with | .life o => s.life.step P o | _ => s.life := by
  cases op with
  | log id => simp only [Sys.step]; split <;> rfl
  | bg k => simp only [Sys.step]; split <;> rfl
  | life o => cases o <;> rfl

theorem Sys.run_life (P : LParams) (ops : List POp) (s : Sys) :
    (s.run P ops).life = s.life.run P (lifeOps ops) := by
  induction ops generalizing s with
  | nil => rfl
  | cons op ops ih =>
    show ((s.step P op).run P ops).life = _
    rw [ih, Sys.step_life]
    cases op with
    | log id => rfl
    | bg k => rfl
    | life o => rfl

theorem Sys.run_append (P : LParams) (s : Sys) (a b : List POp) : s.run P (a ++ b) = (s.run P a).run P b := by
  simp [Sys.run, List.foldl_append]

theorem logged_append (a b : List POp) : logged (a ++ b) = logged a ++ logged b := by
  induction a with
  | nil => rfl
  | cons x a ih => cases x <;> simp [logged, ih]

theorem noExit_cons (x : POp) (l : List POp) : noExit (x :: l) = true ↔ x ≠ .life .exit ∧ noExit l = true := by
  simp [noExit]

/-- a life-cycle step other than exit never sets `exited` -/
theorem step_not_exited (P : LParams) (s : Life) (o : LOp) (ho : o ≠ .exit) (h : s.exited = false) :
    (s.step P o).exited = false := by
  cases o with
  | start => simp only [Life.step, Life.spawn]; split <;> simp_all
  | startSH => simp only [Life.step, Life.spawn]; split <;> simp_all
  | stop => simp only [Life.step, Life.stopBackendThread, Life.stopWorker, h]; simp; repeat' split <;> simp_all
  | exit => exact absurd rfl ho

/-- conservation at every point of every program: written ++ queued = the completed statements, in program order -/
theorem Sys.conservation (P : LParams) (ops : List POp) (s : Sys) (hx : s.life.exited = false) (hne : noExit ops = true) :
    (s.run P ops).fe.written ++ (s.run P ops).fe.queue = s.fe.written ++ s.fe.queue ++ logged ops ∧
    (s.run P ops).life.exited = false := by
  induction ops generalizing s with
  | nil => simp [Sys.run, logged, hx]
  | cons op ops ih =>
    obtain ⟨h1, h2⟩ := (noExit_cons op ops).mp hne
    have key : (s.step P op).fe.written ++ (s.step P op).fe.queue =
        s.fe.written ++ s.fe.queue ++ logged [op] ∧ (s.step P op).life.exited = false := by
      cases op with
      | log id => simp [Sys.step, hx, Fe.log, logged]
      | bg k =>
        simp only [Sys.step]
        split
        · simp [Fe.write, logged, hx, List.append_assoc]
        · simp [logged, hx]
      | life o =>
        cases o with
        | start => exact ⟨by simp [Sys.step, logged], step_not_exited P _ _ (by simp) hx⟩
        | startSH => exact ⟨by simp [Sys.step, logged], step_not_exited P _ _ (by simp) hx⟩
        | stop =>
          refine ⟨?_, step_not_exited P _ _ (by simp) hx⟩
          simp only [Sys.step, logged]
          split <;> simp [Fe.drain]
        | exit => exact absurd rfl h1
    obtain ⟨k1, k2⟩ := key
    obtain ⟨i1, i2⟩ := ih (s.step P op) k2 h2
    refine ⟨?_, i2⟩
    show ((s.step P op).run P ops).fe.written ++ ((s.step P op).run P ops).fe.queue = _
    rw [i1, k1]
    have : logged (op :: ops) = logged [op] ++ logged ops := logged_append [op] ops
    rw [this]; simp [List.append_assoc]

end Exit
