import QuillModel.Exit.Model
/-!
Helper lemmas for C07: completeness of the context enumeration, the effect of the handler's call lists, and
the life-cycle invariant `LInv` with its preservation by every operation.
-/
namespace Exit

/-! ## finite enumerations -/

theorem Sig.mem_all (s : Sig) : s ∈ Sig.all := by cases s <;> decide

theorem mem_allCtx (x : Ctx) : x ∈ allCtx := by
  obtain ⟨s, a, b, c, d, e, f⟩ := x
  simp only [allCtx, List.mem_flatMap, List.mem_map]
  refine ⟨s, Sig.mem_all s, a, by cases a <;> simp, b, by cases b <;> simp, c, by cases c <;> simp,
    d, by cases d <;> simp, e, by cases e <;> simp, f, by cases f <;> simp, rfl⟩

/-- a Boolean check that holds on the enumeration holds for every context -/
theorem forall_ctx_of_all {p : Ctx → Bool} (h : allCtx.all p = true) (x : Ctx) : p x = true :=
  List.all_eq_true.mp h x (mem_allCtx x)

theorem forall_sig_of_all {p : Sig → Bool} (h : Sig.all.all p = true) (s : Sig) : p s = true :=
  List.all_eq_true.mp h s (Sig.mem_all s)

/-! ## the handler's calls on a frontend thread -/

theorem onSignal_frontend (s : Sig) (pr : Bool) :
    onSignal (Ctx.frontend s pr) =
      if s.graceful then [.storeSignal, .setAlarm, .logNotice, .flush, .exitSuccess]
      else [.storeSignal, .setAlarm, .logNotice, .logCritical, .flush, .restoreDefault, .reraise, .ret] := by
  cases s <;> cases pr <;> rfl

theorem drain_log_log (f : Fe) (a b : Item) :
    ((f.log a).log b).drain = { queue := [], written := f.written ++ f.queue ++ [a, b] } := by
  simp [Fe.log, Fe.drain, List.append_assoc]

theorem drain_log (f : Fe) (a : Item) :
    (f.log a).drain = { queue := [], written := f.written ++ f.queue ++ [a] } := by
  simp [Fe.log, Fe.drain, List.append_assoc]

theorem drain_drain (f : Fe) : f.drain.drain = f.drain := by simp [Fe.drain]

/-- effect of the frontend branch for every level setting, every signal, every queue/destination split -/
theorem exec_frontend (e : Env) (s : Sig) (pr : Bool) (f : Fe) (hrun : e.backendRunning = true) :
    exec e s (onSignal (Ctx.frontend s pr)) false false f =
      ({ queue := [], written := f.written ++ f.queue ++ notices e s },
       if s.graceful then .exit0 else .diedBy s) := by
  rw [onSignal_frontend]
  obtain ⟨run, info, crit, wait, gu⟩ := e
  simp only at hrun
  subst hrun
  cases hg : s.graceful <;> cases info <;> cases crit <;> cases wait <;>
    simp [exec, notices, hg, Fe.log, Fe.drain, List.append_assoc]

/-! ## life-cycle invariant -/

structure LInv (s : Life) : Prop where
  once : s.onceDone = s.running
  tidRun : s.running = true → s.workerTid ≠ 0
  tidStop : s.running = false → s.workerTid = 0
  tidLt : s.workerTid < s.nextTid
  nextPos : 0 < s.nextTid
  count : s.spawned = s.joined + (if s.running then 1 else 0)
  atexitCount : s.atexits.length = s.spawned
  ctx : s.ctxTid ≠ 0 → s.running = true ∧ s.ctxTid = s.workerTid ∧ s.atexits.head? = some true
  exitedStopped : s.exited = true → s.running = false ∧ s.ctxTid = 0
  drains : s.finalDrains = if s.exited then 1 else 0

theorem LInv.init : LInv {} := by
  constructor <;> simp

abbrev R := LParams.repaired

@[simp] theorem R_wait : R.waitOnExit = true := rfl

/-- the backend thread (if any) drained and joined, the once-flag fresh -/
def Life.joinedAll (s : Life) : Life := { s with running := false, onceDone := false, workerTid := 0, joined := s.spawned }

/-- an effective start from a stopped state -/
def Life.started (s : Life) (sh : Bool) : Life := { s with onceDone := true, running := true, workerTid := s.nextTid, nextTid := s.nextTid + 1, spawned := s.spawned + 1, atexits := sh :: s.atexits, ctxTid := if sh then s.nextTid else 0, handlers := s.handlers || sh }

/-- a stopped state one whole cycle later -/
def Life.afterCycle (s : Life) (sh : Bool) : Life := { s with nextTid := s.nextTid + 1, spawned := s.spawned + 1, joined := s.joined + 1, atexits := sh :: s.atexits, handlers := s.handlers || sh }

theorem LInv.ctx0 {s : Life} (h : LInv s) (hr : s.running = false) : s.ctxTid = 0 :=
  Decidable.byContradiction fun hne => by
    have := (h.ctx hne).1
    rw [hr] at this; cases this

/-- `stop_backend_thread` on a consistent state: everything spawned is joined, the once-flag is fresh -/
theorem stopBackendThread_spec (s : Life) (h : LInv s) :
    s.stopBackendThread R = s.joinedAll := by
  obtain ⟨once, tr, ts, tl, np, cnt, ac, ctx, ex, dr⟩ := h
  obtain ⟨a1, a2, a3, a4, a5, a6, a7, a8, a9, a10, a11⟩ := s
  simp only at once tr ts tl np cnt ac ctx ex dr
  subst once
  cases a1 <;> simp [Life.stopBackendThread, Life.stopWorker, Life.joinedAll, R, LParams.repaired] at * <;> omega

theorem LInv.stop (s : Life) (h : LInv s) : LInv (s.step R .stop) := by
  obtain ⟨once, tr, ts, tl, np, cnt, ac, ctx, ex, dr⟩ := h
  obtain ⟨a1, a2, a3, a4, a5, a6, a7, a8, a9, a10, a11⟩ := s
  simp only at once tr ts tl np cnt ac ctx ex dr
  subst once
  cases a1 <;> cases a10 <;>
    simp [Life.step, Life.stopBackendThread, Life.stopWorker, R, LParams.repaired] at * <;>
    constructor <;> simp_all <;> omega

theorem LInv.start (s : Life) (h : LInv s) : LInv (s.step R .start) := by
  obtain ⟨once, tr, ts, tl, np, cnt, ac, ctx, ex, dr⟩ := h
  obtain ⟨a1, a2, a3, a4, a5, a6, a7, a8, a9, a10, a11⟩ := s
  simp only at once tr ts tl np cnt ac ctx ex dr
  subst once
  cases a1 <;> cases a10 <;>
    simp [Life.step, Life.spawn] at * <;>
    constructor <;> simp_all <;> omega

theorem LInv.startSH (s : Life) (h : LInv s) : LInv (s.step R .startSH) := by
  obtain ⟨once, tr, ts, tl, np, cnt, ac, ctx, ex, dr⟩ := h
  obtain ⟨a1, a2, a3, a4, a5, a6, a7, a8, a9, a10, a11⟩ := s
  simp only at once tr ts tl np cnt ac ctx ex dr
  subst once
  cases a1 <;> cases a10 <;>
    simp [Life.step, Life.spawn] at * <;>
    constructor <;> simp_all <;> omega

/-- a stopped state with a fresh once-flag and no cached id is a fixed point of every `atexit` handler -/
theorem runAtexit_fixed (t : Life) (b : Bool) (h1 : t.running = false) (h2 : t.onceDone = false) (h3 : t.ctxTid = 0) :
    Life.runAtexit R t b = t := by
  obtain ⟨a1, a2, a3, a4, a5, a6, a7, a8, a9, a10, a11⟩ := t
  simp only at h1 h2 h3
  subst h1 h2 h3
  cases b <;> simp [Life.runAtexit, Life.stopBackendThread, Life.stopWorker, R, LParams.repaired]

theorem foldl_runAtexit_fixed (l : List Bool) (t : Life) (h1 : t.running = false) (h2 : t.onceDone = false)
    (h3 : t.ctxTid = 0) : l.foldl (Life.runAtexit R) t = t := by
  induction l with
  | nil => rfl
  | cons b l ih => simp only [List.foldl_cons, runAtexit_fixed t b h1 h2 h3]; exact ih

/-- the `atexit` handlers, newest first: the backend thread (if any) is drained and joined, the cached id cleared -/
theorem runAtexits_spec (s : Life) (h : LInv s) :
    s.atexits.foldl (Life.runAtexit R) s = { s.joinedAll with ctxTid := 0 } := by
  have hinv := h
  obtain ⟨once, tr, ts, tl, np, cnt, ac, ctx, ex, dr⟩ := h
  obtain ⟨a1, a2, a3, a4, a5, a6, a7, a8, a9, a10, a11⟩ := s
  simp only at once tr ts tl np cnt ac ctx ex dr
  subst once
  cases a6 with
  | nil =>
    simp only [List.length_nil] at ac
    subst ac
    cases a1
    · have h3 : a3 = 0 := ts rfl
      have h4 : a4 = 0 := Decidable.byContradiction fun hne => by have := (ctx hne).1; cases this
      have h9 : a9 = 0 := by simp at cnt; omega
      subst h3 h4 h9
      simp [Life.joinedAll]
    · simp at cnt
  | cons b l =>
    simp only [List.foldl_cons]
    generalize hs0 : ({ onceDone := a1, running := a1, workerTid := a3, ctxTid := a4, handlers := a5, atexits := b :: l, nextTid := a7, spawned := a8, joined := a9, exited := a10, finalDrains := a11 } : Life) = s0 at hinv ⊢
    have e : Life.runAtexit R s0 b = { s0.joinedAll with ctxTid := 0 } := by
      unfold Life.runAtexit
      rw [stopBackendThread_spec _ hinv]
      subst hs0
      by_cases h4 : a4 = 0
      · subst h4; cases b <;> simp [R, LParams.repaired, Life.joinedAll]
      · have := (ctx h4).2.2
        simp at this
        subst this
        simp [R, LParams.repaired, Life.joinedAll]
    rw [e, foldl_runAtexit_fixed l _ rfl rfl rfl]

theorem LInv.exit (s : Life) (h : LInv s) : LInv (s.step R .exit) := by
  have hspec := runAtexits_spec s h
  obtain ⟨once, tr, ts, tl, np, cnt, ac, ctx, ex, dr⟩ := h
  by_cases hx : s.exited = true
  · simp only [Life.step, hx, ↓reduceIte]
    exact ⟨once, tr, ts, tl, np, cnt, ac, ctx, ex, dr⟩
  · have hx' : s.exited = false := by simpa using hx
    simp only [Life.step, hx', Bool.false_eq_true, ↓reduceIte, hspec, Life.joinedAll]
    constructor <;> simp_all

theorem LInv.step (s : Life) (h : LInv s) (op : LOp) : LInv (s.step R op) := by
  cases op
  · exact h.start
  · exact h.startSH
  · exact h.stop
  · exact h.exit

theorem LInv.run (ops : List LOp) (s : Life) (h : LInv s) : LInv (s.run R ops) := by
  induction ops generalizing s with
  | nil => exact h
  | cons op ops ih => exact ih _ (h.step s op)

theorem run_append (P : LParams) (s : Life) (a b : List LOp) : s.run P (a ++ b) = (s.run P a).run P b := by
  simp [Life.run, List.foldl_append]

theorem run_cons (P : LParams) (s : Life) (a : LOp) (b : List LOp) : s.run P (a :: b) = (s.step P a).run P b := rfl

/-- a stopped, not exited, consistent state -/
structure Stopped (s : Life) : Prop where
  inv : LInv s
  notRunning : s.running = false
  notExited : s.exited = false

theorem Stopped.ctx0 {s : Life} (h : Stopped s) : s.ctxTid = 0 := h.inv.ctx0 h.notRunning

theorem Stopped.once {s : Life} (h : Stopped s) : s.onceDone = false := by
  rw [h.inv.once]; exact h.notRunning

/-- `stop` on a stopped backend: literally nothing changes -/
theorem step_stop_stopped (s : Life) (h : LInv s) (hr : s.running = false) : s.step R .stop = s := by
  have hc := h.ctx0 hr
  have ho := h.once
  have ht := h.tidStop hr
  have hcnt := h.count
  obtain ⟨a1, a2, a3, a4, a5, a6, a7, a8, a9, a10, a11⟩ := s
  simp only at hr hc ho ht hcnt
  subst hr hc ho ht
  cases a10 <;> simp [Life.step, Life.stopBackendThread, Life.stopWorker, R, LParams.repaired]

/-- `start` (either kind) on a running backend: nothing changes -/
theorem step_start_running (s : Life) (h : LInv s) (hr : s.running = true) (sh : Bool) :
    s.step R (if sh then .startSH else .start) = s := by
  have ho : s.onceDone = true := by rw [h.once]; exact hr
  cases sh <;> simp [Life.step, ho]

/-- an effective start from a stopped state -/
theorem step_start_stopped (s : Life) (h : Stopped s) (sh : Bool) :
    s.step R (if sh then .startSH else .start) = s.started sh := by
  have ho := h.once
  have hx := h.notExited
  have hc := h.ctx0
  obtain ⟨a1, a2, a3, a4, a5, a6, a7, a8, a9, a10, a11⟩ := s
  simp only at ho hx hc
  subst ho hx hc
  cases sh <;> simp [Life.step, Life.spawn, Life.started]

theorem run_replicate_start_running (n : Nat) (s : Life) (h : LInv s) (hr : s.running = true) :
    s.run R (List.replicate n .start) = s := by
  induction n with
  | zero => rfl
  | succ n ih =>
    have := step_start_running s h hr false
    simp only [Bool.false_eq_true, ↓reduceIte] at this
    rw [List.replicate_succ, run_cons, this]
    exact ih

theorem run_replicate_stop_stopped (n : Nat) (s : Life) (h : LInv s) (hr : s.running = false) :
    s.run R (List.replicate n .stop) = s := by
  induction n with
  | zero => rfl
  | succ n ih =>
    rw [List.replicate_succ, run_cons, step_stop_stopped s h hr]
    exact ih

/-- one whole cycle from a stopped state: one thread spawned, drained and joined, one `atexit` handler more -/
theorem run_cycle (c : Cycle) (s : Life) (h : Stopped s) :
    s.run R c.ops = s.afterCycle c.sh ∧ Stopped (s.run R c.ops) := by
  have hstart := step_start_stopped s h c.sh
  have hinv1 : LInv (s.step R (if c.sh then .startSH else .start)) := h.inv.step s _
  have hcnt := h.inv.count
  have hr := h.notRunning
  have hx := h.notExited
  have ho := h.once
  have hc := h.ctx0
  have ht := h.inv.tidStop hr
  generalize hs1 : s.step R (if c.sh then .startSH else .start) = s1 at hstart hinv1
  have hr1 : s1.running = true := by rw [hstart]; rfl
  have e1 : s.run R c.ops = (s1.step R .stop).run R (List.replicate c.extraStops .stop) := by
    unfold Cycle.ops
    rw [List.cons_append, run_cons, hs1, run_append, run_replicate_start_running c.extraStarts s1 hinv1 hr1, run_cons]
  have hinv2 : LInv (s1.step R .stop) := hinv1.step s1 .stop
  have hstop : s1.step R .stop = s.afterCycle c.sh := by
    have hx1 : s1.exited = false := by rw [hstart]; exact hx
    have e2 : s1.step R .stop = { s1.joinedAll with ctxTid := 0 } := by
      simp only [Life.step, hx1, Bool.false_eq_true, ↓reduceIte, stopBackendThread_spec s1 hinv1]
      rfl
    rw [e2, hstart]
    obtain ⟨a1, a2, a3, a4, a5, a6, a7, a8, a9, a10, a11⟩ := s
    simp only at hr hx ho hc ht hcnt
    subst hr hx ho hc ht
    simp at hcnt
    simp [hcnt, Life.started, Life.joinedAll, Life.afterCycle]
  have hr2 : (s1.step R .stop).running = false := by rw [hstop]; exact hr
  rw [e1, run_replicate_stop_stopped _ _ hinv2 hr2]
  exact ⟨hstop, ⟨hinv2, hr2, by rw [hstop]; exact hx⟩⟩

end Exit
