import QuillModel.Exit.Stop
import QuillModel.Exit.Proofs
/-! Lemmas for the "signal while another thread is inside `stop()`" model: invariant of the current order, conservation. -/
namespace Exit

theorem CS.ok_init (f : Fe) : (CS.init f).ok = true := rfl

theorem CS.ok_step (wait : Bool) (c : CS) (ev : Ev) (h : c.ok = true) : (c.step stopSeqCurrent wait ev).ok = true := by
  obtain ⟨a, b, s, e, pc, fe⟩ := c
  have hpc : pc = 0 ∨ pc = 1 ∨ pc = 2 ∨ pc = 3 ∨ pc = 4 ∨ pc = 5 ∨ pc = 6 := by
    simp [CS.ok] at h; omega
  cases ev with
  | stopper =>
    rcases hpc with rfl | rfl | rfl | rfl | rfl | rfl | rfl <;> cases a <;> cases b <;> cases s <;> cases e <;>
      first | (simp [CS.ok] at h; done) | (simp [CS.ok, CS.step, stopSeqCurrent])
  | bgWrite k =>
    simp only [CS.step]; split
    · simpa [CS.ok] using h
    · exact h
  | bgLastCheck =>
    simp only [CS.step]; split
    · rename_i hc
      rcases hpc with rfl | rfl | rfl | rfl | rfl | rfl | rfl <;> cases a <;> cases b <;> cases s <;> cases e <;>
        first | (simp [CS.ok] at h; done) | (simp at hc; done) | (simp [CS.ok])
    · exact h
  | bgEnd =>
    simp only [CS.step]; split
    · rename_i hc
      rcases hpc with rfl | rfl | rfl | rfl | rfl | rfl | rfl <;> cases a <;> cases b <;> cases s <;> cases e <;>
        first | (simp [CS.ok] at h; done) | (simp at hc; done) | (simp [CS.ok])
    · exact h
  | log id => simp only [CS.step]; simpa [CS.ok] using h

theorem CS.ok_run (wait : Bool) (evs : List Ev) (c : CS) (h : c.ok = true) : (c.run stopSeqCurrent wait evs).ok = true := by
  induction evs generalizing c with
  | nil => exact h
  | cons ev evs ih => exact ih _ (CS.ok_step wait c ev h)

/-- what the invariant says -/
theorem CS.ok_facts (c : CS) (h : c.ok = true) :
    (c.idSet = true ↔ c.pc < 6) ∧ (c.idSet = false → c.ended = true) ∧ (3 ≤ c.pc → c.ended = true) ∧
    (c.ended = true → c.serving = false) ∧ (c.serving = false → c.running = false) := by
  obtain ⟨a, b, s, e, pc, fe⟩ := c
  simp only [CS.ok, Bool.and_eq_true, Bool.or_eq_true, decide_eq_true_eq, beq_iff_eq, Bool.not_eq_true'] at h
  obtain ⟨⟨⟨⟨⟨h1, h2⟩, h3⟩, h4⟩, h5⟩, h6⟩ := h
  cases a <;> cases b <;> cases s <;> cases e <;> simp_all <;> omega

theorem CS.run_append (seq : List SStep) (wait : Bool) (c : CS) (a b : List Ev) :
    c.run seq wait (a ++ b) = (c.run seq wait a).run seq wait b := by
  simp [CS.run, List.foldl_append]

theorem loggedEv_append (a b : List Ev) : loggedEv (a ++ b) = loggedEv a ++ loggedEv b := by
  induction a with
  | nil => rfl
  | cons x a ih => cases x <;> simp [loggedEv, ih]

/-- the stopping thread never touches the observed thread's queue or lines -/
theorem CS.step_stopper_fe (seq : List SStep) (wait : Bool) (c : CS) : (c.step seq wait .stopper).fe = c.fe := by
  simp only [CS.step]
  split
  · rfl
  · rfl
  · rfl
  · split <;> rfl
  · rfl

theorem CS.step_stopper_serving (seq : List SStep) (wait : Bool) (c : CS) :
    (c.step seq wait .stopper).serving = c.serving := by
  simp only [CS.step]
  split
  · rfl
  · rfl
  · rfl
  · split <;> rfl
  · rfl

/-- nothing is lost, duplicated or reordered by any step of any of the three threads, in any order of the stop sequence,
    with the option on or off -/
theorem CS.step_conservation (seq : List SStep) (wait : Bool) (c : CS) (ev : Ev) :
    (c.step seq wait ev).fe.written ++ (c.step seq wait ev).fe.queue = c.fe.written ++ c.fe.queue ++ loggedEv [ev] := by
  cases ev with
  | stopper => rw [CS.step_stopper_fe]; simp [loggedEv]
  | bgWrite k =>
    simp only [CS.step]; split
    · simp [Fe.write, loggedEv, List.append_assoc]
    · simp [loggedEv]
  | bgLastCheck => simp only [CS.step]; split <;> simp [loggedEv]
  | bgEnd => simp only [CS.step]; split <;> simp [loggedEv]
  | log id => simp [CS.step, Fe.log, loggedEv]

theorem CS.run_conservation (seq : List SStep) (wait : Bool) (evs : List Ev) (c : CS) :
    (c.run seq wait evs).fe.written ++ (c.run seq wait evs).fe.queue = c.fe.written ++ c.fe.queue ++ loggedEv evs := by
  induction evs generalizing c with
  | nil => simp [CS.run, loggedEv]
  | cons ev evs ih =>
    have e : c.run seq wait (ev :: evs) = (c.step seq wait ev).run seq wait evs := rfl
    rw [e, ih, CS.step_conservation]
    have : loggedEv (ev :: evs) = loggedEv [ev] ++ loggedEv evs := loggedEv_append [ev] evs
    rw [this]; simp [List.append_assoc]

/-- with the option on the backend's last look found the observed thread's queue empty; while that thread logs nothing
    more it stays empty -/
theorem CS.step_queue_empty (seq : List SStep) (c : CS) (ev : Ev) (hn : noLogEv [ev] = true)
    (h : c.serving = false → c.fe.queue = []) :
    (c.step seq true ev).serving = false → (c.step seq true ev).fe.queue = [] := by
  cases ev with
  | stopper => rw [CS.step_stopper_fe, CS.step_stopper_serving]; exact h
  | bgWrite k =>
    simp only [CS.step]; split
    · rename_i hs; intro h2; simp at h2; rw [hs] at h2; cases h2
    · exact h
  | bgLastCheck =>
    simp only [CS.step]; split
    · rename_i hc; intro _; simp at hc; simpa using hc.2
    · exact h
  | bgEnd => simp only [CS.step]; split <;> exact h
  | log id => simp [noLogEv] at hn

theorem CS.run_queue_empty (seq : List SStep) (evs : List Ev) (c : CS) (hn : noLogEv evs = true)
    (h : c.serving = false → c.fe.queue = []) :
    (c.run seq true evs).serving = false → (c.run seq true evs).fe.queue = [] := by
  induction evs generalizing c with
  | nil => exact h
  | cons ev evs ih =>
    have h1 : noLogEv [ev] = true ∧ noLogEv evs = true := by
      simp only [noLogEv, List.all_cons, Bool.and_eq_true] at hn ⊢
      exact ⟨⟨hn.1, by simp⟩, hn.2⟩
    exact ih _ h1.2 (CS.step_queue_empty seq c ev h1.1 h)

end Exit
