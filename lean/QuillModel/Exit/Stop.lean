import QuillModel.Exit.Model
/-!
# A handled signal while another thread is inside `Backend::stop()` (C07) — executable model, no proofs

`Backend::stop()` is not atomic. Flattened through `BackendManager::stop_backend_thread` and `BackendWorker::stop` it
is the sequence of steps `SStep` (the order is *extracted*: `Extracted.stopSeq`, and `Extracted.atexitSeq` for the
`atexit` handler of the signal-handler overload of `start`); while the stopping thread waits in `join()` the backend
thread finishes its current `_poll`, runs `_exit` (reads and writes while anything is queued — if
`wait_for_queues_to_empty_before_exit` —, takes its **last look at the queues**, reports the failure counter,
flushes the sinks, cleans up) and ends. A third thread logs and is hit by a signal; its handler runs in two phases:
it *reads* the backend id cached in the `SignalHandlerContext` (phase A, decides the branch), and *then* enqueues its
notice(s) and the flush request and waits (phase B). Any number of steps of the other two threads may lie before A,
between A and B.

`CS.step` is total: an event that is not enabled (the join before the backend thread has ended, the last look while
something is queued and the option is on, …) leaves the state as it is, so *every* list of events is a schedule.
-/
namespace Exit

/-- atomic steps of the thread that calls `Backend::stop()` (or runs the `atexit` handler) -/
inductive SStep
  | clearCtxId        -- `SignalHandlerContext::instance().backend_thread_id.store(0)`   (`Backend::stop`, atexit lambda)
  | exchangeRunning   -- `_is_worker_running.exchange(false)`                            (`BackendWorker::stop`)
  | notify            -- `notify()`
  | join              -- `_worker_thread.join()`: returns once the backend thread has ended
  | clearWorkerTid    -- `_worker_thread_id.store(0)`
  | renewOnce         -- fresh `std::once_flag`                                           (`stop_backend_thread`)
  deriving DecidableEq, Repr, Inhabited

def SStep.name : SStep → String
  | .clearCtxId => "clearCtxId" | .exchangeRunning => "exchangeRunning" | .notify => "notify" | .join => "join"
  | .clearWorkerTid => "clearWorkerTid" | .renewOnce => "renewOnce"

/-- the order in the code as it is (the theorems are about this list; `Obligations.exit_stop_sequence` ties it to the
    extracted one) -/
def stopSeqCurrent : List SStep := [.exchangeRunning, .notify, .join, .clearWorkerTid, .renewOnce, .clearCtxId]

/-- what can happen next -/
inductive Ev
  | stopper           -- the stopping thread takes its next step (`join` only once the backend thread has ended)
  | bgWrite (k : Nat) -- the backend thread writes the `k` oldest queued items of the observed thread
  | bgLastCheck       -- the backend thread, stop requested, takes its last look at the queues and commits to leaving
  | bgEnd             -- … has flushed the sinks and ends
  | log (id : Nat)    -- the observed thread completes one more log call
  deriving DecidableEq, Repr, Inhabited

structure CS where
  idSet : Bool := true      -- `SignalHandlerContext::backend_thread_id != 0`
  running : Bool := true    -- `_is_worker_running`
  serving : Bool := true    -- the backend thread will look at the frontend queues again
  ended : Bool := false     -- the backend thread has ended
  pc : Nat := 0             -- steps of the stop sequence already taken
  fe : Fe := {}             -- the observed (later signalled) thread
  deriving DecidableEq, Repr, Inhabited

/-- a running backend of a cycle that was started with the handler; nobody has called `stop` yet -/
def CS.init (f : Fe) : CS := { fe := f }

def CS.step (seq : List SStep) (wait : Bool) (c : CS) : Ev → CS
  | .stopper =>
    match seq[c.pc]? with
    | none => c
    | some .clearCtxId => { c with idSet := false, pc := c.pc + 1 }
    | some .exchangeRunning => { c with running := false, pc := c.pc + 1 }
    | some .join => if c.ended then { c with pc := c.pc + 1 } else c
    | some _ => { c with pc := c.pc + 1 }
  | .bgWrite k => if c.serving then { c with fe := c.fe.write k } else c
  | .bgLastCheck =>
    -- `(!wait_for_queues_to_empty_before_exit) || _check_frontend_queues_and_cached_transit_events_empty()`
    if c.serving && !c.running && (!wait || c.fe.queue.isEmpty) then { c with serving := false } else c
  | .bgEnd => if !c.serving && !c.ended then { c with ended := true } else c
  | .log id => { c with fe := c.fe.log (.stmt id) }

def CS.run (seq : List SStep) (wait : Bool) (c : CS) (evs : List Ev) : CS := evs.foldl (CS.step seq wait) c

/-- the statements the observed thread completed during a schedule -/
def loggedEv : List Ev → List Item
  | [] => []
  | .log id :: rest => .stmt id :: loggedEv rest
  | _ :: rest => loggedEv rest

/-- the observed thread logs nothing during the schedule -/
def noLogEv (evs : List Ev) : Bool := evs.all fun e => match e with | .log _ => false | _ => true

/-- what the handler sees in phase A (state `a`): a frontend thread with a logger, first entrant, re-raise on -/
def CS.ctx (a : CS) (s : Sig) (pr : Bool) : Ctx :=
  { sig := s, first := true, parkReturns := pr, backendIdSet := a.idSet, onBackend := false, hasLogger := true, reraise := true }

/-- the handler with phase A in state `a` and phase B in state `b`: the flush request is served iff the backend thread
    looks at the queues once more after it was enqueued -/
def signalDuringStop (wait info crit : Bool) (s : Sig) (pr : Bool) (a b : CS) : Fe × Outcome :=
  exec { backendRunning := b.serving, infoOn := info, critOn := crit, waitOnExit := wait } s (onSignal (a.ctx s pr)) false false b.fe

/-- the same with the handler's wait ending when the backend thread is gone (`gu`: extracted `flushEndsWhenBackendGone`) -/
def signalDuringStopG (gu wait info crit : Bool) (s : Sig) (pr : Bool) (a b : CS) : Fe × Outcome :=
  exec { backendRunning := b.serving, infoOn := info, critOn := crit, waitOnExit := wait, flushGivesUp := gu } s
    (onSignal (a.ctx s pr)) false false b.fe

/-- invariant of every state reachable with the current order (a Boolean, so that instances can be `decide`d) -/
def CS.ok (c : CS) : Bool :=
  decide (c.pc ≤ 6) && (c.idSet == decide (c.pc < 6)) && (c.running == decide (c.pc = 0)) && (!c.ended || !c.serving) &&
    (decide (c.pc < 3) || c.ended) && (!c.running || c.serving)

end Exit
