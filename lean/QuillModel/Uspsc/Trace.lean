import QuillModel.Uspsc.Proofs
import QuillModel.Props.C01
/-!
# Unbounded queue: the stream of records over a whole schedule (helper for `C02_trace_fifo`)

`writesOfU ops` / `readsOfU ops` are the record lengths written by the producer / read by the consumer during a schedule,
in schedule order, across all nodes. `TI` relates them to the per-node ghost fields of the chain model: everything
written = the records of nodes `0 … pi` node after node; everything read = all records of the nodes the consumer has
left, then the first `nread` records of its current node; nothing of a node ahead of the consumer has been read.
`ti_step` / `ti_run` show that every enabled step keeps the relation (the `switch` case is where "every record of the
old node was read" — `ustep_safe` — is used; the `read` case is the per-node FIFO `fifo_of_inv`).
-/
namespace Uspsc
open Spsc

/-- record lengths written / read during a schedule of the unbounded queue, in schedule order -/
def writesOfU : List UOp → List Nat
  | [] => []
  | .p (.write n) :: ops => n :: writesOfU ops
  | _ :: ops => writesOfU ops

def readsOfU : List UOp → List Nat
  | [] => []
  | .c (.read n) :: ops => n :: readsOfU ops
  | _ :: ops => readsOfU ops

def opW : Op → List Nat | .write n => [n] | _ => []
def opR : Op → Nat | .read _ => 1 | _ => 0
def wOf : UOp → List Nat | .p op => opW op | _ => []
def rOf : UOp → List Nat | .c (.read n) => [n] | _ => []

theorem writesOfU_cons (op : UOp) (ops : List UOp) : writesOfU (op :: ops) = wOf op ++ writesOfU ops := by
  cases op with
  | p o => cases o <;> rfl
  | _ => rfl
theorem readsOfU_cons (op : UOp) (ops : List UOp) : readsOfU (op :: ops) = rOf op ++ readsOfU ops := by
  cases op with
  | c o => cases o <;> rfl
  | _ => rfl

/-- the records of nodes `0 … m-1`, node after node -/
def recsOf (f : Nat → Node) (m : Nat) : List Nat := ((List.range m).map (fun k => (f k).q.recs)).flatten

theorem recsOf_succ (f : Nat → Node) (m : Nat) : recsOf f (m + 1) = recsOf f m ++ (f m).q.recs := by
  simp [recsOf, List.range_succ]

theorem recsOf_congr (f g : Nat → Node) : ∀ m, (∀ k, k < m → (g k).q.recs = (f k).q.recs) → recsOf g m = recsOf f m
  | 0, _ => rfl
  | m + 1, h => by
    rw [recsOf_succ, recsOf_succ, recsOf_congr f g m (fun k hk => h k (by omega)), h m (by omega)]

theorem recsOf_prefix (f : Nat → Node) (a : Nat) : ∀ d, recsOf f a <+: recsOf f (a + d)
  | 0 => List.prefix_refl _
  | d + 1 => by
    rw [show a + (d + 1) = (a + d) + 1 by omega, recsOf_succ]
    exact (recsOf_prefix f a d).trans (List.prefix_append _ _)

/-- trace invariant: `W` = everything written (nodes `0 … pi`), `R` = everything read (nodes below `ci` completely,
    the first `nread` records of node `ci`), and the consumer has read nothing of the nodes ahead of it -/
structure TI (s : US) (W R : List Nat) : Prop where
  w : W = recsOf s.nodes (s.pi + 1)
  r : R = recsOf s.nodes s.ci ++ s.cnode.q.recs.take s.cnode.q.nread
  z : ∀ k, s.ci < k → (s.nodes k).q.nread = 0

theorem step_recs_nread (o : Params) (q : St) (op : Op) :
    (step o q op).recs = q.recs ++ opW op ∧ (step o q op).nread = q.nread + opR op := by
  cases op <;> simp [step, opW, opR]
  split <;> simp

theorem ti_step (o : UParams) (ho : UOrdersOK o) (s : US) (op : UOp) (h : UInv o s) (he : UEnabled o s op)
    (W R : List Nat) (t : TI s W R) : TI (ustep o s op) (W ++ wOf op) (R ++ rOf op) := by
  have hpiLt : s.pi < s.n := by have := h.len; omega
  have hciLt : s.ci < s.n := by have := h.len; have := h.cp; omega
  have hcp := h.cp
  cases op with
  | p op =>
    obtain ⟨hprod, hen⟩ := he
    obtain ⟨e1, e2⟩ := step_recs_nread o.q s.pnode.q op
    have e2' : (step o.q s.pnode.q op).nread = s.pnode.q.nread := by
      rw [e2]; cases op <;> simp_all [isProducerOp, opR]
    have hw : wOf (.p op) = opW op := rfl
    have hr : rOf (.p op) = [] := rfl
    refine ⟨?_, ?_, ?_⟩
    · simp only [ustep]
      rw [recsOf_succ, setNode_same, recsOf_congr s.nodes _ s.pi (fun k hk => by rw [setNode_other _ _ (by omega)]),
        t.w, recsOf_succ, hw]
      show _ = _ ++ (step o.q s.pnode.q op).recs
      rw [e1]; simp [US.pnode]
    · rw [hr, List.append_nil]
      simp only [ustep, US.cnode]
      rw [recsOf_congr s.nodes _ s.ci (fun k hk => by rw [setNode_other _ _ (by omega)]), t.r]
      congr 1
      by_cases hc : s.ci = s.pi
      · rw [hc, setNode_same]
        show _ = (step o.q s.pnode.q op).recs.take (step o.q s.pnode.q op).nread
        rw [e1, e2', US.cnode, hc]
        have := (h.qinv s.pi hpiLt).nreadLe
        simp only [US.pnode]
        rw [List.take_append_of_le_length this]
      · rw [setNode_other _ _ hc]; rfl
    · intro k hk
      simp only [ustep] at hk ⊢
      by_cases hkp : k = s.pi
      · subst hkp; rw [setNode_same]
        show (step o.q s.pnode.q op).nread = 0
        rw [e2']; exact t.z _ hk
      · rw [setNode_other _ _ hkp]; exact t.z k hk
  | c op =>
    obtain ⟨hcons, hen, _⟩ := he
    obtain ⟨e1, e2⟩ := step_recs_nread o.q s.cnode.q op
    have e1' : (step o.q s.cnode.q op).recs = s.cnode.q.recs := by
      rw [e1]; cases op <;> simp_all [isConsumerOp, opW]
    have hw : wOf (.c op) = [] := rfl
    refine ⟨?_, ?_, ?_⟩
    · rw [hw, List.append_nil]
      simp only [ustep]
      rw [t.w]
      exact (recsOf_congr s.nodes _ (s.pi + 1) (fun k hk => by
        by_cases hkc : k = s.ci
        · subst hkc; rw [setNode_same]; exact e1'
        · rw [setNode_other _ _ hkc])).symm
    · simp only [ustep, US.cnode]
      rw [recsOf_congr s.nodes _ s.ci (fun k hk => by rw [setNode_other _ _ (by omega)]), t.r, setNode_same,
        List.append_assoc]
      congr 1
      show _ = (step o.q s.cnode.q op).recs.take (step o.q s.cnode.q op).nread
      rw [e1', e2]
      cases op with
      | read n =>
        obtain ⟨hk, _, hn, _, _⟩ := fifo_of_inv o.q _ (h.qinv s.ci hciLt) n hen
        show List.take (s.nodes s.ci).q.nread (s.nodes s.ci).q.recs ++ [n] =
          List.take ((s.nodes s.ci).q.nread + 1) (s.nodes s.ci).q.recs
        rw [List.take_succ_eq_append_getElem hk, hn]
      | _ => simp [rOf, opR]
    · intro k hk
      simp only [ustep] at hk ⊢
      rw [setNode_other _ _ (by omega)]; exact t.z k hk
  | publish cap' =>
    have hw : wOf (.publish cap') = [] := rfl
    have hr : rOf (.publish cap') = [] := rfl
    have hlen := h.len
    rw [hw, hr, List.append_nil, List.append_nil]
    have hrec : ∀ k, k < s.n → ((setNode (setNode s.nodes s.pi { s.pnode with published := true }) s.n
        { q := init cap' (s.batch cap') }) k).q.recs = (s.nodes k).q.recs ∧
        ((setNode (setNode s.nodes s.pi { s.pnode with published := true }) s.n
        { q := init cap' (s.batch cap') }) k).q.nread = (s.nodes k).q.nread := by
      intro k hk
      rw [setNode_other _ _ (by omega)]
      by_cases hkp : k = s.pi
      · subst hkp; rw [setNode_same]; exact ⟨rfl, rfl⟩
      · rw [setNode_other _ _ hkp]; exact ⟨rfl, rfl⟩
    refine ⟨?_, ?_, ?_⟩
    · simp only [ustep]
      rw [recsOf_succ, setNode_same, recsOf_congr s.nodes _ s.n (fun k hk => (hrec k hk).1), t.w, hlen]
      simp [init]
    · simp only [ustep, US.cnode]
      rw [recsOf_congr s.nodes _ s.ci (fun k hk => (hrec k (by omega)).1), (hrec s.ci hciLt).1, (hrec s.ci hciLt).2, t.r]
      rfl
    · intro k hk
      simp only [ustep] at hk ⊢
      by_cases hkn : k = s.n
      · subst hkn; rw [setNode_same]; rfl
      · rw [setNode_other _ _ hkn]
        by_cases hkp : k = s.pi
        · subst hkp; rw [setNode_same]; exact t.z _ hk
        · rw [setNode_other _ _ hkp]; exact t.z k hk
  | seeNext =>
    have hw : wOf .seeNext = [] := rfl
    have hr : rOf .seeNext = [] := rfl
    rw [hw, hr, List.append_nil, List.append_nil]
    have hrec : ∀ k, ((ustep o s .seeNext).nodes k).q = (s.nodes k).q := by
      intro k
      simp only [ustep]
      split
      · by_cases hkc : k = s.ci
        · subst hkc; rw [setNode_same]; rfl
        · rw [setNode_other _ _ hkc]
      · rfl
    have hci : (ustep o s .seeNext).ci = s.ci := rfl
    have hpi : (ustep o s .seeNext).pi = s.pi := rfl
    refine ⟨?_, ?_, ?_⟩
    · rw [hpi, recsOf_congr s.nodes _ _ (fun k _ => by rw [hrec k]), t.w]
    · simp only [US.cnode]; rw [hci, recsOf_congr s.nodes _ _ (fun k _ => by rw [hrec k]), hrec, t.r]; rfl
    · intro k hk; rw [hrec]; exact t.z k hk
  | switch =>
    have hw : wOf .switch = [] := rfl
    have hr : rOf .switch = [] := rfl
    rw [hw, hr, List.append_nil, List.append_nil]
    have hsafe := ustep_safe o ho s .switch h he
    obtain ⟨hall, _, hlt⟩ := hsafe
    refine ⟨t.w, ?_, ?_⟩
    · simp only [ustep, US.cnode]
      rw [recsOf_succ, t.z (s.ci + 1) (by omega), t.r, hall]
      simp [US.cnode]
    · intro k hk
      simp only [ustep] at hk ⊢
      exact t.z k (by omega)

theorem ti_run (o : UParams) (ho : UOrdersOK o) :
    ∀ (ops : List UOp) (s : US) (W R : List Nat), UInv o s → URun o s ops → TI s W R →
      TI (urun o s ops) (W ++ writesOfU ops) (R ++ readsOfU ops)
  | [], s, W, R, _, _, t => by simpa [urun, writesOfU, readsOfU] using t
  | op :: ops, s, W, R, h, hr, t => by
    have := ti_run o ho ops (ustep o s op) _ _ (ustep_inv o ho s op h hr.1) hr.2 (ti_step o ho s op h hr.1 W R t)
    rw [writesOfU_cons, readsOfU_cons, ← List.append_assoc, ← List.append_assoc]
    exact this

end Uspsc
