import QuillModel.Uspsc.Model
import QuillModel.Spsc.Proofs
/-! Invariant of the node chain and safety of every enabled step. -/
namespace Uspsc
open Spsc

structure UInv (o : UParams) (s : US) : Prop where
  len : s.n = s.pi + 1
  cp : s.ci ≤ s.pi
  qinv : ∀ k, k < s.n → QInv (s.nodes k).q
  pub : ∀ k, k < s.n → ((s.nodes k).published = true ↔ k < s.pi)
  sealK : ∀ k, k < s.pi → (s.nodes k).q.wHist.headD 0 = (s.nodes k).q.wpos
  floorLe : ∀ k, k < s.n → (s.nodes k).wFloor ≤ (s.nodes k).q.wHist.headD 0
  saw : s.sawNext = true → s.ci < s.pi
  sawEq : s.sawNext = true → s.sawSync = o.syncNext
  sync : s.sawSync = true → s.sawNext = true ∧ s.cnode.wFloor = s.cnode.q.wpos
  rr : s.reread = true → s.sawNext = true ∧ (s.sawSync = true → s.cnode.q.wcache = s.cnode.q.wpos)

theorem setNode_same (f : Nat → Node) (i : Nat) (nd : Node) : setNode f i nd i = nd := by simp [setNode]
theorem setNode_other (f : Nat → Node) {i k : Nat} (nd : Node) (h : k ≠ i) : setNode f i nd k = f k := by
  simp [setNode, h]

/-- a consumer micro-step leaves the producer-side fields alone -/
theorem consumer_keeps (o : Params) (q : St) (op : Op) (h : isConsumerOp op = true) :
    (step o q op).wHist = q.wHist ∧ (step o q op).wpos = q.wpos ∧ (step o q op).recs = q.recs := by
  cases op <;> simp [isConsumerOp] at h <;> simp [step] <;> (try split) <;> simp

/-- a producer micro-step never lowers the newest published writer position and leaves reader fields alone -/
theorem producer_head (o : Params) (q : St) (op : Op) (hq : QInv q) (h : isProducerOp op = true) :
    q.wHist.headD 0 ≤ (step o q op).wHist.headD 0 := by
  cases op <;> simp [isProducerOp] at h <;> simp only [step, List.headD_cons, Nat.le_refl]
  exact hq.wNew

theorem startK_lt_sum (l : List Nat) (hpos : ∀ n ∈ l, 0 < n) (k : Nat) (hk : k < l.length) :
    startK l k < l.sum := by
  have h1 := startK_succ l k hk
  have h2 := startK_le_sum l (k + 1)
  have h3 := hpos _ (List.getElem_mem hk)
  omega

/-- a bounded node whose reader has caught up with its writer has no unread record -/
theorem all_read {q : St} (h : QInv q) (he : q.rpos = q.wpos) : q.nread = q.recs.length := by
  rcases Nat.lt_or_ge q.nread q.recs.length with hlt | hge
  · have := startK_lt_sum q.recs h.recPos q.nread hlt
    have := h.rSum; have := h.wSum; omega
  · have := h.nreadLe; omega

theorem uinit_inv (o : UParams) (cap : Nat) (batch : Nat → Nat) (hc : 0 < cap) : UInv o (uinit cap batch) := by
  refine { len := rfl, cp := Nat.le_refl _, qinv := ?_, pub := ?_, sealK := ?_, floorLe := ?_, saw := ?_,
           sawEq := ?_, sync := ?_, rr := ?_ } <;> simp [uinit]
  · exact init_inv cap (batch cap) hc

theorem ustep_inv (o : UParams) (ho : UOrdersOK o) (s : US) (op : UOp) (h : UInv o s)
    (he : UEnabled o s op) : UInv o (ustep o s op) := by
  obtain ⟨hoq, hsync, _⟩ := ho
  have hpiLt : s.pi < s.n := by have := h.len; omega
  have hciLt : s.ci < s.n := by have := h.len; have := h.cp; omega
  cases op with
  | p op =>
    obtain ⟨hprod, hen⟩ := he
    have hq := h.qinv s.pi hpiLt
    have hq' := step_inv o.q hoq _ op hq hen
    refine { len := h.len, cp := h.cp, qinv := ?_, pub := ?_, sealK := ?_, floorLe := ?_, saw := h.saw,
             sawEq := h.sawEq, sync := ?_, rr := ?_ }
    · intro k hk
      simp only [ustep] at hk ⊢
      by_cases hkp : k = s.pi
      · subst hkp; rw [setNode_same]; exact hq'
      · rw [setNode_other _ _ hkp]; exact h.qinv k hk
    · intro k hk
      simp only [ustep] at hk ⊢
      by_cases hkp : k = s.pi
      · subst hkp; rw [setNode_same]; exact h.pub _ hk
      · rw [setNode_other _ _ hkp]; exact h.pub k hk
    · intro k hk
      simp only [ustep] at hk ⊢
      have hkp : k ≠ s.pi := by omega
      rw [setNode_other _ _ hkp]; exact h.sealK k hk
    · intro k hk
      simp only [ustep] at hk ⊢
      by_cases hkp : k = s.pi
      · subst hkp; rw [setNode_same]
        have := h.floorLe _ hk
        have := producer_head o.q _ op hq hprod
        simp only [US.pnode] at *
        omega
      · rw [setNode_other _ _ hkp]; exact h.floorLe k hk
    · intro hs
      have ⟨hsn, hfl⟩ := h.sync hs
      have hlt := h.saw hsn
      have hne : s.ci ≠ s.pi := by omega
      refine ⟨hsn, ?_⟩
      simp only [ustep, US.cnode] at hfl ⊢
      rw [setNode_other _ _ hne]; exact hfl
    · intro hr
      have ⟨hsn, hw⟩ := h.rr hr
      have hlt := h.saw hsn
      have hne : s.ci ≠ s.pi := by omega
      refine ⟨hsn, ?_⟩
      intro hs
      simp only [ustep, US.cnode] at hw ⊢
      rw [setNode_other _ _ hne]; exact hw hs
  | c op =>
    obtain ⟨hcons, hen, hfloor⟩ := he
    have hq := h.qinv s.ci hciLt
    have hq' := step_inv o.q hoq _ op hq hen
    obtain ⟨kh, kw, _⟩ := consumer_keeps o.q s.cnode.q op hcons
    simp only [US.cnode] at kh kw hen hfloor
    refine { len := h.len, cp := h.cp, qinv := ?_, pub := ?_, sealK := ?_, floorLe := ?_, saw := h.saw,
             sawEq := h.sawEq, sync := ?_, rr := ?_ }
    · intro k hk
      simp only [ustep] at hk ⊢
      by_cases hkc : k = s.ci
      · subst hkc; rw [setNode_same]; exact hq'
      · rw [setNode_other _ _ hkc]; exact h.qinv k hk
    · intro k hk
      simp only [ustep] at hk ⊢
      by_cases hkc : k = s.ci
      · subst hkc; rw [setNode_same]; exact h.pub _ hk
      · rw [setNode_other _ _ hkc]; exact h.pub k hk
    · intro k hk
      simp only [ustep] at hk ⊢
      by_cases hkc : k = s.ci
      · subst hkc; rw [setNode_same]
        have := h.sealK _ hk
        dsimp only [US.cnode]
        rw [kh, kw]; exact this
      · rw [setNode_other _ _ hkc]; exact h.sealK k hk
    · intro k hk
      simp only [ustep] at hk ⊢
      by_cases hkc : k = s.ci
      · subst hkc; rw [setNode_same]
        have := h.floorLe _ hk
        dsimp only [US.cnode]
        rw [kh]; exact this
      · rw [setNode_other _ _ hkc]; exact h.floorLe k hk
    · intro hs
      have ⟨hsn, hfl⟩ := h.sync hs
      refine ⟨hsn, ?_⟩
      simp only [ustep, US.cnode, setNode_same] at hfl ⊢
      rw [kw]; exact hfl
    · intro hr
      simp only [ustep] at hr
      -- in both ways of having `reread`, `sawNext` holds
      have hsn : s.sawNext = true := by
        rcases Bool.or_eq_true _ _ |>.mp hr with h1 | h1
        · exact (h.rr h1).1
        · exact (Bool.and_eq_true _ _ |>.mp h1).1
      refine ⟨hsn, ?_⟩
      intro hs
      simp only [ustep] at hs
      have ⟨_, hfl⟩ := h.sync hs
      simp only [ustep, US.cnode, setNode_same]
      simp only [US.cnode] at hfl
      rw [kw]
      cases op with
      | loadW v =>
        obtain ⟨hv, _⟩ := hen
        have h1 := hq.whLe v hv
        have h2 := hq.wNew
        simp only [floorOK] at hfloor
        simp only [step]
        omega
      | read n =>
        have hold : s.reread = true := by simpa [isLoadW] using hr
        have := (h.rr hold).2 hs
        simp only [US.cnode] at this
        simpa [step] using this
      | commitR b =>
        have hold : s.reread = true := by simpa [isLoadW] using hr
        have := (h.rr hold).2 hs
        simp only [US.cnode] at this
        simp only [step]; split <;> exact this
      | reloadR v => simp [isConsumerOp] at hcons
      | write n => simp [isConsumerOp] at hcons
      | commitW => simp [isConsumerOp] at hcons
  | publish cap' =>
    obtain ⟨hcap, hcomm⟩ := he
    have hlen := h.len
    refine { len := ?_, cp := ?_, qinv := ?_, pub := ?_, sealK := ?_, floorLe := ?_, saw := ?_,
             sawEq := h.sawEq, sync := ?_, rr := ?_ }
    · simp only [ustep]
    · simp only [ustep]; have := h.cp; omega
    · intro k hk
      simp only [ustep] at hk ⊢
      by_cases hkn : k = s.n
      · subst hkn; rw [setNode_same]; exact init_inv cap' _ hcap
      · rw [setNode_other _ _ hkn]
        by_cases hkp : k = s.pi
        · subst hkp; rw [setNode_same]; exact h.qinv _ hpiLt
        · rw [setNode_other _ _ hkp]; exact h.qinv k (by omega)
    · intro k hk
      simp only [ustep] at hk ⊢
      by_cases hkn : k = s.n
      · subst hkn; rw [setNode_same]; simp
      · rw [setNode_other _ _ hkn]
        by_cases hkp : k = s.pi
        · subst hkp; rw [setNode_same]; simp; omega
        · rw [setNode_other _ _ hkp]
          have := h.pub k (by omega)
          constructor
          · intro hp; have := this.mp hp; omega
          · intro hp; exact this.mpr (by omega)
    · intro k hk
      simp only [ustep] at hk ⊢
      have hkn : k ≠ s.n := by omega
      rw [setNode_other _ _ hkn]
      by_cases hkp : k = s.pi
      · subst hkp; rw [setNode_same]; exact hcomm
      · rw [setNode_other _ _ hkp]; exact h.sealK k (by omega)
    · intro k hk
      simp only [ustep] at hk ⊢
      by_cases hkn : k = s.n
      · subst hkn; rw [setNode_same]; simp
      · rw [setNode_other _ _ hkn]
        by_cases hkp : k = s.pi
        · subst hkp; rw [setNode_same]; exact h.floorLe _ hpiLt
        · rw [setNode_other _ _ hkp]; exact h.floorLe k (by omega)
    · intro hs; simp only [ustep] at hs ⊢; have := h.saw hs; omega
    · intro hs
      simp only [ustep] at hs
      have ⟨hsn, hfl⟩ := h.sync hs
      refine ⟨hsn, ?_⟩
      have hcn : s.ci ≠ s.n := by omega
      simp only [ustep, US.cnode] at hfl ⊢
      rw [setNode_other _ _ hcn]
      by_cases hcp : s.ci = s.pi
      · rw [hcp, setNode_same]; rw [hcp] at hfl; exact hfl
      · rw [setNode_other _ _ hcp]; exact hfl
    · intro hr
      simp only [ustep] at hr
      have ⟨hsn, hw⟩ := h.rr hr
      refine ⟨hsn, ?_⟩
      intro hs
      have hcn : s.ci ≠ s.n := by omega
      simp only [ustep, US.cnode] at hw ⊢
      rw [setNode_other _ _ hcn]
      by_cases hcp : s.ci = s.pi
      · rw [hcp, setNode_same]; rw [hcp] at hw; exact hw hs
      · rw [setNode_other _ _ hcp]; exact hw hs
  | seeNext =>
    have hpubd : s.cnode.published = true := he
    have hlt : s.ci < s.pi := (h.pub s.ci hciLt).mp hpubd
    have hseal := h.sealK s.ci hlt
    refine { len := h.len, cp := h.cp, qinv := ?_, pub := ?_, sealK := ?_, floorLe := ?_, saw := fun _ => hlt,
             sawEq := fun _ => rfl, sync := ?_, rr := ?_ }
    all_goals simp only [ustep, hsync, if_true]
    · intro k hk
      by_cases hkc : k = s.ci
      · subst hkc; rw [setNode_same]; exact h.qinv _ hk
      · rw [setNode_other _ _ hkc]; exact h.qinv k hk
    · intro k hk
      by_cases hkc : k = s.ci
      · subst hkc; rw [setNode_same]; exact h.pub _ hk
      · rw [setNode_other _ _ hkc]; exact h.pub k hk
    · intro k hk
      by_cases hkc : k = s.ci
      · subst hkc; rw [setNode_same]; exact h.sealK _ hk
      · rw [setNode_other _ _ hkc]; exact h.sealK k hk
    · intro k hk
      by_cases hkc : k = s.ci
      · subst hkc; rw [setNode_same]; simp only [US.cnode] at hseal ⊢; omega
      · rw [setNode_other _ _ hkc]; exact h.floorLe k hk
    · intro _; refine ⟨trivial, ?_⟩; simp [US.cnode, setNode_same]
    · intro hr; simp at hr
  | switch =>
    obtain ⟨hsn, _, _⟩ := he
    have hlt := h.saw hsn
    refine { len := h.len, cp := ?_, qinv := h.qinv, pub := h.pub, sealK := h.sealK, floorLe := h.floorLe,
             saw := ?_, sawEq := ?_, sync := ?_, rr := ?_ } <;> simp [ustep]
    omega

theorem ustep_safe (o : UParams) (ho : UOrdersOK o) (s : US) (op : UOp) (h : UInv o s)
    (he : UEnabled o s op) : USafe s op := by
  obtain ⟨_, hsync, hrr⟩ := ho
  have hpiLt : s.pi < s.n := by have := h.len; omega
  have hciLt : s.ci < s.n := by have := h.len; have := h.cp; omega
  cases op with
  | p op => exact ⟨h.cp, step_safe _ op (h.qinv s.pi hpiLt) he.2⟩
  | c op => exact step_safe _ op (h.qinv s.ci hciLt) he.2.1
  | publish c => trivial
  | seeNext => trivial
  | switch =>
    obtain ⟨hsn, hrw, hre⟩ := he
    have hss : s.sawSync = true := by rw [h.sawEq hsn]; exact hsync
    have hwc := (h.rr (hre hrr)).2 hss
    refine ⟨all_read (h.qinv s.ci hciLt) (by omega), hss, h.saw hsn⟩

theorem ureachable_inv (o : UParams) (ho : UOrdersOK o) :
    ∀ (ops : List UOp) (s : US), UInv o s → URun o s ops → UInv o (urun o s ops)
  | [], _, h, _ => h
  | op :: ops, s, h, hr => ureachable_inv o ho ops _ (ustep_inv o ho s op h hr.1) hr.2

theorem usafeB_iff (s : US) (op : UOp) : usafeB s op = true ↔ USafe s op := by
  cases op <;> simp [usafeB, USafe, safeB_iff, and_assoc]

end Uspsc
