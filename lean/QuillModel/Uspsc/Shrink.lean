import QuillModel.Uspsc.Trace
import QuillModel.Uspsc.ReadPass
import QuillModel.Uspsc.Capacity
import QuillModel.MathUtil.NextPow2
/-!
# Unbounded queue: `shrink` (helpers for `Props/C20Shrink.lean`)

Anchors: `include/quill/core/UnboundedSPSCQueue.h` — `shrink(capacity)`, `producer_capacity()` (what
`Frontend::get_thread_local_queue_capacity()` reports), `capacity()` (consumer side), `_read_next_queue`.

* `producerCapacity` / `consumerCapacity`: the two capacities the queue reports.
* `nextPow2` (loop with fuel `n`) is the least power of two `≥ n`; more fuel never changes the result
  (`nextPow2_go_fuel`); likewise for the doubling loop `dbl` of `_handle_full_queue` (`dbl_fuel`).
* the state after the micro-steps of `apiShrink` (`shrink_state`, `noshrink_state`).
* a node the producer has left is frozen: no later step changes its records, its final writer position or its
  capacity, and the producer never returns to it (`ustep_left_frozen` / `urun_left_frozen`).
-/
namespace Uspsc
open Spsc

/-- `producer_capacity()`: capacity of the node the producer writes to (reported to the logging thread) -/
def producerCapacity (s : US) : Nat := s.pnode.q.cap
/-- `capacity()`: capacity of the node the consumer reads from -/
def consumerCapacity (s : US) : Nat := s.cnode.q.cap

/-! ### `nextPow2`: the loop fuel is enough -/

theorem nextPow2_isNext (n : Nat) : MathUtil.IsNextPow2 n (nextPow2 n) := MathUtil.uspsc_nextPow2_isNext n

/-- with any fuel `≥ n` the loop of `nextPow2` ends because its condition `c < n` fails, never because the fuel ran
    out: the result does not depend on the fuel -/
theorem nextPow2_go_fuel (n fuel : Nat) (hf : n ≤ fuel) : nextPow2.go n fuel 1 = nextPow2 n := by
  obtain ⟨k, h1, h2, h3⟩ := MathUtil.uspsc_go_spec n fuel 0 (by omega) (Or.inl rfl)
  rw [Nat.pow_zero] at h1
  rw [h1]
  exact MathUtil.isNextPow2_unique (MathUtil.isNextPow2_of_bracket h2 h3) (nextPow2_isNext n)

/-- the result is less than twice the request (for a positive request) -/
theorem nextPow2_lt_double {n : Nat} (hn : 0 < n) : nextPow2 n < 2 * n := by
  obtain ⟨k, h1, _, h3⟩ := MathUtil.uspsc_go_spec n n 0 (by omega) (Or.inl rfl)
  rw [Nat.pow_zero] at h1
  have e : nextPow2 n = 2 ^ k := h1
  rw [e]
  rcases h3 with rfl | h3
  · simp; omega
  · have hk : k = (k - 1) + 1 := by
      rcases k with _ | k
      · simp at h3; omega
      · omega
    rw [hk, Nat.pow_succ]; omega

theorem nextPow2_pos (n : Nat) : 0 < nextPow2 n := by
  obtain ⟨⟨k, hk⟩, _, _⟩ := nextPow2_isNext n
  rw [hk]; exact Nat.two_pow_pos k

/-- a request of at most half the capacity gets a node smaller than the current one (capacity ≥ 2) -/
theorem nextPow2_lt_cap {cap c : Nat} (h2 : 2 ≤ cap) (hc : c ≤ cap / 2) : nextPow2 c < cap := by
  rcases Nat.eq_zero_or_pos c with rfl | hpos
  · have : nextPow2 0 = 1 := by decide
    omega
  · have := nextPow2_lt_double hpos
    omega

/-- with a power-of-two capacity the new node has at most half of it -/
theorem nextPow2_le_half {j c : Nat} (hj : 1 ≤ j) (hc : c ≤ 2 ^ j / 2) : nextPow2 c ≤ 2 ^ j / 2 := by
  have e : 2 ^ j / 2 = 2 ^ (j - 1) := by
    have : j = (j - 1) + 1 := by omega
    rw [this, Nat.pow_succ]; simp
  rw [e] at hc ⊢
  exact (nextPow2_isNext c).2.2 (j - 1) hc

/-! ### the doubling loop of `_handle_full_queue`: the fuel is enough -/

theorem dbl_fuel (n : Nat) : ∀ (f1 f2 c : Nat), 0 < c → n ≤ c + f1 → n ≤ c + f2 → dbl f1 c n = dbl f2 c n := by
  intro f1
  induction f1 with
  | zero =>
    intro f2 c _ h1 _
    cases f2 with
    | zero => rfl
    | succ f2 => simp only [dbl]; rw [if_neg (by omega)]
  | succ f1 ih =>
    intro f2 c hc h1 h2
    by_cases hlt : c < n
    · cases f2 with
      | zero => omega
      | succ f2 =>
        simp only [dbl, hlt, if_true]
        exact ih f2 (c * 2) (by omega) (by omega) (by omega)
    · cases f2 with
      | zero => simp only [dbl]; rw [if_neg hlt]
      | succ f2 => simp only [dbl]; rw [if_neg hlt, if_neg hlt]

/-! ### the state after `shrink` -/

theorem URun_split (o : UParams) : ∀ (a b : List UOp) (s : US), URun o s (a ++ b) → URun o s a ∧ URun o (urun o s a) b
  | [], _, _, h => ⟨trivial, h⟩
  | x :: a, b, s, h => by
    obtain ⟨h1, h2⟩ := URun_split o a b (ustep o s x) h.2
    exact ⟨⟨h.1, h1⟩, h2⟩

theorem apiShrink_alloc (s : US) (c : Nat) (hc : c ≤ s.pnode.q.cap / 2) :
    apiShrink s c = ([.publish (nextPow2 c)], .shrunk (nextPow2 c)) := by
  simp only [apiShrink, (shrink_allocates_iff _ _).mpr hc, if_true]

theorem apiShrink_noop (s : US) (c : Nat) (hc : s.pnode.q.cap / 2 < c) : apiShrink s c = ([], .noshrink) := by
  have : shrinkAllocates s.pnode.q.cap c = false := by
    cases h : shrinkAllocates s.pnode.q.cap c
    · rfl
    · have := (shrink_allocates_iff _ _).mp h; omega
  simp only [apiShrink, this]
  rfl

theorem publish_pnode (o : UParams) (s : US) (c : Nat) :
    (ustep o s (.publish c)).pnode = { q := init c (s.batch c) } := by
  simp [ustep, US.pnode, setNode]

theorem publish_old (o : UParams) (s : US) (c : Nat) (h : s.pi ≠ s.n) :
    ((ustep o s (.publish c)).nodes s.pi).q = s.pnode.q ∧ ((ustep o s (.publish c)).nodes s.pi).published = true := by
  simp [ustep, US.pnode, setNode, h]

/-! ### a node the producer has left is frozen -/

theorem step_cap (o : Params) (q : St) (op : Op) : (step o q op).cap = q.cap := by
  cases op <;> simp only [step]
  split <;> rfl

/-- what no later step may change in a node the producer has left -/
def SameLeft (a b : Node) : Prop := b.q.recs = a.q.recs ∧ b.q.wpos = a.q.wpos ∧ b.q.cap = a.q.cap

theorem ustep_left_frozen (o : UParams) (s : US) (op : UOp) (h : UInv o s) (he : UEnabled o s op) (k : Nat)
    (hk : k < s.pi) : SameLeft (s.nodes k) ((ustep o s op).nodes k) ∧ s.pi ≤ (ustep o s op).pi := by
  have hlen := h.len
  cases op with
  | p op =>
    refine ⟨?_, Nat.le_refl _⟩
    simp only [ustep]
    rw [setNode_other _ _ (by omega)]
    exact ⟨rfl, rfl, rfl⟩
  | c op =>
    refine ⟨?_, Nat.le_refl _⟩
    simp only [ustep]
    by_cases hkc : k = s.ci
    · subst hkc
      rw [setNode_same]
      obtain ⟨_, kw, kr⟩ := consumer_keeps o.q s.cnode.q op he.1
      exact ⟨kr, kw, step_cap o.q s.cnode.q op⟩
    · rw [setNode_other _ _ hkc]
      exact ⟨rfl, rfl, rfl⟩
  | publish c =>
    refine ⟨?_, by simp only [ustep]; omega⟩
    simp only [ustep]
    rw [setNode_other _ _ (by omega), setNode_other _ _ (by omega)]
    exact ⟨rfl, rfl, rfl⟩
  | seeNext =>
    refine ⟨?_, Nat.le_refl _⟩
    simp only [ustep]
    split
    · by_cases hkc : k = s.ci
      · subst hkc; rw [setNode_same]; exact ⟨rfl, rfl, rfl⟩
      · rw [setNode_other _ _ hkc]; exact ⟨rfl, rfl, rfl⟩
    · exact ⟨rfl, rfl, rfl⟩
  | switch => exact ⟨⟨rfl, rfl, rfl⟩, Nat.le_refl _⟩

theorem urun_left_frozen (o : UParams) (ho : UOrdersOK o) : ∀ (ops : List UOp) (s : US), UInv o s → URun o s ops →
    ∀ k, k < s.pi → SameLeft (s.nodes k) ((urun o s ops).nodes k) ∧ s.pi ≤ (urun o s ops).pi
  | [], _, _, _, _, _ => ⟨⟨rfl, rfl, rfl⟩, Nat.le_refl _⟩
  | op :: ops, s, h, hr, k, hk => by
    obtain ⟨⟨a1, a2, a3⟩, hp⟩ := ustep_left_frozen o s op h hr.1 k hk
    obtain ⟨⟨b1, b2, b3⟩, hp'⟩ := urun_left_frozen o ho ops (ustep o s op) (ustep_inv o ho s op h hr.1) hr.2 k (by omega)
    exact ⟨⟨b1.trans a1, b2.trans a2, b3.trans a3⟩, by simp only [urun]; omega⟩

/-- no step changes the capacity of an allocated node, and nodes are never forgotten -/
theorem ustep_cap_frozen (o : UParams) (s : US) (op : UOp) (k : Nat) (hk : k < s.n) :
    ((ustep o s op).nodes k).q.cap = (s.nodes k).q.cap ∧ s.n ≤ (ustep o s op).n := by
  cases op with
  | p op =>
    refine ⟨?_, Nat.le_refl _⟩
    simp only [ustep]
    by_cases hkp : k = s.pi
    · subst hkp; rw [setNode_same]; exact step_cap o.q _ op
    · rw [setNode_other _ _ hkp]
  | c op =>
    refine ⟨?_, Nat.le_refl _⟩
    simp only [ustep]
    by_cases hkc : k = s.ci
    · subst hkc; rw [setNode_same]; exact step_cap o.q _ op
    · rw [setNode_other _ _ hkc]
  | publish c =>
    refine ⟨?_, by simp only [ustep]; omega⟩
    simp only [ustep]
    rw [setNode_other _ _ (by omega)]
    by_cases hkp : k = s.pi
    · subst hkp; rw [setNode_same]; rfl
    · rw [setNode_other _ _ hkp]
  | seeNext =>
    refine ⟨?_, Nat.le_refl _⟩
    simp only [ustep]
    split
    · by_cases hkc : k = s.ci
      · subst hkc; rw [setNode_same]; rfl
      · rw [setNode_other _ _ hkc]
    · rfl
  | switch => exact ⟨rfl, Nat.le_refl _⟩

theorem urun_cap_frozen (o : UParams) : ∀ (ops : List UOp) (s : US) (k : Nat), k < s.n →
    ((urun o s ops).nodes k).q.cap = (s.nodes k).q.cap ∧ s.n ≤ (urun o s ops).n
  | [], _, _, _ => ⟨rfl, Nat.le_refl _⟩
  | op :: ops, s, k, hk => by
    obtain ⟨a, hn⟩ := ustep_cap_frozen o s op k hk
    obtain ⟨b, hn'⟩ := urun_cap_frozen o ops (ustep o s op) k (by omega)
    exact ⟨b.trans a, by simp only [urun]; omega⟩

theorem writesOfU_append : ∀ (a b : List UOp), writesOfU (a ++ b) = writesOfU a ++ writesOfU b
  | [], _ => rfl
  | x :: a, b => by
    rw [List.cons_append, writesOfU_cons, writesOfU_cons, writesOfU_append a b, List.append_assoc]

theorem readsOfU_append : ∀ (a b : List UOp), readsOfU (a ++ b) = readsOfU a ++ readsOfU b
  | [], _ => rfl
  | x :: a, b => by
    rw [List.cons_append, readsOfU_cons, readsOfU_cons, readsOfU_append a b, List.append_assoc]

end Uspsc
