import QuillModel.Spsc.Model
/-!
# Unbounded SPSC queue (`quill::detail::UnboundedSPSCQueue`): a chain of bounded queues

Anchors: `include/quill/core/UnboundedSPSCQueue.h` — `prepare_write` / `_handle_full_queue`, `shrink`,
`prepare_read` / `_read_next_queue`, `empty`.

A state is the list of nodes ever allocated (index = allocation order), the producer's node `pi`, the
consumer's node `ci` (nodes below `ci` have been deleted), and what the consumer knows about the `next`
pointer of its node. Inside a node the two threads perform the micro-steps of the bounded model; on top:

* `publish cap'`  producer: allocate a node of capacity `cap'`, store it into `next` of the current node,
                  move to it (`_handle_full_queue` after its `commit_write`, or `shrink`);
* `seeNext`       consumer: the load of `next` in `prepare_read` returns non-null;
* `switch`        consumer: after the re-read of the old node said "empty": `commit_read`, `delete`, move on.

`next` is written once, so its view semantics is simple: if publication is release and observation is
acquire (`syncNext`), then everything the producer did to the old node happens-before the consumer's
following accesses. Consequences modelled: (1) coherence — later loads of the old node's writer position
cannot return anything older than its final value (`wFloor`); (2) the consumer's `delete` is ordered
after the producer's last access. Without the synchronisation neither holds, and the model can reach a
`switch` that loses records or races with the producer (`Safe` fails).
-/
namespace Uspsc
open Spsc

structure UParams where
  q : Params                 -- orders inside each bounded node
  nextStore : MO             -- `next.store` in `_handle_full_queue` / `shrink`
  nextLoad : MO              -- `next.load` in `prepare_read`
  rereads : Bool             -- `_read_next_queue` tries the old node once more before switching
  deriving Repr, DecidableEq

def UParams.syncNext (o : UParams) : Bool := o.nextStore.isRel && o.nextLoad.isAcq
def UOrdersOK (o : UParams) : Prop := OrdersOK o.q ∧ o.syncNext = true ∧ o.rereads = true
instance (o : UParams) : Decidable (UOrdersOK o) := by unfold UOrdersOK; infer_instance

structure Node where
  q : St
  published : Bool := false     -- `next` of this node has been stored (points to the node after it)
  wFloor : Nat := 0             -- consumer loads of this node's writer position may not return less

structure US where
  nodes : Nat → Node            -- node `k` = the `k`-th node ever allocated (meaningful for `k < n`)
  n : Nat
  pi : Nat
  ci : Nat
  sawNext : Bool                -- consumer has observed `next ≠ nullptr` of node `ci`
  sawSync : Bool                -- … and that observation synchronised with the publication
  reread : Bool                 -- … and has loaded the old node's writer position again since
  batch : Nat → Nat             -- batch threshold as a function of a node's capacity (5 % in the C++)

def US.pnode (s : US) : Node := s.nodes s.pi
def US.cnode (s : US) : Node := s.nodes s.ci

inductive UOp
  | p (op : Op)                 -- producer micro-step on its node: `reloadR`, `write`, `commitW`
  | c (op : Op)                 -- consumer micro-step on its node: `loadW`, `read`, `commitR`
  | publish (cap' : Nat)
  | seeNext
  | switch
  deriving Repr

def isProducerOp : Op → Bool | .reloadR _ | .write _ | .commitW => true | _ => false
def isConsumerOp : Op → Bool | .loadW _ | .read _ | .commitR _ => true | _ => false

def floorOK (nd : Node) : Op → Prop
  | .loadW v => nd.wFloor ≤ v
  | _ => True

instance (nd : Node) (op : Op) : Decidable (floorOK nd op) := by
  cases op <;> unfold floorOK <;> infer_instance

def UEnabled (o : UParams) (s : US) : UOp → Prop
  | .p op => isProducerOp op = true ∧ Enabled s.pnode.q op
  | .c op => isConsumerOp op = true ∧ Enabled s.cnode.q op ∧ floorOK s.cnode op
  | .publish cap' => 0 < cap' ∧ s.pnode.q.wHist.headD 0 = s.pnode.q.wpos   -- everything committed first
  | .seeNext => s.cnode.published = true
  | .switch => s.sawNext = true ∧ s.cnode.q.rpos = s.cnode.q.wcache ∧      -- the (re-)read said "empty"
               (o.rereads = true → s.reread = true)

instance (o : UParams) (s : US) (op : UOp) : Decidable (UEnabled o s op) := by
  cases op <;> unfold UEnabled <;> infer_instance

def setNode (f : Nat → Node) (i : Nat) (nd : Node) : Nat → Node := fun k => if k = i then nd else f k

def isLoadW : Op → Bool | .loadW _ => true | _ => false

def ustep (o : UParams) (s : US) : UOp → US
  | .p op => { s with nodes := setNode s.nodes s.pi { s.pnode with q := step o.q s.pnode.q op } }
  | .c op => { s with nodes := setNode s.nodes s.ci { s.cnode with q := step o.q s.cnode.q op },
                      reread := s.reread || (s.sawNext && isLoadW op) }
  | .publish cap' =>
      { s with nodes := setNode (setNode s.nodes s.pi { s.pnode with published := true }) s.n
                          { q := init cap' (s.batch cap') },
               n := s.n + 1, pi := s.n }
  | .seeNext =>
      { s with sawNext := true, sawSync := o.syncNext, reread := false,
               nodes := if o.syncNext
                        then setNode s.nodes s.ci { s.cnode with wFloor := s.cnode.q.wpos }
                        else s.nodes }
  | .switch => { s with ci := s.ci + 1, sawNext := false, sawSync := false, reread := false }

/-- what must never go wrong -/
def USafe (s : US) : UOp → Prop
  | .p op => s.ci ≤ s.pi ∧ Safe s.pnode.q op            -- the producer's node is alive; bounded safety
  | .c op => Safe s.cnode.q op
  | .switch => s.cnode.q.nread = s.cnode.q.recs.length ∧  -- every record of the old node has been read
               s.sawSync = true ∧                          -- the delete happens-after the producer's last access
               s.ci < s.pi                                 -- the producer has left the node being deleted
  | _ => True

def usafeB (s : US) : UOp → Bool
  | .p op => decide (s.ci ≤ s.pi) && safeB s.pnode.q op
  | .c op => safeB s.cnode.q op
  | .switch => decide (s.cnode.q.nread = s.cnode.q.recs.length) && s.sawSync && decide (s.ci < s.pi)
  | _ => true

def uinit (cap : Nat) (batch : Nat → Nat) : US :=
  { nodes := fun _ => { q := init cap (batch cap) }, n := 1, pi := 0, ci := 0,
    sawNext := false, sawSync := false, reread := false, batch }

def URun (o : UParams) : US → List UOp → Prop
  | _, [] => True
  | s, op :: ops => UEnabled o s op ∧ URun o (ustep o s op) ops

def urun (o : UParams) : US → List UOp → US
  | s, [] => s
  | s, op :: ops => urun o (ustep o s op) ops

def decURun (o : UParams) : (s : US) → (ops : List UOp) → Decidable (URun o s ops)
  | _, [] => isTrue trivial
  | s, op :: ops =>
      match (inferInstance : Decidable (UEnabled o s op)), decURun o (ustep o s op) ops with
      | isTrue h1, isTrue h2 => isTrue ⟨h1, h2⟩
      | isFalse h1, _ => isFalse (fun h => h1 h.1)
      | _, isFalse h2 => isFalse (fun h => h2 h.2)

instance (o : UParams) (s : US) (ops : List UOp) : Decidable (URun o s ops) := decURun o s ops

/-! ### capacity decision of `_handle_full_queue` -/

inductive Grow | alloc (cap : Nat) | null | throw
  deriving Repr, DecidableEq

/-- `while (capacity < nbytes) capacity *= 2` with fuel (enough: `fuel = nbytes`) -/
def dbl : Nat → Nat → Nat → Nat
  | 0, c, _ => c
  | fuel + 1, c, n => if c < n then dbl fuel (c * 2) n else c

def growDecision (cap n maxCap : Nat) : Grow :=
  let c := dbl n (cap * 2) n
  if c > maxCap then (if n > maxCap then .throw else .null) else .alloc c

/-- `shrink(c)` allocates iff `c ≤ capacity / 2` -/
def shrinkAllocates (cap c : Nat) : Bool := !(decide (c > cap / 2))

end Uspsc
