import QuillModel.Uspsc.Proofs
import QuillModel.Uspsc.Api
/-!
# The backend's read of one unbounded frontend queue (`BackendWorker::_read_unbounded_frontend_queue`)

`apiRead follow` = call `prepare_read()`; when it reports that it switched to the next buffer and found that buffer
empty (`.switch … .null`) and `follow` holds, call it again (the repair of finding F25; `follow = false` is the code as
found). Loads return the newest value (the statement below is about what is visible at this instant; a stale load
only delays visibility). Fuel: one unit per buffer switch — the number of nodes suffices.

Main result (`apiRead_complete`): from every state satisfying the chain invariant, `apiRead true` is a legal run of
micro-steps, it answers `null` only if NO node from the consumer's node to the producer's node holds a committed unread
record, and when it answers a record, that record is at the reader position of the FIRST such node (every node before
it is drained): FIFO across nodes.
-/
namespace Uspsc
open Spsc

/-- the answer at the end of the chain of switches -/
def UObs.final : UObs → UObs
  | .switch _ _ t => t.final
  | x => x

def UObs.isNull : UObs → Bool
  | .null => true
  | _ => false

def UObs.readsAt : UObs → Option (Nat × Nat)
  | .readAt nd off => some (nd, off)
  | _ => none

/-- `_read_unbounded_frontend_queue`: `prepare_read()`, repeated while a switch found the new buffer empty (if `follow`) -/
def apiRead (follow : Bool) (o : UParams) (f : Flags) : Nat → US → List UOp × UObs
  | 0, _ => ([], .null)
  | fuel + 1, s =>
    let r := apiPrepareRead o f s false 0 0 0 0
    match r.2 with
    | .switch p n .null =>
      if follow then
        let t := apiRead follow o f fuel (urun o s r.1)
        (r.1 ++ t.1, .switch p n t.2)
      else r
    | _ => r

/-- node `k` holds a committed record the consumer has not read -/
def pend (s : US) (k : Nat) : Prop := (s.nodes k).q.rpos < (s.nodes k).q.wHist.headD 0
instance (s : US) (k : Nat) : Decidable (pend s k) := by unfold pend; infer_instance

/-! ### every node has a non-empty store history of the writer position -/

def WH (s : US) : Prop := ∀ k, (s.nodes k).q.wHist ≠ []

theorem uinit_wh (cap : Nat) (batch : Nat → Nat) : WH (uinit cap batch) := by
  intro k; simp [uinit, init]

theorem step_wh (o : Params) (q : St) (op : Op) (h : q.wHist ≠ []) : (step o q op).wHist ≠ [] := by
  cases op <;> simp only [step] <;> (try split) <;> first | exact h | simp

theorem ustep_wh (o : UParams) (s : US) (op : UOp) (h : WH s) : WH (ustep o s op) := by
  intro k
  cases op with
  | p op =>
    simp only [ustep, setNode]; split
    · exact step_wh _ _ _ (h _)
    · exact h k
  | c op =>
    simp only [ustep, setNode]; split
    · exact step_wh _ _ _ (h _)
    · exact h k
  | publish c =>
    simp only [ustep, setNode]; split
    · simp [init]
    · split
      · exact h _
      · exact h k
  | seeNext =>
    simp only [ustep]; split
    · simp only [setNode]; split
      · exact h _
      · exact h k
    · exact h k
  | switch => exact h k

theorem urun_wh (o : UParams) : ∀ (ops : List UOp) (s : US), WH s → WH (urun o s ops)
  | [], _, h => h
  | op :: ops, s, h => urun_wh o ops _ (ustep_wh o s op h)

theorem pickF_newest (hist : List Nat) (cache floor : Nat) (hne : hist ≠ [])
    (hc : cache ≤ hist.headD 0) (hf : floor ≤ hist.headD 0) : pickF hist cache floor 0 = hist.headD 0 := by
  cases hist with
  | nil => exact absurd rfl hne
  | cons h t =>
    simp only [List.headD_cons] at hc hf
    unfold pickF
    simp only [List.filter_cons, hc, hf, decide_true, Bool.and_self, if_true, List.eraseDups_cons, List.headD_cons]
    simp

end Uspsc

namespace Uspsc
open Spsc

/-! ### the micro-steps of a read keep reader positions and store histories of every node -/

structure Keeps (s s' : US) : Prop where
  n : s'.n = s.n
  pi : s'.pi = s.pi
  node : ∀ k, (s'.nodes k).q.rpos = (s.nodes k).q.rpos ∧ (s'.nodes k).q.wHist = (s.nodes k).q.wHist ∧
    (s'.nodes k).q.cap = (s.nodes k).q.cap

theorem Keeps.refl (s : US) : Keeps s s := ⟨rfl, rfl, fun _ => ⟨rfl, rfl, rfl⟩⟩
theorem Keeps.trans {a b c : US} (h1 : Keeps a b) (h2 : Keeps b c) : Keeps a c :=
  ⟨h2.n.trans h1.n, h2.pi.trans h1.pi, fun k =>
    ⟨(h2.node k).1.trans (h1.node k).1, (h2.node k).2.1.trans (h1.node k).2.1, (h2.node k).2.2.trans (h1.node k).2.2⟩⟩

theorem Keeps.pend {s s' : US} (h : Keeps s s') (k : Nat) : pend s' k ↔ pend s k := by
  unfold Uspsc.pend; rw [(h.node k).1, (h.node k).2.1]

theorem keeps_loadW (o : UParams) (s : US) (v : Nat) : Keeps s (ustep o s (.c (.loadW v))) := by
  refine ⟨rfl, rfl, fun k => ?_⟩
  simp only [ustep, setNode]; split
  · next h => subst h; simp [step, US.cnode]
  · exact ⟨rfl, rfl, rfl⟩

theorem keeps_commitR (o : UParams) (s : US) (b : Bool) : Keeps s (ustep o s (.c (.commitR b))) := by
  refine ⟨rfl, rfl, fun k => ?_⟩
  simp only [ustep, setNode]; split
  · next h => subst h; simp only [step, US.cnode]; split <;> exact ⟨rfl, rfl, rfl⟩
  · exact ⟨rfl, rfl, rfl⟩

theorem keeps_seeNext (o : UParams) (s : US) : Keeps s (ustep o s .seeNext) := by
  refine ⟨rfl, rfl, fun k => ?_⟩
  simp only [ustep]; split
  · simp only [setNode]; split
    · next h => subst h; exact ⟨rfl, rfl, rfl⟩
    · exact ⟨rfl, rfl, rfl⟩
  · exact ⟨rfl, rfl, rfl⟩

theorem keeps_switch (o : UParams) (s : US) : Keeps s (ustep o s .switch) := ⟨rfl, rfl, fun _ => ⟨rfl, rfl, rfl⟩⟩

theorem headD_mem {l : List Nat} (h : l ≠ []) : l.headD 0 ∈ l := by
  cases l with
  | nil => exact absurd rfl h
  | cons a t => simp

/-- what the bounded `prepare_read` on the consumer's node does with a newest load -/
structure BR (o : UParams) (s s1 : US) : Prop where
  run : URun o s (boundedRead s 0)
  eq : s1 = urun o s (boundedRead s 0)
  keeps : Keeps s s1
  ci : s1.ci = s.ci
  saw : s1.sawNext = s.sawNext
  test : s1.cnode.q.wcache ≠ s1.cnode.q.rpos ↔ pend s s.ci
  rr : s.sawNext = true → ¬ pend s s.ci → s1.reread = true

theorem br_spec (o : UParams) (s : US) (h : UInv o s) (hw : WH s) : BR o s (urun o s (boundedRead s 0)) := by
  have hciLt : s.ci < s.n := by have := h.len; have := h.cp; omega
  have hq := h.qinv s.ci hciLt
  have hle : s.cnode.q.wcache ≤ s.cnode.q.wHist.headD 0 := by
    have := hq.wcLe; have := hq.cHbLe; simp only [US.cnode]; omega
  have hrw : s.cnode.q.rpos ≤ s.cnode.q.wcache := hq.rw
  by_cases he : s.cnode.q.wcache = s.cnode.q.rpos
  · have hv : pickF s.cnode.q.wHist s.cnode.q.wcache s.cnode.wFloor 0 = s.cnode.q.wHist.headD 0 :=
      pickF_newest _ _ _ (hw s.ci) hle (h.floorLe s.ci hciLt)
    have hops : boundedRead s 0 = [.c (.loadW (s.cnode.q.wHist.headD 0))] := by
      unfold boundedRead; dsimp only; rw [if_pos he, hv]
    have hen : UEnabled o s (.c (.loadW (s.cnode.q.wHist.headD 0))) :=
      ⟨rfl, ⟨headD_mem (hw s.ci), hle⟩, h.floorLe s.ci hciLt⟩
    refine ⟨by rw [hops]; exact ⟨hen, trivial⟩, rfl, by rw [hops]; exact keeps_loadW o s _, by rw [hops]; rfl,
      by rw [hops]; rfl, ?_, ?_⟩
    · rw [hops]
      simp only [urun, ustep, US.cnode, setNode_same, step, Uspsc.pend]
      simp only [US.cnode] at he hle
      constructor
      · intro hne; omega
      · intro hlt; omega
    · intro hs _
      rw [hops]
      simp only [urun, ustep, hs, isLoadW, Bool.and_self, Bool.or_true]
  · have hops : boundedRead s 0 = [] := by unfold boundedRead; dsimp only; rw [if_neg he]
    refine ⟨by rw [hops]; trivial, rfl, by rw [hops]; exact Keeps.refl s, by rw [hops]; rfl, by rw [hops]; rfl, ?_, ?_⟩
    · rw [hops]
      simp only [urun, Uspsc.pend]
      simp only [US.cnode] at he hle hrw
      constructor
      · intro _; omega
      · intro _; exact he
    · intro _ hnp
      exfalso; apply hnp
      simp only [Uspsc.pend]; simp only [US.cnode] at he hle hrw; omega

end Uspsc

namespace Uspsc
open Spsc

theorem urun_append (o : UParams) : ∀ (a b : List UOp) (s : US), urun o s (a ++ b) = urun o (urun o s a) b
  | [], _, _ => rfl
  | x :: a, b, s => urun_append o a b (ustep o s x)

theorem URun_append (o : UParams) : ∀ (a b : List UOp) (s : US), URun o s a → URun o (urun o s a) b → URun o s (a ++ b)
  | [], _, _, _, h => h
  | x :: a, b, s, h1, h2 => ⟨h1.1, URun_append o a b _ h1.2 h2⟩

theorem urun_inv_wh (o : UParams) (ho : UOrdersOK o) (s : US) (ops : List UOp) (h : UInv o s) (hw : WH s)
    (hr : URun o s ops) : UInv o (urun o s ops) ∧ WH (urun o s ops) :=
  ⟨ureachable_inv o ho ops s h hr, urun_wh o ops s hw⟩

theorem run_snoc (o : UParams) (s : US) (a b : List UOp) (s' : US) (hr : URun o s a) (he : urun o s a = s')
    (hb : URun o s' b) : URun o s (a ++ b) ∧ urun o s (a ++ b) = urun o s' b := by
  subst he
  exact ⟨URun_append o a b s hr hb, urun_append o a b s⟩

theorem commitR_q (o : Params) (q : St) (b : Bool) :
    (step o q (.commitR b)).rpos = q.rpos ∧ (step o q (.commitR b)).wcache = q.wcache := by
  simp only [step]; split <;> exact ⟨rfl, rfl⟩

/-- what one `prepare_read()` with newest loads does -/
structure PRSpec (o : UParams) (s : US) (r : List UOp × UObs) : Prop where
  run : URun o s r.1
  keeps : Keeps s (urun o s r.1)
  out :
    (pend s s.ci ∧ r.2 = .readAt s.ci ((s.nodes s.ci).q.rpos % (s.nodes s.ci).q.cap) ∧ (urun o s r.1).ci = s.ci) ∨
    (¬ pend s s.ci ∧ s.ci = s.pi ∧ r.2 = .null ∧ (urun o s r.1).ci = s.ci) ∨
    (¬ pend s s.ci ∧ s.ci < s.pi ∧ (urun o s r.1).ci = s.ci + 1 ∧
      ∃ p n, r.2 = .switch p n (if pend s (s.ci + 1) then
        .readAt (s.ci + 1) ((s.nodes (s.ci + 1)).q.rpos % (s.nodes (s.ci + 1)).q.cap) else .null))

theorem prepareRead_spec (o : UParams) (ho : UOrdersOK o) (f : Flags) (s : US) (h : UInv o s) (hw : WH s) :
    PRSpec o s (apiPrepareRead o f s false 0 0 0 0) := by
  have b1 := br_spec o s h hw
  obtain ⟨i1, w1⟩ := urun_inv_wh o ho s _ h hw b1.run
  unfold apiPrepareRead
  dsimp only
  generalize urun o s (boundedRead s 0) = s1 at b1 i1 w1 ⊢
  have hs1 := b1.eq
  by_cases hp : pend s s.ci
  · rw [if_pos (b1.test.mpr hp)]
    refine ⟨b1.run, hs1 ▸ b1.keeps, Or.inl ⟨hp, ?_, by rw [← hs1]; exact b1.ci⟩⟩
    have hk := b1.keeps.node s.ci
    simp only [US.cnode, b1.ci, hk.1, hk.2.2]
  · have ht : ¬ (s1.cnode.q.wcache ≠ s1.cnode.q.rpos) := fun hh => hp (b1.test.mp hh)
    rw [if_neg ht]
    by_cases hpub : s1.cnode.published = true
    · -- the producer has left this node: follow `next`
      have hcond : ¬ ¬ (s1.cnode.published = true ∧ (0 = 0 ∨ s1.sawNext = true ∨ false = true)) :=
        fun hh => hh ⟨hpub, Or.inl rfl⟩
      rw [if_neg hcond, ho.2.2]
      simp only [if_true]
      have hci1 : s1.ci < s1.n := by have := i1.len; have := i1.cp; omega
      have hlt1 : s1.ci < s1.pi := (i1.pub s1.ci hci1).mp hpub
      have e2 : UEnabled o s1 .seeNext := hpub
      have i2 := ustep_inv o ho s1 .seeNext i1 e2
      have w2 := ustep_wh o s1 .seeNext w1
      have k2 := keeps_seeNext o s1
      have hsaw2 : (ustep o s1 .seeNext).sawNext = true := by simp [ustep]
      have hci2 : (ustep o s1 .seeNext).ci = s1.ci := by simp [ustep]
      generalize hs2 : ustep o s1 .seeNext = s2 at i2 w2 k2 hsaw2 hci2 ⊢
      have b3 := br_spec o s2 i2 w2
      obtain ⟨i3, w3⟩ := urun_inv_wh o ho s2 _ i2 w2 b3.run
      have hnp2 : ¬ pend s2 s2.ci := by
        rw [hci2, k2.pend, b1.ci, b1.keeps.pend]; exact hp
      generalize urun o s2 (boundedRead s2 0) = s3 at b3 i3 w3 ⊢
      have ht3 : ¬ (s3.cnode.q.wcache ≠ s3.cnode.q.rpos) := fun hh => hnp2 (b3.test.mp hh)
      rw [if_neg ht3]
      have heq3 : s3.cnode.q.rpos = s3.cnode.q.wcache := by
        have := ht3; simp only [ne_eq, Decidable.not_not] at this; exact this.symm
      have hrr3 : s3.reread = true := b3.rr hsaw2 hnp2
      have hsaw3 : s3.sawNext = true := b3.saw.trans hsaw2
      -- the optional `commit_read`, then the switch
      have hops4 : ∃ s4, s4 = urun o s3 ((if f.commitReadBeforeDelete = true then
            [UOp.c (.commitR (publishes o.q s3.cnode.q))] else []) ++ [.switch]) ∧
          URun o s3 ((if f.commitReadBeforeDelete = true then
            [UOp.c (.commitR (publishes o.q s3.cnode.q))] else []) ++ [.switch]) ∧
          Keeps s3 s4 ∧ s4.ci = s3.ci + 1 := by
        refine ⟨_, rfl, ?_, ?_, ?_⟩
        · split
          · refine ⟨⟨rfl, trivial, trivial⟩, ?_, trivial⟩
            refine ⟨?_, ?_, fun _ => ?_⟩
            · simpa [ustep] using hsaw3
            · simp only [ustep, US.cnode, setNode_same]
              rw [(commitR_q o.q _ _).1, (commitR_q o.q _ _).2]; simpa [US.cnode] using heq3
            · simp [ustep, hrr3, isLoadW]
          · exact ⟨⟨hsaw3, heq3, fun _ => hrr3⟩, trivial⟩
        · split
          · exact (keeps_commitR o s3 _).trans (keeps_switch o _)
          · exact keeps_switch o s3
        · split <;> simp [urun, ustep]
      obtain ⟨s4, hs4, r4, k4, hci4⟩ := hops4
      rw [← hs4]
      obtain ⟨i4, w4⟩ := urun_inv_wh o ho s3 _ i3 w3 r4
      rw [← hs4] at i4 w4
      have b5 := br_spec o s4 i4 w4
      generalize hs5 : urun o s4 (boundedRead s4 0) = s5 at b5 ⊢
      -- assemble
      have hci3 : s3.ci = s.ci := by rw [b3.ci, hci2, b1.ci]
      have hci4' : s4.ci = s.ci + 1 := by rw [hci4, hci3]
      have hk4 : Keeps s s4 := ((b1.keeps.trans k2).trans b3.keeps).trans k4
      have hs3 := b3.eq
      have hs5' := b5.eq
      rw [hs5] at hs5'
      have step1 := run_snoc o s (boundedRead s 0) [UOp.seeNext] s1 b1.run hs1.symm ⟨e2, trivial⟩
      have e12 : urun o s1 [UOp.seeNext] = s2 := hs2
      have step2 := run_snoc o s (boundedRead s 0 ++ [UOp.seeNext]) (boundedRead s2 0) s2 step1.1
        (step1.2.trans e12) b3.run
      have step3 := run_snoc o s (boundedRead s 0 ++ [UOp.seeNext] ++ boundedRead s2 0)
        ((if f.commitReadBeforeDelete = true then [UOp.c (.commitR (publishes o.q s3.cnode.q))] else []) ++ [.switch]) s3
        step2.1 (step2.2.trans hs3.symm) r4
      have step4 := run_snoc o s (boundedRead s 0 ++ [UOp.seeNext] ++ boundedRead s2 0 ++
        ((if f.commitReadBeforeDelete = true then [UOp.c (.commitR (publishes o.q s3.cnode.q))] else []) ++ [.switch]))
        (boundedRead s4 0) s4 step3.1 (step3.2.trans hs4.symm) b5.run
      have hfin : urun o s (boundedRead s 0 ++ [UOp.seeNext] ++ boundedRead s2 0 ++
          ((if f.commitReadBeforeDelete = true then [UOp.c (.commitR (publishes o.q s3.cnode.q))] else []) ++ [.switch]) ++
          boundedRead s4 0) = s5 := step4.2.trans hs5
      refine ⟨step4.1, ?_, Or.inr (Or.inr ⟨hp, ?_, ?_, ?_⟩)⟩
      · show Keeps s (urun o s _)
        rw [hfin, hs5']; exact hk4.trans b5.keeps
      · rw [← b1.ci, ← b1.keeps.pi]; exact hlt1
      · show (urun o s _).ci = s.ci + 1
        rw [hfin, hs5', b5.ci]; exact hci4'
      · refine ⟨s3.cnode.q.cap, s5.cnode.q.cap, ?_⟩
        show UObs.switch _ _ _ = _
        congr 1
        have htest : s5.cnode.q.wcache ≠ s5.cnode.q.rpos ↔ pend s (s.ci + 1) := by
          rw [hs5', b5.test, hci4', hk4.pend]
        have hk5 : Keeps s s5 := hs5' ▸ hk4.trans b5.keeps
        have hci5 : s5.ci = s.ci + 1 := by rw [hs5', b5.ci]; exact hci4'
        by_cases hp2 : pend s (s.ci + 1)
        · rw [if_pos (htest.mpr hp2), if_pos hp2]
          have hk := hk5.node (s.ci + 1)
          simp only [US.cnode, hci5, hk.1, hk.2.2]
        · rw [if_neg (fun hh => hp2 (htest.mp hh)), if_neg hp2]
    · have hcond : ¬ (s1.cnode.published = true ∧ (0 = 0 ∨ s1.sawNext = true ∨ false = true)) := fun hh => hpub hh.1
      rw [if_pos hcond]
      refine ⟨b1.run, hs1 ▸ b1.keeps, Or.inr (Or.inl ⟨hp, ?_, rfl, by rw [← hs1]; exact b1.ci⟩)⟩
      have hci1 : s1.ci < s1.n := by have := i1.len; have := i1.cp; omega
      have hnlt : ¬ s1.ci < s1.pi := fun hh => hpub ((i1.pub s1.ci hci1).mpr hh)
      have := i1.cp
      rw [b1.ci, b1.keeps.pi] at hnlt
      rw [b1.ci, b1.keeps.pi] at this
      omega

end Uspsc

namespace Uspsc
open Spsc

theorem apiRead_follow (o : UParams) (f : Flags) (fuel : Nat) (s : US) (p n : Nat)
    (h : (apiPrepareRead o f s false 0 0 0 0).2 = .switch p n .null) :
    apiRead true o f (fuel + 1) s =
      ((apiPrepareRead o f s false 0 0 0 0).1 ++
          (apiRead true o f fuel (urun o s (apiPrepareRead o f s false 0 0 0 0).1)).1,
        .switch p n (apiRead true o f fuel (urun o s (apiPrepareRead o f s false 0 0 0 0).1)).2) := by
  rw [apiRead]
  dsimp only
  rw [h]
  rfl

theorem apiRead_stop (follow : Bool) (o : UParams) (f : Flags) (fuel : Nat) (s : US)
    (h : ∀ p n, (apiPrepareRead o f s false 0 0 0 0).2 ≠ .switch p n .null) :
    apiRead follow o f (fuel + 1) s = apiPrepareRead o f s false 0 0 0 0 := by
  rw [apiRead]
  dsimp only
  split
  · next p n heq => exact absurd heq (h p n)
  · rfl

theorem apiRead_nofollow (o : UParams) (f : Flags) (fuel : Nat) (s : US) :
    apiRead false o f (fuel + 1) s = apiPrepareRead o f s false 0 0 0 0 := by
  rw [apiRead]
  dsimp only
  split <;> rfl

/-- what the whole read answers, in terms of the state it started in -/
structure ReadSpec (o : UParams) (s : US) (r : List UOp × UObs) : Prop where
  run : URun o s r.1
  keeps : Keeps s (urun o s r.1)
  out :
    (r.2.final = .null ∧ ∀ k, s.ci ≤ k → k ≤ s.pi → ¬ pend s k) ∨
    (∃ nd, r.2.final = .readAt nd ((s.nodes nd).q.rpos % (s.nodes nd).q.cap) ∧ s.ci ≤ nd ∧ nd ≤ s.pi ∧ pend s nd ∧
      ∀ k, s.ci ≤ k → k < nd → ¬ pend s k)

theorem apiRead_spec (o : UParams) (ho : UOrdersOK o) (f : Flags) :
    ∀ (fuel : Nat) (s : US), UInv o s → WH s → s.pi - s.ci < fuel → ReadSpec o s (apiRead true o f fuel s)
  | 0, _, _, _, hf => by omega
  | fuel + 1, s, h, hw, hf => by
    have sp := prepareRead_spec o ho f s h hw
    rcases sp.out with ⟨hp, hobs, _⟩ | ⟨hp, hcp, hobs, _⟩ | ⟨hp, hlt, hci', p, n, hobs⟩
    · rw [apiRead_stop true o f fuel s (by intro p n; rw [hobs]; exact fun hh => by cases hh)]
      refine ⟨sp.run, sp.keeps, Or.inr ⟨s.ci, ?_, Nat.le_refl _, h.cp, hp, fun k h1 h2 => by omega⟩⟩
      rw [hobs]; rfl
    · rw [apiRead_stop true o f fuel s (by intro p n; rw [hobs]; exact fun hh => by cases hh)]
      refine ⟨sp.run, sp.keeps, Or.inl ⟨by rw [hobs]; rfl, fun k h1 h2 => ?_⟩⟩
      have : k = s.ci := by omega
      rw [this]; exact hp
    · by_cases hp2 : pend s (s.ci + 1)
      · rw [if_pos hp2] at hobs
        rw [apiRead_stop true o f fuel s (by intro p' n'; rw [hobs]; exact fun hh => by cases hh)]
        refine ⟨sp.run, sp.keeps, Or.inr ⟨s.ci + 1, by rw [hobs]; rfl, by omega, by omega, hp2, fun k h1 h2 => ?_⟩⟩
        have : k = s.ci := by omega
        rw [this]; exact hp
      · rw [if_neg hp2] at hobs
        rw [apiRead_follow o f fuel s p n hobs]
        obtain ⟨i', w'⟩ := urun_inv_wh o ho s _ h hw sp.run
        have hk := sp.keeps
        generalize hs' : urun o s (apiPrepareRead o f s false 0 0 0 0).1 = s' at i' w' hk hci'
        have ih := apiRead_spec o ho f fuel s' i' w' (by rw [hk.pi, hci']; omega)
        have st := run_snoc o s (apiPrepareRead o f s false 0 0 0 0).1 (apiRead true o f fuel s').1 s' sp.run hs' ih.run
        refine ⟨st.1, ?_, ?_⟩
        · show Keeps s (urun o s (_ ++ _))
          rw [st.2]; exact hk.trans ih.keeps
        · rcases ih.out with ⟨hn, hall⟩ | ⟨nd, hr, h1, h2, h3, h4⟩
          · refine Or.inl ⟨hn, fun k hk1 hk2 => ?_⟩
            by_cases hkc : k = s.ci
            · rw [hkc]; exact hp
            · rw [← hk.pend]; exact hall k (by omega) (by rw [hk.pi]; exact hk2)
          · refine Or.inr ⟨nd, ?_, by omega, by rw [← hk.pi]; exact h2, (hk.pend nd).mp h3, fun k hk1 hk2 => ?_⟩
            · show (apiRead true o f fuel s').2.final = _
              rw [hr, (hk.node nd).1, (hk.node nd).2.2]
            · by_cases hkc : k = s.ci
              · rw [hkc]; exact hp
              · rw [← hk.pend]; exact h4 k (by omega) hk2

end Uspsc
