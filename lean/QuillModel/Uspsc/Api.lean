import QuillModel.Uspsc.Model
import QuillModel.Spsc.Api
/-!
API calls of `UnboundedSPSCQueue` as sequences of model micro-steps, mirroring the C++ control flow
(`prepare_write` → `_handle_full_queue`; `shrink`; `prepare_read` → `_read_next_queue`; `empty`).
This is what the correspondence driver executes.
-/
namespace Uspsc
open Spsc

/-- smallest power of two `≥ n` (for `n ≥ 1`), as `next_power_of_two` -/
def nextPow2 (n : Nat) : Nat :=
  let rec go : Nat → Nat → Nat
    | 0, c => c
    | fuel + 1, c => if c < n then go fuel (c * 2) else c
  go n 1

/-- legal load results: stored values not older than the cache and not below the coherence floor -/
def pickF (hist : List Nat) (cache floor k : Nat) : Nat :=
  let legal := (hist.filter (fun v => decide (cache ≤ v) && decide (floor ≤ v))).eraseDups
  legal.getD (min k (legal.length - 1)) cache

structure Flags where
  commitBeforePublish : Bool
  commitReadBeforeDelete : Bool
  deriving Repr

inductive UObs
  | grant (node off : Nat) | null | throw | grow (cap : Nat) (then_ : UObs)
  | ok | pub (v : Nat) | nopub | shrunk (cap : Nat) | noshrink
  | readAt (node off : Nat) | switch (prev new : Nat) (then_ : UObs) | isEmpty (b : Bool)
  deriving Repr

def UObs.show : UObs → String
  | .grant nd off => s!"grant {nd} {off}"
  | .null => "null"
  | .throw => "throw"
  | .grow c t => s!"grow {c} {t.show}"
  | .ok => "ok"
  | .pub v => s!"pub {v}"
  | .nopub => "nopub"
  | .shrunk c => s!"shrunk {c}"
  | .noshrink => "noshrink"
  | .readAt nd off => s!"read {nd} {off}"
  | .switch p n t => s!"switch {p} {n} {t.show}"
  | .isEmpty b => s!"empty {if b then 1 else 0}"

/-- `prepare_write(n)`; `k` = stale choice for the reload. Returns the micro-steps and the observation. -/
def apiPrepareWrite (o : UParams) (f : Flags) (maxCap : Nat) (s : US) (n k : Nat) : List UOp × UObs :=
  let q := s.pnode.q
  let ops1 : List UOp := if q.free < n then [.p (.reloadR (pick q.rHist q.rcache k))] else []
  let s1 := urun o s ops1
  let q1 := s1.pnode.q
  if ¬ (q1.free < n) then (ops1, .grant s1.pi (q1.wpos % q1.cap))
  else
    match growDecision q1.cap n maxCap with
    | .throw => (ops1, .throw)
    | .null => (ops1, .null)
    | .alloc c =>
      let ops2 : List UOp := (if f.commitBeforePublish then [UOp.p .commitW] else []) ++ [.publish c]
      (ops1 ++ ops2, .grow c (.grant s1.n 0))

def apiShrink (s : US) (c : Nat) : List UOp × UObs :=
  if shrinkAllocates s.pnode.q.cap c then ([.publish (nextPow2 c)], .shrunk (nextPow2 c)) else ([], .noshrink)

/-- consumer-side bounded `prepare_read` on the current node with stale choice `k` -/
def boundedRead (s : US) (k : Nat) : List UOp :=
  let q := s.cnode.q
  if q.wcache = q.rpos then [.c (.loadW (pickF q.wHist q.wcache s.cnode.wFloor k))] else []

/-- `prepare_read()`; `k1..k4` = stale choices for: first load of the writer position, load of `next`
    (`k2 > 0` = the stale `nullptr`, legal only while the consumer has never observed the publication, not even through the relaxed
    look in `empty()` — `coh`), the re-read, the first load on the new node. -/
def apiPrepareRead (o : UParams) (f : Flags) (s : US) (coh : Bool) (k1 k2 k3 k4 : Nat) : List UOp × UObs :=
  let ops1 := boundedRead s k1
  let s1 := urun o s ops1
  let q1 := s1.cnode.q
  if q1.wcache ≠ q1.rpos then (ops1, .readAt s1.ci (q1.rpos % q1.cap))
  else if ¬ (s1.cnode.published = true ∧ (k2 = 0 ∨ s1.sawNext = true ∨ coh = true)) then (ops1, .null)
  else
    let s2 := ustep o s1 .seeNext
    let ops3 : List UOp := if o.rereads then boundedRead s2 k3 else []
    let s3 := urun o s2 ops3
    let q3 := s3.cnode.q
    if q3.wcache ≠ q3.rpos then (ops1 ++ [.seeNext] ++ ops3, .readAt s3.ci (q3.rpos % q3.cap))
    else
      let ops4 : List UOp := (if f.commitReadBeforeDelete then [UOp.c (.commitR (publishes o.q q3))] else []) ++ [.switch]
      let s4 := urun o s3 ops4
      let ops5 := boundedRead s4 k4
      let s5 := urun o s4 ops5
      let q5 := s5.cnode.q
      let tail : UObs := if q5.wcache ≠ q5.rpos then .readAt s5.ci (q5.rpos % q5.cap) else .null
      (ops1 ++ [.seeNext] ++ ops3 ++ ops4 ++ ops5, .switch q3.cap q5.cap tail)

/-- `empty()`: bounded `empty()` and then a (relaxed) look at `next` -/
def apiEmpty (o : UParams) (s : US) (coh : Bool) (k1 k2 : Nat) : List UOp × UObs :=
  let ops1 := boundedRead s k1
  let s1 := urun o s ops1
  let q1 := s1.cnode.q
  (ops1, .isEmpty (decide (q1.wcache = q1.rpos) && !(s1.cnode.published && (decide (k2 = 0) || s1.sawNext || coh))))

end Uspsc
