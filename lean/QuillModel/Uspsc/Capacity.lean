import QuillModel.Uspsc.Model
/-! The capacity decision of `_handle_full_queue`. -/
namespace Uspsc

theorem dbl_ge (fuel c n : Nat) (hc : 0 < c) (hf : n ≤ c + fuel) : n ≤ dbl fuel c n := by
  induction fuel generalizing c with
  | zero => simpa [dbl] using hf
  | succ f ih =>
    simp only [dbl]
    split
    · exact ih (c * 2) (by omega) (by omega)
    · omega

theorem dbl_pow (fuel c n : Nat) : ∃ k, dbl fuel c n = c * 2 ^ k := by
  induction fuel generalizing c with
  | zero => exact ⟨0, by simp [dbl]⟩
  | succ f ih =>
    simp only [dbl]
    split
    · obtain ⟨k, hk⟩ := ih (c * 2)
      exact ⟨k + 1, by rw [hk, Nat.pow_succ, Nat.mul_assoc, Nat.mul_comm 2]⟩
    · exact ⟨0, by simp⟩

/-- the loop stops at the first doubling that is large enough -/
theorem dbl_min (fuel c n : Nat) : dbl fuel c n = c ∨ dbl fuel c n / 2 < n := by
  induction fuel generalizing c with
  | zero => left; simp [dbl]
  | succ f ih =>
    simp only [dbl]
    split
    · rcases ih (c * 2) with h | h
      · right; rw [h]; omega
      · right; exact h
    · left; rfl

theorem grow_alloc {cap n maxCap c : Nat} (hcap : 0 < cap) (h : growDecision cap n maxCap = .alloc c) :
    c ≤ maxCap ∧ n ≤ c ∧ ∃ k, c = cap * 2 ^ (k + 1) := by
  unfold growDecision at h
  simp only at h
  split at h
  · split at h <;> simp at h
  · rename_i hle
    injection h with h
    subst h
    refine ⟨by omega, dbl_ge n (cap * 2) n (by omega) (by omega), ?_⟩
    obtain ⟨k, hk⟩ := dbl_pow n (cap * 2) n
    exact ⟨k, by rw [hk, Nat.pow_succ, Nat.mul_assoc, Nat.mul_comm 2 (2 ^ k)]⟩

theorem grow_throw_iff {cap n maxCap : Nat} (hcap : 0 < cap) :
    growDecision cap n maxCap = .throw ↔ n > maxCap := by
  unfold growDecision
  simp only
  have hge := dbl_ge n (cap * 2) n (by omega) (by omega)
  constructor
  · intro h
    split at h
    · split at h
      · assumption
      · simp at h
    · simp at h
  · intro h
    have : dbl n (cap * 2) n > maxCap := by omega
    simp [this, h]

theorem grow_null {cap n maxCap : Nat} (h : growDecision cap n maxCap = .null) :
    n ≤ maxCap ∧ dbl n (cap * 2) n > maxCap := by
  unfold growDecision at h
  simp only at h
  split at h
  · split at h
    · simp at h
    · exact ⟨by omega, by assumption⟩
  · simp at h

/-- with power-of-two capacities a refusal to grow means the current node already has the maximum
    capacity — so the record fits the current node and the bounded-queue progress lemma applies -/
theorem grow_null_pow2 {a b n : Nat} (hab : a ≤ b) (hn : n ≤ 2 ^ b)
    (h : growDecision (2 ^ a) n (2 ^ b) = .null) : a = b := by
  obtain ⟨_, hgt⟩ := grow_null h
  obtain ⟨k, hk⟩ := dbl_pow n (2 ^ a * 2) n
  have hk' : dbl n (2 ^ a * 2) n = 2 ^ (a + 1 + k) := by
    rw [hk, Nat.pow_add, Nat.pow_add]
  rcases dbl_min n (2 ^ a * 2) n with hm | hm
  · -- the first doubling already exceeds the maximum
    rw [hm] at hgt
    have h2 : 2 ^ a * 2 = 2 ^ (a + 1) := by rw [Nat.pow_succ]
    rw [h2] at hgt
    have : b < a + 1 := (Nat.pow_lt_pow_iff_right (by decide : 1 < 2)).mp hgt
    omega
  · rw [hk'] at hm hgt
    have h3 : 2 ^ (a + 1 + k) / 2 = 2 ^ (a + k) := by
      have : a + 1 + k = (a + k) + 1 := by omega
      rw [this, Nat.pow_succ]; omega
    rw [h3] at hm
    have h4 : 2 ^ (a + k) < 2 ^ b := by omega
    have h5 : a + k < b := (Nat.pow_lt_pow_iff_right (by decide : 1 < 2)).mp h4
    have h6 : 2 ^ (a + 1 + k) ≤ 2 ^ b := Nat.pow_le_pow_right (by decide) (by omega)
    omega

theorem shrink_allocates_iff (cap c : Nat) : shrinkAllocates cap c = true ↔ c ≤ cap / 2 := by
  simp [shrinkAllocates]

end Uspsc
