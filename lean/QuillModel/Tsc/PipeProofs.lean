import QuillModel.Tsc.Model
/-! The backend's buffers and the pop rule, for an arbitrary conversion: per-thread FIFO order and conservation
(`accepted = written ++ buffered` per thread) never look at the converted value. -/
namespace Tsc

theorem minFront_front (buf : Nat → List Ev) : ∀ (l : List Nat) (best : Option (Nat × Ev)),
    (∀ bt be, best = some (bt, be) → ∃ r, buf bt = be :: r) →
    ∀ t e, minFront buf l best = some (t, e) → ∃ r, buf t = e :: r := by
  intro l
  induction l with
  | nil => intro best hb t e h; exact hb t e h
  | cons t0 rest ih =>
    intro best hb t e h
    unfold minFront at h
    split at h
    · exact ih best hb t e h
    · rename_i e0 r0 hbuf
      split at h
      · exact ih _ (fun bt be hq => by cases hq; exact ⟨r0, hbuf⟩) t e h
      · rename_i bt be
        split at h
        · exact ih _ (fun bt' be' hq => by cases hq; exact ⟨r0, hbuf⟩) t e h
        · exact ih _ hb t e h

/-- the popped front is a least front: no buffer in the cache holds a front with a smaller converted value -/
theorem minFront_least (buf : Nat → List Ev) : ∀ (l : List Nat) (best : Option (Nat × Ev)) (t : Nat) (e : Ev),
    minFront buf l best = some (t, e) →
    (∀ bt be, best = some (bt, be) → e.ts ≤ be.ts) ∧ (∀ t' ∈ l, ∀ e' r, buf t' = e' :: r → e.ts ≤ e'.ts) := by
  intro l
  induction l with
  | nil =>
    intro best t e h
    refine ⟨fun bt be hq => ?_, fun t' ht' => absurd ht' List.not_mem_nil⟩
    simp only [minFront] at h; rw [hq] at h; cases h; exact Nat.le_refl _
  | cons t0 rest ih =>
    intro best t e h
    unfold minFront at h
    split at h
    · rename_i hnil
      have ⟨i1, i2⟩ := ih best t e h
      refine ⟨i1, fun t' ht' e' r hb => ?_⟩
      rcases List.mem_cons.mp ht' with rfl | hm
      · rw [hnil] at hb; cases hb
      · exact i2 t' hm e' r hb
    · rename_i e0 r0 hbuf
      split at h
      · have ⟨i1, i2⟩ := ih _ t e h
        refine ⟨(fun bt be hq => by cases hq), fun t' ht' e' r hb => ?_⟩
        rcases List.mem_cons.mp ht' with rfl | hm
        · rw [hbuf] at hb; cases hb; exact i1 _ _ rfl
        · exact i2 t' hm e' r hb
      · rename_i bt be
        split at h
        · rename_i hlt
          have ⟨i1, i2⟩ := ih _ t e h
          have h0 := i1 _ _ rfl
          refine ⟨(fun bt' be' hq => by cases hq; omega), fun t' ht' e' r hb => ?_⟩
          rcases List.mem_cons.mp ht' with rfl | hm
          · rw [hbuf] at hb; cases hb; exact h0
          · exact i2 t' hm e' r hb
        · rename_i hge
          have ⟨i1, i2⟩ := ih _ t e h
          have h0 := i1 _ _ rfl
          refine ⟨(fun bt' be' hq => by cases hq; exact h0), fun t' ht' e' r hb => ?_⟩
          rcases List.mem_cons.mp ht' with rfl | hm
          · rw [hbuf] at hb; cases hb; omega
          · exact i2 t' hm e' r hb

structure PInv (s : Pipe) : Prop where
  cons : ∀ t, s.written.filter (fun e => e.th = t) ++ s.buf t = s.accepted.filter (fun e => e.th = t)
  own : ∀ t e, e ∈ s.buf t → e.th = t

theorem PInv_clock (s : Pipe) (c : Clock) (h : PInv s) : PInv { s with clock := c } := ⟨h.cons, h.own⟩

theorem PInv_accept (s : Pipe) (e : Ev) (h : PInv s) : PInv (accept s e) := by
  constructor
  · intro t
    simp only [accept, List.filter_append]
    by_cases ht : t = e.th
    · subst ht
      simp only [if_true, List.filter_cons, List.filter_nil, decide_true]
      rw [← List.append_assoc, h.cons]
    · have : ¬ (e.th = t) := fun q => ht q.symm
      simp only [ht, if_false, List.filter_cons, List.filter_nil, this, decide_false, Bool.false_eq_true, List.append_nil]
      exact h.cons t
  · intro t x hx
    simp only [accept] at hx
    by_cases ht : t = e.th
    · simp only [ht, if_true] at hx
      rcases List.mem_append.mp hx with hx | hx
      · rw [ht]; exact h.own _ x hx
      · rw [List.mem_singleton.mp hx, ht]
    · simp only [ht, if_false] at hx
      exact h.own t x hx

theorem PInv_step (p : Params) (sc : Int → Int) (s : Pipe) (op : POp) (h : PInv s) : PInv (pstep p sc s op) := by
  cases op with
  | decode th id tsc tsNow rs =>
    simp only [pstep]
    cases tsNow with
    | none => exact PInv_accept _ _ (PInv_clock s _ h)
    | some now =>
      simp only
      split
      · exact PInv_clock s _ h
      · exact PInv_accept _ _ (PInv_clock s _ h)
  | idle rs => exact PInv_clock s _ h
  | pop =>
    simp only [pstep]
    split
    · exact h
    · rename_i t e hm
      obtain ⟨r, hr⟩ := minFront_front s.buf s.order none (fun _ _ hq => by cases hq) t e hm
      have he : e.th = t := h.own t e (by rw [hr]; exact List.mem_cons_self)
      constructor
      · intro x
        simp only [List.filter_append]
        by_cases hx : x = t
        · subst hx
          simp only [if_true, List.filter_cons, List.filter_nil, he, decide_true]
          rw [hr, List.drop_one, List.tail_cons, List.append_assoc]
          have := h.cons x
          rw [hr] at this
          exact this
        · have : ¬ (e.th = x) := fun q => hx (q.symm.trans he)
          simp only [hx, if_false, List.filter_cons, List.filter_nil, this, decide_false, Bool.false_eq_true, List.append_nil]
          exact h.cons x
      · intro x y hy
        simp only at hy
        by_cases hx : x = t
        · simp only [hx, if_true] at hy
          rw [hx]; exact h.own t y (List.mem_of_mem_drop hy)
        · simp only [hx, if_false] at hy
          exact h.own x y hy

theorem PInv_run (p : Params) (sc : Int → Int) (ops : List POp) : ∀ s, PInv s → PInv (prun p sc s ops) := by
  induction ops with
  | nil => intro s h; exact h
  | cons op ops ih => intro s h; exact ih _ (PInv_step p sc s op h)

theorem PInv_init (c : Clock) : PInv { clock := c } := ⟨fun _ => rfl, fun _ _ h => absurd h List.not_mem_nil⟩

end Tsc
