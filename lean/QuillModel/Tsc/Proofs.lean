import QuillModel.Tsc.Model
/-!
# Lemmas about the `RdtscClock` model

* machine integers: inside the signed window the `uint64` difference reinterpreted as `int64` is the true difference;
* `ScaleOK sc ε`: what the theorems need of the scaling — monotone, additive up to `ε`;
* `scaleExact` (exact rational product, truncated) is `ScaleOK … 1`;
* a resync never touches the slot the running call converts against (`Params.code`), hence the value of
  `time_since_epoch` is `convAt sc (cur c) tsc` whatever the reads;
* along any run, equal ghost epoch ⇒ same base.
-/
namespace Tsc

/-! ### machine integers -/

/-- `t` lies in the window of base tsc `b` in which `(int64)(t - b)` is the true difference -/
def InWin (b t : Nat) : Prop :=
  t < two64 ∧ b < two64 ∧ (t : Int) - b < (two63 : Int) ∧ -(two63 : Int) ≤ (t : Int) - b

instance (b t : Nat) : Decidable (InWin b t) := by unfold InWin; infer_instance

theorem toI64_sub {b t : Nat} (h : InWin b t) : toI64 (subU64 t b) = (t : Int) - b := by
  obtain ⟨ht, hb, h1, h2⟩ := h
  simp only [two64, two63] at ht hb h1 h2
  unfold toI64 subU64
  split <;> omega

/-! ### the scaling -/

structure ScaleOK (sc : Int → Int) (ε : Int) : Prop where
  mono : ∀ a b, a ≤ b → sc a ≤ sc b
  add_le : ∀ a b, sc (a + b) ≤ sc a + sc b + ε
  le_add : ∀ a b, sc a + sc b ≤ sc (a + b) + ε

theorem conv_mono {sc : Int → Int} {ε : Int} (h : ScaleOK sc ε) (b : Base) {t1 t2 : Nat}
    (w1 : InWin b.tsc t1) (w2 : InWin b.tsc t2) (le : t1 ≤ t2) : convAt sc b t1 ≤ convAt sc b t2 := by
  unfold convAt
  rw [toI64_sub w1, toI64_sub w2]
  have := h.mono ((t1 : Int) - b.tsc) ((t2 : Int) - b.tsc) (by omega)
  omega

/-- How far the old line runs ahead of the new wall-clock reading at the new base point. -/
def drift (sc : Int → Int) (old new : Base) : Int := convAt sc old new.tsc - new.time

/-- **Effect of a resync on one tsc value**: the two conversions differ by the drift, up to the additivity error. -/
theorem shift_bound {sc : Int → Int} {ε : Int} (h : ScaleOK sc ε) (old new : Base) {t : Nat}
    (wo : InWin old.tsc t) (wn : InWin new.tsc t) (wb : InWin old.tsc new.tsc) :
    convAt sc old t - convAt sc new t ≤ drift sc old new + ε ∧
    drift sc old new - ε ≤ convAt sc old t - convAt sc new t := by
  unfold drift convAt
  rw [toI64_sub wo, toI64_sub wn, toI64_sub wb]
  have e : (t : Int) - old.tsc = ((t : Int) - new.tsc) + ((new.tsc : Int) - old.tsc) := by omega
  have h1 := h.add_le ((t : Int) - new.tsc) ((new.tsc : Int) - old.tsc)
  have h2 := h.le_add ((t : Int) - new.tsc) ((new.tsc : Int) - old.tsc)
  rw [← e] at h1 h2
  constructor <;> omega

/-! ### `scaleExact` is monotone and additive up to 1 -/

theorem sgnMul_nonneg {d : Int} (h : 0 ≤ d) (n : Nat) : sgnMul d n = n := by simp [sgnMul, h]
theorem sgnMul_neg {d : Int} (h : d < 0) (n : Nat) : sgnMul d n = -(n : Int) := by
  have : ¬ (0 ≤ d) := by omega
  simp [sgnMul, this]

/-- truncating division of `|d| * num` by `2^k`, as a function of the magnitude -/
def magDiv (num k n : Nat) : Nat := n * num / 2 ^ k

theorem magDiv_mono (num k : Nat) {a b : Nat} (h : a ≤ b) : magDiv num k a ≤ magDiv num k b :=
  Nat.div_le_div_right (Nat.mul_le_mul_right num h)

theorem div_add_bounds (c x y : Nat) (hp : 0 < c) :
    x / c + y / c ≤ (x + y) / c ∧ (x + y) / c ≤ x / c + y / c + 1 := by
  have hx := Nat.div_add_mod x c
  have hy := Nat.div_add_mod y c
  have mx := Nat.mod_lt x hp
  have my := Nat.mod_lt y hp
  constructor
  · rw [Nat.le_div_iff_mul_le hp, Nat.add_mul, Nat.mul_comm (x / c), Nat.mul_comm (y / c)]
    omega
  · apply Nat.le_of_lt_succ
    rw [Nat.div_lt_iff_lt_mul hp]
    have : (x / c + y / c + 1).succ * c = c * (x / c) + c * (y / c) + c + c := by
      rw [Nat.succ_mul, Nat.add_mul, Nat.add_mul, Nat.one_mul, Nat.mul_comm (x / c), Nat.mul_comm (y / c)]
    rw [this]
    omega

theorem magDiv_add (num k a b : Nat) :
    magDiv num k a + magDiv num k b ≤ magDiv num k (a + b) ∧ magDiv num k (a + b) ≤ magDiv num k a + magDiv num k b + 1 := by
  unfold magDiv
  rw [Nat.add_mul]
  exact div_add_bounds (2 ^ k) (a * num) (b * num) (Nat.two_pow_pos k)

theorem scaleExact_eq_nonneg (num k : Nat) {d : Int} (h : 0 ≤ d) : scaleExact num k d = magDiv num k d.toNat := by
  unfold scaleExact magDiv
  rw [sgnMul_nonneg h]
  have : d.natAbs = d.toNat := by omega
  rw [this]

theorem scaleExact_eq_neg (num k : Nat) {d : Int} (h : d < 0) : scaleExact num k d = -(magDiv num k (-d).toNat : Int) := by
  unfold scaleExact magDiv
  rw [sgnMul_neg h]
  have : d.natAbs = (-d).toNat := by omega
  rw [this]

theorem magDiv_zero (num k : Nat) : magDiv num k 0 = 0 := by simp [magDiv]

theorem scaleExact_ok (num k : Nat) : ScaleOK (scaleExact num k) 1 := by
  have key : ∀ a b : Int, scaleExact num k (a + b) ≤ scaleExact num k a + scaleExact num k b + 1 ∧
      scaleExact num k a + scaleExact num k b ≤ scaleExact num k (a + b) + 1 := by
    intro a b
    -- magnitudes
    by_cases ha : 0 ≤ a <;> by_cases hb : 0 ≤ b
    · have hab : 0 ≤ a + b := by omega
      rw [scaleExact_eq_nonneg _ _ ha, scaleExact_eq_nonneg _ _ hb, scaleExact_eq_nonneg _ _ hab]
      have e : (a + b).toNat = a.toNat + b.toNat := by omega
      rw [e]
      have := magDiv_add num k a.toNat b.toNat
      omega
    · have hb' : b < 0 := by omega
      rw [scaleExact_eq_nonneg _ _ ha, scaleExact_eq_neg _ _ hb']
      by_cases hab : 0 ≤ a + b
      · rw [scaleExact_eq_nonneg _ _ hab]
        have e : a.toNat = (a + b).toNat + (-b).toNat := by omega
        rw [e]
        have := magDiv_add num k (a + b).toNat (-b).toNat
        omega
      · have hab' : a + b < 0 := by omega
        rw [scaleExact_eq_neg _ _ hab']
        have e : (-b).toNat = a.toNat + (-(a + b)).toNat := by omega
        rw [e]
        have := magDiv_add num k a.toNat (-(a + b)).toNat
        omega
    · have ha' : a < 0 := by omega
      rw [scaleExact_eq_neg _ _ ha', scaleExact_eq_nonneg _ _ hb]
      by_cases hab : 0 ≤ a + b
      · rw [scaleExact_eq_nonneg _ _ hab]
        have e : b.toNat = (a + b).toNat + (-a).toNat := by omega
        rw [e]
        have := magDiv_add num k (a + b).toNat (-a).toNat
        omega
      · have hab' : a + b < 0 := by omega
        rw [scaleExact_eq_neg _ _ hab']
        have e : (-a).toNat = b.toNat + (-(a + b)).toNat := by omega
        rw [e]
        have := magDiv_add num k b.toNat (-(a + b)).toNat
        omega
    · have ha' : a < 0 := by omega
      have hb' : b < 0 := by omega
      have hab' : a + b < 0 := by omega
      rw [scaleExact_eq_neg _ _ ha', scaleExact_eq_neg _ _ hb', scaleExact_eq_neg _ _ hab']
      have e : (-(a + b)).toNat = (-a).toNat + (-b).toNat := by omega
      rw [e]
      have := magDiv_add num k (-a).toNat (-b).toNat
      omega
  refine ⟨?_, fun a b => (key a b).1, fun a b => (key a b).2⟩
  intro a b hab
  by_cases ha : 0 ≤ a
  · have hb : 0 ≤ b := by omega
    rw [scaleExact_eq_nonneg _ _ ha, scaleExact_eq_nonneg _ _ hb]
    have := magDiv_mono num k (a := a.toNat) (b := b.toNat) (by omega)
    omega
  · have ha' : a < 0 := by omega
    rw [scaleExact_eq_neg _ _ ha']
    by_cases hb : 0 ≤ b
    · rw [scaleExact_eq_nonneg _ _ hb]; omega
    · have hb' : b < 0 := by omega
      rw [scaleExact_eq_neg _ _ hb']
      have := magDiv_mono num k (a := (-b).toNat) (b := (-a).toNat) (by omega)
      omega

/-! ### a resync leaves the slot of the running call alone -/

theorem slot_setSlot_other (c : Clock) (i j : Nat) (b : Base) (h : i % 2 ≠ j % 2) : slot (setSlot c i b) j = slot c j := by
  unfold slot setSlot
  by_cases hi : i % 2 = 0 <;> by_cases hj : j % 2 = 0 <;> simp [hi, hj] <;> omega

theorem install_slot (c : Clock) (r : Read) : slot (install Params.code c r) c.version = slot c c.version := by
  have h := slot_setSlot_other c (c.version + 1) c.version ⟨r.wall, fastAvg r.beg r.fin⟩ (by omega)
  simp only [install, Params.code]
  exact h

theorem resyncLoop_slot (lag : Nat) (c : Clock) (n : Nat) (rs : List Read) (u : Nat) :
    slot (resyncLoop Params.code lag c n rs u).1 c.version = slot c c.version := by
  induction n generalizing rs u with
  | zero => simp [resyncLoop, slot]
  | succ n ih =>
    cases rs with
    | nil => simp only [resyncLoop]; exact ih [] (u + 1)
    | cons r rs =>
      simp only [resyncLoop]
      split
      · exact install_slot c r
      · exact ih rs (u + 1)

/-- **The value of a call never depends on the reads**: a conversion answers against the base that was current
    when it was entered, also when it triggers a resync. -/
theorem tse_value (sc : Int → Int) (c : Clock) (tsc : Nat) (rs : List Read) :
    (timeSinceEpoch Params.code sc c tsc rs).1 = convAt sc (cur c) tsc := by
  unfold timeSinceEpoch cur
  simp only
  split
  · simp only [resync]; rw [resyncLoop_slot]
  · rfl

/-- no trigger ⇒ the call changes nothing and reads nothing -/
theorem tse_quiet (sc : Int → Int) (c : Clock) (tsc : Nat) (rs : List Read)
    (h : trigger Params.code (toI64 (subU64 tsc (cur c).tsc)) c.interval = false) :
    (timeSinceEpoch Params.code sc c tsc rs).2 = (c, 0) := by
  unfold timeSinceEpoch
  unfold cur at h
  simp [h]

/-! ### epochs -/

theorem install_epoch (p : Params) (c : Clock) (r : Read) : (install p c r).epoch = c.epoch + 1 := by
  simp only [install, setSlot]

theorem cur_interval (c : Clock) (i : Int) : cur { c with interval := i } = cur c := rfl

/-- a resync either fails (same base, same epoch) or succeeds (epoch + 1) -/
theorem resyncLoop_epoch (p : Params) (lag : Nat) (c : Clock) (n : Nat) (rs : List Read) (u : Nat) :
    let r := resyncLoop p lag c n rs u
    (r.2.1 = false ∧ r.1.epoch = c.epoch ∧ cur r.1 = cur c ∧ r.1.b0 = c.b0 ∧ r.1.b1 = c.b1 ∧ r.1.version = c.version) ∨
    (r.2.1 = true ∧ r.1.epoch = c.epoch + 1) := by
  induction n generalizing rs u with
  | zero => left; simp [resyncLoop, cur_interval]
  | succ n ih =>
    cases rs with
    | nil => simp only [resyncLoop]; exact ih [] (u + 1)
    | cons r rs =>
      simp only [resyncLoop]
      split
      · right; exact ⟨rfl, install_epoch p c r⟩
      · exact ih rs (u + 1)

theorem resync_epoch (p : Params) (lag : Nat) (c : Clock) (rs : List Read) :
    c.epoch ≤ (resync p lag c rs).1.epoch ∧ ((resync p lag c rs).1.epoch = c.epoch → cur (resync p lag c rs).1 = cur c) := by
  have := resyncLoop_epoch p lag c p.maxAttempts rs 0
  unfold resync
  rcases this with ⟨_, h2, h3, _⟩ | ⟨_, h2⟩
  · exact ⟨by omega, fun _ => h3⟩
  · exact ⟨by omega, fun h => by omega⟩

theorem tse_epoch (p : Params) (sc : Int → Int) (c : Clock) (tsc : Nat) (rs : List Read) :
    c.epoch ≤ (timeSinceEpoch p sc c tsc rs).2.1.epoch ∧
    ((timeSinceEpoch p sc c tsc rs).2.1.epoch = c.epoch → cur (timeSinceEpoch p sc c tsc rs).2.1 = cur c) := by
  unfold timeSinceEpoch
  simp only
  split
  · exact resync_epoch p p.convLag c rs
  · exact ⟨Nat.le_refl _, fun _ => rfl⟩

end Tsc
