import QuillModel.Tsc.Proofs
/-! Runs of conversions: equal ghost epoch ⇒ same base; the value is the pure conversion. -/
namespace Tsc

theorem crun_conv (p : Params) (sc : Int → Int) (c : Clock) (tsc : Nat) (rs : List Read) (ops : List COp) :
    crun p sc c (.conv tsc rs :: ops) =
      ⟨tsc, (timeSinceEpoch p sc c tsc rs).1, c.epoch, cur c⟩ :: crun p sc (timeSinceEpoch p sc c tsc rs).2.1 ops := rfl

theorem crun_idle (p : Params) (sc : Int → Int) (c : Clock) (rs : List Read) (ops : List COp) :
    crun p sc c (.idle rs :: ops) = crun p sc (resync p p.idleLag c rs).1 ops := rfl

theorem obs_value_mk (sc : Int → Int) (a : Nat) (b : Int) (e : Nat) (d : Base) (h : b = convAt sc d a) :
    (Obs.mk a b e d).value = convAt sc (Obs.mk a b e d).base (Obs.mk a b e d).tsc := h

/-- every observation of a run: epoch not below the start's, the start's base if the epoch is the start's, and the
    value is the pure conversion against the recorded base -/
theorem crun_obs (sc : Int → Int) (ops : List COp) : ∀ (c : Clock) (o : Obs), o ∈ crun Params.code sc c ops →
    c.epoch ≤ o.epoch ∧ (o.epoch = c.epoch → o.base = cur c) ∧ o.value = convAt sc o.base o.tsc := by
  induction ops with
  | nil => intro c o h; exact absurd h List.not_mem_nil
  | cons op ops ih =>
    intro c o h
    cases op with
    | conv tsc rs =>
      rw [crun_conv, List.mem_cons] at h
      have hv := tse_value sc c tsc rs
      have he := tse_epoch Params.code sc c tsc rs
      generalize timeSinceEpoch Params.code sc c tsc rs = r at h hv he
      rcases h with h | h
      · subst h
        exact ⟨Nat.le_refl _, fun _ => rfl, obs_value_mk sc _ _ _ _ hv⟩
      · have ⟨i1, i2, i3⟩ := ih _ o h
        refine ⟨Nat.le_trans he.1 i1, fun hq => ?_, i3⟩
        have e : r.2.1.epoch = c.epoch := Nat.le_antisymm (hq ▸ i1) he.1
        rw [i2 (hq.trans e.symm), he.2 e]
    | idle rs =>
      rw [crun_idle] at h
      have he := resync_epoch Params.code Params.code.idleLag c rs
      generalize resync Params.code Params.code.idleLag c rs = r at h he
      have ⟨i1, i2, i3⟩ := ih _ o h
      refine ⟨Nat.le_trans he.1 i1, fun hq => ?_, i3⟩
      have e : r.1.epoch = c.epoch := Nat.le_antisymm (hq ▸ i1) he.1
      rw [i2 (hq.trans e.symm), he.2 e]

theorem crun_same_epoch_same_base (sc : Int → Int) (ops : List COp) : ∀ (c : Clock),
    (crun Params.code sc c ops).Pairwise (fun o1 o2 => o1.epoch = o2.epoch → o1.base = o2.base) := by
  induction ops with
  | nil => intro c; exact List.Pairwise.nil
  | cons op ops ih =>
    intro c
    cases op with
    | conv tsc rs =>
      rw [crun_conv, List.pairwise_cons]
      have he := tse_epoch Params.code sc c tsc rs
      refine ⟨fun o ho hq => ?_, ih _⟩
      have ⟨i1, i2, _⟩ := crun_obs sc ops _ o ho
      generalize timeSinceEpoch Params.code sc c tsc rs = r at i1 i2 he
      have hq' : c.epoch = o.epoch := hq
      have e : r.2.1.epoch = c.epoch := Nat.le_antisymm (hq' ▸ i1) he.1
      show cur c = o.base
      rw [i2 (hq'.symm.trans e.symm), he.2 e]
    | idle rs => rw [crun_idle]; exact ih _

end Tsc
