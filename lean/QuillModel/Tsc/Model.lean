/-!
# Executable model of `quill::detail::RdtscClock` and of the backend's use of it

Source: `include/quill/backend/RdtscClock.h` (`time_since_epoch`, `time_since_epoch_safe`, `resync`, the constructor),
`include/quill/backend/BackendWorker.h` (`_populate_transit_event_from_frontend_queue`: one conversion per decoded
record of a `ClockSourceType::Tsc` logger, in read order, *before* the `timestamp > ts_now` gate; `_resync_rdtsc_clock`
on the idle path; `_process_lowest_timestamp_transit_event`: the minimum is taken over the **converted** value stored
in the transit event).

The model follows the code as it is:

* state = the two base slots `(base_time : int64, base_tsc : uint64)`, the `uint32` version whose low bit selects the
  slot, `_resync_interval_ticks` (doubled by every failed `resync`, restored by a successful one) and
  `_resync_interval_original`; `epoch` is a ghost counter of successful resyncs (the version itself wraps);
* `timeSinceEpoch` captures the slot index **before** the resync it may trigger and converts against that slot also
  *after* the resync (the recomputed `diff` reads the slot the resync did not write): the triggering call still
  answers with the old base, the next call with the new one;
* `rdtsc_value - base_tsc` is a `uint64` subtraction reinterpreted as `int64` (`toI64 ∘ subU64`);
* the result is `base_time + (int64)((double)diff * ns_per_tick)`; the scaling `Int → Int` is a parameter `sc` of the
  model. Two instances are defined here: `scaleF64` — the IEEE-754 binary64 computation the code performs (int64 →
  double with round-to-nearest-even, one correctly rounded multiplication by the double `num / 2^k`, truncation
  toward zero), bit for bit, which the driver runs against the real class — and `scaleExact` (the exact rational
  product truncated toward zero), about which the arithmetic lemmas are proved;
* the two `rdtsc()` reads and the `system_clock` read of each `resync` attempt are explicit inputs (`Read`); a call
  consumes as many as the code performs and reports how many it used.

Not modelled: `int64` overflow of `_resync_interval_ticks * 2` (undefined behaviour after > 60 consecutive failed
resyncs) and of the final sum; the calibration loop of `RdtscTicks` (its result `ns_per_tick` is an input).
-/
namespace Tsc

/-! ### machine integers -/

abbrev two64 : Nat := 18446744073709551616
abbrev two63 : Nat := 9223372036854775808

/-- `uint64` subtraction -/
def subU64 (a b : Nat) : Nat := (a % 18446744073709551616 + 18446744073709551616 - b % 18446744073709551616) % 18446744073709551616

/-- reinterpretation of a `uint64` as `int64` -/
def toI64 (x : Nat) : Int :=
  if x % 18446744073709551616 < 9223372036854775808 then ((x % 18446744073709551616 : Nat) : Int)
  else ((x % 18446744073709551616 : Nat) : Int) - 18446744073709551616

/-- `static_cast<uint64_t>` of an `int64` -/
def toU64 (x : Int) : Nat := (x % 18446744073709551616).toNat

/-- `_fast_average`: `(x & y) + ((x ^ y) >> 1)` -/
def fastAvg (x y : Nat) : Nat := (x &&& y) + ((x ^^^ y) >>> 1)

/-! ### the scaling `(int64)((double)diff * ns_per_tick)` -/

/-- round a natural number to 53 significant bits, ties to even (int → binary64, and the rounding of a product) -/
def rne53 (x : Nat) : Nat :=
  if x < 2 ^ 53 then x
  else
    let sh := Nat.log2 x - 52
    let q := x >>> sh
    let r := x % 2 ^ sh
    let half := 2 ^ (sh - 1)
    let q' := if half < r ∨ (r = half ∧ q % 2 = 1) then q + 1 else q
    q' * 2 ^ sh

def sgnMul (d : Int) (n : Nat) : Int := if 0 ≤ d then (n : Int) else -(n : Int)

/-- The binary64 computation of the code, `ns_per_tick = num / 2^k` exactly (every finite positive double has this
    form): `(double)d` rounds `|d|` to 53 bits, the product of the two doubles is rounded once, the cast truncates. -/
def scaleF64 (num k : Nat) (d : Int) : Int :=
  sgnMul d (rne53 (rne53 d.natAbs * num) / 2 ^ k)

/-- exact rational scaling truncated toward zero -/
def scaleExact (num k : Nat) (d : Int) : Int :=
  sgnMul d (d.natAbs * num / 2 ^ k)

/-! ### the clock -/

structure Base where
  time : Int      -- base_time, ns since epoch (int64)
  tsc : Nat       -- base_tsc (uint64)
deriving DecidableEq, Repr, Inhabited

/-- What the extraction reads off `RdtscClock.h`; the theorems are stated for `Params.code`. -/
structure Params where
  maxAttempts : Nat     -- `max_attempts` of `resync`
  convLag : Nat         -- lag bound of the resync triggered inside `time_since_epoch`
  ctorLag1 : Nat        -- constructor: first try
  ctorLag2 : Nat        -- constructor: second try
  idleLag : Nat         -- `_resync_rdtsc_clock` (backend idle path)
  triggerStrict : Bool  -- trigger is `diff > interval` (true) or `diff >= interval`
  lagInclusive : Bool   -- an attempt is accepted when `end - beg <= lag` (true) or `<`
  lagInverted : Bool    -- (mutant) accepts when the comparison fails
  writeNext : Bool      -- `resync` writes slot `(version + 1) & 1` (true) or the current slot
  gateAfterConv : Bool := true  -- the `timestamp > ts_now` test follows the conversion as a separate `if` (true); chained as
                                -- `else if` behind the TSC branch it is never evaluated for TSC loggers (false)
deriving DecidableEq, Repr

def Params.code : Params :=
  { maxAttempts := 4, convLag := 2500, ctorLag1 := 2500, ctorLag2 := 10000, idleLag := 2500,
    triggerStrict := true, lagInclusive := true, lagInverted := false, writeNext := true }

structure Clock where
  b0 : Base := ⟨0, 0⟩
  b1 : Base := ⟨0, 0⟩
  version : Nat := 0          -- uint32
  interval : Int := 0         -- _resync_interval_ticks
  intervalOrig : Int := 0     -- _resync_interval_original
  epoch : Nat := 0            -- ghost: number of successful resyncs
deriving DecidableEq, Repr, Inhabited

def slot (c : Clock) (idx : Nat) : Base := if idx % 2 = 0 then c.b0 else c.b1

def setSlot (c : Clock) (idx : Nat) (b : Base) : Clock :=
  if idx % 2 = 0 then { c with b0 := b } else { c with b1 := b }

/-- the base a conversion entered now reads -/
def cur (c : Clock) : Base := slot c c.version

/-- one `resync` attempt: `beg = rdtsc(); wall = system_clock; fin = rdtsc()` -/
structure Read where
  beg : Nat
  wall : Int
  fin : Nat
deriving DecidableEq, Repr, Inhabited

def lagOk (p : Params) (lag : Nat) (r : Read) : Bool :=
  let d := subU64 r.fin r.beg
  let ok := if p.lagInclusive then decide (d ≤ lag) else decide (d < lag)
  if p.lagInverted then !ok else ok

/-- a successful attempt: store the new base in the other slot, then bump the version, restore the interval -/
def install (p : Params) (c : Clock) (r : Read) : Clock :=
  let idx := if p.writeNext then c.version + 1 else c.version
  let c1 := setSlot c idx ⟨r.wall, fastAvg r.beg r.fin⟩
  { c1 with version := (c.version + 1) % 4294967296, interval := c.intervalOrig, epoch := c.epoch + 1 }

/-- `resync(lag)`: up to `fuel` attempts over the supplied reads; `(clock, succeeded, reads consumed)`.
    A missing read counts as a failed attempt (the driver reports it). -/
def resyncLoop (p : Params) (lag : Nat) (c : Clock) : Nat → List Read → Nat → Clock × Bool × Nat
  | 0, _, used => ({ c with interval := c.interval * 2 }, false, used)
  | n + 1, [], used => resyncLoop p lag c n [] (used + 1)
  | n + 1, r :: rs, used =>
    if lagOk p lag r then (install p c r, true, used + 1) else resyncLoop p lag c n rs (used + 1)

def resync (p : Params) (lag : Nat) (c : Clock) (rs : List Read) : Clock × Bool × Nat :=
  resyncLoop p lag c p.maxAttempts rs 0

/-- the pure conversion against one base -/
def convAt (sc : Int → Int) (b : Base) (tsc : Nat) : Int := b.time + sc (toI64 (subU64 tsc b.tsc))

def trigger (p : Params) (d interval : Int) : Bool :=
  if p.triggerStrict then decide (interval < d) else decide (interval ≤ d)

/-- `time_since_epoch(tsc)`: `(int64 result, clock afterwards, reads consumed)` -/
def timeSinceEpoch (p : Params) (sc : Int → Int) (c : Clock) (tsc : Nat) (rs : List Read) : Int × Clock × Nat :=
  let idx := c.version
  let d := toI64 (subU64 tsc (slot c idx).tsc)
  if trigger p d c.interval then
    let r := resync p p.convLag c rs
    (convAt sc (slot r.1 idx) tsc, r.1, r.2.2)
  else
    (convAt sc (slot c idx) tsc, c, 0)

/-- `time_since_epoch_safe`: no resync; 0 while the current slot is all zero -/
def timeSinceEpochSafe (sc : Int → Int) (c : Clock) (tsc : Nat) : Int :=
  let b := cur c
  if b.tsc = 0 ∧ b.time = 0 then 0 else convAt sc b tsc

/-- the constructor: interval = `(int64)((double)resync_interval_ns * ns_per_tick)`, then `resync(2500)`, and
    `resync(10000)` if that failed. Reads: up to `2 * maxAttempts`. Returns `(clock, synced, reads consumed)`. -/
def construct (p : Params) (sc : Int → Int) (intervalNs : Int) (rs : List Read) : Clock × Bool × Nat :=
  let iv := sc intervalNs
  let c0 : Clock := { interval := iv, intervalOrig := iv }
  let r1 := resync p p.ctorLag1 c0 rs
  if r1.2.1 then r1
  else
    let r2 := resync p p.ctorLag2 r1.1 (rs.drop r1.2.2)
    (r2.1, r2.2.1, r1.2.2 + r2.2.2)

/-! ### the backend's use of the clock

`decode`: `_populate_transit_event_from_frontend_queue` for a record of a TSC logger — convert, then compare with
`ts_now` (`none` = grace period 0 = `UINT64_MAX`): a record whose converted value is ahead of `ts_now` is **not**
consumed (it will be read and converted again by a later pass, possibly against another base), otherwise it is
appended to its thread's transit buffer carrying the converted value. `idle`: `_resync_rdtsc_clock` when its
steady-clock test fires. `pop`: `_process_lowest_timestamp_transit_event` — strict minimum of the buffers' fronts by
converted value, first buffer in cache order on ties. -/

structure Ev where
  id : Nat
  th : Nat
  tsc : Nat
  ts : Nat        -- converted value as stored in the transit event (uint64)
deriving DecidableEq, Repr, Inhabited

structure Pipe where
  clock : Clock
  order : List Nat := []                -- `_active_thread_contexts_cache`: thread contexts in cache order
  buf : Nat → List Ev := fun _ => []    -- transit buffer of each thread context, oldest first
  accepted : List Ev := []              -- ghost: decoded-and-buffered events, decode order
  written : List Ev := []               -- ghost: popped events, pop order
deriving Inhabited

inductive POp where
  | decode (th id tsc : Nat) (tsNow : Option Nat) (rs : List Read)
  | idle (rs : List Read)
  | pop
deriving Repr, Inhabited

/-- thread with the least front (strict `<` against the running minimum: the first one wins a tie) -/
def minFront (buf : Nat → List Ev) : List Nat → Option (Nat × Ev) → Option (Nat × Ev)
  | [], best => best
  | t :: rest, best =>
    match buf t with
    | [] => minFront buf rest best
    | e :: _ =>
      match best with
      | none => minFront buf rest (some (t, e))
      | some (bt, be) => if e.ts < be.ts then minFront buf rest (some (t, e)) else minFront buf rest (some (bt, be))

def accept (s : Pipe) (e : Ev) : Pipe :=
  { s with order := if e.th ∈ s.order then s.order else s.order ++ [e.th],
           buf := fun t => if t = e.th then s.buf t ++ [e] else s.buf t,
           accepted := s.accepted ++ [e] }

def pstep (p : Params) (sc : Int → Int) (s : Pipe) : POp → Pipe
  | .decode th id tsc tsNow rs =>
    let r := timeSinceEpoch p sc s.clock tsc rs
    let ts := toU64 r.1
    let s1 := { s with clock := r.2.1 }
    match tsNow with
    | some now => if p.gateAfterConv ∧ now < ts then s1 else accept s1 ⟨id, th, tsc, ts⟩
    | none => accept s1 ⟨id, th, tsc, ts⟩
  | .idle rs => { s with clock := (resync p p.idleLag s.clock rs).1 }
  | .pop =>
    match minFront s.buf s.order none with
    | none => s
    | some (t, e) => { s with buf := fun x => if x = t then (s.buf x).drop 1 else s.buf x, written := s.written ++ [e] }

def prun (p : Params) (sc : Int → Int) (s : Pipe) (ops : List POp) : Pipe := ops.foldl (pstep p sc) s

/-! ### traces of conversions (for the monotonicity theorems) -/

inductive COp where
  | conv (tsc : Nat) (rs : List Read)
  | idle (rs : List Read)
deriving Repr, Inhabited

structure Obs where
  tsc : Nat
  value : Int
  epoch : Nat      -- ghost: successful resyncs before this call was entered
  base : Base      -- ghost: the slot the call converted against
deriving DecidableEq, Repr, Inhabited

def crun (p : Params) (sc : Int → Int) : Clock → List COp → List Obs
  | _, [] => []
  | c, .conv tsc rs :: ops =>
    let r := timeSinceEpoch p sc c tsc rs
    ⟨tsc, r.1, c.epoch, cur c⟩ :: crun p sc r.2.1 ops
  | c, .idle rs :: ops => crun p sc (resync p p.idleLag c rs).1 ops

end Tsc
