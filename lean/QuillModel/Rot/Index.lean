import QuillModel.Rot.FS
import QuillModel.Rot.Time
/-!
The inductive invariant of the rotation model for the **Index** naming scheme and its preservation by
`rotate`, `write`, `restart` (helper lemmas for C14 / C15).
-/
namespace Rot

/-- the entry of a file after one rotation under the Index scheme -/
def bump (e : FileInfo) : FileInfo := ⟨none, e.idx + 1⟩

/-- every rotated file is `base.k.ext` with `k ≥ 1`; from the back of the deque to the front the indices strictly
    decrease, the current file (index 0) comes last -/
structure Shape (cr : List FileInfo) : Prop where
  sfxNone : ∀ e ∈ cr, e.sfx = none
  sorted : cr.Pairwise (fun a b => a.idx > b.idx)
  last : ∃ rest, cr = rest ++ [curInfo]

structure IndexInv (w : World) : Prop where
  scheme : w.sink.cfg.scheme = .index
  shape : Shape w.sink.created
  /-- every file the sink tracks exists -/
  tracked : ∀ e ∈ w.sink.created, (w.fs.get e.name).isSome
  /-- every file of the sink's family that exists is tracked (nothing stale, nothing dated) -/
  noStale : ∀ sfx k, (w.fs.get (.file sfx k)).isSome → (⟨sfx, k⟩ : FileInfo) ∈ w.sink.created
  size : w.sink.fileSize = bytes (content w.fs curInfo)
  keys : w.fs.keys.Nodup

/-- two states that differ at most in `_next_rotation_time` -/
structure SameFiles (a b : World) : Prop where
  fs : a.fs = b.fs
  created : a.sink.created = b.sink.created
  fileSize : a.sink.fileSize = b.sink.fileSize
  cfg : a.sink.cfg = b.sink.cfg
  openTs : a.sink.openTs = b.sink.openTs

theorem SameFiles.refl (a : World) : SameFiles a a := ⟨rfl, rfl, rfl, rfl, rfl⟩

theorem IndexInv.of_same {a b : World} (h : SameFiles a b) (hb : IndexInv b) : IndexInv a := by
  obtain ⟨h1, h2, h3, h4, _⟩ := h
  exact ⟨by rw [h4]; exact hb.scheme, by rw [h2]; exact hb.shape, by rw [h1, h2]; exact hb.tracked,
    by rw [h1, h2]; exact hb.noStale, by rw [h1, h3]; exact hb.size, by rw [h1]; exact hb.keys⟩

/-- `prepare` leaves the files as they were, or as `_rotate_files` leaves them -/
theorem prepare_cases (P : Params) (z : Nat → Int) (w : World) (size ts : Nat) :
    SameFiles (prepare P z w size ts) w ∨ SameFiles (prepare P z w size ts) (rotate P z w ts) := by
  unfold prepare timeRotation sizeRotation
  dsimp only
  by_cases hf : w.sink.cfg.freq = Freq.disabled
  · simp only [hf, ne_eq, not_true_eq_false, ↓reduceIte]
    repeat' split
    all_goals first | exact Or.inl (SameFiles.refl _) | exact Or.inr (SameFiles.refl _)
  · by_cases ht : ts ≥ w.sink.nextRot
    · simp only [ne_eq, hf, not_false_eq_true, ↓reduceIte, ht, Bool.not_true, Bool.false_eq_true, false_and]
      exact Or.inr ⟨rfl, rfl, rfl, rfl, rfl⟩
    · simp only [ne_eq, hf, not_false_eq_true, ↓reduceIte, ht]
      repeat' split
      all_goals first | exact Or.inl (SameFiles.refl _) | exact Or.inr (SameFiles.refl _)

theorem bytes_append (a b : List Stmt) : bytes (a ++ b) = bytes a + bytes b := by
  simp [bytes]

theorem bytes_nil : bytes [] = 0 := rfl

theorem flatMap_congr' {α β : Type} (l : List α) (f g : α → List β) (h : ∀ a ∈ l, f a = g a) :
    l.flatMap f = l.flatMap g := by
  induction l with
  | nil => rfl
  | cons x xs ih =>
    simp only [List.flatMap_cons]
    rw [h x List.mem_cons_self, ih (fun a ha => h a (List.mem_cons_of_mem _ ha))]

/-! ### keys of the file system stay distinct -/

theorem FS.keys_del_sublist (fs : FS) (a : Name) : (fs.del a).keys.Sublist fs.keys := by
  unfold FS.del FS.keys
  exact List.Sublist.map _ List.filter_sublist

theorem FS.not_mem_keys_del (fs : FS) (a : Name) : a ∉ (fs.del a).keys := by
  intro h
  have := (FS.get_isSome_iff_mem_keys (fs.del a) a).mpr h
  rw [FS.get_del] at this
  simp at this

theorem FS.keys_del_nodup (fs : FS) (a : Name) (h : fs.keys.Nodup) : (fs.del a).keys.Nodup :=
  List.Nodup.sublist (FS.keys_del_sublist fs a) h

theorem FS.keys_put_nodup (fs : FS) (a : Name) (c : List Stmt) (h : fs.keys.Nodup) : (fs.put a c).keys.Nodup := by
  unfold FS.put
  show (a :: (fs.del a).keys).Nodup
  exact List.nodup_cons.mpr ⟨FS.not_mem_keys_del fs a, FS.keys_del_nodup fs a h⟩

theorem FS.keys_rename_nodup (fs : FS) (a b : Name) (h : fs.keys.Nodup) : (fs.rename a b).keys.Nodup := by
  unfold FS.rename
  split
  · exact h
  · exact FS.keys_put_nodup _ _ _ (FS.keys_del_nodup fs a h)

theorem applyMoves_keys_nodup : ∀ (ms : List (Name × Name)) (fs : FS), fs.keys.Nodup → (applyMoves fs ms).keys.Nodup
  | [], _, h => h
  | (a, b) :: ms, fs, h => applyMoves_keys_nodup ms _ (FS.keys_rename_nodup fs a b h)

theorem FS.keys_filter_nodup (fs : FS) (p : Name × List Stmt → Bool) (h : fs.keys.Nodup) : (FS.keys (fs.filter p)).Nodup :=
  List.Nodup.sublist (List.Sublist.map _ List.filter_sublist) h

/-! ### `appendCur` keeps the invariant -/

theorem content_cur (fs : FS) : content fs curInfo = (fs.get curName).getD [] := rfl

theorem appendCur_inv (w : World) (st : Stmt) (h : IndexInv w) : IndexInv (appendCur w st) := by
  unfold appendCur
  refine ⟨h.scheme, h.shape, ?_, ?_, ?_, FS.keys_put_nodup _ _ _ h.keys⟩
  · intro e he
    simp only [FS.get_put]
    split
    · rfl
    · exact h.tracked e he
  · intro sfx k hk
    simp only [FS.get_put] at hk
    split at hk
    · rename_i heq
      have : (⟨sfx, k⟩ : FileInfo) = curInfo := by
        simp only [curName, Name.file.injEq] at heq
        simp [curInfo, heq.1, heq.2]
      rw [this]
      obtain ⟨rest, hr⟩ := h.shape.last
      simp [hr]
    · exact h.noStale sfx k hk
  · simp only [content_cur, FS.get_put, ↓reduceIte, Option.getD_some, bytes_append, h.size]
    simp [bytes]

theorem appendCur_diskSeq (w : World) (st : Stmt) (h : IndexInv w) :
    diskSeq (appendCur w st) = diskSeq w ++ [st] := by
  obtain ⟨rest, hr⟩ := h.shape.last
  have hcur_not : ∀ e ∈ rest, e.name ≠ curName := by
    intro e he heq
    have hs := h.shape.sorted
    rw [hr, List.pairwise_append] at hs
    have := hs.2.2 e he curInfo (by simp)
    simp only [FileInfo.name, curName, Name.file.injEq] at heq
    simp only [curInfo] at this
    omega
  unfold diskSeq appendCur
  simp only [hr, List.flatMap_append, List.flatMap_cons, List.flatMap_nil, List.append_nil]
  have h1 : rest.flatMap (content (w.fs.put curName ((w.fs.get curName).getD [] ++ [st]))) = rest.flatMap (content w.fs) := by
    apply flatMap_congr'
    intro e he
    simp only [content, FS.get_put, hcur_not e he, ↓reduceIte]
  rw [h1]
  simp only [content, FileInfo.name, curInfo, FS.get_put, curName, ↓reduceIte, Option.getD_some, List.append_assoc]

end Rot

namespace Rot

/-! ### `_rotate_files` under the Index scheme -/

/-- what `_rotate_files` computes when it does rotate -/
theorem rotate_eq (P : Params) (z : Nat → Int) (w : World) (ts : Nat) (cont : List Stmt) (hns : stopped w.sink = false)
    (hcur : w.fs.get curName = some cont) (hb : bytes cont ≠ 0) :
    rotate P z w ts =
      let sfx := newSuffix z w.sink.cfg.scheme w.sink.openTs
      let fs1 := applyMoves w.fs (w.sink.created.filterMap (moveOf w.sink.cfg.scheme sfx))
      let cr1 := w.sink.created.map (entryAfter w.sink.cfg.scheme sfx)
      let n := excess P.deletesAllExcess cr1.length w.sink.cfg.maxBackup
      let fs2 := delAll fs1 (cr1.take n)
      let cr2 := cr1.drop n
      { fs := fs2.put curName [],
        sink := { w.sink with created := cr2 ++ [curInfo], openTs := ts, fileSize := 0 } } := by
  unfold rotate
  simp only [hns, Bool.false_eq_true, ↓reduceIte, hcur, hb]

/-- `_rotate_files` does nothing: backup limit reached without overwriting, or the current file is empty -/
theorem rotate_noop (P : Params) (z : Nat → Int) (w : World) (ts : Nat)
    (h : stopped w.sink = true ∨ ∃ cont, w.fs.get curName = some cont ∧ bytes cont = 0) : rotate P z w ts = w := by
  unfold rotate
  rcases h with h | ⟨cont, h1, h2⟩
  · simp only [h, ↓reduceIte]
  · simp only [h1, h2, ↓reduceIte]
    split <;> rfl

theorem delAll_get : ∀ (l : List FileInfo) (fs : FS) (x : Name),
    (delAll fs l).get x = if x ∈ l.map FileInfo.name then none else fs.get x
  | [], fs, x => by simp [delAll]
  | e :: l, fs, x => by
    have ih := delAll_get l (fs.del e.name) x
    simp only [delAll, List.foldl_cons] at ih ⊢
    rw [ih, FS.get_del]
    by_cases h1 : x = e.name
    · simp [h1]
    · by_cases h2 : x ∈ l.map FileInfo.name
      · simp [h2]
      · have : x ∉ (e :: l).map FileInfo.name := by
          simp only [List.map_cons, List.mem_cons, not_or]; exact ⟨h1, h2⟩
        simp only [h2, ↓reduceIte, h1, this]

theorem delAll_keys_nodup : ∀ (l : List FileInfo) (fs : FS), fs.keys.Nodup → (delAll fs l).keys.Nodup
  | [], _, h => h
  | e :: l, fs, h => by
    simp only [delAll, List.foldl_cons]
    exact delAll_keys_nodup l _ (FS.keys_del_nodup fs e.name h)

theorem not_mem_take_of_mem_drop {α : Type} (l : List α) (n : Nat) (hn : l.Nodup) (x : α) (h1 : x ∈ l.drop n) :
    x ∉ l.take n := by
  intro h2
  have := hn
  rw [← List.take_append_drop n l, List.nodup_append] at this
  exact this.2.2 x h2 x h1 rfl

theorem mem_take_or_drop {α : Type} (l : List α) (n : Nat) (x : α) (h : x ∈ l) : x ∈ l.take n ∨ x ∈ l.drop n := by
  rw [← List.take_append_drop n l] at h
  exact List.mem_append.mp h

/-- the files that survive the deletion step: all but the `excess` oldest -/
def keptOf (P : Params) (w : World) : List FileInfo :=
  w.sink.created.drop (excess P.deletesAllExcess w.sink.created.length w.sink.cfg.maxBackup)

def mvIndex (e : FileInfo) : Name × Name := (e.name, (bump e).name)

theorem moves_index (sfx : Option Int) (cr : List FileInfo) (hs : sfx = none) :
    cr.filterMap (moveOf .index sfx) = cr.map mvIndex := by
  subst hs
  induction cr with
  | nil => rfl
  | cons x xs ih =>
    simp only [List.filterMap_cons, List.map_cons, moveOf, true_or, ↓reduceIte, ih]
    rfl

theorem entries_index (sfx : Option Int) (cr : List FileInfo) (hs : sfx = none) :
    cr.map (entryAfter .index sfx) = cr.map bump := by
  subst hs
  apply List.map_congr_left
  intro e _
  simp [entryAfter, bump]

theorem Shape.name_eq {cr : List FileInfo} (h : Shape cr) {e : FileInfo} (he : e ∈ cr) : e.name = .file none e.idx := by
  simp [FileInfo.name, h.sfxNone e he]

theorem Shape.idx_inj {cr : List FileInfo} (h : Shape cr) {a b : FileInfo} (ha : a ∈ cr) (hb : b ∈ cr)
    (hi : a.idx = b.idx) : a = b := by
  have h1 := h.sfxNone a ha
  have h2 := h.sfxNone b hb
  cases a; cases b; simp_all

/-- the file system after the rename loop, read as a function (Index scheme) -/
theorem chain_index (fs : FS) (cr : List FileInfo) (hsh : Shape cr) (hex : ∀ e ∈ cr, (fs.get e.name).isSome) :
    (∀ e ∈ cr, (applyMoves fs (cr.map mvIndex)).get (bump e).name = fs.get e.name) ∧
    (∀ n, (∀ e ∈ cr, n ≠ (bump e).name) →
      (applyMoves fs (cr.map mvIndex)).get n = if n ∈ cr.map FileInfo.name then none else fs.get n) := by
  have hsrc : ((cr.map mvIndex).map (·.1)).Nodup := by
    rw [List.map_map]
    refine List.pairwise_map.mpr (hsh.sorted.imp ?_)
    intro a b hab heq
    simp only [Function.comp, mvIndex, FileInfo.name, Name.file.injEq] at heq
    omega
  have hdst : ((cr.map mvIndex).map (·.2)).Nodup := by
    rw [List.map_map]
    refine List.pairwise_map.mpr (hsh.sorted.imp ?_)
    intro a b hab heq
    simp only [Function.comp, mvIndex, FileInfo.name, bump, Name.file.injEq] at heq
    omega
  have hpw : (cr.map mvIndex).Pairwise (fun x y => x.2 ≠ y.1) := by
    refine List.pairwise_map.mpr (hsh.sorted.imp ?_)
    intro a b hab heq
    simp only [mvIndex, FileInfo.name, bump, Name.file.injEq] at heq
    omega
  have hex' : ∀ m ∈ cr.map mvIndex, (fs.get m.1).isSome := by
    intro m hm
    obtain ⟨e, he, rfl⟩ := List.mem_map.mp hm
    exact hex e he
  have key := applyMoves_get (cr.map mvIndex) fs hsrc hdst hpw hex'
  constructor
  · intro e he
    rw [key]
    cases hf : (cr.map mvIndex).find? (fun m => decide (m.2 = (bump e).name)) with
    | none =>
      rw [List.find?_eq_none] at hf
      have := hf (mvIndex e) (List.mem_map_of_mem he)
      simp [mvIndex] at this
    | some m =>
      have hm := List.mem_of_find?_eq_some hf
      have hp := List.find?_some hf
      obtain ⟨e', he', rfl⟩ := List.mem_map.mp hm
      simp only [mvIndex, bump, FileInfo.name, decide_eq_true_eq, Name.file.injEq, true_and] at hp
      have : e' = e := hsh.idx_inj he' he (by omega)
      subst this
      rfl
  · intro n hn
    rw [key]
    have hf : (cr.map mvIndex).find? (fun m => decide (m.2 = n)) = none := by
      rw [List.find?_eq_none]
      intro m hm
      obtain ⟨e, he, rfl⟩ := List.mem_map.mp hm
      intro heq
      exact hn e he (of_decide_eq_true heq).symm
    simp only [hf, List.map_map]
    rfl

end Rot

namespace Rot

/-- what a rotation that takes place does, relative to the state before it; `kept` = the tracked files that survive -/
structure RotSpec (w R : World) (ts : Nat) (kept : List FileInfo) : Prop where
  created : R.sink.created = kept.map bump ++ [curInfo]
  moved : ∀ e ∈ kept, R.fs.get (bump e).name = w.fs.get e.name
  cur : R.fs.get curName = some []
  only : ∀ sfx k, (R.fs.get (.file sfx k)).isSome →
    (⟨sfx, k⟩ : FileInfo) = curInfo ∨ ∃ e ∈ kept, (⟨sfx, k⟩ : FileInfo) = bump e
  frame : ∀ n, (∀ s k, n ≠ .file s k) → R.fs.get n = w.fs.get n
  fileSize : R.sink.fileSize = 0
  openTs : R.sink.openTs = ts
  cfg : R.sink.cfg = w.sink.cfg
  keys : R.fs.keys.Nodup

theorem bump_name_ne_cur (e : FileInfo) : (bump e).name ≠ curName := by
  simp [bump, FileInfo.name, curName]

theorem rotate_index (P : Params) (z : Nat → Int) (w : World) (ts : Nat) (cont : List Stmt) (h : IndexInv w)
    (hns : stopped w.sink = false) (hcur : w.fs.get curName = some cont) (hb : bytes cont ≠ 0) :
    RotSpec w (rotate P z w ts) ts (keptOf P w) := by
  rw [rotate_eq P z w ts cont hns hcur hb]
  simp only [h.scheme, newSuffix]
  rw [moves_index _ _ rfl, entries_index _ _ rfl]
  simp only [List.length_map]
  unfold keptOf
  generalize excess P.deletesAllExcess w.sink.created.length w.sink.cfg.maxBackup = n
  have hsh := h.shape
  obtain ⟨hA, hB⟩ := chain_index w.fs w.sink.created hsh h.tracked
  generalize hfs1 : applyMoves w.fs (w.sink.created.map mvIndex) = fs1 at hA hB
  have hk1 : fs1.keys.Nodup := by rw [← hfs1]; exact applyMoves_keys_nodup _ _ h.keys
  have hnd : w.sink.created.Nodup := hsh.sorted.imp (fun {a b} hab heq => by subst heq; omega)
  -- a family file of `fs1` is a bumped tracked file
  have honly1 : ∀ sfx k, (fs1.get (.file sfx k)).isSome → ∃ e ∈ w.sink.created, (⟨sfx, k⟩ : FileInfo) = bump e := by
    intro sfx k hk
    by_cases hx : ∃ e ∈ w.sink.created, Name.file sfx k = (bump e).name
    · obtain ⟨e, he, heq⟩ := hx
      refine ⟨e, he, ?_⟩
      simp only [bump, FileInfo.name, Name.file.injEq] at heq
      simp [bump, heq.1, heq.2]
    · have hn : ∀ e ∈ w.sink.created, Name.file sfx k ≠ (bump e).name := fun e he heq => hx ⟨e, he, heq⟩
      rw [hB _ hn] at hk
      split at hk
      · simp at hk
      · rename_i hnot
        have := h.noStale sfx k hk
        exact absurd (List.mem_map.mpr ⟨_, this, rfl⟩) hnot
  have hframe1 : ∀ n, (∀ s k, n ≠ .file s k) → fs1.get n = w.fs.get n := by
    intro n hn
    rw [hB n (fun e _ => by simpa [bump, FileInfo.name] using hn none (e.idx + 1))]
    have : n ∉ w.sink.created.map FileInfo.name := by
      intro hm
      obtain ⟨e, _, rfl⟩ := List.mem_map.mp hm
      exact hn _ _ rfl
    simp only [this, ↓reduceIte]
  -- the deleted names are the bumped names of the `n` oldest entries
  have hdelmem : ∀ x, x ∈ ((w.sink.created.map bump).take n).map FileInfo.name ↔
      ∃ e ∈ w.sink.created.take n, x = (bump e).name := by
    intro x
    rw [← List.map_take, List.map_map]
    constructor
    · intro hx; obtain ⟨e, he, rfl⟩ := List.mem_map.mp hx; exact ⟨e, he, rfl⟩
    · rintro ⟨e, he, rfl⟩; exact List.mem_map.mpr ⟨e, he, rfl⟩
  have hkeptfree : ∀ e ∈ w.sink.created.drop n, (bump e).name ∉ ((w.sink.created.map bump).take n).map FileInfo.name := by
    intro e he hx
    obtain ⟨e', he', heq⟩ := (hdelmem _).mp hx
    have hidx : e'.idx = e.idx := by
      simp only [bump, FileInfo.name, Name.file.injEq, true_and] at heq; omega
    have : e' = e := hsh.idx_inj (List.mem_of_mem_take he') (List.mem_of_mem_drop he) hidx
    subst this
    exact not_mem_take_of_mem_drop _ n hnd e' he he'
  refine ⟨by rw [List.map_drop], ?_, by simp [FS.get_put], ?_, ?_, rfl, rfl, rfl,
    FS.keys_put_nodup _ _ _ (delAll_keys_nodup _ _ hk1)⟩
  · intro e he
    simp only [FS.get_put, bump_name_ne_cur, ↓reduceIte, delAll_get, hkeptfree e he]
    exact hA e (List.mem_of_mem_drop he)
  · intro sfx k hk
    simp only [FS.get_put] at hk
    split at hk
    · rename_i heq
      left
      simp only [curName, Name.file.injEq] at heq
      simp [curInfo, heq.1, heq.2]
    · rw [delAll_get] at hk
      split at hk
      · simp at hk
      · rename_i hnd'
        obtain ⟨e, he, heq⟩ := honly1 sfx k hk
        rcases mem_take_or_drop _ n e he with ht | hd
        · exact absurd ((hdelmem _).mpr ⟨e, ht, by rw [← heq]; rfl⟩) hnd'
        · exact Or.inr ⟨e, hd, heq⟩
  · intro x hx
    have h1 : x ≠ curName := hx _ _
    have h2 : x ∉ ((w.sink.created.map bump).take n).map FileInfo.name := by
      intro hm
      obtain ⟨e, _, heq⟩ := (hdelmem _).mp hm
      exact hx _ _ heq
    simp only [FS.get_put, h1, ↓reduceIte, delAll_get, h2]
    exact hframe1 x hx

end Rot

namespace Rot

theorem kept_sublist (P : Params) (w : World) : (keptOf P w).Sublist w.sink.created :=
  List.drop_sublist _ _

theorem IndexInv.of_rotSpec {w R : World} {ts : Nat} {kept : List FileInfo} (h : IndexInv w)
    (hk : kept.Sublist w.sink.created) (s : RotSpec w R ts kept) : IndexInv R := by
  have hmem : ∀ e ∈ kept, e ∈ w.sink.created := fun e he => hk.subset he
  refine ⟨by rw [s.cfg]; exact h.scheme, ⟨?_, ?_, ⟨_, s.created⟩⟩, ?_, ?_, ?_, s.keys⟩
  · intro e he
    rw [s.created] at he
    rcases List.mem_append.mp he with he | he
    · obtain ⟨e', _, rfl⟩ := List.mem_map.mp he; rfl
    · simp only [List.mem_singleton] at he; subst he; rfl
  · rw [s.created, List.pairwise_append]
    refine ⟨List.pairwise_map.mpr ((h.shape.sorted.sublist hk).imp ?_), by simp, ?_⟩
    · intro a b hab; simp only [bump]; omega
    · intro a ha b hb
      obtain ⟨e', _, rfl⟩ := List.mem_map.mp ha
      simp only [List.mem_singleton] at hb; subst hb
      simp [bump, curInfo]
  · intro e he
    rw [s.created] at he
    rcases List.mem_append.mp he with he | he
    · obtain ⟨e', he', rfl⟩ := List.mem_map.mp he
      rw [s.moved e' he']
      exact h.tracked e' (hmem e' he')
    · simp only [List.mem_singleton] at he; subst he
      show (R.fs.get curName).isSome
      rw [s.cur]; rfl
  · intro sfx k hk'
    rw [s.created]
    rcases s.only sfx k hk' with h1 | ⟨e, he, h1⟩
    · rw [h1]; simp
    · rw [h1]; exact List.mem_append_left _ (List.mem_map_of_mem he)
  · rw [s.fileSize, content_cur, s.cur]; rfl

theorem rotSpec_diskSeq {w R : World} {ts : Nat} {kept : List FileInfo} (s : RotSpec w R ts kept) :
    diskSeq R = kept.flatMap (content w.fs) := by
  unfold diskSeq
  rw [s.created, List.flatMap_append, List.flatMap_map]
  have h1 : kept.flatMap (fun e => content R.fs (bump e)) = kept.flatMap (content w.fs) := by
    apply flatMap_congr'
    intro e he
    simp only [content, s.moved e he]
  have h2 : [curInfo].flatMap (content R.fs) = [] := by
    simp only [List.flatMap_cons, List.flatMap_nil, List.append_nil, content_cur, s.cur]; rfl
  show kept.flatMap (fun e => content R.fs (bump e)) ++ _ = _
  rw [h1, h2, List.append_nil]

/-- does `_rotate_files` rotate in this state? -/
def rotates (w : World) : Prop := stopped w.sink = false ∧ ∃ cont, w.fs.get curName = some cont ∧ bytes cont ≠ 0

theorem rotate_of_not_rotates (P : Params) (z : Nat → Int) (w : World) (ts : Nat) (h : IndexInv w) (hn : ¬ rotates w) :
    rotate P z w ts = w := by
  apply rotate_noop
  by_cases hs : stopped w.sink = true
  · exact Or.inl hs
  · right
    have hs' : stopped w.sink = false := by simpa using hs
    obtain ⟨rest, hr⟩ := h.shape.last
    have := h.tracked curInfo (by rw [hr]; simp)
    obtain ⟨cont, hc⟩ := Option.isSome_iff_exists.mp this
    refine ⟨cont, hc, ?_⟩
    by_cases hb : bytes cont = 0
    · exact hb
    · exact absurd ⟨hs', cont, hc, hb⟩ hn

theorem rotate_inv (P : Params) (z : Nat → Int) (w : World) (ts : Nat) (h : IndexInv w) : IndexInv (rotate P z w ts) := by
  by_cases hr : rotates w
  · obtain ⟨hns, cont, hc, hb⟩ := hr
    exact h.of_rotSpec (kept_sublist P w) (rotate_index P z w ts cont h hns hc hb)
  · rw [rotate_of_not_rotates P z w ts h hr]; exact h

theorem excess_pos {all : Bool} {len maxB : Nat} (h : excess all len maxB ≠ 0) : len > maxB := by
  unfold excess at h
  split at h
  · assumption
  · exact absurd rfl h

theorem overwrite_of_excess {P : Params} {w : World} (hns : stopped w.sink = false)
    (hn : excess P.deletesAllExcess w.sink.created.length w.sink.cfg.maxBackup ≠ 0) : w.sink.cfg.overwrite = true := by
  have hdel := excess_pos hn
  simp only [stopped, hdel, decide_true, Bool.true_and, Bool.not_eq_eq_eq_not, Bool.not_false] at hns
  exact hns

/-- the retained sequence after `_rotate_files`: what it was minus the whole `n` oldest files; `n ≠ 0` only when
    overwriting is on and the backup limit is exceeded -/
theorem rotate_diskSeq (P : Params) (z : Nat → Int) (w : World) (ts : Nat) (h : IndexInv w) :
    ∃ n, diskSeq w = (w.sink.created.take n).flatMap (content w.fs) ++ diskSeq (rotate P z w ts) ∧
      (n = 0 ∨ (w.sink.cfg.overwrite = true ∧ w.sink.created.length > w.sink.cfg.maxBackup)) := by
  by_cases hr : rotates w
  · obtain ⟨hns, cont, hc, hb⟩ := hr
    have s := rotate_index P z w ts cont h hns hc hb
    rw [rotSpec_diskSeq s]
    refine ⟨excess P.deletesAllExcess w.sink.created.length w.sink.cfg.maxBackup, ?_, ?_⟩
    · unfold keptOf diskSeq
      rw [← List.flatMap_append, List.take_append_drop]
    · by_cases hn : excess P.deletesAllExcess w.sink.created.length w.sink.cfg.maxBackup = 0
      · exact Or.inl hn
      · exact Or.inr ⟨overwrite_of_excess hns hn, excess_pos hn⟩
  · exact ⟨0, by rw [rotate_of_not_rotates P z w ts h hr]; simp, Or.inl rfl⟩

theorem diskSeq_of_same {a b : World} (h : SameFiles a b) : diskSeq a = diskSeq b := by
  unfold diskSeq; rw [h.fs, h.created]

theorem prepare_inv (P : Params) (z : Nat → Int) (w : World) (size ts : Nat) (h : IndexInv w) :
    IndexInv (prepare P z w size ts) := by
  rcases prepare_cases P z w size ts with hs | hs
  · exact IndexInv.of_same hs h
  · exact IndexInv.of_same hs (rotate_inv P z w ts h)

theorem write_inv (P : Params) (z : Nat → Int) (w : World) (st : Stmt) (ts : Nat) (h : IndexInv w) :
    IndexInv (write P z w st ts) :=
  appendCur_inv _ st (prepare_inv P z w st.size ts h)

/-- one `write_log`: the statement is appended at the end of the retained sequence; what disappears, if anything, are
    the whole `n` oldest files, and only when `overwrite_rolled_files` is on and the backup limit is exceeded -/
theorem write_diskSeq (P : Params) (z : Nat → Int) (w : World) (st : Stmt) (ts : Nat) (h : IndexInv w) :
    ∃ n, diskSeq w ++ [st] = (w.sink.created.take n).flatMap (content w.fs) ++ diskSeq (write P z w st ts) ∧
      (n = 0 ∨ (w.sink.cfg.overwrite = true ∧ w.sink.created.length > w.sink.cfg.maxBackup)) := by
  have h1 : diskSeq (write P z w st ts) = diskSeq (prepare P z w st.size ts) ++ [st] :=
    appendCur_diskSeq _ st (prepare_inv P z w st.size ts h)
  rcases prepare_cases P z w st.size ts with hs | hs
  · exact ⟨0, by rw [h1, diskSeq_of_same hs]; simp, Or.inl rfl⟩
  · obtain ⟨n, h2, h3⟩ := rotate_diskSeq P z w ts h
    exact ⟨n, by rw [h1, diskSeq_of_same hs, ← List.append_assoc, ← h2], h3⟩

end Rot

namespace Rot

/-! ### start-up: clean / recover (Index scheme) -/

theorem mem_insDesc (e x : FileInfo) : ∀ l : List FileInfo, x ∈ insDesc e l ↔ x = e ∨ x ∈ l
  | [] => by simp [insDesc]
  | y :: ys => by
    simp only [insDesc]
    split
    · simp
    · simp only [List.mem_cons, mem_insDesc e x ys]
      constructor
      · rintro (h | h | h) <;> simp [h]
      · rintro (h | h | h) <;> simp [h]

theorem mem_sortDesc (x : FileInfo) : ∀ l : List FileInfo, x ∈ sortDesc l ↔ x ∈ l
  | [] => by simp [sortDesc]
  | y :: ys => by simp only [sortDesc, mem_insDesc, mem_sortDesc x ys, List.mem_cons]

theorem insDesc_sorted (e : FileInfo) : ∀ l : List FileInfo, l.Pairwise (fun a b => a.idx > b.idx) →
    (∀ x ∈ l, x.idx ≠ e.idx) → (insDesc e l).Pairwise (fun a b => a.idx > b.idx)
  | [], _, _ => by simp [insDesc]
  | y :: ys, hp, hne => by
    have hp' := List.pairwise_cons.mp hp
    simp only [insDesc]
    split
    · rename_i hle
      refine List.pairwise_cons.mpr ⟨?_, hp⟩
      intro a ha
      have h1 := hne y List.mem_cons_self
      rcases List.mem_cons.mp ha with rfl | ha
      · omega
      · have := hp'.1 a ha; omega
    · rename_i hle
      refine List.pairwise_cons.mpr ⟨?_, insDesc_sorted e ys hp'.2 (fun x hx => hne x (List.mem_cons_of_mem _ hx))⟩
      intro a ha
      rcases (mem_insDesc e a ys).mp ha with rfl | ha
      · omega
      · exact hp'.1 a ha

theorem sortDesc_sorted : ∀ l : List FileInfo, l.Pairwise (fun a b => a.idx ≠ b.idx) →
    (sortDesc l).Pairwise (fun a b => a.idx > b.idx)
  | [], _ => by simp [sortDesc]
  | y :: ys, hp => by
    have hp' := List.pairwise_cons.mp hp
    simp only [sortDesc]
    refine insDesc_sorted y _ (sortDesc_sorted ys hp'.2) ?_
    intro x hx
    exact fun e => hp'.1 x ((mem_sortDesc x ys).mp hx) e.symm

/-- a directory of the Index scheme: distinct names, no dated file of the sink's family -/
structure DirOK (fs : FS) : Prop where
  keys : fs.keys.Nodup
  undated : ∀ sfx k, (fs.get (.file sfx k)).isSome → sfx = none

theorem IndexInv.dirOK {w : World} (h : IndexInv w) : DirOK w.fs :=
  ⟨h.keys, fun sfx k hk => h.shape.sfxNone _ (h.noStale sfx k hk)⟩

theorem FS.mem_of_get (fs : FS) (n : Name) (h : (fs.get n).isSome) : ∃ c, (n, c) ∈ fs := by
  have := (FS.get_isSome_iff_mem_keys fs n).mp h
  obtain ⟨p, hp, rfl⟩ := List.mem_map.mp this
  exact ⟨p.2, hp⟩

theorem FS.get_of_mem (fs : FS) (p : Name × List Stmt) (h : p ∈ fs) : (fs.get p.1).isSome :=
  (FS.get_isSome_iff_mem_keys fs p.1).mpr (List.mem_map_of_mem h)

theorem mem_scanIndex (fs : FS) (e : FileInfo) :
    e ∈ fs.filterMap scanIndex ↔ e.sfx = none ∧ 1 ≤ e.idx ∧ (fs.get e.name).isSome := by
  rw [List.mem_filterMap]
  constructor
  · rintro ⟨p, hp, hs⟩
    have hg := FS.get_of_mem fs p hp
    unfold scanIndex at hs
    split at hs
    · rename_i k hk
      split at hs
      · rename_i hk1
        simp only [Option.some.injEq] at hs
        subst hs
        refine ⟨rfl, hk1, ?_⟩
        simpa [FileInfo.name, hk] using hg
      · simp at hs
    · simp at hs
  · rintro ⟨h1, h2, h3⟩
    obtain ⟨c, hc⟩ := FS.mem_of_get fs _ h3
    refine ⟨_, hc, ?_⟩
    cases e with
    | mk sfx idx =>
      simp only at h1 h2
      subst h1
      simp [scanIndex, FileInfo.name, h2]

theorem scanIndex_distinct (fs : FS) (hk : fs.keys.Nodup) :
    (fs.filterMap scanIndex).Pairwise (fun a b => a.idx ≠ b.idx) := by
  have hp : fs.Pairwise (fun p q => p.1 ≠ q.1) := List.pairwise_map.mp hk
  refine List.Pairwise.filterMap scanIndex ?_ hp
  intro p q hpq b hb b' hb' heq
  unfold scanIndex at hb hb'
  split at hb
  · rename_i k hk1
    split at hb
    · split at hb'
      · rename_i k' hk2
        split at hb'
        · simp only [Option.some.injEq] at hb hb'
          subst hb hb'
          simp only at heq
          subst heq
          exact hpq (hk1.trans hk2.symm)
        · simp at hb'
      · simp at hb'
    · simp at hb
  · simp at hb

/-- a restart the Index theorems cover: append mode, or write mode with clean-up -/
def RestartOK (c : Cfg) : Prop := c.scheme = .index ∧ (c.append = true ∨ c.removeOld = true)

theorem restart_inv (z : Nat → Int) (fs : FS) (c : Cfg) (start : Nat) (hd : DirOK fs) (hc : RestartOK c) :
    IndexInv (restart z fs c start) := by
  obtain ⟨hsch, hmode⟩ := hc
  by_cases ha : c.append = true
  · -- append: recover
    have hL := scanIndex_distinct fs hd.keys
    have hsorted := sortDesc_sorted _ hL
    have hmemL : ∀ e, e ∈ sortDesc (fs.filterMap scanIndex) ↔ e.sfx = none ∧ 1 ≤ e.idx ∧ (fs.get e.name).isSome :=
      fun e => (mem_sortDesc e _).trans (mem_scanIndex fs e)
    have hcr : (restart z fs c start).sink.created = sortDesc (fs.filterMap scanIndex) ++ [curInfo] := by
      simp [restart, ha, hsch, recover]
    have hfs : (restart z fs c start).fs = (match fs.get curName with
                                             | some _ => fs
                                             | none => fs.put curName []) := by
      simp only [restart, ha, Bool.not_true, Bool.and_false, Bool.false_eq_true, ↓reduceIte]
      rfl
    have hget : ∀ n, n ≠ curName → (restart z fs c start).fs.get n = fs.get n := by
      intro n hn
      rw [hfs]
      split
      · rfl
      · simp [FS.get_put, hn]
    have hcurS : ((restart z fs c start).fs.get curName).isSome := by
      rw [hfs]
      split
      · rename_i c' hc'; rw [hc']; rfl
      · simp [FS.get_put]
    refine ⟨hsch, ⟨?_, ?_, ⟨_, hcr⟩⟩, ?_, ?_, rfl, ?_⟩
    · intro e he
      rw [hcr] at he
      rcases List.mem_append.mp he with he | he
      · exact ((hmemL e).mp he).1
      · simp only [List.mem_singleton] at he; subst he; rfl
    · rw [hcr, List.pairwise_append]
      refine ⟨hsorted, by simp, ?_⟩
      intro a ha' b hb
      simp only [List.mem_singleton] at hb; subst hb
      have := ((hmemL a).mp ha').2.1
      simp only [curInfo]; omega
    · intro e he
      rw [hcr] at he
      rcases List.mem_append.mp he with he | he
      · obtain ⟨h1, h2, h3⟩ := (hmemL e).mp he
        rw [hget]
        · exact h3
        · simp only [FileInfo.name, curName, ne_eq, Name.file.injEq, not_and]; omega
      · simp only [List.mem_singleton] at he; subst he; exact hcurS
    · intro sfx k hk
      rw [hcr]
      by_cases hcur : Name.file sfx k = curName
      · simp only [curName, Name.file.injEq] at hcur
        simp [curInfo, hcur.1, hcur.2]
      · rw [hget _ hcur] at hk
        have hs := hd.undated sfx k hk
        subst hs
        refine List.mem_append_left _ ((hmemL _).mpr ⟨rfl, ?_, hk⟩)
        simp only [curName, Name.file.injEq, true_and] at hcur
        simp only; omega
    · rw [hfs]
      split
      · exact hd.keys
      · exact FS.keys_put_nodup _ _ _ hd.keys
  · -- write mode with clean-up
    have ha' : c.append = false := by simpa using ha
    have hr : c.removeOld = true := by rcases hmode with h | h; exact absurd h ha; exact h
    have hfs : (restart z fs c start).fs = FS.put (fs.filter (fun p => !matchesFilter p.1)) curName [] := by
      simp [restart, ha', hr, hsch, clean]
    have hcr : (restart z fs c start).sink.created = [curInfo] := by
      simp [restart, ha', hr]
    have hfam : ∀ sfx k, (FS.get (fs.filter (fun p => !matchesFilter p.1)) (.file sfx k)) = none := by
      intro sfx k
      rw [FS.get_filter fs (fun n => !matchesFilter n)]
      simp [matchesFilter]
    refine ⟨hsch, ⟨?_, ?_, ⟨[], by rw [hcr]; rfl⟩⟩, ?_, ?_, rfl, ?_⟩
    · intro e he; rw [hcr] at he; simp only [List.mem_singleton] at he; subst he; rfl
    · rw [hcr]; simp
    · intro e he; rw [hcr] at he; simp only [List.mem_singleton] at he; subst he
      rw [hfs]; simp [FS.get_put, FileInfo.name, curInfo, curName]
    · intro sfx k hk
      rw [hcr]
      rw [hfs, FS.get_put] at hk
      split at hk
      · rename_i heq
        simp only [curName, Name.file.injEq] at heq
        simp [curInfo, heq.1, heq.2]
      · rw [hfam] at hk; simp at hk
    · rw [hfs]
      exact FS.keys_put_nodup _ _ _ (FS.keys_filter_nodup fs _ hd.keys)

/-- an append-mode start on a directory left by the sink recovers exactly the sequence it left -/
theorem restart_append_created (z : Nat → Int) (w : World) (c : Cfg) (start : Nat) (h : IndexInv w)
    (hsch : c.scheme = .index) (ha : c.append = true) :
    (restart z w.fs c start).sink.created = w.sink.created ∧ (restart z w.fs c start).fs = w.fs := by
  obtain ⟨rest, hr⟩ := h.shape.last
  have hcurS := h.tracked curInfo (by rw [hr]; simp)
  obtain ⟨cc, hcc⟩ := Option.isSome_iff_exists.mp hcurS
  have hcc' : w.fs.get curName = some cc := hcc
  have hfs : (restart z w.fs c start).fs = w.fs := by simp [restart, ha, hcc']
  refine ⟨?_, hfs⟩
  have hcr : (restart z w.fs c start).sink.created = sortDesc (w.fs.filterMap scanIndex) ++ [curInfo] := by
    simp [restart, ha, hsch, recover]
  rw [hcr, hr]
  congr 1
  have hs1 := sortDesc_sorted _ (scanIndex_distinct w.fs h.keys)
  have hs2 : rest.Pairwise (fun a b => a.idx > b.idx) := by
    have := h.shape.sorted; rw [hr, List.pairwise_append] at this; exact this.1
  have hgt0 : ∀ e ∈ rest, e.idx > 0 := by
    have := h.shape.sorted; rw [hr, List.pairwise_append] at this
    intro e he; exact this.2.2 e he curInfo (by simp)
  have nd : ∀ {l : List FileInfo}, l.Pairwise (fun a b => a.idx > b.idx) → l.Nodup := by
    intro l hl
    exact hl.imp (fun {a b} hab heq => by subst heq; omega)
  apply List.Perm.eq_of_pairwise (le := fun a b => a.idx > b.idx) _ hs1 hs2
  · rw [List.perm_ext_iff_of_nodup (nd hs1) (nd hs2)]
    intro e
    rw [mem_sortDesc, mem_scanIndex]
    constructor
    · rintro ⟨h1, h2, h3⟩
      have : (⟨e.sfx, e.idx⟩ : FileInfo) ∈ w.sink.created := h.noStale e.sfx e.idx h3
      rw [hr] at this
      rcases List.mem_append.mp this with hm | hm
      · exact hm
      · simp only [List.mem_singleton, curInfo, FileInfo.mk.injEq] at hm; omega
    · intro he
      have hm : e ∈ w.sink.created := by rw [hr]; exact List.mem_append_left _ he
      exact ⟨h.shape.sfxNone e hm, hgt0 e he, h.tracked e hm⟩
  · intro a b _ _ h1 h2; omega

end Rot
