import QuillModel.Rot.Model
/-!
`RotatingSink<JsonFileSink>` (`RotatingJsonFileSink`): `RotatingSink::write_log` tests and counts
`log_statement.size()` while `JsonSink::write_log` writes the JSON line — two sizes per statement. `writeC` is `write`
with the counted size given separately from the size on disk (`st.size`); for `counted = st.size` it is `write`
(`writeC_self`, by `rfl`), so everything proved about `write` is about the FileSink instance. At a restart and in the
"is the file empty" test of `_rotate_files` the sink reads the real size (`bytes`), as the code does (`_get_file_size`).
-/
namespace Rot

def appendCurC (w : World) (st : Stmt) (counted : Nat) : World :=
  { fs := w.fs.put curName ((w.fs.get curName).getD [] ++ [st]),
    sink := { w.sink with fileSize := w.sink.fileSize + counted } }

/-- `write_log` with `counted` = `log_statement.size()` and `st.size` = bytes written by the base sink -/
def writeC (P : Params) (z : Nat → Int) (w : World) (st : Stmt) (counted ts : Nat) : World :=
  appendCurC (prepare P z w counted ts) st counted

theorem writeC_self (P : Params) (z : Nat → Int) (w : World) (st : Stmt) (ts : Nat) :
    writeC P z w st st.size ts = write P z w st ts := rfl

end Rot
